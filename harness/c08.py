"""C08 — an interrupted update never corrupts or loses existing declarations.

Implementation: `Eups.declare` / `Eups.undeclare` (declare, declare with tag, tag assignment and move, untag,
undeclare) run in a forked child under the audit-hook tracer of lib_fstrace; (1) the canonicalised effect trace is
compared with the model's `effects`; (2) for every crash point k the command is run again from the same state
and the child `_exit`s immediately before effect k; the harness then reads the database directory directly and a
fresh reader child lists the database through the files; both are compared with `crashAt k` of the model.
Model: lean/EupsModel/Model/FsEff.lean through the driver handler "c08".
Oracle (ii), model-free: after the kill the read-only listing succeeds; every declaration and tag the command
did not target is there exactly as before and nothing else appeared; every record file the command may touch
reads as before the command or as after the completed command — never empty, truncated or anything else."""
import io
import json
import os
import pickle
import re
import shutil
import time

from . import common, lib_records, lib_fstrace
from .common import parallel_map

RULE = ("cases = (database state reached by a random history of 0-9 completed commands, sometimes with one killed "
        "command in it (stale temporary file); one mutating command: declare / declare -t / tag (re)assignment / "
        "untag with or without version / undeclare with or without version / forced declare with a table stream (interned table file, 2 contents), over 2 products x 2 versions x 2 unrelated flavors x 2 tags; "
        "every crash point k of that command, INCLUDING every effect of every save of the product cache (utils.AtomicFile: "
        "temporary file, buffered write, fsync, close, rename, per flavor); after each kill a fresh reader that finds the "
        "leftover cache, then one that rebuilds it); plus a family of SIGNAL kills (SIGTERM, SIGINT before every fourth effect of a "
        "declare with a table stream, locking on, later reader with locking on).  Non-trivial: the command has at least one effect; distinct = "
        "distinct (state, command) digests; evaluations counts crash points")
TRUSTED = ["a kill is injected between two Python-level effects (audit events open/rename/remove/mkdir/rmdir and the "
           "wrapped write/close of the record writers); every print of a writer is flushed to disk as one chunk",
           "kernel-level torn writes, power loss and fsync ordering are not exhibited",
           "POSIX rename/unlink/mkdir/rmdir are atomic; a directory listing sees a consistent snapshot",
           "the cache files are written through Python's buffered file object, untouched by the tracer: the injected kill "
           "(os._exit) loses the data still in that buffer, as a killed eups process would; write/fsync/close of that object are "
           "crash points; a pickle larger than the buffer (8 KiB) would reach the temporary file in part before the close - "
           "the model keeps the temporary file empty until the close, which is not observable (temporary cache files are not compared)",
           "the copy of an interned table file (shutil.copy2 inside utils.copyfile) is one effect: no kill is injected between "
           "its open and the end of the data (the model has the empty intermediate state; the witness for the pinned "
           "copyfile is the state after its unlink)"]
ASSUMPTIONS = ["signal kills: the command runs inside a copy of cmd.py's lock bracket (lock.takeLocks exclusive / finally giveLocks), "
               "locking on; the signal is sent by the process to itself immediately before an effect; implementation-side oracle "
               "only (lock files left, a later reader with its shared lock) - the Lean model has no signals or locks (C09 has the locks)",
               "one writable stack, no user tags, the two flavors are unrelated (neither is a fallback of the other)",
               "the user's cache directory is removed before every traced command, whose Eups object then builds it anew "
               "(20 ms before the command starts); which flavors' cache files that object holds is read from it and given "
               "to the model as part of the initial state; after a kill the first reader finds the cache as it was left, "
               "the second one removes it and rebuilds its listing from the record files",
               "a temporary file left beside an interned table file is not compared (nothing lists that directory); the "
               "creation of the directories that hold an interned table file is not modelled"]

MIRRORS = [("python/eups/db/VersionFile.py", "*"), ("python/eups/db/ChainFile.py", "*"), ("python/eups/db/Database.py", "*"),
           ("python/eups/tags.py", "*"), ("python/eups/Eups.py", "Eups.declare"), ("python/eups/Eups.py", "Eups.undeclare"),
           ("python/eups/Eups.py", "Eups.assignTag"), ("python/eups/Eups.py", "Eups.unassignTag"),
           ("python/eups/utils.py", "copyfile"), ("python/eups/utils.py", "AtomicFile"),
           ("python/eups/stack/ProductStack.py", "ProductStack.persist"), ("python/eups/stack/ProductStack.py", "ProductStack.save")]

PRODUCTS = ["pa", "pb"]
VERSIONS = ["1", "2"]
FLAVORS = ["Linux", "DarwinX86"]
TAGS = ["current", "beta"]
CORPUS = os.path.join(common.VERIF, "corpus", "C08")
TMP_RE = re.compile(r"^(.*\.(?:version|chain|table))\.tmp(\d+)$")
# table files handed over as a stream (`declare -M -`): Eups.declare copies them into ups_db/<flavor>/<p>/<v>/ups/
TABLES = ["setupOptional(zlib)\n", "setupOptional(zlib)\nenvSet(C08_X, 1)\n"]
TABLES_ON_DISK = ["".join(l + " " for l in t.splitlines(True)) for t in TABLES]     # print(line, end=' ') in Eups.declare


# ---- commands -------------------------------------------------------------------------------------------

def all_commands():
    out = []
    for p in range(2):
        for v in range(2):
            for f in range(2):
                for tag in (None, 0, 1):
                    out.append({"op": "declare", "p": p, "v": v, "f": f, "tag": tag, "force": False})
                out.append({"op": "declare", "p": p, "v": v, "f": f, "tag": None, "force": True})
                out.append({"op": "undeclare", "p": p, "v": v, "f": f})
                for tag in (None, 1):
                    for tab in range(2):
                        out.append({"op": "declaretab", "p": p, "v": v, "f": f, "tag": tag, "tab": tab})
        for f in range(2):
            out.append({"op": "undeclare", "p": p, "v": None, "f": f})      # version omitted
        for t in range(2):
            for f in range(2):
                for v in (None, 0, 1):
                    out.append({"op": "untag", "t": t, "p": p, "f": f, "v": v})
    return out


def gen_history(rng):
    n = rng.choice([0, 1, 2, 3, 4, 5, 6, 7, 8, 9])
    cmds = all_commands()
    decl = [c for c in cmds if c["op"] == "declare"] * 3 + [c for c in cmds if c["op"] == "declaretab"]
    hist = []
    for i in range(n):
        c = dict(rng.choice(decl if rng.random() < 0.7 else cmds))
        if rng.random() < 0.08:
            c["crash_at"] = rng.randint(1, 12)
        hist.append(c)
    return hist


def _exec(e, stack, cmd):
    p, f = PRODUCTS[cmd["p"]], FLAVORS[cmd["f"]]
    if cmd["op"] == "declare":
        v = VERSIONS[cmd["v"]]
        d = os.path.join(stack, f, p, v)
        e.declare(p, v, d, tag=(TAGS[cmd["tag"]] if cmd["tag"] is not None else None))
    elif cmd["op"] == "declaretab":
        v = VERSIONS[cmd["v"]]
        e.declare(p, v, os.path.join(stack, f, p, v), tablefile=io.StringIO(TABLES[cmd["tab"]]),
                  tag=(TAGS[cmd["tag"]] if cmd["tag"] is not None else None))
    elif cmd["op"] == "untag":
        e.undeclare(p, VERSIONS[cmd["v"]] if cmd["v"] is not None else None, tag=TAGS[cmd["t"]])
    elif cmd["op"] == "undeclare":
        e.undeclare(p, VERSIONS[cmd["v"]] if cmd["v"] is not None else None)
    else:
        raise ValueError(cmd)


def _child_cmd(stack, userdata, cmd, crash_at, trace):
    lib_records.silence()
    os.chdir(os.path.dirname(stack))
    shutil.rmtree(os.path.join(userdata, "_caches_"), ignore_errors=True)
    lib_records.patch_stamps()
    tr = lib_fstrace.Tracer(os.path.join(stack, "ups_db"), crash_at, also=[os.path.join(userdata, "_caches_")])
    e = common.new_eups(flavor=FLAVORS[cmd["f"]], force=bool(cmd.get("force")) or cmd["op"] == "declaretab")
    time.sleep(0.02)      # the cache files this Eups has just written are older than anything the command writes
    try:
        cache_flavors = list(e.versions[stack].getFlavors())       # the cache files this Eups object holds and will save
    except Exception:  # noqa
        cache_flavors = None
    tr.install()
    tr.wrap_copy2(common.eups_mod("utils"))
    tr.wrap_atomicfile(common.eups_mod("utils"))
    err = None
    try:
        _exec(e, stack, cmd)
    except Exception as ex:  # noqa
        err = lib_records.exc_name(ex)
    tr.active = False
    return {"events": tr.events, "err": err, "pid": os.getpid(), "cache_flavors": cache_flavors}


def _child_read(stack, userdata):
    """A later read-only command: `eups list` for each flavor, in a fresh process whose cache is rebuilt from the
    record files (the user's cache directory is removed first)."""
    lib_records.silence()
    os.chdir(os.path.dirname(stack))
    out = []
    for f in FLAVORS:
        try:
            shutil.rmtree(os.path.join(userdata, "_caches_"), ignore_errors=True)
            common.eups_mod("db.Database")._databases.clear()
            e = common.new_eups(flavor=f)
            prods = e.findProducts()
            out.append(sorted([p.name, p.version, sorted(set(str(t) for t in p.tags))] for p in prods if p.flavor == f))
        except Exception as ex:  # noqa
            out.append("EXC:" + lib_records.exc_name(ex))
    return out


def _child_read_cached(stack, userdata):
    """A later read-only command of the same user, in a fresh process, *with the product cache as the killed command
    left it*: `eups list` for each flavor and findProduct of every (product, version) through the cache."""
    lib_records.silence()
    os.chdir(os.path.dirname(stack))
    out = []
    for f in FLAVORS:
        try:
            common.eups_mod("db.Database")._databases.clear()
            e = common.new_eups(flavor=f)
            prods = e.findProducts()
            lst = sorted([p.name, p.version, sorted(set(str(t) for t in p.tags))] for p in prods if p.flavor == f)
            one = sorted([p, v] for p in PRODUCTS for v in VERSIONS
                         if (lambda q: q is not None and q.flavor == f)(e.findProduct(p, v)))
            if one != sorted([x[0], x[1]] for x in lst):
                out.append("MISMATCH: list %r, findProduct %r" % (lst, one))
            else:
                out.append(lst)
        except Exception as ex:  # noqa
            out.append("EXC:" + lib_records.exc_name(ex))
    return out


CACHE_FLAVORS = FLAVORS + ["generic"]


def cache_snapshot(stack, userdata):
    """State of the product cache files of the stack: {flavor: absent | empty | complete | garbled}."""
    d = os.path.join(userdata, "_caches_") + stack
    out = {}
    for f in CACHE_FLAVORS:
        fn = os.path.join(d, f + ".pickleDB1_3_0")
        if not os.path.exists(fn):
            out[f] = "absent"
        elif os.path.getsize(fn) == 0:
            out[f] = "empty"
        else:
            try:
                with open(fn, "rb") as fh:
                    pickle.load(fh)
                out[f] = "complete"
            except Exception:  # noqa
                out[f] = "garbled"
    return out


# ---- killed by a signal, with locking on --------------------------------------------------------------------

def _child_signal(stack, userdata, cmd, k, signum):
    """The command inside the bracket of cmd.py (lock.takeLocks(..., LOCK_EX) / try: run / finally: giveLocks), locking
    ON; immediately before its effect number k the process sends itself `signum` (SIGTERM / SIGINT) - whatever handler
    is installed at that moment runs (takeLocks' own, or the one `declare` with a table stream puts in its place)."""
    import signal as _signal
    lib_records.silence()
    os.chdir(os.path.dirname(stack))
    shutil.rmtree(os.path.join(userdata, "_caches_"), ignore_errors=True)
    lib_records.patch_stamps()
    lock = common.eups_mod("lock")
    tr = lib_fstrace.Tracer(os.path.join(stack, "ups_db"), None, also=[os.path.join(userdata, "_caches_")])
    e = common.new_eups(flavor=FLAVORS[cmd["f"]], force=bool(cmd.get("force")) or cmd["op"] == "declaretab")
    state = {"n": 0, "sent": False}

    def effect(kind, *paths):
        if not tr.active:
            return
        if state["n"] == k and not state["sent"]:
            state["sent"] = True
            os.kill(os.getpid(), signum)
        state["n"] += 1
    tr.effect = effect
    locks = lock.takeLocks("declare", [stack], lock.LOCK_EX)
    tr.install()
    tr.wrap_copy2(common.eups_mod("utils"))
    tr.wrap_atomicfile(common.eups_mod("utils"))
    err = None
    try:
        try:
            _exec(e, stack, cmd)
        finally:
            lock.giveLocks(locks)
    except BaseException as ex:  # noqa
        err = type(ex).__name__
    tr.active = False
    return {"err": err, "n": state["n"], "sent": state["sent"]}


def _child_read_locked(stack, userdata):
    """A later read-only command with locking on: the shared lock of cmd.py's bracket, then `eups list`."""
    lib_records.silence()
    os.chdir(os.path.dirname(stack))
    lock = common.eups_mod("lock")
    try:
        locks = lock.takeLocks("list", [stack], lock.LOCK_SH, ntry=1)
    except BaseException as ex:  # noqa
        return "EXC:takeLocks:" + type(ex).__name__
    try:
        e = common.new_eups(flavor=FLAVORS[0])
        return sorted([p.name, p.version] for p in e.findProducts())
    except Exception as ex:  # noqa
        return "EXC:" + lib_records.exc_name(ex)
    finally:
        lock.giveLocks(locks)


def _lock_files(stack):
    out = []
    for d, dirs, files in os.walk(stack):
        if os.path.basename(d).startswith(".lock") or "lock" in os.path.basename(d).lower():
            out += [os.path.relpath(os.path.join(d, f), stack) for f in files if f.startswith(("exclusive", "shared"))]
    return sorted(out)


def run_signal_case(case):
    """case = {"history", "cmd", "points"}: the command is sent SIGTERM and SIGINT at sampled effects; after each the
    lock files left in the stack and a later read-only command WITH locking are observed."""
    import signal as _signal
    R = common.scratch("c08s")
    try:
        stacks, uds = common.mkstacks(R)
        S, ud = stacks[0], uds["A"]
        for p in PRODUCTS:
            for v in VERSIONS:
                for f in FLAVORS:
                    common.mkprod(S, p, v, flavor=f)
        db = os.path.join(S, "ups_db")
        for h in case["history"]:
            common.in_child(_child_cmd, S, ud, h, None, False)
        saved = os.path.join(R, "saved_db")
        shutil.copytree(db, saved)
        full = common.in_child(_child_signal, S, ud, case["cmd"], -1, _signal.SIGTERM)
        if full[0] != "ok":
            return {"bad": "untouched run: %s" % (full[:3],)}
        n = full[1]["n"]
        out = {"n": n, "runs": [], "locks_after_plain_run": _lock_files(S)}
        ks = [k for k in range(n) if k % case.get("every", 3) == case.get("phase", 0)]
        for k in ks:
            for sname in ("SIGTERM", "SIGINT"):
                _restore(db, saved)
                for lf in _lock_files(S):                   # a lock left by the previous kill is the previous run's finding
                    os.remove(os.path.join(S, lf))
                    try:
                        os.rmdir(os.path.dirname(os.path.join(S, lf)))
                    except OSError:
                        pass
                r = common.in_child(_child_signal, S, ud, case["cmd"], k, getattr(_signal, sname))
                outcome = "completed" if r[0] == "ok" else "died" if r[0] == "died" else str(r[0])
                out["runs"].append({"k": k, "signal": sname, "outcome": outcome, "err": r[1].get("err") if r[0] == "ok" else None,
                                    "locks": _lock_files(S),
                                    "reader": (lambda q: q[1] if q[0] == "ok" else "EXC:child")(common.in_child(_child_read_locked, S, ud))})
        return out
    finally:
        common.rmtree(R)


def check_signal_case(ctx, case, obs):
    inp = {"history": case["history"], "cmd": case["cmd"], "signal_family": True}
    if "bad" in obs:
        raise common.InfraError("signal family: %s" % obs["bad"])
    if obs["locks_after_plain_run"]:
        raise common.InfraError("signal family: the untouched run left lock files: %s" % obs["locks_after_plain_run"])
    for r in obs["runs"]:
        ctx.evaluations += 1
        ctx.validated += 1
        ctx.hist("signal-kill=%s/%s" % (r["signal"], r["outcome"]))
        i2 = {**inp, "k": r["k"], "signal": r["signal"]}
        if r["locks"]:
            ctx.fail("no_lock_left_behind", i2, r, None,
                     note="after %s at effect %d (%s) lock files stay in the stack: %s" % (r["signal"], r["k"], r["outcome"], r["locks"]))
        if not isinstance(r["reader"], list):
            ctx.fail("locked_reader_succeeds", i2, r, None,
                     note="a later read-only command with locking on: %r" % (r["reader"],))
    ctx.case(key=inp, nontrivial=bool(obs["runs"]), validated=True, sample=None)


def signal_cases():
    """The signal-kill families: corpus entries marked "signal_family"."""
    out = []
    if os.path.isdir(CORPUS):
        for f in sorted(os.listdir(CORPUS)):
            if f.endswith(".json"):
                with open(os.path.join(CORPUS, f)) as fh:
                    c = json.load(fh)
                if c.get("signal_family"):
                    out.append({"history": c["history"], "cmd": c["cmd"], "every": c.get("every", 3), "_corpus": f})
    return out


# ---- reading the database directory directly ----------------------------------------------------------------

def _ids(name, kind):
    try:
        return {"p": PRODUCTS, "v": VERSIONS, "f": FLAVORS, "t": TAGS}[kind].index(name)
    except ValueError:
        return None


def snapshot(stack, stale_ok=True, own_pid=None):
    """The database directory as the model sees it: {"dirs": [...], "files": [[path, content], ...]} in
    directory-listing order; plus the raw semantic content per record for the oracle."""
    VF = common.eups_mod("db.VersionFile").VersionFile
    CF = common.eups_mod("db.ChainFile").ChainFile
    db = os.path.join(stack, "ups_db")
    dirs, files, sem, odd = [], [], {}, []
    tabs = []
    for fi, fl in enumerate(FLAVORS):
        for pi, pn in enumerate(PRODUCTS):
            for vi, vn in enumerate(VERSIONS):
                ud = os.path.join(db, fl, pn, vn, "ups")
                if not os.path.isdir(ud):
                    continue
                for fn in sorted(os.listdir(ud)):
                    full = os.path.join(ud, fn)
                    key = "T:%s/%s/%s" % (fl, pn, vn)
                    if fn == pn + ".table":
                        txt = lib_records.read_text(full)
                        c = "empty" if txt == "" else {"tab": TABLES_ON_DISK.index(txt)} if txt in TABLES_ON_DISK else "part"
                        tabs.append([["main", "t", pi, vi, fi], c])
                        sem[key] = c["tab"] if isinstance(c, dict) else ("EMPTY" if c == "empty" else "GARBLED")
                    elif TMP_RE.match(fn) and TMP_RE.match(fn).group(1) == pn + ".table":
                        tabs.append([["tmp", "t", pi, vi, fi], "tmp"])
                    else:
                        odd.append("%s/%s/%s/ups/%s" % (fl, pn, vn, fn))
    for pn in os.listdir(db):
        pd = os.path.join(db, pn)
        if not os.path.isdir(pd) or pn in FLAVORS:
            continue
        p = _ids(pn, "p")
        if p is None:
            odd.append(pn)
            continue
        dirs.append(p)
        for fn in os.listdir(pd):
            full = os.path.join(pd, fn)
            m = TMP_RE.match(fn)
            base = m.group(1) if m else fn
            if base.endswith(".version"):
                rp = ["v", p, _ids(base[:-8], "v")]
            elif base.endswith(".chain"):
                rp = ["c", p, _ids(base[:-6], "t")]
            else:
                odd.append(pn + "/" + fn)
                continue
            if rp[2] is None:
                odd.append(pn + "/" + fn)
                continue
            if m:
                if own_pid is not None and int(m.group(2)) == own_pid:
                    files.append([["tmp"] + rp, "tmp"])
                else:
                    files.append([["stale"] + rp + [fn], "tmp"])
                continue
            key = "%s/%s" % (pn, fn)
            if os.path.getsize(full) == 0:
                files.append([["main"] + rp, "empty"])
                sem[key] = "EMPTY"
                continue
            try:
                if rp[0] == "v":
                    vf = VF(full, verbosity=-1)
                    ok = vf.name == pn and vf.version == base[:-8] and lib_records.read_text(full).endswith("End:\n")
                    ent = [[_ids(fl, "f"), "modifier" in i] for fl, i in vf.info.items()]
                    ok = ok and all(e[0] is not None for e in ent) and all(
                        i.get("productDir") and i.get("table_file") and i.get("ups_dir") and i.get("declarer") for i in vf.info.values())
                    files.append([["main"] + rp, {"ver": ent} if ok else "part"])
                    sem[key] = {"flavors": sorted(vf.info.keys()),
                                "paths": {fl: [i.get("productDir"), i.get("ups_dir"), i.get("table_file")] for fl, i in vf.info.items()}} if ok else "GARBLED"
                else:
                    cf = CF(full, verbosity=-1)
                    ok = cf.name == pn and cf.tag == base[:-6] and lib_records.read_text(full).endswith("#End:\n")
                    ent = [[_ids(fl, "f"), _ids(i.get("version"), "v"), "modifier" in i] for fl, i in cf.info.items()]
                    ok = ok and all(e[0] is not None and e[1] is not None for e in ent) and all(i.get("declarer") for i in cf.info.values())
                    files.append([["main"] + rp, {"chain": ent} if ok else "part"])
                    sem[key] = {"assigns": {fl: i.get("version") for fl, i in cf.info.items()}} if ok else "GARBLED"
            except Exception as ex:  # noqa
                files.append([["main"] + rp, "part"])
                sem[key] = "GARBLED"
    return {"dirs": dirs, "files": files, "tabs": tabs, "sem": sem, "odd": odd}


# ---- one (state, command) case on the implementation ----------------------------------------------------------

def _restore(db, saved):
    shutil.rmtree(db)
    shutil.copytree(saved, db)


def run_group(group):
    """group = {"history": [...], "cmds": [cmd, ...]} -> one observation record per command (the state the history
    leads to is built once and restored before every run)."""
    R = common.scratch("c08")
    out = []
    try:
        stacks, uds = common.mkstacks(R)
        S, ud = stacks[0], uds["A"]
        for p in PRODUCTS:
            for v in VERSIONS:
                for f in FLAVORS:
                    common.mkprod(S, p, v, flavor=f)
        db = os.path.join(S, "ups_db")
        for h in group["history"]:
            common.in_child(_child_cmd, S, ud, h, h.get("crash_at"), False)
        saved = os.path.join(R, "saved_db")
        shutil.copytree(db, saved)
        init = snapshot(S)
        for cmd in group["cmds"]:
            _restore(db, saved)
            out.append(_run_cmd(S, ud, db, saved, init, cmd, group.get("sample", False)))
        return out
    finally:
        _LISTINGS.clear()
        common.rmtree(R)


def _crash_points(events, cmd, sample):
    """All crash points; or, for the random histories of the quick portion, a sample: the first one, every point
    right after an effect that changes something in place (rename, unlink, mkdir, rmdir), every point inside the
    LAST save of the cache, and a third of the others (chosen by a digest of the command, so that a replay finds
    the same points).  The corpus and the enlarged budget (thorough tier, escalated run) use all of them."""
    n = len(events)
    if not sample or n <= 12:
        return list(range(n))
    last_save = max([i for i, e in enumerate(events) if e[0] == "creat" and any("/_caches_/" in x for x in e[1:])] or [n])
    ks = []
    for k in range(n):
        prev = events[k - 1] if k > 0 else None
        if k == 0 or prev[0] in ("rename", "unlink", "mkdir", "rmdir") or k >= last_save \
                or int(common.digest(json.dumps([cmd, k], sort_keys=True))[:6], 16) % 3 == 0:
            ks.append(k)
    return ks


def _run_cmd(S, ud, db, saved, init, cmd, sample=False):
    full = common.in_child(_child_cmd, S, ud, cmd, None, True)
    if full[0] != "ok":
        return {"init": init, "full": "child " + str(full[:3])}
    events = full[1]["events"]
    obs = {"init": init, "events": events, "err": full[1]["err"], "states": [], "cache_flavors": full[1].get("cache_flavors")}
    obs["final"] = snapshot(S, own_pid=full[1]["pid"])
    obs["final"]["cache"] = cache_snapshot(S, ud)
    obs["final_cached_listing"] = _reader_cached(S, ud)
    obs["final_listing"] = _reader(S, ud)
    obs["crash_points"] = [len(events), 0]
    for k in _crash_points(events, cmd, sample):
        obs["crash_points"][1] += 1
        _restore(db, saved)
        r = common.in_child(_child_cmd, S, ud, cmd, k, True)
        if not (r[0] == "died" and (r[1] >> 8) == lib_fstrace.CRASH_STATUS):
            obs["states"].append({"k": k, "bad_child": str(r[:3])})
            continue
        # the killed child's temporary file is the one that was not there before
        st = _mark_own_tmp(snapshot(S), init)
        st["cache"] = cache_snapshot(S, ud)
        # the reader that finds the leftover cache runs first.  It is run where the last effect carried out changed a
        # record file in place, a directory or anything of the cache; after an effect on a *temporary* record file (its
        # creation, a write, its close) the records in place and the cache are what they were one crash point earlier
        last = events[k - 1] if k > 0 else None
        if last is None or last[0] in ("rename", "unlink", "mkdir", "rmdir") or any("/_caches_/" in x for x in last[1:]) \
                or not obs["states"] or obs["states"][-1]["k"] != k - 1 or "cached_listing" not in obs["states"][-1]:
            cached = _reader_cached(S, ud)
        else:
            cached = obs["states"][-1]["cached_listing"]
        obs["states"].append({"k": k, "snap": st, "cached_listing": cached, "listing": _reader(S, ud)})
    return obs


def run_case(case):
    return run_group({"history": case["history"], "cmds": [case["cmd"]]})[0]


def _mark_own_tmp(st, init):
    """Temporary files that were not in the initial state belong to the killed command: relabel stale -> tmp."""
    names = {(tuple(f[0][1:4]), f[0][4]) for f in init["files"] if f[0][0] == "stale"}
    out = []
    for f in st["files"]:
        if f[0][0] == "stale" and (tuple(f[0][1:4]), f[0][4]) not in names:
            out.append([["tmp"] + f[0][1:4], "tmp"])
        else:
            out.append(f)
    return {**st, "files": out}


_LISTINGS = {}


def _dir_digest(db):
    """Names and bytes of everything in the database directory (the reader's input)."""
    items = []
    for d, dirs, files in os.walk(db):
        dirs.sort()
        items.append(os.path.relpath(d, db))
        for f in sorted(files):
            with open(os.path.join(d, f), "rb") as fh:
                items.append((os.path.relpath(os.path.join(d, f), db), fh.read()))
    return common.digest(repr(items))


def _reader_cached(S, ud):
    """The listing of a fresh reader that finds the user's cache directory as it is; one reader process per distinct
    content of database directory + cache directory (time stamps of the cache files included)."""
    cd = os.path.join(ud, "_caches_")
    items = []
    for d, dirs, files in os.walk(cd):
        dirs.sort()
        for f in sorted(files):
            full = os.path.join(d, f)
            with open(full, "rb") as fh:
                items.append((os.path.relpath(full, cd), fh.read(), os.stat(full).st_mtime_ns))
    key = ("cached", S, _dir_digest(os.path.join(S, "ups_db")), common.digest(repr(items)))
    if key not in _LISTINGS:
        r = common.in_child(_child_read_cached, S, ud)
        _LISTINGS[key] = r[1] if r[0] == "ok" else "EXC:child " + str(r[1])
    return _LISTINGS[key]


def _reader(S, ud):
    """The listing of a fresh reader; one reader process per distinct content of the database directory."""
    key = (S, _dir_digest(os.path.join(S, "ups_db")))
    if key not in _LISTINGS:
        r = common.in_child(_child_read, S, ud)
        _LISTINGS[key] = r[1] if r[0] == "ok" else "EXC:child " + str(r[1])
    return _LISTINGS[key]


# ---- canonical forms -----------------------------------------------------------------------------------------

def _cache_path(s):
    """['cmain', flavor] / ['ctmp'] for a path below the user's cache directory, else None."""
    if "/_caches_/" not in s:
        return None
    base = os.path.basename(s)
    if base.endswith(".pickleDB1_3_0"):
        f = base[:-len(".pickleDB1_3_0")]
        return ["cmain", CACHE_FLAVORS.index(f) if f in CACHE_FLAVORS else f]
    if base.endswith(".tmp"):
        return ["ctmp"]
    return ["cother", base]


def canon_event(ev):
    kind = ev[0]
    if any(_cache_path(x) is not None for x in ev[1:]):
        return ["cache", kind] + [_cache_path(x) for x in ev[1:]]

    def path(s):
        pn, fn = s.split("/", 1)
        if pn in FLAVORS:                      # <flavor>/<p>/<v>/ups/<p>.table[.tmpN]
            parts = fn.split("/")
            if len(parts) == 4 and parts[2] == "ups":
                m = TMP_RE.match(parts[3])
                base = m.group(1) if m else parts[3]
                if base == parts[0] + ".table" and _ids(parts[0], "p") is not None and _ids(parts[1], "v") is not None:
                    return (["tmp"] if m else ["main"]) + ["t", _ids(parts[0], "p"), _ids(parts[1], "v"), FLAVORS.index(pn)]
            return ["other", s]
        m = TMP_RE.match(fn)
        base = m.group(1) if m else fn
        p = _ids(pn, "p")
        if base.endswith(".version"):
            rp = ["v", p, _ids(base[:-8], "v")]
        elif base.endswith(".chain"):
            rp = ["c", p, _ids(base[:-6], "t")]
        else:
            return ["other", s]
        return (["tmp"] if m else ["main"]) + rp
    if kind == "mkdir" and ev[1].split("/")[0] in FLAVORS:
        return None                # os.makedirs of the directories that hold an interned table file: no reader looks at them
    if kind in ("mkdir", "rmdir"):
        return [kind, _ids(ev[1], "p") if _ids(ev[1], "p") is not None else ev[1]]
    if kind == "rename":
        return [kind, path(ev[1]), path(ev[2])]
    return [kind, path(ev[1])]


def canon_model_eff(e):
    return e[:2] if e[0] == "write" else e


def canon_tabs(tabs):
    """Interned table files: the files themselves; a temporary file beside one is seen by no reader and by no command
    (nothing lists that directory), so its presence is not compared."""
    return sorted(([p, c] for p, c in (tabs or []) if p[0] == "main"), key=json.dumps)


def canon_cache(c):
    """Cache files in place: {flavor id: complete | empty | garbled}; from a snapshot ({name: status}) or from the model
    ([[id, status], ...]); absent files are left out."""
    if c is None:
        return None
    if isinstance(c, dict):
        return sorted([CACHE_FLAVORS.index(f), s_] for f, s_ in c.items() if s_ != "absent")
    return sorted([f, s_] for f, s_ in c)


def canon_fs(files, dirs):
    """Files as a sorted list; the content of temporary files is not an observable."""
    def stale_key(p):
        return p[:4] if p[0] == "stale" else p
    out = []
    for p, c in files:
        if p[0] in ("tmp", "stale"):
            c = "tmp"
        out.append([stale_key(p), c])
    return {"dirs": sorted(dirs), "files": sorted(out, key=json.dumps)}


def model_fs_input(init):
    files, n = [], 0
    for p, c in init["files"]:
        if p[0] == "stale":
            p = p[:4] + [n]
            n += 1
        files.append([p, "part" if c == "tmp" else c])
    return {"dirs": init["dirs"], "files": files}


def model_listing(l):
    """model: per flavor list of [p, v, [t..]] or None -> names, sorted"""
    out = []
    for fl in l:
        if fl is None:
            out.append(None)
        else:
            out.append(sorted([PRODUCTS[p], VERSIONS[v], sorted(TAGS[t] for t in ts)] for p, v, ts in fl))
    return out


# ---- oracle (ii) --------------------------------------------------------------------------------------------

def sem_state(snap):
    """Declarations {(p, v, f): paths} and tag assignments {(t, p, f): v} readable from the record files."""
    D, T, bad = {}, {}, []
    for key, s in snap["sem"].items():
        if key.startswith("T:"):
            continue                      # interned table files: table_state()
        pn, fn = key.split("/", 1)
        if not isinstance(s, dict):
            bad.append(key)
            continue
        if "flavors" in s:
            for fl in s["flavors"]:
                D[(pn, fn[:-8], fl)] = s["paths"][fl]
        else:
            for fl, v in s["assigns"].items():
                T[(fn[:-6], pn, fl)] = v
    return D, T, bad


def table_state(snap):
    """{(flavor, product, version): content number | "EMPTY" | "GARBLED"} of the interned table files."""
    return {tuple(k[2:].split("/")): v for k, v in snap["sem"].items() if k.startswith("T:")}


def targeted(cmd, D0, T0):
    """What the command is allowed to change (from its structured description and the prior state only)."""
    p, f = PRODUCTS[cmd["p"]], FLAVORS[cmd["f"]]
    decls, tags, recs = set(), set(), set()
    if cmd["op"] in ("declare", "declaretab"):
        v = VERSIONS[cmd["v"]]
        decls.add((p, v, f))
        recs.add("%s/%s.version" % (p, v))
        t = TAGS[cmd["tag"]] if cmd["tag"] is not None else None
        if t is None and not any(k[0] == p and k[2] == f for k in D0):
            t = "current"
        if t is not None:
            tags.add((t, p, f))
            recs.add("%s/%s.chain" % (p, t))
    elif cmd["op"] == "untag":
        tags.add((TAGS[cmd["t"]], p, f))
        recs.add("%s/%s.chain" % (p, TAGS[cmd["t"]]))
    else:
        if cmd["v"] is not None:
            v = VERSIONS[cmd["v"]]
        else:
            # version omitted: the command acts on the only version declared for the flavor, and on nothing otherwise
            vs = sorted(k[1] for k in D0 if k[0] == p and k[2] == f)
            if len(vs) != 1:
                return decls, tags, recs
            v = vs[0]
        decls.add((p, v, f))
        recs.add("%s/%s.version" % (p, v))
        for (t, p_, f_), v_ in T0.items():
            if p_ == p and f_ == f and v_ == v:
                tags.add((t, p, f))
                recs.add("%s/%s.chain" % (p, t))
    return decls, tags, recs


def rec_sem(snap, key):
    s = snap["sem"].get(key, "ABSENT")
    if isinstance(s, dict):
        return {"flavors": s["flavors"]} if "flavors" in s else {"assigns": dict(sorted(s["assigns"].items()))}
    return s


def oracle(cmd, obs, st):
    """Yields (clause, finding, note) for the crash state st of the case."""
    init, final = obs["init"], obs["final"]
    D0, T0, _ = sem_state(init)
    Dk, Tk, bad = sem_state(st["snap"])
    decls, tags, recs = targeted(cmd, D0, T0)
    lst = st["listing"]
    if not isinstance(lst, list) or any(not isinstance(x, list) for x in lst):
        yield ("reader_succeeds", None, "listing after the kill: %r" % (lst,))
    for d, paths in D0.items():
        if d not in decls and Dk.get(d) != paths:
            yield ("frame_declaration", None, "declaration %s %s %s not targeted, was %r, now %r" % (d + (paths, Dk.get(d))))
    for d in Dk:
        if d not in D0 and d not in decls:
            yield ("frame_declaration", None, "declaration %s %s %s appeared" % d)
    for t, v in T0.items():
        if t not in tags and Tk.get(t) != v:
            yield ("frame_tag", None, "tag %s of %s (%s) not targeted, was %s, now %s" % (t + (v, Tk.get(t))))
    for t in Tk:
        if t not in T0 and t not in tags:
            yield ("frame_tag", None, "tag %s of %s (%s) appeared" % t)
    for key in bad:
        if key not in recs:
            yield ("frame_record", None, "record %s, not targeted, is empty or truncated" % key)
    if isinstance(lst, list) and all(isinstance(x, list) for x in lst) and not bad:
        want = []
        for f in FLAVORS:
            want.append(sorted([p, v, sorted(t for (t, p_, f_), v_ in Tk.items() if p_ == p and f_ == f and v_ == v)]
                               for (p, v, f_) in Dk if f_ == f))
        if lst != want:
            yield ("reader_reports_files", None, "listing %r, the record files say %r" % (lst, want))
    # the product cache the killed command leaves behind: every cache file is a complete pickle (or absent), and a
    # fresh reader of the same user - which finds that cache - succeeds and reports what the record files say
    for f, cs in sorted(st["snap"].get("cache", {}).items()):
        if cs in ("empty", "garbled"):
            yield ("cache_file_complete", None, "cache file of flavor %s is %s after the kill" % (f, cs))
    cl = st.get("cached_listing")
    if cl is not None:
        if not isinstance(cl, list) or any(not isinstance(x, list) for x in cl):
            yield ("cached_reader_succeeds", None, "listing through the cache left by the killed command: %r" % (cl,))
        elif isinstance(lst, list) and all(isinstance(x, list) for x in lst) and cl != lst:
            yield ("cached_reader_agrees_with_files", None, "through the cache: %r, from the record files: %r" % (cl, lst))
    # interned table files: every one the command does not replace is as before; the one it replaces holds its old
    # or its new content (absent only if it was absent before)
    X0, Xk, Xf = table_state(init), table_state(st["snap"]), table_state(final)
    tkey = (FLAVORS[cmd["f"]], PRODUCTS[cmd["p"]], VERSIONS[cmd["v"]]) if cmd["op"] == "declaretab" else None
    for key in sorted(set(X0) | set(Xk)):
        if key != tkey and Xk.get(key, "ABSENT") != X0.get(key, "ABSENT"):
            yield ("frame_table", None, "table file of %s %s %s not targeted, was %r, now %r" % (key[1], key[2], key[0], X0.get(key, "ABSENT"), Xk.get(key, "ABSENT")))
    if tkey is not None:
        now, old, new = Xk.get(tkey, "ABSENT"), X0.get(tkey, "ABSENT"), Xf.get(tkey, "ABSENT")
        if now != old and now != new:
            yield ("table_old_or_new", None, "interned table file of %s %s %s reads %r; before: %r, after the completed command: %r"
                   % (tkey[1], tkey[2], tkey[0], now, old, new))
    for key in sorted(recs):
        now, old, new = rec_sem(st["snap"], key), rec_sem(init, key), rec_sem(final, key)
        if now != old and now != new:
            finding = None
            # D11: a tag that is already assigned for this flavor is assigned again (moved or re-asserted): the
            # chain is seen without this flavor's entry between the removal and the final rewrite
            if cmd["op"] in ("declare", "declaretab") and key.endswith(".chain"):
                t = key.split("/")[1][:-6]
                f = FLAVORS[cmd["f"]]
                if (t, PRODUCTS[cmd["p"]], f) in T0 and isinstance(old, dict):
                    without = {k: v for k, v in old["assigns"].items() if k != f}
                    if now == ({"assigns": without} if without else "ABSENT"):
                        finding = "D11"
            yield ("record_old_or_new", finding, "record %s reads %r; before: %r, after the completed command: %r" % (key, now, old, new))


# ---- evaluation ------------------------------------------------------------------------------------------------

def _work(groups):
    lib_records.silence()
    return [run_group(g) for g in groups]


def evaluate(ctx, cases, workers=None, sample=False):
    """cases = [{"history", "cmd"}]; cases with the same history share one construction of the state."""
    groups, index = [], {}
    for i, c in enumerate(cases):
        key = json.dumps(c["history"], sort_keys=True)
        if key not in index:
            index[key] = len(groups)
            groups.append({"history": c["history"], "cmds": [], "ix": [], "sample": sample})
        g = groups[index[key]]
        g["cmds"].append(c["cmd"])
        g["ix"].append(i)
    workers = workers or int(os.environ.get("VERIF_WORKERS") or 6)
    nw = max(1, min(workers, len(groups)))
    chunks = [groups[i::nw] for i in range(nw)]
    if nw > 1:
        res = parallel_map(_work, chunks, workers=nw)
    else:
        r = common.in_child(lambda: [run_group(g) for g in groups])
        if r[0] != "ok":
            raise common.InfraError("case runner failed: %s" % (r[:3],))
        res = [r[1]]
    impl = [None] * len(cases)
    for k, ch in enumerate(res):
        for j, obs_list in enumerate(ch):
            g = groups[k + j * nw]
            for ix, o in zip(g["ix"], obs_list):
                impl[ix] = o
    # the cache files the traced process holds and saves (ProductStack.getFlavors() of its Eups object, read before the
    # command starts: part of the initial state, like the directory-listing order)
    def cfl(o):
        l = o.get("cache_flavors")
        if not l or any(f not in CACHE_FLAVORS for f in l):
            raise common.InfraError("flavors of the product cache not observed: %r" % (l,))
        return [CACHE_FLAVORS.index(f) for f in l]
    reqs = [{"m": "c08", "atomic": True, "fs": model_fs_input(o["init"]), "tabs": canon_tabs(o["init"].get("tabs")),
             "cmd": c["cmd"], "flavors": [0, 1], "cache_flavors": cfl(o)}
            for c, o in zip(cases, impl)]
    answers = ctx.lean.ask_many(reqs)
    for c, o, a in zip(cases, impl, answers):
        if "bad-op" in a:
            raise common.InfraError("driver: %s (%s)" % (a, json.dumps(c)[:300]))
        check_case(ctx, c, o, a)


def check_case(ctx, case, obs, ans):
    cmd = case["cmd"]
    inp = {"history": case["history"], "cmd": cmd}
    if "events" not in obs:
        raise common.InfraError("traced command did not return: %s" % obs.get("full"))
    if obs["init"]["odd"]:
        raise common.InfraError("unexpected entries in the database directory: %s" % obs["init"]["odd"])
    raw_eff = [canon_event(e) for e in obs["events"]]
    ncache = sum(1 for e in raw_eff if e is not None and e[0] == "cache")
    ctx.hist("cache-crash-points=%s" % ("0" if ncache == 0 else "1-10" if ncache <= 10 else "11-20" if ncache <= 20 else "21+"))
    for e in raw_eff:
        if e is not None and e[0] == "cache" and e[1] == "rename" and e[-1][0] == "cmain":
            ctx.hist("cache-save=%s" % (CACHE_FLAVORS[e[-1][1]] if isinstance(e[-1][1], int) else e[-1][1]))
    # pickle.dump writes the buffered file object in one or several calls: consecutive writes to the same temporary
    # cache file are one effect (nothing reaches the disk at any of them)
    all_eff = []
    for i, e in enumerate(raw_eff):
        if e is not None and e[0] == "cache" and e[1] == "write" and i > 0 and raw_eff[i - 1] == e:
            all_eff.append(None)
        else:
            all_eff.append(e)
    impl_eff = [e for e in all_eff if e is not None]
    # crash point k of the implementation (an index into its events) = crash point kmap[k] of the model (events that
    # are not modelled - creation of the directories of an interned table file - change nothing a reader sees)
    kmap, cnt = [], 0
    for e in all_eff:
        kmap.append(cnt)
        cnt += e is not None
    kmap.append(cnt)
    mo_eff = [canon_model_eff(e) for e in ans["effects"]]
    n = len(impl_eff)
    ctx.hist("cmd=%s%s" % (cmd["op"], "+tag" if cmd.get("tag") is not None else ("+force" if cmd.get("force") else
                                          "-noversion" if cmd["op"] not in ("declare", "declaretab") and cmd.get("v") is None else "")))
    if obs["init"].get("tabs"):
        ctx.hist("state=with-interned-table")
    if obs.get("crash_points"):
        ctx.hist("crash-points-all", obs["crash_points"][0])
        ctx.hist("crash-points-run", obs["crash_points"][1])
    if cmd["op"] == "declaretab":
        old_t = [c for p_, c in obs["init"].get("tabs", []) if p_ == ["main", "t", cmd["p"], cmd["v"], cmd["f"]]]
        ctx.hist("table=%s" % ("new" if not old_t else "same" if old_t[0] == {"tab": cmd["tab"]} else "replaced"))
    ctx.hist("effects=%s" % ("0" if n == 0 else "1-5" if n <= 5 else "6-15" if n <= 15 else "16+"))
    if obs["err"]:
        ctx.hist("outcome=" + obs["err"])
    if any(f[0][0] == "stale" for f in obs["init"]["files"]):
        ctx.hist("state=with-stale-tmp")
    if any(isinstance(f[1], dict) and len(f[1].get("ver", [])) > 1 for f in obs["init"]["files"]):
        ctx.hist("state=multi-flavor-version-file")
    if impl_eff != mo_eff:
        ctx.disagree("effect_trace", inp, impl_eff, mo_eff)
    key = {"init": canon_fs(obs["init"]["files"], obs["init"]["dirs"]), "cmd": cmd}
    ctx.case(key=key, nontrivial=n > 0, validated=True,
             sample={"input": inp, "effects": impl_eff} if (n > 0 and ctx.evaluations % 211 == 0) else None)
    # the completed command
    mstates = ans["states"]
    if len(mstates) == n + 1:
        fin_m = mstates[n]
        if canon_fs(obs["final"]["files"], obs["final"]["dirs"]) != canon_fs(fin_m["fs"]["files"], fin_m["fs"]["dirs"]):
            ctx.disagree("final_state", inp, canon_fs(obs["final"]["files"], obs["final"]["dirs"]),
                         canon_fs(fin_m["fs"]["files"], fin_m["fs"]["dirs"]))
        if canon_cache(obs["final"].get("cache")) != canon_cache(fin_m.get("cache")):
            ctx.disagree("final_cache", inp, canon_cache(obs["final"].get("cache")), canon_cache(fin_m.get("cache")))
        if canon_tabs(obs["final"].get("tabs")) != canon_tabs(fin_m.get("tabs")):
            ctx.disagree("final_tables", inp, canon_tabs(obs["final"].get("tabs")), canon_tabs(fin_m.get("tabs")))
        if obs["final_listing"] != model_listing(fin_m["listing"]):
            ctx.disagree("final_listing", inp, obs["final_listing"], model_listing(fin_m["listing"]))
    if obs.get("final_cached_listing") is not None and obs["final_cached_listing"] != obs["final_listing"]:
        ctx.fail("cached_reader_agrees_with_files/completed", inp, obs["final_cached_listing"], None,
                 note="after the completed command a reader through the cache reports %r, from the record files %r"
                 % (obs["final_cached_listing"], obs["final_listing"]))
    for st in obs["states"]:
        k = st["k"]
        ctx.evaluations += 1
        ctx.validated += 1
        if "bad_child" in st:
            raise common.InfraError("crash run did not die at the crash point: %s" % st["bad_child"])
        if st["snap"]["odd"]:
            ctx.disagree("crash_state", {**inp, "k": k}, st["snap"]["odd"], None, note="unexpected directory entries")
        impl_fs = canon_fs(st["snap"]["files"], st["snap"]["dirs"])
        impl_tabs = canon_tabs(st["snap"].get("tabs"))
        mo = None
        if k < len(kmap) and kmap[k] < len(mstates):
            ms = mstates[kmap[k]]
            mo_fs = canon_fs(ms["fs"]["files"], ms["fs"]["dirs"])
            mo = {"fs": mo_fs, "tabs": canon_tabs(ms.get("tabs")), "listing": model_listing(ms["listing"])}
            if impl_fs != mo_fs:
                ctx.disagree("crash_state", {**inp, "k": k}, impl_fs, mo_fs)
            elif impl_tabs != mo["tabs"]:
                ctx.disagree("crash_tables", {**inp, "k": k}, impl_tabs, mo["tabs"])
            elif canon_cache(st["snap"].get("cache")) != canon_cache(ms.get("cache")):
                ctx.disagree("crash_cache", {**inp, "k": k}, canon_cache(st["snap"].get("cache")), canon_cache(ms.get("cache")))
            elif st["listing"] != mo["listing"]:
                ctx.disagree("crash_listing", {**inp, "k": k}, st["listing"], mo["listing"])
        impl_out = {"fs": impl_fs, "tabs": impl_tabs, "listing": st["listing"]}
        for clause, finding, note in oracle(cmd, obs, st):
            ctx.fail(clause, {**inp, "k": k}, impl_out, mo, note=note, finding=finding)
            ctx.hist("oracle=" + clause + ("/" + finding if finding else ""))


def corpus_cases():
    out = []
    if os.path.isdir(CORPUS):
        for f in sorted(os.listdir(CORPUS)):
            if f.endswith(".json"):
                with open(os.path.join(CORPUS, f)) as fh:
                    c = json.load(fh)
                if c.get("signal_family"):
                    continue                      # run by the signal family (signal_cases)
                out.append({"history": c["history"], "cmd": c["cmd"], "_corpus": f})
    return out


def gen_cases(rng, nstates, ncmds):
    cmds = all_commands()
    out = []
    for _ in range(nstates):
        h = gen_history(rng)
        # favour commands on products the history touched
        touched = {c["p"] for c in h} or {0}
        pool = [c for c in cmds if c["p"] in touched] * 3 + cmds
        for c in rng.sample(pool, ncmds):
            out.append({"history": h, "cmd": c})
    return out


def enum_states():
    """Every semantic state of product pa over 2 versions x 2 flavors x 2 tags (324), each reached by a canonical
    history of real commands, beside a bystander product pb (one declaration, tagged current)."""
    import itertools
    per_flavor = []
    for f in range(2):
        opts = []
        for vs in ([], [0], [1], [0, 1]):
            for tags in itertools.product([None] + vs, repeat=2):
                opts.append((f, vs, tags))
        per_flavor.append(opts)
    for a, b in itertools.product(*per_flavor):
        hist = [{"op": "declare", "p": 1, "v": 0, "f": 0, "tag": None, "force": False}]
        for f, vs, tags in (a, b):
            for v in vs:
                hist.append({"op": "declare", "p": 0, "v": v, "f": f, "tag": None, "force": False})
        for f, vs, tags in (a, b):
            for t, v in enumerate(tags):
                if v is None:
                    if vs and t == 0:        # the first declaration was tagged current automatically
                        hist.append({"op": "untag", "t": 0, "p": 0, "f": f, "v": None})
                else:
                    hist.append({"op": "declare", "p": 0, "v": v, "f": f, "tag": t, "force": False})
        yield hist


def _floors(ctx):
    if ctx.distinct_nontrivial >= 16 and min(ctx.histogram.get("cache-save=generic", 0), ctx.histogram.get("cache-save=Linux", 0)) < 10:
        raise common.InfraError("degenerate distribution: crash points inside the writes of the product cache: %d saves of the "
                                "last flavor's file (generic), %d of Linux" % (ctx.histogram.get("cache-save=generic", 0),
                                                                               ctx.histogram.get("cache-save=Linux", 0)))
    if ctx.evaluations and ctx.distinct_nontrivial < 16:
        raise common.InfraError("degenerate distribution: %d commands with effects" % ctx.distinct_nontrivial)
    if sum(v for k, v in ctx.histogram.items() if k.startswith("signal-kill=")) < 10:
        raise common.InfraError("degenerate distribution: only %d signal kills with locking on"
                                % sum(v for k, v in ctx.histogram.items() if k.startswith("signal-kill=")))
    for k in ("cmd=declaretab", "cmd=undeclare-noversion"):
        if ctx.distinct_nontrivial >= 40 and ctx.histogram.get(k, 0) + ctx.histogram.get(k + "+tag", 0) < 2:
            raise common.InfraError("degenerate distribution: %d cases of class %s" % (ctx.histogram.get(k, 0), k))


def run(ctx):
    """Order (also under ctx.escalated, i.e. whenever the mirrored source has changed): (1) the corpus, (2) the ORDINARY quick
    portion - random histories with every command kind drawn from one pool, so that every class gets its share - and its
    distribution floors, and only then (3) the enlarged budget of the thorough tier / an escalated run: the exhaustive
    family and more random histories."""
    cc = corpus_cases()
    ctx.hist("corpus", len(cc))
    if cc:
        evaluate(ctx, cc)
    # the family of signal kills with locking on (declare with a table stream installs its own signal handler)
    for sc in signal_cases():
        sc = dict(sc, phase=ctx.rng.randrange(sc.get("every", 3)))
        r = common.in_child(run_signal_case, sc)
        if r[0] != "ok":
            raise common.InfraError("signal family did not return: %s" % (r[:3],))
        check_signal_case(ctx, sc, r[1])
    big = ctx.tier == "thorough" or ctx.escalated
    # (2) the ordinary quick portion, first and completely
    done = 0
    soft = ctx.t0 + (45 if ctx.tier == "quick" else 1e9)        # keeps the quick tier under 3 minutes on a loaded machine
    while done < 24 and not ctx.out_of_time() and (time.time() < soft or done == 0):
        evaluate(ctx, gen_cases(ctx.rng, 4, 6), sample=(ctx.tier == "quick"))
        done += 4
    _floors(ctx)
    if not big:
        return
    # (3) every crash point of every command of flavor 0 on pa from every state of the single-product universe
    # (the states come in flavor-symmetric pairs, so the commands of flavor 1 are covered up to renaming)
    cmds = [c for c in all_commands() if c["p"] == 0 and c["f"] == 0]
    # an escalated quick run stops starting new batches a minute before the deadline (a batch takes 20-60 s)
    stop = ctx.deadline - (0 if ctx.tier == "thorough" else 90)
    reserve = (0.25 if ctx.tier == "thorough" else 0.5) * max(0.0, stop - time.time())   # for more random histories
    batch, nst, complete = [], 0, True
    for hist in enum_states():
        if time.time() > stop - reserve:
            complete = False
            ctx.note("exhaustive enumeration stopped by the time budget after %d of 324 states" % nst)
            break
        batch += [{"history": hist, "cmd": c} for c in cmds]
        nst += 1
        # an escalated quick run must end within a few minutes: small batches there (the deadline is looked at between
        # batches, and one batch of all crash points of ~17 commands per state is the unit), crash points sampled
        if nst % (12 if ctx.tier == "thorough" else 1) == 0:
            evaluate(ctx, batch, sample=(ctx.tier == "quick"))
            batch = []
    if batch and time.time() < stop:
        evaluate(ctx, batch, sample=(ctx.tier == "quick"))
    ctx.hist("enumerated-states", nst)
    if complete:
        ctx.note("exhaustive: all 324 states of the single-product universe x %d commands x every crash point" % len(cmds))
    while done < 120 and time.time() < stop:
        if ctx.tier == "thorough":
            evaluate(ctx, gen_cases(ctx.rng, 6, 24))
            done += 6
        else:
            evaluate(ctx, gen_cases(ctx.rng, 1, 6), sample=True)
            done += 1
    _floors(ctx)


def replay(ctx, rp):
    common.import_eups()          # before any scratch stack puts EUPS_PATH into the environment
    if rp["input"].get("signal_family"):
        sc = {"history": rp["input"]["history"], "cmd": rp["input"]["cmd"], "every": 1, "phase": 0}
        r = common.in_child(run_signal_case, sc)
        before = len(ctx.failures)
        if r[0] == "ok":
            check_signal_case(ctx, sc, r[1])
        fl = [f for f in ctx.failures[before:] if f["input"].get("k") == rp["input"].get("k")
              and f["input"].get("signal") == rp["input"].get("signal")]
        first = (fl or [{}])[0]
        return {"input": rp["input"], "impl_output": first.get("impl_output"), "model_output": None, "agree": True,
                "disagreements": [], "fails": [{"clause": f["clause"], "class": f["finding_class"], "note": f["note"]} for f in fl]}
    c = {"history": rp["input"]["history"], "cmd": rp["input"]["cmd"]}
    before = (len(ctx.failures), len(ctx.disagreements))
    evaluate(ctx, [c], workers=1)
    k = rp["input"].get("k")
    fl = [f for f in ctx.failures[before[0]:] if k is None or f["input"].get("k") == k]
    dis = [d for d in ctx.disagreements[before[1]:] if k is None or d["input"].get("k") in (None, k)]
    first = (fl or dis or [{}])[0]
    return {"input": rp["input"], "impl_output": first.get("impl_output"), "model_output": first.get("model_output"),
            "agree": not dis,
            "disagreements": [{"observable": d["observable"], "k": d["input"].get("k")} for d in dis][:10],
            "fails": [{"clause": f["clause"], "class": f["finding_class"], "note": f["note"]} for f in fl]}
