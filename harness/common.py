"""Shared infrastructure of the correspondence harnesses.

Everything here is independent of any one property: the run context (PRNG, budgets, counters,
failure/disagreement records), fork-per-command execution of the real eups code, stack builders,
delta-debugging, and JSON helpers.  The implementation under test is imported from
``$EUPS_REPO/python`` (default ``/repo/python``) *as it is on disk now*; nothing is cached between runs.
"""
import hashlib
import json
import os
import pickle
import random
import shutil
import sys
import tempfile
import time
import traceback

VERIF = os.path.dirname(os.path.dirname(os.path.abspath(__file__)))
REPO = os.environ.get("EUPS_REPO", "/repo")
WORK = os.path.join(VERIF, ".work")          # scratch of the checks (git-ignored), never /tmp


def jdump(x):
    return json.dumps(x, sort_keys=True, ensure_ascii=False, default=repr)


def digest(x):
    return hashlib.sha1(jdump(x).encode("utf-8", "surrogatepass")).hexdigest()[:12]


# ----------------------------------------------------------------------------------------------
# importing the implementation
# ----------------------------------------------------------------------------------------------

_eups_ready = False


def clean_environ():
    """Remove everything from os.environ that would leak the caller's eups session into a run."""
    for k in list(os.environ):
        if k.startswith("SETUP_") or k.startswith("EUPS_") and k not in ("EUPS_REPO", "EUPS_VERIF"):
            del os.environ[k]
        elif k.endswith("_DIR") and k not in ("PWD",) and os.environ.get("SETUP_" + k[:-4]):
            del os.environ[k]
    os.environ["EUPS_SHELL"] = "sh"
    os.environ["EUPS_FLAVOR"] = "Linux"
    os.environ["EUPS_VERIF"] = "1"


def import_eups():
    """Import (never construct) eups from the repository's working tree.  Idempotent."""
    global _eups_ready
    if not _eups_ready:
        clean_environ()
        p = os.path.join(REPO, "python")
        if p not in sys.path:
            sys.path.insert(0, p)
        # never read or write byte-code caches: a stale __pycache__ entry (same size, same mtime second)
        # must not be able to hide an edit of the source under test
        sys.dont_write_bytecode = True
        sys.pycache_prefix = os.path.join(WORK, "no-pycache-%d" % os.getpid())
        import eups  # noqa: F401
        f = os.path.abspath(sys.modules["eups"].__file__)
        assert f.startswith(os.path.abspath(p) + os.sep), "eups imported from %s, not %s" % (f, p)
        _eups_ready = True
    import eups
    return eups


def eups_mod(name):
    """``eups_mod('Eups')`` -> the module object eups.Eups (the package re-exports hide some)."""
    import_eups()
    import importlib
    return importlib.import_module("eups." + name)


# ----------------------------------------------------------------------------------------------
# processes
# ----------------------------------------------------------------------------------------------

class ChildError(Exception):
    pass


def in_child(fn, *args, **kw):
    """Run fn(*args) in a forked child and return its (picklable) result.

    The child inherits the imported-but-unused eups modules; module globals and instance caches
    it creates die with it.  An exception in the child comes back as ('exc', type name, text);
    a child that dies (os._exit, signal) comes back as ('died', status)."""
    timeout = kw.pop("_timeout", 120)
    r, w = os.pipe()
    sys.stdout.flush()
    sys.stderr.flush()
    pid = os.fork()
    if pid == 0:
        os.close(r)
        code = 0
        try:
            try:
                res = ("ok", fn(*args, **kw))
            except BaseException as e:  # noqa
                res = ("exc", type(e).__name__, str(e)[:500], traceback.format_exc()[-1500:])
            try:
                data = pickle.dumps(res)
            except Exception as e:  # unpicklable result
                data = pickle.dumps(("exc", "Unpicklable", str(e)[:300], ""))
            with os.fdopen(w, "wb") as f:
                f.write(data)
        except BaseException:
            code = 3
        finally:
            os._exit(code)
    os.close(w)
    chunks = []
    with os.fdopen(r, "rb") as f:
        import select
        deadline = time.time() + timeout
        while True:
            left = deadline - time.time()
            if left <= 0:
                try:
                    os.kill(pid, 9)
                except OSError:
                    pass
                break
            rl, _, _ = select.select([f], [], [], min(left, 1.0))
            if rl:
                b = os.read(f.fileno(), 1 << 16)
                if not b:
                    break
                chunks.append(b)
    _, status = os.waitpid(pid, 0)
    data = b"".join(chunks)
    if not data:
        return ("died", status)
    try:
        return pickle.loads(data)
    except Exception:
        return ("died", status)


def parallel_map(fn, items, workers=None, chunk=None):
    """Map fn over items in forked worker processes (order preserved).  fn must be picklable-free:
    it is inherited through fork, only items and results cross the pipe."""
    items = list(items)
    if not items:
        return []
    workers = max(1, min(workers or (os.cpu_count() or 4), len(items)))
    if workers == 1:
        return [fn(x) for x in items]
    slices = [items[i::workers] for i in range(workers)]

    def work(sl):
        return [fn(x) for x in sl]

    pipes = []
    for sl in slices:
        r, w = os.pipe()
        sys.stdout.flush()
        sys.stderr.flush()
        pid = os.fork()
        if pid == 0:
            os.close(r)
            code = 0
            try:
                try:
                    res = ("ok", work(sl))
                except BaseException as e:  # noqa
                    res = ("exc", type(e).__name__, str(e), traceback.format_exc()[-3000:])
                with os.fdopen(w, "wb") as f:
                    f.write(pickle.dumps(res))
            except BaseException:
                code = 3
            finally:
                os._exit(code)
        os.close(w)
        pipes.append((pid, r))
    outs = []
    for pid, r in pipes:
        with os.fdopen(r, "rb") as f:
            data = f.read()
        os.waitpid(pid, 0)
        if not data:
            raise ChildError("worker died")
        res = pickle.loads(data)
        if res[0] != "ok":
            raise ChildError("worker raised %s: %s\n%s" % (res[1], res[2], res[3]))
        outs.append(res[1])
    merged = [None] * len(items)
    for k, out in enumerate(outs):
        for j, v in enumerate(out):
            merged[k + j * workers] = v
    return merged


# ----------------------------------------------------------------------------------------------
# scratch directories and stacks
# ----------------------------------------------------------------------------------------------

def scratch(prefix="s"):
    os.makedirs(WORK, exist_ok=True)
    return tempfile.mkdtemp(prefix=prefix + "-", dir=WORK)


def rmtree(p):
    shutil.rmtree(p, ignore_errors=True)


STARTUP = """# written by the verification harness
hooks.config.Eups.defaultProduct["name"] = None
hooks.config.Eups.globalTags += [%(tags)s]
"""


def mkstacks(root, nstacks=1, extra_tags=("beta",), default_product=False, users=("A",), names=None):
    """Create empty stacks root/stack0.. (or root/<names[i]>) and one EUPS_USERDATA per user; point the
    environment at them (user users[0]).  Returns (stacks, {user: userdata})."""
    stacks = []
    for i in range(nstacks):
        s = os.path.join(root, names[i] if names else "stack%d" % i)
        os.makedirs(os.path.join(s, "ups_db"))
        stacks.append(s)
    uds = {}
    for u in users:
        ud = os.path.join(root, "userdata" + u)
        os.makedirs(ud)
        with open(os.path.join(ud, "startup.py"), "w") as f:
            txt = STARTUP % {"tags": ", ".join(repr(t) for t in extra_tags)}
            if default_product:
                txt = txt.replace('hooks.config.Eups.defaultProduct["name"] = None\n', "")
            f.write(txt)
        uds[u] = ud
    os.environ["EUPS_PATH"] = ":".join(stacks)
    os.environ["EUPS_USERDATA"] = uds[users[0]]
    return stacks, uds


def mkprod(stack, name, version, table="", flavor="Linux", subdir=None):
    """Create an installation directory with ups/<name>.table; returns the directory."""
    d = subdir or os.path.join(stack, flavor, name, version)
    os.makedirs(os.path.join(d, "ups"), exist_ok=True)
    with open(os.path.join(d, "ups", name + ".table"), "w") as f:
        f.write(table)
    return d


def new_eups(**kw):
    """Construct an Eups the way the CLI does (quiet)."""
    M = eups_mod("Eups")
    kw.setdefault("quiet", 1)
    return M.Eups(**kw)


# ----------------------------------------------------------------------------------------------
# delta debugging
# ----------------------------------------------------------------------------------------------

def ddmin(items, still_fails, max_tests=200):
    """Classic ddmin over a list; still_fails(sublist) -> bool.  Returns a 1-minimal-ish sublist."""
    items = list(items)
    n = 2
    tests = 0
    while len(items) >= 2 and tests < max_tests:
        size = max(1, len(items) // n)
        chunks = [items[i:i + size] for i in range(0, len(items), size)]
        reduced = False
        for i in range(len(chunks)):
            cand = [x for j, c in enumerate(chunks) if j != i for x in c]
            tests += 1
            if cand and still_fails(cand):
                items = cand
                n = max(n - 1, 2)
                reduced = True
                break
        if not reduced:
            if n >= len(items):
                break
            n = min(len(items), n * 2)
    return items


# ----------------------------------------------------------------------------------------------
# run context
# ----------------------------------------------------------------------------------------------

class Ctx:
    """What a harness module's run(ctx) talks to."""

    def __init__(self, pid, tier, seed, time_budget):
        self.pid = pid
        self.tier = tier
        self.seed = seed
        self.rng = random.Random("%s-%d" % (pid, seed))
        self.repo = REPO
        self.lean = None
        self.t0 = time.time()
        self.deadline = self.t0 + time_budget
        self.evaluations = 0
        self.validated = 0              # cases on which impl and model outputs were compared
        self._distinct = set()
        self.samples = []
        self.histogram = {}
        self.failures = []              # oracle (ii) failed on the implementation
        self.disagreements = []         # model != implementation
        self.notes = []
        self.escalated = False

    # budgets -------------------------------------------------------------------------------
    def n(self, quick, thorough):
        return thorough if (self.tier == "thorough" or self.escalated) else quick

    def time_left(self):
        return self.deadline - time.time()

    def out_of_time(self):
        return time.time() > self.deadline

    # counters ------------------------------------------------------------------------------
    def case(self, key=None, nontrivial=True, sample=None, validated=True):
        """Count one evaluated case.  key identifies the case for the distinct count (any JSON-able
        value); nontrivial says whether it meets the module's stated rule."""
        self.evaluations += 1
        if validated:
            self.validated += 1
        if nontrivial and key is not None:
            self._distinct.add(digest(key))
        if sample is not None and len(self.samples) < 6:
            self.samples.append(sample)

    def hist(self, name, k=1):
        self.histogram[name] = self.histogram.get(name, 0) + k

    @property
    def distinct_nontrivial(self):
        return len(self._distinct)

    # findings ------------------------------------------------------------------------------
    def fail(self, clause, inp, impl, model=None, note="", finding=None):
        """Oracle (ii): the property's clause is false on the implementation's own output.
        finding = id of the known-findings entry whose class predicate the module found satisfied
        (honoured only if the model reproduces the implementation's output)."""
        self.failures.append({"clause": clause, "input": inp, "impl_output": impl,
                              "model_output": model, "note": note, "finding_class": finding})

    def disagree(self, observable, inp, impl, model, note=""):
        """Oracle (i): model output differs from implementation output."""
        self.disagreements.append({"observable": observable, "input": inp, "impl_output": impl,
                                   "model_output": model, "note": note})

    def note(self, s):
        self.notes.append(s)


class InfraError(Exception):
    """Something in the machinery (not in eups) is broken: exit status 2."""
