"""Helpers shared by the C13 (dependency listings / uses) and C14 (remove) harnesses.

A *graph* is the generator-level, JSON-able description of a stack of declared products:

    {"products": [{"name": "a", "version": "1", "tags": ["current"],
                   "deps": [{"k": "req"|"opt"|"unreq", "n": "b", "v": null|"1", "j": false}, ...]}, ...]}

`install` realises it as a real stack (database records and table files written in the format
`Eups.declare` produces); `run_cli` executes one real `eups ...` command line in the calling
process (call it inside `common.in_child`) while recording, as structured data, what the API the
command line uses returned (`Eups.getDependentProducts`, `Eups.uses`)."""
import contextlib
import io
import os

from . import common

FLAVOR = "Linux"

VERSION_FILE = """FILE = version
PRODUCT = %(name)s
VERSION = %(version)s
#***************************************

Group:
   FLAVOR = Linux
   QUALIFIERS = ""
   DECLARER = verif
   DECLARED = 2026/01/01 00:00:00 UTC
   PROD_DIR = Linux/%(name)s/%(version)s
   UPS_DIR = ups
   TABLE_FILE = %(name)s.table
End:
"""

CHAIN_FILE = """FILE = version
PRODUCT = %(name)s
CHAIN = %(tag)s
#***************************************

#Group:
   FLAVOR = Linux
   VERSION = %(version)s
   QUALIFIERS = ""
   DECLARER = verif
   DECLARED = 2026/01/01 00:00:00 UTC
#End:
"""

CMD = {"req": "setupRequired", "opt": "setupOptional", "unreq": "unsetupRequired", "unopt": "unsetupOptional"}


def table_text(deps, xdeps=None):
    if xdeps is not None:
        # an expandtable-style table: the exact branch lists the as-built dependencies, the else branch the ones written
        ind = lambda t: "".join("   " + l + "\n" for l in t.splitlines())
        return "if (type == exact) {\n%s} else {\n%s}\n" % (ind(table_text(xdeps)), ind(table_text(deps)))
    out = []
    for d in deps:
        args = []
        if d.get("j"):
            args.append("-j")
        if d.get("external"):
            args.append("--external")
        if d.get("t"):
            args += ["-t", d["t"]]          # a tag of this line's own: in front of the VRO for this line only
        if d.get("vro"):
            args += ["--vro", d["vro"]]      # a VRO of this line's own (one word)
        args.append(d["n"])
        if d.get("v"):
            args.append(d["v"])
        out.append("%s(%s)\n" % (CMD[d["k"]], " ".join(args)))
    return "".join(out)


def install(root, graph, default_product=False):
    """Create root/stack0 (+ userdata) holding the graph's products.  Returns the stack path."""
    stacks, _ = common.mkstacks(root, default_product=default_product)
    s = stacks[0]
    chains = {}                 # (product, tag) -> [(flavor, version)]: one chain file, one group per flavor
    for p in graph["products"]:
        n, v = p["name"], p["version"]
        if p.get("notable"):
            # declared with `-M none`: no ups directory, no table file (behaves as an empty table)
            assert not p["deps"]
            d = os.path.join(s, FLAVOR, n, v)
            os.makedirs(d, exist_ok=True)
        else:
            d = common.mkprod(s, n, v, table_text(p["deps"], p.get("xdeps")))
        if p.get("missing"):
            os.unlink(os.path.join(d, "ups", n + ".table"))     # declared, but the table file is gone
        if p.get("payload", True):
            with open(os.path.join(d, "payload"), "w") as f:
                f.write("%s %s\n" % (n, v))
        db = os.path.join(s, "ups_db", n)
        os.makedirs(db, exist_ok=True)
        with open(os.path.join(db, v + ".version"), "w") as f:
            txt = VERSION_FILE % {"name": n, "version": v}
            if p.get("notable"):
                txt = txt.replace("UPS_DIR = ups", "UPS_DIR = none").replace("TABLE_FILE = %s.table" % n, "TABLE_FILE = none")
            also = p.get("also")
            if also:
                # the same version declared for a second flavor in this stack: one more group in the version file,
                # an installation directory of its own
                fl = also["flavor"]
                common.mkprod(s, n, v, "", flavor=fl)
                grp = VERSION_FILE.split("Group:\n", 1)[1] % {"name": n, "version": v}
                txt += "\nGroup:\n" + grp.replace("FLAVOR = Linux", "FLAVOR = " + fl).replace("PROD_DIR = Linux/", "PROD_DIR = %s/" % fl)
            f.write(txt)
        for t in p.get("tags", []):
            chains.setdefault((n, t), []).append((FLAVOR, v))
        for t in (p.get("also") or {}).get("tags", []):
            chains.setdefault((n, t), []).append((p["also"]["flavor"], v))
    for (n, t), blocks in chains.items():
        head, grp = (CHAIN_FILE % {"name": n, "version": "%(version)s", "tag": t}).split("#Group:\n", 1)
        with open(os.path.join(s, "ups_db", n, t + ".chain"), "w") as f:
            f.write(head + "\n".join("#Group:\n" + grp.replace("FLAVOR = Linux", "FLAVOR = " + fl) % {"version": v}
                                     for fl, v in sorted(blocks)))
    return s


def set_up_in_env(stack, products):
    """Make `products` [(name, version)] look set up to the command: SETUP_<NAME> and <NAME>_DIR as `setup` leaves them."""
    for n, v in products:
        os.environ["SETUP_" + n.upper()] = "%s %s -f %s -Z %s" % (n, v, FLAVOR, stack)
        os.environ[n.upper() + "_DIR"] = os.path.join(stack, FLAVOR, n, v)


def readonly_database(stack):
    """Make the stack's ups_db look non-writable to eups in this (forked) process: for paths inside the stack
    `utils.isDbWritable` answers False, as `os.access` does for a user without write permission (a root-run harness
    cannot take the permission away); every other path (the user's data directory) is judged as before."""
    U = common.eups_mod("utils")
    orig = U.isDbWritable
    prefix = os.path.realpath(stack) + os.sep

    def is_db_writable(dbpath, create=False):
        if (os.path.realpath(dbpath) + os.sep).startswith(prefix):
            return False
        return orig(dbpath, create)
    U.isDbWritable = is_db_writable


def point_env_at(root):
    os.environ["EUPS_PATH"] = os.path.join(root, "stack0")
    os.environ["EUPS_USERDATA"] = os.path.join(root, "userdataA")


# ---- canonical forms ---------------------------------------------------------------------------------

def canon_listing(lst):
    """[(Product, optional, depth)] -> [[name, version|None, real?, optional, depth]]"""
    return [[p.name, p.version, p.flavor is not None, bool(o), d] for p, o, d in lst]


def canon_users(lst):
    """[(user, userVersion, Props)] -> [[user, version, needed version|None, optional, depth]]"""
    return [[u, uv, pr.version, bool(pr.optional), pr.depth] for u, uv, pr in lst]


def err_class(ex):
    """Small enum for exceptions (messages are never compared)."""
    name = type(ex).__name__
    if isinstance(ex, RecursionError):
        return "Recursion"
    if name == "RuntimeError":
        msg = str(ex)
        return "Cycle" if ("cyclic" in msg or msg.startswith("([") or msg.startswith("(")) else "Other(RuntimeError)"
    if name == "TypeError":
        return "Unsortable"
    if name == "ProductNotFound":
        return "NotFound"
    if name == "TableFileNotFound":
        return "TableError"
    if name == "EupsException":
        if "is required by product" in str(ex):
            return "Refused"
        if "is already setup" in str(ex):
            return "IsSetup"
        if "do not have permission" in str(ex):
            return "NoPermission"
        return "Other(EupsException)"
    return "Other(%s)" % name


# ---- running the command line with the API observed ---------------------------------------------------

class Recorder:
    """Wraps methods of eups.Eups.Eups so that the outermost call's result (or exception) is recorded."""

    def __init__(self):
        self.records = []
        self._depth = {}

    def wrap(self, cls, name, canon):
        orig = getattr(cls, name)
        rec = self

        def wrapper(self_, *a, **kw):
            rec._depth[name] = rec._depth.get(name, 0) + 1
            try:
                res = orig(self_, *a, **kw)
            except BaseException as ex:  # noqa
                rec._depth[name] -= 1
                if rec._depth[name] == 0:
                    rec.records.append((name, a, kw, ("error", err_class(ex))))
                raise
            rec._depth[name] -= 1
            if rec._depth[name] == 0:
                rec.records.append((name, a, kw, ("ok", canon(res))))
            return res

        setattr(cls, name, wrapper)
        return orig


def run_cli(args, record=("getDependentProducts", "uses")):
    """Run `eups <args>` in this process.  Returns {"rc": exit code | None, "error": class | None,
    "records": [(method, result)], "stdout": text}.  Call inside a forked child."""
    common.import_eups()
    import eups.cmd
    M = common.eups_mod("Eups")
    rec = Recorder()
    if "getDependentProducts" in record:
        rec.wrap(M.Eups, "getDependentProducts", canon_listing)
    if "uses" in record:
        rec.wrap(M.Eups, "uses", lambda r: canon_users(r) if isinstance(r, list) else "UsesObject")
    out, err = io.StringIO(), io.StringIO()
    rc, error = None, None
    with contextlib.redirect_stdout(out), contextlib.redirect_stderr(err):
        try:
            rc = eups.cmd.EupsCmd(args=list(args), toolname="eups").run()
        except SystemExit as ex:
            rc = ex.code
        except BaseException as ex:  # noqa
            error = err_class(ex)
    return {"rc": rc, "error": error, "stdout": out.getvalue(),
            "records": [(name, res) for name, a, kw, res in rec.records]}


def cli_eups(cmdname, args):
    """An Eups configured exactly as the command line `eups <cmdname> <args>` configures it
    (option parsing, Eups constructor arguments, selectVRO, user data dir, callbacks)."""
    common.import_eups()
    import eups.cmd
    top = eups.cmd.EupsCmd(args=[cmdname] + list(args), toolname="eups")
    ecmd = eups.cmd.makeEupsCmd(top.cmd, top)
    return ecmd


def preimport():
    """Import (never construct) the command-line module in the parent, so that forked children do not pay for it."""
    common.import_eups()
    import eups.cmd  # noqa: F401


def quietly(fn, *a, **kw):
    with contextlib.redirect_stdout(io.StringIO()), contextlib.redirect_stderr(io.StringIO()):
        return fn(*a, **kw)


# ---- file-system observation (C14) --------------------------------------------------------------------

def snapshot(stack):
    """{relative path: sha1 of content | 'dir'} for everything under the stack except lock debris."""
    import hashlib
    out = {}
    for dp, dn, fn in os.walk(stack):
        dn[:] = [d for d in dn if d != ".lockDir"]
        rel = os.path.relpath(dp, stack)
        if rel != ".":
            out[rel + "/"] = "dir"
        for f in fn:
            p = os.path.join(dp, f)
            with open(p, "rb") as fh:
                out[os.path.relpath(p, stack)] = hashlib.sha1(fh.read()).hexdigest()[:10]
    return out


def _groups(path):
    """[{KEY: value}] for the groups of a version or chain file"""
    out, cur = [], None
    with open(path) as fh:
        for line in fh:
            line = line.strip()
            if line.lstrip("#").startswith("Group:"):
                cur = {}
                out.append(cur)
            elif cur is not None and "=" in line:
                k, v = line.split("=", 1)
                cur[k.strip()] = v.strip().strip('"')
    return out


def db_listing(stack, flavor=FLAVOR, others=False):
    """What a fresh reader of the database files sees for `flavor` (with `others`: for every other flavor, each entry
    followed by its flavor): declared (name, version) and tags."""
    db = os.path.join(stack, "ups_db")
    decl, tags = [], []
    for n in sorted(os.listdir(db)):
        d = os.path.join(db, n)
        if not os.path.isdir(d):
            continue
        for f in sorted(os.listdir(d)):
            if f.endswith(".version"):
                for g in _groups(os.path.join(d, f)):
                    if (g.get("FLAVOR") != flavor) == others:
                        decl.append([n, f[:-len(".version")]] + ([g.get("FLAVOR")] if others else []))
            elif f.endswith(".chain"):
                for g in _groups(os.path.join(d, f)):
                    if (g.get("FLAVOR") != flavor) == others:
                        tags.append([n, f[:-len(".chain")], g.get("VERSION")] + ([g.get("FLAVOR")] if others else []))
    return {"decl": decl, "tags": tags}
