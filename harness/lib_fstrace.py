"""File-system effect tracer and crash injector for the database record writers (C08).

Installed inside a forked child.  Two sources of events:
* `sys.addaudithook`: `open` for writing, `os.rename`, `os.remove` (= unlink), `os.mkdir`, `os.rmdir`,
  `os.truncate` — each fires *before* the system call, which is where a kill is injected;
* a wrapped `open` in `eups.db.VersionFile` and `eups.db.ChainFile`: every `print(..., file=fd)` of the writers
  becomes one `write` effect that is flushed to disk at once (so a kill after it leaves exactly that prefix),
  and `close` is an effect of its own.

Only paths below the watched directory (the stack's ups_db) are reported.  `crash_at=k` makes the process
`os._exit(77)` immediately before effect number k (0-based); effects 0..k-1 have then been carried out and are on
disk."""
import builtins
import os
import sys

from . import common

WRITE_FLAGS = os.O_WRONLY | os.O_RDWR | os.O_CREAT | os.O_TRUNC | os.O_APPEND
CRASH_STATUS = 77


class Tracer:
    def __init__(self, watch, crash_at=None, log_fd=None, also=()):
        self.watch = watch.rstrip("/") + "/"
        self.also = [a.rstrip("/") + "/" for a in also]      # further watched directories (reported with full paths)
        self.crash_at = crash_at
        self.events = []
        self.active = False
        self.log_fd = log_fd          # effects are also written here (survives the kill)
        self._wrapped_paths = set()

    # -- one effect -----------------------------------------------------------------------------
    def effect(self, kind, *paths):
        """Called immediately before the effect is carried out."""
        if not self.active:
            return
        if self.crash_at is not None and len(self.events) == self.crash_at:
            os._exit(CRASH_STATUS)
        ev = (kind,) + tuple(p[len(self.watch):] if p.startswith(self.watch) else p for p in paths)
        self.events.append(ev)
        if self.log_fd is not None:
            os.write(self.log_fd, ("\t".join(ev) + "\n").encode())

    def watched(self, p):
        if not isinstance(p, str):
            return False
        p = os.path.abspath(p)
        return p.startswith(self.watch) or any(p.startswith(a) for a in self.also)

    # -- audit hook -------------------------------------------------------------------------------
    def hook(self, ev, args):
        if not self.active:
            return
        try:
            if ev == "open":
                path, mode, flags = args[0], args[1], args[2]
                if isinstance(flags, int) and (flags & WRITE_FLAGS) and self.watched(path):
                    path = os.path.abspath(path)
                    if path in self._wrapped_paths:
                        return                  # reported by the wrapper
                    self.effect("trunc" if os.path.exists(path) and (flags & os.O_TRUNC) else
                                "creat" if not os.path.exists(path) else "open-w", path)
            elif ev == "os.rename":
                if self.watched(args[0]) or self.watched(args[1]):
                    self.effect("rename", os.path.abspath(args[0]), os.path.abspath(args[1]))
            elif ev == "os.remove":
                if self.watched(args[0]):
                    self.effect("unlink", os.path.abspath(args[0]))
            elif ev == "os.mkdir":
                if self.watched(args[0]):
                    self.effect("mkdir", os.path.abspath(args[0]))
            elif ev == "os.rmdir":
                if self.watched(args[0]):
                    self.effect("rmdir", os.path.abspath(args[0]))
            elif ev == "os.truncate":
                if self.watched(args[0]):
                    self.effect("trunc", os.path.abspath(args[0]))
        except SystemExit:
            raise

    # -- wrapped open for the record writers --------------------------------------------------------
    def _open(self, file, mode="r", *a, **kw):
        if isinstance(file, str) and any(c in mode for c in "wax+") and self.watched(file) and self.active:
            path = os.path.abspath(file)
            self.effect("trunc" if os.path.exists(path) else "creat", path)
            self._wrapped_paths.add(path)
            try:
                f = builtins.open(file, mode, *a, **kw)
            finally:
                self._wrapped_paths.discard(path)
            return _File(self, f, path)
        return builtins.open(file, mode, *a, **kw)

    def wrap_copy2(self, module):
        """`module.shutil.copy2` (as used by eups.utils.copyfile): the audit hook reports the `open` of the destination
        (creat/trunc) before the copy; the copy itself is one call, so its `write` and `close` are reported after it
        (a kill at either point finds the destination complete)."""
        real, tr = module.shutil, self

        class _Shutil:
            def __getattr__(self, n):
                return getattr(real, n)

            def copy2(self, src, dst, *a, **kw):
                r = real.copy2(src, dst, *a, **kw)
                if tr.watched(dst):
                    tr.effect("write", os.path.abspath(dst))
                    tr.effect("close", os.path.abspath(dst))
                return r
        module.shutil = _Shutil()

    def wrap_atomicfile(self, module):
        """`eups.utils.AtomicFile` (the product cache): the temporary file is created by tempfile.NamedTemporaryFile
        (its `open` is reported by the audit hook as creat), then written through a *buffered* file object - write()
        reaches the disk only at flush/close, and a killed process loses what is still buffered - then os.fsync, close,
        os.rename.  write / flush / fsync / close become effects (and crash points) here WITHOUT changing the buffering."""
        tr = self
        real_tempfile, real_os = module.tempfile, module.os

        class _Buffered:
            def __init__(self, f):
                self._f, self._p = f, os.path.abspath(f.name)

            def write(self, x):
                tr.effect("write", self._p)
                return self._f.write(x)

            def flush(self):
                tr.effect("flush", self._p)
                return self._f.flush()

            def close(self):
                tr.effect("close", self._p)
                return self._f.close()

            def fileno(self):
                return self._f.fileno()

            def __getattr__(self, n):
                return getattr(self._f, n)

            def __enter__(self):
                return self

            def __exit__(self, *a):
                self.close()

        class _Tempfile:
            def __getattr__(self, n):
                return getattr(real_tempfile, n)

            def NamedTemporaryFile(self, *a, **kw):
                f = real_tempfile.NamedTemporaryFile(*a, **kw)
                return _Buffered(f) if tr.watched(f.name) and tr.active else f

        class _Os:
            def __getattr__(self, n):
                return getattr(real_os, n)

            def fsync(self, fd):
                if isinstance(fd, _Buffered):
                    tr.effect("fsync", fd._p)
                    return real_os.fsync(fd.fileno())
                return real_os.fsync(fd)
        module.tempfile = _Tempfile()
        module.os = _Os()

    def install(self):
        sys.addaudithook(self.hook)
        for m in ("db.VersionFile", "db.ChainFile"):
            common.eups_mod(m).open = self._open
        self.active = True


class _File:
    def __init__(self, tracer, f, path):
        self._t, self._f, self._p = tracer, f, path
        self._last_was_write = False

    def write(self, x):
        if x == "\n" and self._last_was_write:
            r = self._f.write(x)           # the newline `print` adds: same effect as the text before it
        else:
            self._t.effect("write", self._p)
            r = self._f.write(x)
            self._last_was_write = True
        self._f.flush()
        return r

    def flush(self):
        return self._f.flush()

    def close(self):
        self._t.effect("close", self._p)
        return self._f.close()

    def fileno(self):
        return self._f.fileno()

    def __getattr__(self, n):
        return getattr(self._f, n)

    def __enter__(self):
        return self

    def __exit__(self, *a):
        self.close()
