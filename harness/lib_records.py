"""Helpers shared by the database-record harnesses (C16, C08): deterministic stamps, reading record
files the way a fresh reader does, walking a scratch tree, exception names."""
import os
import sys

from . import common

WHO = "tester"


def silence():
    """Call inside a forked child/worker: send everything written to fds 1 and 2 (eups chatter, including
    the streams eups captured at import time) to /dev/null.  Results travel over the pipes of common.py."""
    sys.stdout.flush()
    sys.stderr.flush()
    dn = os.open(os.devnull, os.O_WRONLY)
    os.dup2(dn, 1)
    os.dup2(dn, 2)
    os.close(dn)


class Clock:
    """Deterministic replacement of ctimeTZ() in the two record modules: T<n>, n = 1, 2, ..."""

    def __init__(self, start=0):
        self.n = start

    def __call__(self):
        self.n += 1
        return "T%d" % self.n


def patch_stamps(start=0):
    """Make the declarer / time stamps the record writers put into files deterministic (in this process)."""
    VF = common.eups_mod("db.VersionFile")
    CF = common.eups_mod("db.ChainFile")
    clock = Clock(start)
    VF.who = CF.who = WHO
    VF.ctimeTZ = CF.ctimeTZ = clock
    return clock


def exc_name(e):
    """Small enum of the exceptions the record code raises."""
    t = type(e).__name__
    s = str(e)
    if t == "RuntimeError":
        if s.startswith("Unexpected line"):
            return "UnexpectedLine"
        if s.startswith("Expected"):
            return "BadFile"
        return "RuntimeError"
    if t == "AttributeError" and "group" in s:
        return "NoMatch"
    if t == "ProductNotFound":
        return "NotFound"
    if t == "UnboundLocalError":
        return "Unbound"
    return t


def read_text(path):
    try:
        with open(path, encoding="utf-8", newline="") as f:
            return f.read()
    except FileNotFoundError:
        return None


def walk(root, skip=("userdata",), followlinks=False):
    """Every directory and file under root (absolute), except the users' data directories.  With followlinks the
    entries below a symbolic link to a directory are listed under the link's name too."""
    out = [root]
    for d, dirs, files in os.walk(root, followlinks=followlinks):
        dirs[:] = sorted(x for x in dirs if not (d == root and x.startswith(skip)))
        for x in dirs:
            out.append(os.path.join(d, x))
        for x in sorted(files):
            out.append(os.path.join(d, x))
    return out


def info_of_versionfile(vf):
    """The observable part of a VersionFile object."""
    keys = ("declarer", "declared", "modifier", "modified", "productDir", "ups_dir", "table_file")
    return {"name": vf.name, "version": vf.version,
            "flavors": [[fq, {k: i[k] for k in keys if k in i}] for fq, i in vf.info.items()]}


def info_of_chainfile(cf):
    keys = ("version", "declarer", "declared", "modifier", "modified")
    return {"name": cf.name, "tag": cf.tag,
            "flavors": [[fq, {k: i[k] for k in keys if k in i}] for fq, i in cf.info.items()]}


def subst(x, pairs):
    """Replace scratch paths by symbolic names everywhere in a JSON-like value (for replay files)."""
    if isinstance(x, str):
        for a, b in pairs:
            x = x.replace(a, b)
        return x
    if isinstance(x, list):
        return [subst(y, pairs) for y in x]
    if isinstance(x, tuple):
        return [subst(y, pairs) for y in x]
    if isinstance(x, dict):
        return {subst(k, pairs) if isinstance(k, str) else k: subst(v, pairs) for k, v in x.items()}
    return x
