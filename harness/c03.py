"""C03 — the version chosen is the one the Version Resolution Order designates.

Implementation: Eups.selectVRO / `eups vro`, Eups.findProductFromVRO, and the flavor loop of Eups.setup, run in
forked children on databases written directly as version/chain files.
Model: lean/EupsModel/Model/Vro.lean through the driver handler "c03" (ops selectVRO, selectVROTwice, find, resolve).
Oracle (ii): the property's text evaluated on the implementation's answers from the generator's description of
the database (`spec_*` below) — a left-to-right reading of the VRO with the per-entry meaning the property gives,
written without the model; the version order used there is plain numeric comparison of dotted versions."""
import contextlib
import io
import json
import os
import re
import time

from . import common
from .common import parallel_map

RULE = ("streams: (A) selectVRO under subsets of {-t tags, -T tags, keep, exact, inexact, explicit version, -r, -z} "
        "and six VRO dictionaries (the default one exhaustively), also through `eups vro`; (B) findProductFromVRO on "
        "databases of 1-3 stacks x 1-2 products x 7 versions x 2 flavors x 3 tags written as version/chain files, with "
        "requests in {none, explicit present/absent, >=, <, ==, ||, && expressions, version [expr]}, VROs from stream A "
        "and hand-written ones (user tags spelled `mine` / `user:mine`, `global:t` / `:t`, the `setup` pseudo-tag with SETUP_<NAME> "
        "naming a declared / undeclared / LOCAL: version, a flavor and a stack or none), LOCAL:<dir> versions of an existing and a "
        "missing directory, through the files, the cache (accepted and rebuilt) and noCache on a cached instance; "
        "(C) the flavor loop through Eups.setup at depth 0 and 1; (D) one dependency named in a table file, with -t/--vro/-k on "
        "the line; (E) tables of 2-3 lines for different products, the first mostly with -k or -t, other versions of the "
        "products already set up: each line's answer and the command's VRO afterwards; C and D under four configured flavor chains "
        "(two in which a fallback's name sorts before the native one) and with --exact and user pre-tags; (F) `eups vro ARGS` against "
        "the VRO `setup ARGS` resolves with; (G) Eups.findProduct and findTaggedProduct on generated tag files; (H) Eups.setEupsPath on "
        "generated path texts; (I) histories of 2-4 top-level requests (setup topK / unsetup topK / setup dep [version]) served by ONE Eups "
        "object.  A lookup is non-trivial when the database holds a "
        "declaration of the product for the flavor asked; distinct = distinct (database, request, VRO, mode) digests")
TRUSTED = ["the driver instantiates the model's order with C10's model of version_cmp / version_match (Model/VersionCmp.lean, "
           "verified by C10); it is compared with Eups.version_cmp / version_match on the generator's names on every run",
           "which flavors a fresh process loads for a stack (accepted cache: native + fallback flavors; rebuilt: all) is an "
           "input of the model (interface with C07); the harness checks the prediction on every cached child",
           "user tags are laid out by the harness as chain files in <userdata>/_caches_<stack>/<product>/ and registered through "
           "hooks.config.Eups.userTags; SETUP_<NAME> is written as `name version -f flavor [-Z stack]` (what `setup` records)",
           "`file:` spellings and -t <file> in selectVRO (a VRO entry naming a tag file is modelled), tag groups other than global/user/pseudo, and the `setup` pseudo-tag "
           "under --ignore-versions (findSetupProduct then runs the older findPreferredProduct) are outside the model"]
ASSUMPTIONS = ["one Eups instance per command, except in stream I (several top-level requests on one instance: Model histStep); "
               "selectVRO is called once per instance (twice by `eups vro`, modelled)",
               "at most one version per (tag, product, flavor) and stack; version and chain files are well formed",
               "no file in the working directory is named like a tag"]

MIRRORS = [("python/eups/Eups.py", q) for q in (
    "Eups.findProductFromVRO", "Eups._findTaggedProduct", "Eups.findTaggedProduct", "Eups._findProductsByExpr",
    "Eups._selectPreferredProduct", "Eups._findLatestProduct", "Eups.selectVRO", "Eups.makeVroExact",
    "Eups._kindlySetPreferredTags", "Eups.getPreferredTags", "Eups.setPreferredTags", "Eups.getVRO", "Eups.version_match",
    "Eups.version_match_prim", "Eups.findProduct", "Eups.findProducts", "Eups.setup",
    "Eups.isLegalRelativeVersion", "Eups.__init__", "Eups._processDefaultTags", "Eups.findSetupProduct",
    "Eups.findSetupVersion", "Eups.setEupsPath", "Eups._loadUserTags", "Eups._userStackCache", "Eups.pushStack", "Eups.popStack")] + [
    ("python/eups/hooks.py", "*"), ("python/eups/tags.py", "*"),
    ("python/eups/table.py", "Action.processArgs"), ("python/eups/table.py", "Action.execute_setupRequired"),
    ("python/eups/stack/ProductStack.py", "*"), ("python/eups/stack/ProductFamily.py", "*"),
    ("python/eups/cmd.py", "VroCmd"), ("python/eups/cmd.py", "EupsCmd.createEups"), ("python/eups/setupcmd.py", "EupsSetup.run"),
    ("python/eups/setupcmd.py", "append_current"), ("python/eups/db/Database.py", "_Database.getChainFile"),
    ("python/eups/db/Database.py", "_Database.getTaggedVersion"), ("python/eups/utils.py", "userStackCacheFor"),
    ("python/eups/Eups.py", "Eups._findTaggedProductFromFile"), ("python/eups/Eups.py", "Eups.findPreferredProduct"),
    ("python/eups/Eups.py", "Eups._findPreferredProductByExpr"), ("python/eups/Product.py", "Product.createLocal"),
    ("python/eups/utils.py", "Flavor"), ("python/eups/Eups.py", "Eups.getSetupProducts"),
    ("python/eups/Eups.py", "Eups.unsetupSetupProduct")]

NATIVE = "Linux"
FLAVS = ["Linux", "generic"]              # the native flavor and its fallback: what the flavor loop visits and the cache is read for
OTHER_FLAVOR = "Darwin"                   # a flavor the process neither runs as nor falls back to
VERS = ["1.0", "1.00", "1.2", "1.10", "2.0", "10.1", "2.0.1"]
TAGS = ["current", "stable", "beta", "t"]          # `t`: a tag whose name is a substring of "path" (D33)
GLOBAL_TAGS = ["current", "stable", "beta", "t"]
USER_TAGS = ["mine"]                      # registered through hooks.config.Eups.userTags; chain records live in the user's
UTAG = "user:mine"                        # data directory and are kept under the qualified name
TAGFILE = "$R/tagfile.txt"                # a VRO entry naming an existing file is read as a tag file
LOCAL_OK, LOCAL_NO = "LOCAL:$R/ldir", "LOCAL:$R/nodir"    # $R = the scratch root; `ldir` exists, `nodir` does not
NAMES = ["p", "q"]
PREV_PREFERRED = ["version", "versionExpr", "current", "stable", "latest"]
DEFAULT_DICT = [["default", "type:exact commandLine version versionExpr current".split()]]
VT = ("version", "version!", "versionExpr")

ERRS = {"IndexError": "indexError", "TypeError": "typeError", "ValueError": "valueError",
        "UnboundLocalError": "unboundLocal", "RuntimeError": "runtimeError", "KeyError": "keyError"}


def err_enum(e):
    n = type(e).__name__
    if n == "EupsException" and "Bad expr" in str(e):
        return "badExpr"
    return ERRS.get(n, "Other(%s)" % n)


def _quiet():
    """Children only: eups binds its message streams at import time, so silence the descriptors themselves."""
    fd = os.open(os.devnull, os.O_WRONLY)
    os.dup2(fd, 1)
    os.dup2(fd, 2)


def vkey(v):
    return tuple(int(x) for x in v.split("."))


# ---- databases -----------------------------------------------------------------------------------------

def other_flavor(chain):
    return OTHER_FLAVOR if OTHER_FLAVOR not in chain else "SunOS"


def gen_world(rng, names=None, chain=None):
    """`chain` = the native flavor and its configured fallbacks, in order of preference (default: Linux, generic)"""
    FLAVS, OTHER_FLAVOR = (chain or globals()["FLAVS"]), other_flavor(chain or globals()["FLAVS"])
    NATIVE = FLAVS[0]
    n = rng.choice([1, 2, 2, 3])
    names = names or (["p"] if rng.random() < 0.6 else ["p", "q"])
    dens = rng.choice([0.15, 0.3, 0.3, 0.5])
    stacks = []
    for _ in range(n):
        decls, tags = [], []
        for nm in names:
            for v in VERS:
                for f in FLAVS + [OTHER_FLAVOR]:
                    if rng.random() < (dens if f == NATIVE else dens * 0.7 if f in FLAVS else dens * 0.15):
                        decls.append([nm, v, f])
            for t in TAGS:
                for f in FLAVS + [OTHER_FLAVOR]:
                    mine = [d[1] for d in decls if d[0] == nm and d[2] == f]
                    if f == OTHER_FLAVOR and not mine:
                        continue
                    r = rng.random() * (1.0 if t != "t" else 2.0)
                    if r < 0.45 and mine:
                        tags.append([t, nm, f, rng.choice(mine)])
                    elif r < 0.55 and any(d[0] == nm for d in decls):
                        # a chain entry for a version that is not declared here for this flavor
                        tags.append([t, nm, f, rng.choice(VERS)])
            for f in FLAVS:
                mine = [d[1] for d in decls if d[0] == nm and d[2] == f]
                r = rng.random()
                if r < 0.3 and mine:
                    tags.append([UTAG, nm, f, rng.choice(mine)])
                elif r < 0.36 and any(d[0] == nm for d in decls):
                    tags.append([UTAG, nm, f, rng.choice(VERS)])
        stacks.append({"decls": sorted(decls), "tags": sorted(tags)})
    return {"stacks": stacks}


def write_world(root, world):
    stacks, uds = common.mkstacks(root, len(world["stacks"]), extra_tags=("beta", "t"), default_product=True)
    for ud in uds.values():
        with open(os.path.join(ud, "startup.py"), "a") as fd:
            fd.write("hooks.config.Eups.userTags += [%s]\n" % ", ".join(repr(t) for t in USER_TAGS))
    os.makedirs(os.path.join(root, "ldir"), exist_ok=True)
    userdata = os.environ["EUPS_USERDATA"]
    old = time.time() - 5000
    for s, st in zip(stacks, world["stacks"]):
        byv = {}
        for nm, v, f in st["decls"]:
            byv.setdefault((nm, v), []).append(f)
        for (nm, v), fl in byv.items():
            d = os.path.join(s, "ups_db", nm)
            os.makedirs(d, exist_ok=True)
            with open(os.path.join(d, v + ".version"), "w") as fd:
                fd.write("FILE = version\nPRODUCT = %s\nVERSION = %s\n" % (nm, v))
                for f in fl:
                    # a distinct (non-existent) directory per declaration: `setup` treats equal directories as
                    # "already set up"
                    fd.write("Group:\n   FLAVOR = %s\n   QUALIFIERS = \"\"\n   PROD_DIR = %s\n   UPS_DIR = none\n"
                             "   TABLE_FILE = none\nEnd:\n" % (f, os.path.join(s, f, nm, v)))
        byt = {}
        for t, nm, f, v in st["tags"]:
            byt.setdefault((nm, t), []).append((f, v))
        for (nm, t), ents in byt.items():
            d = os.path.join(s, "ups_db", nm)
            if not os.path.isdir(d):
                continue
            if t.startswith("user:"):
                # the user's tag area for this stack: <userdata>/_caches_<absolute stack path>/<product>/<tag>.chain
                d = os.path.join(userdata, "_caches_") + os.path.join(s, nm)
                os.makedirs(d, exist_ok=True)
                t = t[len("user:"):]
            with open(os.path.join(d, t + ".chain"), "w") as fd:
                fd.write("FILE = version\nPRODUCT = %s\nCHAIN = %s\n" % (nm, t))
                for f, v in ents:
                    fd.write("#Group:\n   FLAVOR = %s\n   VERSION = %s\n   QUALIFIERS = \"\"\n#End:\n" % (f, v))
        for top in (s, os.path.join(userdata, "_caches_") + s):
            for dp, dn, fn in os.walk(top):
                for x in [dp] + [os.path.join(dp, f) for f in fn]:
                    os.utime(x, (old, old))
    return stacks


def declared_flavors(st):
    return sorted({d[2] for d in st["decls"]} | set(FLAVS))


def accepted_stacks(world, mode):
    """The load-versus-rebuild rule (DESIGN C07) on a primed, untouched cache, after fix 9143b09: the process reads the
    cache for the native flavor and its fallbacks; the cache of a stack is accepted iff the product names it lists
    (those declared for one of these flavors) are all the product names of the stack's database; otherwise the stack
    is rebuilt and every flavor is loaded."""
    if not mode.endswith("accepted"):
        return [False] * len(world["stacks"])
    return [{d[0] for d in st["decls"] if d[2] in FLAVS} == {d[0] for d in st["decls"]} for st in world["stacks"]]


# ---- oracle (ii): the property's text, evaluated on the generator's description ------------------------

_RELOP = re.compile(r"<=?|>=?|==")


def spec_sat(v, expr):
    """`v` satisfies the relational expression (|| of && of `op version` terms), numerically."""
    def term(t):
        m = re.match(r"^\s*(<=|>=|==|<|>)?\s*([0-9.]+)\s*$", t)
        if not m:
            raise ValueError(t)
        op, w = m.group(1) or "==", m.group(2)
        a, b = vkey(v), vkey(w)
        return {"<": a < b, "<=": a <= b, "==": a == b, ">": a > b, ">=": a >= b}[op]
    return any(all(term(t) for t in conj.split("&&")) for conj in expr.split("||"))


def spec_first_stack(world, pred):
    for i, st in enumerate(world["stacks"]):
        r = pred(st)
        if r is not None:
            return i, r
    return None


def spec_tag_key(ent):
    """The tag an entry names, however it is spelled: `t`, `global:t`, `:t`; a user tag `mine` or `user:mine`."""
    if ent in GLOBAL_TAGS:
        return ent
    if ent in USER_TAGS:
        return "user:" + ent
    if ent.startswith("user:") and ent[5:] in USER_TAGS:
        return ent
    for pre in ("global:", ":"):
        if ent.startswith(pre) and ent[len(pre):] in GLOBAL_TAGS:
            return ent[len(pre):]
    return None


def spec_tagfile(world, name, flavor, tagfile):
    """What a tag file designates (from the generator's description of its lines); None = the property is silent."""
    want = None
    for ln in tagfile["lines"]:
        if ln[0] == "bad":
            return None
        if ln[0] == "pair" and ln[1] == name:
            want = ln[2]
            break
    if want is None:
        return set()
    if _RELOP.search(want) or want.startswith("LOCAL:"):
        return None
    r = spec_first_stack(world, lambda st: True if [name, want, flavor] in st["decls"] else None)
    return {(want, r[0])} if r else None      # declared nowhere: a loud failure (checked in stream G)


def spec_entry(world, name, flavor, ent, version, setup=None, tagfile=None):
    if ent == TAGFILE:
        return spec_tagfile(world, name, flavor, tagfile) if tagfile else None
    """The set of (version, stack) answers the property allows entry `ent` to give; empty = the entry does not
    apply; None = the property does not speak about this entry."""
    def decl(st, v):
        return [name, v, flavor] in st["decls"]
    if ent in VT:
        if version is None:
            return set()
        if _RELOP.search(version):
            if ent != "versionExpr":
                return set()
            # "the highest declared version satisfying the expression" (from the first stack declaring it)
            sat = {}
            for i, st in enumerate(world["stacks"]):
                for nm, v, f in st["decls"]:
                    if nm == name and f == flavor and spec_sat(v, version) and v not in sat:
                        sat[v] = i
            if not sat:
                return set()
            top = max(vkey(v) for v in sat)
            return {(v, i) for v, i in sat.items() if vkey(v) == top}
        # "the explicitly named version from the first stack declaring it"
        r = spec_first_stack(world, lambda st: True if decl(st, version) else None)
        return {(version, r[0])} if r else set()
    if ent == "latest":
        best = {}
        for i, st in enumerate(world["stacks"]):
            for nm, v, f in st["decls"]:
                if nm == name and f == flavor and v not in best:
                    best[v] = i
        if not best:
            return set()
        top = max(vkey(v) for v in best)
        return {(v, i) for v, i in best.items() if vkey(v) == top}
    key = spec_tag_key(ent)
    if key is not None:
        # "the version carrying that tag in the first stack on the path that has it"
        def carries(st):
            for t, nm, f, v in st["tags"]:
                if t == key and nm == name and f == flavor and decl(st, v):
                    return v
            return None
        r = spec_first_stack(world, carries)
        return {(r[1], r[0])} if r else set()
    if ent == "setup":
        # the version that is set up, when it is set up for the flavor asked and is a version of the stack it names
        if not setup or setup["flavor"] != flavor:
            return set()
        if setup["version"].startswith("LOCAL:"):
            return {(setup["version"], -1 if setup["stack"] is None else setup["stack"])}
        if setup["stack"] is None or not decl(world["stacks"][setup["stack"]], setup["version"]):
            return set()
        return {(setup["version"], setup["stack"])}
    if ent in ("path", "keep", "commandLine") or ent.startswith("type:") or re.match(r"^warn:\d+$", ent):
        return set()          # directives: with nothing set up beforehand they select nothing
    return None


def spec_walk(world, name, flavor, vro, version, setup=None, tagfile=None):
    """('hit', answers, entry) | ('none',) | ('unspecified',): read the VRO left to right; the first entry that
    applies designates the product; a request that names a version or expression does not fall through to tags
    once no version entry is left."""
    for i, ent in enumerate(vro):
        ans = spec_entry(world, name, flavor, ent, version, setup, tagfile)
        if ans is None:
            return ("unspecified",)
        if ans:
            return ("hit", ans, ent)
        if ent in VT and version is not None and not any(e in VT for e in vro[i + 1:]):
            return ("none",)
    return ("none",)


# ---- stream A: selectVRO ---------------------------------------------------------------------------------

DICTS = {
    "default": DEFAULT_DICT,
    "hooks-else": [["default", "commandLine version versionExpr current".split()],
                   ["commandLine", [["default", "type:exact commandLine version versionExpr current".split()]]]],
    "tagkey": [["default", "version versionExpr current latest".split()], ["beta", "beta version warn:2 latest".split()]],
    "noversion": [["default", "current latest".split()]],
    "warns": [["default", "commandLine warn:2 warn version warn:3 warn:1 versionExpr current current latest".split()]],
    "dbz": [["default", [["default", "version current".split()], ["stack0", "current version versionExpr".split()]]]],
    "early-version": [["default", "version commandLine current versionExpr stable".split()]],
}
A_TAGS = [[], ["beta"], ["stable", "beta"], ["current"], ["bogus"], ["beta", "beta"], ["t"], ["mine"], ["mine", "beta"], ["beta", "mine"]]
A_POST = [[], ["stable"], ["beta", "current"], ["beta"], ["t", "stable"], ["mine"]]


def dict_to_hooks(d):
    out = {}
    for k, v in d:
        out[k] = {kk: " ".join(vv) for kk, vv in v} if v and isinstance(v[0], list) else " ".join(v)
    return out


def gen_a(rng, dname=None, full=None):
    if full is not None:
        return full
    c = {"dict": dname or rng.choice(list(DICTS)), "userVRO": rng.random() < 0.08,
         "keep": rng.random() < 0.4, "exact": rng.random() < 0.4,
         "tags": rng.choice(A_TAGS), "postTags": rng.choice(A_POST), "versionName": rng.random() < 0.5,
         "productDir": rng.choice([None, None, None, "/some/dir", "none"]),
         "dbz": rng.choice([None, None, "stack0", "elsewhere"]), "inexact": rng.random() < 0.25,
         "cli": rng.random() < 0.4}
    if c["cli"]:            # `eups vro` has neither --keep nor --inexact
        c["keep"] = c["inexact"] = c["userVRO"] = False
    return c


def all_default_a():
    out = []
    for keep in (False, True):
        for exact in (False, True):
            for tags in A_TAGS:
                for post in A_POST:
                    for ver in (False, True):
                        for inexact in (False, True):
                            out.append({"dict": "default", "userVRO": False, "keep": keep, "exact": exact, "tags": tags,
                                        "postTags": post, "versionName": ver, "productDir": None, "dbz": None,
                                        "inexact": inexact, "cli": False})
    return out


def a_cli_ok(c):
    """`eups vro` has no --keep / --inexact; a bogus tag is refused by option handling we do not model."""
    return (not c["keep"] and not c["inexact"] and not c["userVRO"] and "bogus" not in c["tags"]
            and c["dbz"] != "elsewhere")


def a_impl_one(c):
    _quiet()
    hooks = common.eups_mod("hooks")
    hooks.config.Eups.VRO = dict_to_hooks(DICTS[c["dict"]])
    quiet = io.StringIO()
    try:
        with contextlib.redirect_stderr(quiet), contextlib.redirect_stdout(quiet):
            if c.get("cli") and a_cli_ok(c):
                cmdm = common.eups_mod("cmd")
                args = ["vro"]
                for t in c["tags"]:
                    args += ["-t", t]
                for t in c["postTags"]:
                    args += ["-T", t]
                if c["exact"]:
                    args += ["-e"]
                if c["productDir"]:
                    args += ["-r", c["productDir"]]
                if c["dbz"]:
                    args += ["-z", c["dbz"]]
                args += ["p"] + (["1.0"] if c["versionName"] else [])
                out = io.StringIO()
                with contextlib.redirect_stdout(out):
                    cmd = cmdm.EupsCmd(args=args, toolname="eups")
                    rc = cmd.run()
                return {"out": "ok", "vro": out.getvalue().split(), "rc": rc}
            kw = dict(keep=c["keep"], exact_version=c["exact"])
            if c["userVRO"]:
                kw["vro"] = "version beta warn current"
            E = common.new_eups(**kw)
            E.selectVRO(c["tags"] or None, c["productDir"], "1.0" if c["versionName"] else None, c["dbz"],
                        inexact_version=c["inexact"], postTag=c["postTags"] or None)
            return {"out": "ok", "vro": list(E.getVRO()), "exact": bool(E.exact_version)}
    except Exception as e:  # noqa
        return {"out": "err", "err": err_enum(e)}


def a_impl_chunk(cases):
    root = common.scratch("c03a")
    try:
        write_world(root, {"stacks": [{"decls": [["p", "1.0", NATIVE]], "tags": []}, {"decls": [], "tags": []}]})
        res = []
        for c in cases:
            r = common.in_child(a_impl_one, c)
            res.append(r[1] if r[0] == "ok" else {"out": "child", "err": list(r[:3])})
        return res
    finally:
        common.rmtree(root)


def a_model_req(c):
    cli = bool(c.get("cli") and a_cli_ok(c))
    d = [["commandLine", "version beta warn current".split()]] if c["userVRO"] else DICTS[c["dict"]]
    return {"m": "c03", "op": "selectVROTwice" if cli else "selectVRO",
            # in selectVRO a user tag is treated like a global one (recognised; moved by --exact)
            "cfg": {"vroDict": d, "userVRO": c["userVRO"], "keep": c["keep"] and not cli, "exact": c["exact"],
                    "globalTags": GLOBAL_TAGS + USER_TAGS + ["root"], "cmdTags": [], "prevPreferred": PREV_PREFERRED},
            "args": {"tags": c["tags"], "productDir": bool(c["productDir"]) and c["productDir"] != "none",
                     "versionName": c["versionName"], "dbz": c["dbz"], "inexact": c["inexact"], "postTags": c["postTags"]}}


def a_canon_model(c, ans):
    if "bad-op" in ans:
        return {"out": "bad-op", "err": ans["bad-op"]}
    if ans["out"] != "ok":
        return {"out": "err", "err": ans["err"]}
    if c.get("cli") and a_cli_ok(c):
        return {"out": "ok", "vro": ans["vro"], "rc": 0}
    return {"out": "ok", "vro": ans["vro"], "exact": ans["exact"]}


A_KNOWN = GLOBAL_TAGS + USER_TAGS         # registered tags: the -t / -T clauses speak about these


def dict_lists(d):
    out = []
    for _, v in d:
        out += [vv for _, vv in v] if v and isinstance(v[0], list) else [v]
    return out


def shaped(lst):
    """The shape under which the placement clauses are claimed for a dictionary list (ShapedBaseW, read off the list
    itself): no version-type entry stands in front of the last `commandLine` / `type:*` entry."""
    last = max([i for i, e in enumerate(lst) if e == "commandLine" or re.match(r"^type:.+", e)], default=-1)
    return not any(e in VT for e in lst[:last + 1])


def a_oracle(c, out):
    """Positions of the -t / -T tags in the VRO the implementation produced: for the default dictionary (what the
    property quantifies over) and for every other dictionary all of whose lists have the shape the general theorem asks."""
    if c["userVRO"] or out.get("out") != "ok":
        return
    lists = dict_lists(DICTS[c["dict"]])
    if c["dict"] != "default" and not all(shaped(l) for l in lists):
        return
    vro = out["vro"]
    vts = [i for i, e in enumerate(vro) if e in VT]
    general = c["dict"] != "default"
    if general:
        # the clauses of C03_pretag_before_version_any_dict / C03_posttag_after_version_any_dict
        for t in c["tags"]:
            if t in A_KNOWN and (t not in vro or (vts and vro.index(t) > vts[0])):
                yield ("pretag_before_version", "-t %s is not in front of the version entries of %s (dictionary %s)" % (t, vro, c["dict"]))
        for t in c["postTags"]:
            if t not in A_KNOWN or t in c["tags"] or not all(any(e in VT for e in l) for l in lists):
                continue
            if any(t in l and any(e in VT for e in l[l.index(t) + 1:]) for l in lists):
                continue        # the dictionary itself lists the tag in front of a version entry
            if t not in vro or (vts and vro.index(t) < vts[-1]):
                yield ("posttag_after_version", "-T %s is not behind the version entries of %s (dictionary %s)" % (t, vro, c["dict"]))
        return
    for t in c["tags"]:
        if t not in A_KNOWN:
            continue
        if t not in vro:
            yield ("pretag_before_version", "-t %s is not on the VRO %s" % (t, vro))
        elif vts and vro.index(t) > vts[0]:
            yield ("pretag_before_version", "-t %s stands behind a version entry in %s" % (t, vro))
    for t in c["postTags"]:
        if t not in A_KNOWN or t in c["tags"]:
            continue
        if t not in vro:
            yield ("posttag_after_version", "-T %s is not on the VRO %s" % (t, vro))
        elif vts and vro.index(t) < vts[-1]:
            yield ("posttag_after_version", "-T %s stands before a version entry in %s" % (t, vro))
    if len([e for e in vro if not e.startswith("warn")]) != len(set(e for e in vro if not e.startswith("warn"))):
        yield ("vro_no_duplicates", "repeated entry in %s" % vro)
    # "may be repeated; precedence is left-to-right"
    for tl, what in ((c["tags"], "-t"), ([t for t in c["postTags"] if t not in c["tags"]], "-T")):
        seen = []
        for t in tl:
            if t in A_KNOWN and t not in seen:
                seen.append(t)
        pos = [vro.index(t) for t in seen if t in vro]
        if pos != sorted(pos):
            yield ("tags_left_to_right", "%s tags %s are not in that order on %s" % (what, seen, vro))
    if c["keep"] and vro[:1] != ["keep"]:
        yield ("keep_first", "--keep, but the VRO is %s" % vro)


def eval_a(ctx, cases, pool):
    nw = 6
    impl = sum(parallel_map(a_impl_chunk, [cases[i::nw] for i in range(nw)], workers=nw), [])
    order = [c for i in range(nw) for c in cases[i::nw]]
    answers = ctx.lean.ask_many([a_model_req(c) for c in order])
    for c, io_, ans in zip(order, impl, answers):
        mo = a_canon_model(c, ans)
        key = {"stream": "A", "case": {k: c[k] for k in c if not k.startswith("_")}}
        ctx.case(key=key, nontrivial=bool(c["tags"] or c["postTags"] or c["keep"] or c["exact"] or c["dict"] != "default"),
                 sample={"input": key, "impl": io_} if ctx.evaluations % 301 == 0 else None)
        ctx.hist("A:dict=%s" % c["dict"])
        ctx.hist("A:%s" % ("cli" if c.get("cli") and a_cli_ok(c) else "api"))
        ctx.hist("A:out=%s" % (io_.get("err") if io_["out"] != "ok" else "ok"))
        if io_["out"] == "child":
            raise common.InfraError("selectVRO child failed: %r" % (io_,))
        if mo != io_:
            ctx.disagree("selectVRO", key, io_, mo)
        for clause, detail in a_oracle(c, io_):
            ctx.fail(clause, key, io_, mo, note=detail)
        if io_["out"] == "ok" and io_["vro"] not in pool:
            pool.append(io_["vro"])


# ---- stream B: findProductFromVRO -------------------------------------------------------------------------

HAND_VROS = [["current", "version"], ["version", "current"], ["versionExpr", "stable", "latest"], ["version!", "stable"],
             ["stable", "latest"], ["latest"], ["version", "beta", "versionExpr", "current"],
             ["keep", "commandLine", "beta", "version", "versionExpr", "warn:1", "current"],
             ["beta", "path", "stable", "current", "latest"], ["commandLine", "versionExpr", "version", "latest"],
             ["type:build", "current", "bogus", "stable"], ["current", "current", "version", "stable"],
             ["keep", "latest"], ["version", "versionExpr"], ["versionExpr"], ["stable", "version!", "beta"],
             ["t", "current"], ["commandLine", "t", "version", "versionExpr", "stable"], ["version", "t"]]
# the native flavor and its configured fallbacks, most preferred first.  In the second and third the fallback's NAME sorts
# before the native one's, so "alphabetical" and "configured" order differ
CHAINS = [["Linux", "generic"], ["Linux64", "Linux", "generic"], ["DarwinX86", "Darwin"], ["Linux64", "Linux"]]
C_TAGS = [[], [], ["beta"], ["stable"], ["stable", "beta"], ["t"], ["mine"], ["mine", "beta"], ["beta", "mine"]]


def configure_chain(chain):
    """In a child, before the Eups instance is made: the process runs as chain[0] and falls back along chain[1:]."""
    hooks = common.eups_mod("hooks")
    hooks.config.Eups.fallbackFlavors = {None: "generic", chain[0]: " ".join(chain[1:])}
    os.environ["EUPS_FLAVOR"] = chain[0]


def focus_pretag(rng, world, chain):
    """The setting of "pre-tags override table versions", made certain: the first stack declares two versions of p for
    the native flavor, a pre-tag (user tag `mine`, global tag `beta`, or both in either order) is assigned to one of them
    and the version named (by the table, or on the command line) is the other.  Returns (tags, version)."""
    native = chain[0]
    st = world["stacks"][0]
    v1, v2 = rng.sample(VERS, 2)
    for v in (v1, v2):
        if ["p", v, native] not in st["decls"]:
            st["decls"].append(["p", v, native])
    st["decls"].sort()
    tags = rng.choice([["mine"], ["mine"], ["beta"], ["mine", "beta"], ["beta", "mine"]])
    for t in tags:
        key = UTAG if t == "mine" else t
        for stk in world["stacks"]:
            stk["tags"] = [r for r in stk["tags"] if not (r[0] == key and r[1] == "p" and r[2] == native)]
    first = UTAG if tags[0] == "mine" else tags[0]
    st["tags"].append([first, "p", native, v1])
    if len(tags) > 1 and rng.random() < 0.5:
        st["tags"].append([UTAG if tags[1] == "mine" else tags[1], "p", native, rng.choice([v1, v2])])
    st["tags"].sort()
    return tags, v2


USER_VROS = [["mine", "current"], ["user:mine", "version"], ["version", "versionExpr", "mine", "latest"],
             ["global:current", "mine"], [":stable", "user:mine", "current"], ["type:exact", "commandLine", "mine", "version",
                                                                              "versionExpr", "current"]]
SETUP_VROS = [["setup", "current"], ["keep", "setup", "version", "versionExpr", "latest"],
              ["version", "versionExpr", "setup", "stable"], ["commandLine", "setup"], ["current", "setup"]]
EXPRS = [">= 1.2", "< 2.0", "== 1.0", ">= 1.0 || == 10.1", "> 10.1", "<= 1.10", ">= 1.2 && < 2.0.1", "<1.2", ">=2.0",
         "== 1.00 || == 2.0", "< 1.0"]
MODES = ["files", "cache-rebuilt", "cache-accepted", "mixed-accepted"]


def gen_lookup(rng, world, pool, names):
    name = rng.choice(names)
    r = rng.random()
    flavor = NATIVE if r < 0.62 else "generic" if r < 0.95 else OTHER_FLAVOR
    have = sorted({d[1] for st in world["stacks"] for d in st["decls"] if d[0] == name})
    r = rng.random()
    vexpr = None
    if r < 0.22:
        version = None
    elif r < 0.45 and have:
        version = rng.choice(have)
    elif r < 0.55:
        version = rng.choice(["9.9", "1.000", "2"])
    elif r < 0.9:
        version = rng.choice(EXPRS)
    elif r < 0.97:
        version = rng.choice(have or ["1.0"])
        vexpr = rng.choice(EXPRS + ["1.2"])
    else:
        version = rng.choice(["= 1.0", "", " =  2.0"])
    vro = list(rng.choice(pool if rng.random() < 0.55 else HAND_VROS))
    r = rng.random()
    setup = None
    if r < 0.10:
        vro = list(rng.choice(USER_VROS))
    elif r < 0.20:
        vro = list(rng.choice(SETUP_VROS))
    if "setup" in vro or rng.random() < 0.03:
        # what SETUP_<NAME> says: a version (declared somewhere or not, or a LOCAL: directory), a flavor, a stack or none
        r = rng.random()
        sv = rng.choice(have) if (r < 0.7 and have) else LOCAL_OK if r < 0.8 else rng.choice(VERS)
        setup = {"version": sv, "flavor": flavor if rng.random() < 0.8 else rng.choice(FLAVS),
                 "stack": rng.randrange(len(world["stacks"])) if rng.random() < 0.9 else None}
    if rng.random() < 0.07:
        version, vexpr = rng.choice([LOCAL_OK, LOCAL_OK, LOCAL_NO]), None
    tagfile = None
    if rng.random() < 0.06:
        lines, text = gen_tagfile(rng, names)
        lines = [("pair", l[1], "1.2") if (l[0] == "pair" and l[2] == G_HYPHEN) else l for l in lines]
        tagfile = {"lines": [list(l) for l in lines], "text": text.replace(G_HYPHEN, "1.2")}
        vro = list(rng.choice([[TAGFILE, "current"], ["type:exact", "commandLine", TAGFILE, "version", "versionExpr", "current"],
                               ["version", "versionExpr", TAGFILE, "stable"], ["beta", TAGFILE]]))
    if rng.random() < 0.1:
        rng.shuffle(vro)
    depth = rng.choice([0, 0, 1, 2])
    already = None
    if rng.random() < 0.2:
        already = {"version": rng.choice(VERS), "flavor": rng.choice(FLAVS), "stack": rng.randrange(len(world["stacks"])),
                   "reason": rng.choice([None, "commandLine", "version", "current", "beta", "keep", "versionExpr"])}
    lk = {"name": name, "version": version, "vexpr": vexpr, "depth": depth, "flavor": flavor,
          "ignore": rng.random() < 0.04, "already": already, "vro": vro}
    if setup:
        lk["setup"] = setup
        lk["ignore"] = False        # --ignore-versions turns the lookup of the set-up product into findPreferredProduct: not modelled
    if tagfile:
        lk["tagfile"] = tagfile
    return lk


def b_child(stacks, mode, lookups):
    _quiet()
    Product = common.eups_mod("Product").Product
    sink = io.StringIO()
    with contextlib.redirect_stderr(sink), contextlib.redirect_stdout(sink):
        E = common.new_eups(readCache=(mode != "files"))
        E.selectVRO()
        loaded = [sorted(E.versions[s].getFlavors()) for s in stacks] if mode != "files" else None
        outs = []
        for lk in lookups:
            if hasattr(E, "_productCache"):
                del E._productCache
            E.alreadySetupProducts = {}
            a = lk["already"]
            if a:
                prod = Product(lk["name"], a["version"], a["flavor"], "none", "none", db=os.path.join(stacks[a["stack"]], "ups_db"))
                E.alreadySetupProducts[lk["name"]] = (prod, [a["reason"], None] if a["reason"] else None)
            E.ignore_versions = lk["ignore"]
            scratch = os.path.dirname(stacks[0])
            envname = "SETUP_" + lk["name"].upper()
            su = lk.get("setup")
            if su:
                os.environ[envname] = "%s %s -f %s%s" % (lk["name"], su["version"].replace("$R", scratch), su["flavor"],
                                                       "" if su["stack"] is None else " -Z " + stacks[su["stack"]])
            version = lk["version"].replace("$R", scratch) if lk["version"] else lk["version"]
            tf = lk.get("tagfile")
            tfpath = TAGFILE.replace("$R", scratch)
            if tf:
                with open(tfpath, "w") as fd:
                    fd.write(tf["text"].replace("$R", scratch))
            elif os.path.exists(tfpath):
                os.unlink(tfpath)
            try:
                p, why = E.findProductFromVRO(lk["name"], version, versionExpr=lk["vexpr"], flavor=lk["flavor"],
                                              noCache=(mode.startswith("mixed")), recursionDepth=lk["depth"],
                                              vro=[e.replace("$R", scratch) for e in lk["vro"]])
                if p is None:
                    outs.append({"out": "ok", "hit": None})
                else:
                    root = p.stackRoot()
                    outs.append({"out": "ok", "hit": {"version": p.version.replace(scratch, "$R"), "flavor": p.flavor or "",
                                                      "stack": stacks.index(root) if root in stacks else -1,
                                                      "reason": why[0].replace(scratch, "$R") if why and why[0] else None}})
            except Exception as e:  # noqa
                outs.append({"out": "err", "err": api_err(e) if tf else err_enum(e)})
            os.environ.pop(envname, None)
    return {"loaded": loaded, "outs": outs}


def b_impl_item(item):
    """item = (world, {mode: [lookups]}) -> {mode: child result}"""
    world, bymode = item
    root = common.scratch("c03b")
    try:
        stacks = write_world(root, world)
        res = {}
        for mode in MODES:                      # order matters: the rebuilt child also primes the cache
            if mode not in bymode and mode != "cache-rebuilt":
                continue
            r = common.in_child(b_child, stacks, mode, bymode.get(mode, []))
            res[mode] = r[1] if r[0] == "ok" else {"child": list(r[:4])}
        return res
    finally:
        common.rmtree(root)


def b_model_req(world, mode, lk):
    m = {"files": "files", "cache-rebuilt": "cache", "cache-accepted": "cache", "mixed-accepted": "mixed"}[mode]
    extra = {}
    if lk.get("tagfile"):
        # a VRO entry names a tag file: the walk of Model/VroApi.lean; the lookup the file ends in reads the instance's own
        # preferred tags (the default VRO: the child called selectVRO()) only for expressions
        extra = {"op": "findF", "files": [[TAGFILE, lk["tagfile"]["text"]]],
                 "q": {"name": lk["name"], "flavor": lk["flavor"], "ignore": lk["ignore"], "preferred": list(DEFAULT_DICT[0][1]),
                       "force": False}}
    return dict(b_model_req0(world, m, mode, lk), **extra)


def b_model_req0(world, m, mode, lk):
    return {"m": "c03", "op": "find", "db": world["stacks"], "mode": m, "loaded": FLAVS,
            "accepted": accepted_stacks(world, mode), "globalTags": GLOBAL_TAGS,
            "userTags": USER_TAGS + ["root"], "dirs": ["$R/ldir"],
            "vro": lk["vro"],
            "req": {"name": lk["name"], "version": lk["version"], "vexpr": lk["vexpr"], "depth": lk["depth"],
                    "flavor": lk["flavor"], "ignore": lk["ignore"], "already": lk["already"],
                    "setupEnv": lk.get("setup")}}


def canon_model_hit(ans):
    if "bad-op" in ans:
        return {"out": "bad-op", "err": ans["bad-op"]}
    if ans["out"] != "ok":
        return {"out": "err", "err": ans["err"]}
    h = ans["hit"]
    if h is None:
        return {"out": "ok", "hit": None}
    return {"out": "ok", "hit": {"version": h["version"], "flavor": h["flavor"], "stack": h["stack"], "reason": h["reason"]}}


def canon_model_hit_b(ans, world):
    """the model gives a product that belongs to no stack (a LOCAL: directory) the index len(path)"""
    mo = canon_model_hit(ans)
    if mo.get("hit") and mo["hit"]["stack"] >= len(world["stacks"]):
        mo["hit"]["stack"] = -1
    return mo


def b_oracle(world, mode, lk, out):
    """The property on the implementation's answer.  Skipped where the property does not speak: products set up
    beforehand (keep / commandLine bookkeeping), `version [expr]` pairs, ignored versions, malformed requests."""
    if lk["already"] or lk["vexpr"] or lk["ignore"] or out.get("out") != "ok":
        return
    v = lk["version"]
    if v is not None and (v == "" or not re.match(r"^[0-9.<>=|& ]+$", v) or re.match(r"^\s*=\s", v)):
        return
    want = spec_walk(world, lk["name"], lk["flavor"], lk["vro"], v, lk.get("setup"), lk.get("tagfile"))
    if want[0] == "unspecified":
        return
    hit = out["hit"]
    if lk["flavor"] not in FLAVS and mode != "files":
        return      # a flavor the process does not load from an accepted cache: outside the property's quantifier
    d16 = None      # D16 is repaired (9143b09): nothing is excused
    if want[0] == "none":
        if hit is not None:
            named = v is not None
            yield ("named_request_never_falls_through" if named else "first_match", d16,
                   "nothing is designated, got %r" % (hit,))
        return
    _, answers, ent = want
    if hit is None:
        yield ("first_match", d16, "entry %s designates %s, got nothing" % (ent, sorted(answers)))
        return
    clause = {"version": "version_entry", "version!": "version_entry", "versionExpr": "expr_entry_is_max",
              "latest": "latest_is_max", "setup": "setup_entry"}.get(ent, "tag_entry")
    if hit["flavor"] != lk["flavor"]:
        yield ("flavor_asked", d16, "asked %s, got %r" % (lk["flavor"], hit))
    if (hit["version"], hit["stack"]) not in answers:
        if hit["version"] in {a[0] for a in answers}:
            yield ("first_stack", d16, "entry %s designates %s, got %r" % (ent, sorted(answers), hit))
        else:
            yield (clause, d16, "entry %s designates %s, got %r" % (ent, sorted(answers), hit))
    want_reason = ent
    if ent in VT and not _RELOP.search(v):
        want_reason = "commandLine" if lk["depth"] == 0 else "version"
    if hit["reason"] != want_reason:
        yield ("reason_names_entry", d16, "entry %s, reported %r" % (ent, hit["reason"]))


def world_has(world, name, flavor):
    return any(d[0] == name and d[2] == flavor for st in world["stacks"] for d in st["decls"])


def eval_b(ctx, items):
    """items: list of (world, {mode: [lookups]})"""
    impl = parallel_map(b_impl_item, items, workers=6)
    reqs, where = [], []
    for wi, (world, bymode) in enumerate(items):
        for mode, lks in bymode.items():
            for li, lk in enumerate(lks):
                reqs.append(b_model_req(world, mode, lk))
                where.append((wi, mode, li))
    answers = ctx.lean.ask_many(reqs)
    for (wi, mode, li), ans in zip(where, answers):
        world, bymode = items[wi]
        lk = bymode[mode][li]
        res = impl[wi][mode]
        inp = {"stream": "B", "world": world, "mode": mode, "lookup": lk}
        if "child" in res:
            raise common.InfraError("lookup child failed: %r" % (res,))
        io_ = res["outs"][li]
        mo = canon_model_hit_b(ans, world)
        ctx.case(key=inp, nontrivial=world_has(world, lk["name"], lk["flavor"]),
                 sample={"input": {"mode": mode, "lookup": lk}, "impl": io_} if ctx.evaluations % 977 == 0 else None)
        ctx.hist("B:mode=%s" % mode)
        ctx.hist("B:flavor=%s" % lk["flavor"])
        ctx.hist("B:request=%s" % ("none" if lk["version"] is None else "expr" if _RELOP.search(lk["version"]) else "explicit"))
        ctx.hist("B:result=%s" % (io_.get("err") if io_["out"] != "ok" else "none" if io_["hit"] is None else
                                  "via:" + str(io_["hit"]["reason"])))
        if lk["already"]:
            ctx.hist("B:already-set-up")
        if lk.get("setup"):
            ctx.hist("B:SETUP_-in-environment")
        if lk.get("tagfile"):
            ctx.hist("B:vro-with-tag-file")
        if lk["version"] and lk["version"].startswith("LOCAL:"):
            ctx.hist("B:request=LOCAL:")
        if any(spec_tag_key(e) == UTAG for e in lk["vro"]):
            ctx.hist("B:vro-with-user-tag")
        if any(":" in e and spec_tag_key(e) in GLOBAL_TAGS for e in lk["vro"]):
            ctx.hist("B:vro-with-qualified-global-tag")
        if mo != io_:
            ctx.disagree("findProductFromVRO", inp, io_, mo)
        for clause, cls, detail in b_oracle(world, mode, lk, io_):
            ctx.fail(clause, inp, io_, mo, note=detail, finding=cls)
    # the interface with C07: which flavors each cached child loaded
    for (world, bymode), res in zip(items, impl):
        for mode, r in res.items():
            if mode == "files" or "child" in r:
                continue
            acc = accepted_stacks(world, mode)
            pred = [sorted(FLAVS) if a else declared_flavors(st) for a, st in zip(acc, world["stacks"])]
            ctx.hist("B:stack-load=accepted", sum(acc))
            ctx.hist("B:stack-load=rebuilt", len(acc) - sum(acc))
            if r["loaded"] != pred:
                ctx.disagree("cache_load_rule", {"stream": "B", "world": world, "mode": mode, "lookup": None}, r["loaded"], pred,
                             note="flavors loaded per stack differ from the load-versus-rebuild rule")


def gen_b_items(rng, nworlds, per_mode, pool):
    items = []
    for _ in range(nworlds):
        names = ["p"] if rng.random() < 0.6 else ["p", "q"]
        world = gen_world(rng, names)
        bymode = {}
        for mode in MODES:
            k = per_mode if mode != "cache-rebuilt" else max(2, per_mode // 2)
            bymode[mode] = [gen_lookup(rng, world, pool, names) for _ in range(k)]
        items.append((world, bymode))
    return items


# ---- stream C: the flavor loop, through Eups.setup -------------------------------------------------------

def gen_c(rng):
    names = ["p"]
    chain = rng.choice(CHAINS)
    world = gen_world(rng, names, chain)
    have = sorted({d[1] for st in world["stacks"] for d in st["decls"]})
    r = rng.random()
    if r < 0.35:
        version = None
    elif r < 0.7 and have:
        version = rng.choice(have)
    elif r < 0.8:
        version = "9.9"
    else:
        version = rng.choice(EXPRS)
    already = None
    depth = rng.choice([0, 0, 1])
    if depth and rng.random() < 0.35:
        already = {"version": rng.choice(VERS), "flavor": rng.choice(chain), "stack": 0,
                   "reason": rng.choice([None, "commandLine", "current", "beta"])}
    c = {"world": world, "name": "p", "version": version, "depth": depth, "keep": rng.random() < 0.3,
         "tags": rng.choice(C_TAGS), "postTags": rng.choice([[], [], ["stable"], ["beta"], ["t"]]), "already": already,
         "chain": chain, "exact": rng.random() < 0.35}
    if rng.random() < 0.15:
        c["tags"], c["version"] = focus_pretag(rng, world, chain)
        c.update(depth=1, already=None, keep=False, exact=rng.random() < 0.6)
    return c


def c_child(stacks, c):
    _quiet()
    Product = common.eups_mod("Product").Product
    sink = io.StringIO()
    with contextlib.redirect_stderr(sink), contextlib.redirect_stdout(sink):
        try:
            configure_chain(c.get("chain", FLAVS))
            E = common.new_eups(readCache=False, keep=c["keep"], exact_version=bool(c.get("exact")), setupType=[])
            E.selectVRO(c["tags"] or None, None, c["version"], None, postTag=c["postTags"] or None)
            vro = list(E.getVRO())
            a = c["already"]
            if a:
                prod = Product(c["name"], a["version"], a["flavor"], "none", "none", db=os.path.join(stacks[a["stack"]], "ups_db"))
                E.alreadySetupProducts[c["name"]] = (prod, [a["reason"], None] if a["reason"] else None)
            E._msgs["setup"] = {}
            ok, ver, why = E.setup(c["name"], c["version"], recursionDepth=c["depth"])
            env = os.environ.get("SETUP_" + c["name"].upper())
            if not ok:
                return {"out": "ok", "hit": None, "vro": vro}
            f = env.split()
            root = f[f.index("-Z") + 1]
            return {"out": "ok", "vro": vro,
                    "hit": {"version": f[1], "flavor": f[f.index("-f") + 1], "stack": stacks.index(root) if root in stacks else -1}}
        except Exception as e:  # noqa
            return {"out": "err", "err": err_enum(e)}


def c_impl_item(c):
    root = common.scratch("c03c")
    try:
        stacks = write_world(root, c["world"])
        r = common.in_child(c_child, stacks, c)
        return r[1] if r[0] == "ok" else {"child": list(r[:4])}
    finally:
        common.rmtree(root)


def c_sel_req(c):
    return {"m": "c03", "op": "selectVRO",
            "cfg": {"vroDict": DEFAULT_DICT, "userVRO": False, "keep": c["keep"], "exact": bool(c.get("exact")),
                    "globalTags": GLOBAL_TAGS + USER_TAGS + ["root"], "cmdTags": [], "prevPreferred": PREV_PREFERRED},
            "args": {"tags": c["tags"], "productDir": False, "versionName": bool(c["version"]), "dbz": None,
                     "inexact": False, "postTags": c["postTags"]}}


def c_res_req(c, vro):
    chain = c.get("chain", FLAVS)
    return {"m": "c03", "op": "resolve", "db": c["world"]["stacks"], "mode": "files", "loaded": chain,
            "accepted": [False] * len(c["world"]["stacks"]), "globalTags": GLOBAL_TAGS, "userTags": USER_TAGS + ["root"], "vro": vro,
            "keep": c["keep"], "flavors": chain,
            "req": {"name": c["name"], "version": c["version"], "vexpr": None, "depth": c["depth"], "flavor": chain[0],
                    "ignore": False, "already": c["already"]}}


def c_oracle(c, out, stats=None):
    """The property at the level of `setup`: the VRO is read left to right for the native flavor first; on the
    command line (depth 0) an explicitly named version is the only acceptable answer, so an entry designating
    another version is passed over; below the top level a -t tag standing before `version` overrides the version a
    table names; -T tags stand behind the version entries and are not reached when a version is named."""
    if out.get("out") != "ok" or c["already"]:
        return
    world, v, hit = c["world"], c["version"], out["hit"]
    vro = out["vro"]
    explicit = v is not None and not _RELOP.search(v)
    if hit is not None and explicit and c["depth"] == 0 and hit["version"] != v:
        yield ("named_request_never_falls_through", "asked for %s on the command line, set up %r" % (v, hit))

    def walk(f):
        if not (explicit and c["depth"] == 0):
            return spec_walk(world, c["name"], f, vro, v)
        for i, ent in enumerate(vro):
            ans = spec_entry(world, c["name"], f, ent, v)
            if ans is None:
                return ("unspecified",)
            ans = {a for a in ans if a[0] == v}
            if ans:
                return ("hit", ans, ent)
            if ent in VT and not any(e in VT for e in vro[i + 1:]):
                return ("none",)
        return ("none",)
    chain = c.get("chain", FLAVS)      # "a native-flavor declaration is preferred over a fallback flavor": configured order
    # "Pre-tags (-t) therefore override table versions": read off the command line, not off the VRO the code built —
    # below the top level the first -t tag that designates a version for the native flavor is the answer
    if c["tags"] and c["depth"] > 0 and not c.get("keep"):
        for t in c["tags"]:
            if t not in A_KNOWN:
                break
            ans = spec_entry(world, c["name"], chain[0], t, v)
            if ans:
                if hit is None or hit["flavor"] != chain[0] or (hit["version"], hit["stack"]) not in ans:
                    yield ("pretag_overrides_table_version", "-t %s designates %s for %s whatever version is named (%s), set up %r" %
                           (t, sorted(ans), chain[0], v, hit))
                break
    per_flavor = {f: walk(f) for f in chain}
    if any(w[0] == "unspecified" for w in per_flavor.values()):
        return
    want = None
    for f in chain:
        if per_flavor[f][0] == "hit":
            want = (f, per_flavor[f])
            break
    if stats is not None:
        hits = [f for f in chain if per_flavor[f][0] == "hit"]
        if len(hits) >= 2 and hits[0] == chain[0] and sorted(hits)[0] != chain[0]:
            stats.append("native-and-a-fallback-sorting-first-both-resolve")
        if want and want[1][2] in USER_TAGS and c.get("exact") and explicit and c["depth"] > 0:
            stats.append("exact+user-pretag-over-table-version")
        if want and want[1][2] in GLOBAL_TAGS and want[1][2] in c["tags"] and c.get("exact") and explicit and c["depth"] > 0:
            stats.append("exact+global-pretag-over-table-version")
        if want and want[1][2] in USER_TAGS and not c.get("exact") and explicit and c["depth"] > 0:
            stats.append("user-pretag-over-table-version")
    if want is None:
        if hit is not None:
            yield ("first_match", "nothing is designated for any flavor, set up %r" % (hit,))
        return
    f, (_, answers, ent) = want
    if hit is None:
        yield ("first_match", "entry %s designates %s (%s), nothing was set up" % (ent, sorted(answers), f))
        return
    if hit["flavor"] != f:
        yield ("native_flavor_first", "flavor %s resolves through %s, set up %r" % (f, ent, hit))
    elif (hit["version"], hit["stack"]) not in answers:
        clause = "tag_entry"
        if ent in c["tags"] and c["depth"] > 0 and explicit:
            clause = "pretag_overrides_table_version"
        elif ent in VT and c["postTags"]:
            clause = "posttag_only_without_version"
        elif ent in VT:
            clause = "version_entry" if explicit else "expr_entry_is_max"
        yield (clause, "entry %s designates %s, set up %r" % (ent, sorted(answers), hit))


def eval_c(ctx, cases):
    impl = parallel_map(c_impl_item, cases, workers=6)
    sels = ctx.lean.ask_many([c_sel_req(c) for c in cases])
    reqs = []
    for c, s in zip(cases, sels):
        reqs.append(c_res_req(c, s.get("vro", [])) if s.get("out") == "ok" else {"m": "echo"})
    answers = ctx.lean.ask_many(reqs)
    for c, io_, s, ans in zip(cases, impl, sels, answers):
        inp = dict(c, stream="C")
        if "child" in io_:
            raise common.InfraError("setup child failed: %r" % (io_,))
        if s.get("out") != "ok":
            mo = {"out": "err", "err": s.get("err", s)}
        else:
            mo = canon_model_hit(ans)
            if mo["out"] == "ok":
                mo["vro"] = s["vro"]
                if mo["hit"]:
                    mo["hit"].pop("reason")
        ctx.case(key=inp, nontrivial=any(world_has(c["world"], c["name"], f) for f in c.get("chain", FLAVS)),
                 sample={"input": {k: c[k] for k in c if k != "world"}, "impl": io_} if ctx.evaluations % 499 == 0 else None)
        ctx.hist("C:depth=%d" % c["depth"])
        ctx.hist("C:chain=%s" % ">".join(c.get("chain", FLAVS)))
        if c.get("exact"):
            ctx.hist("C:--exact")
        ctx.hist("C:result=%s" % (io_.get("err") if io_["out"] != "ok" else "none" if io_["hit"] is None else io_["hit"]["flavor"]))
        if c["tags"]:
            ctx.hist("C:-t")
        if c["postTags"]:
            ctx.hist("C:-T")
        if mo != io_:
            ctx.disagree("setup_flavor_loop", inp, io_, mo)
        stats = []
        for clause, detail in c_oracle(c, io_, stats):
            ctx.fail(clause, inp, io_, mo, note=detail)
        for k in stats:
            ctx.hist("C:" + k)
        for clause, detail in a_oracle({"dict": "default", "userVRO": False, "keep": c["keep"], "tags": c["tags"],
                                        "postTags": c["postTags"]}, io_):
            ctx.fail(clause, inp, io_, mo, note=detail)



# ---- stream D: dependencies named in a table file (table.py glue + depth 1) ---------------------------------

def gen_d(rng):
    chain = rng.choice(CHAINS)
    world = gen_world(rng, ["p"], chain)
    have = sorted({d[1] for st in world["stacks"] for d in st["decls"]})
    r = rng.random()
    vexpr = None
    if r < 0.2:
        version = None
    elif r < 0.6 and have:
        version = rng.choice(have)
    elif r < 0.7:
        version = "9.9"
    elif r < 0.9:
        version = rng.choice(EXPRS)
    else:
        version = rng.choice(have or ["1.0"])
        vexpr = rng.choice(EXPRS)
    r = rng.random()
    line = {"tags": [], "vro": None, "keep": False}
    if r < 0.15:
        line["tags"] = [rng.choice(["beta", "stable", "t"])]
    elif r < 0.25:
        line["vro"] = rng.choice(["current", "version", "version!", "latest", "versionExpr"])
    elif r < 0.3:
        line["keep"] = True
    # p may be set up already (by an earlier command): SETUP_P names one of its declarations
    preset = None
    decls = [(i, d) for i, st in enumerate(world["stacks"]) for d in st["decls"]]
    if decls and rng.random() < 0.3:
        i, d = rng.choice(decls)
        preset = {"version": d[1], "flavor": d[2], "stack": i}
    c = {"world": world, "version": version, "vexpr": vexpr, "optional": rng.random() < 0.4, "line": line,
         "keep": rng.random() < 0.25, "tags": rng.choice(C_TAGS),
         "postTags": rng.choice([[], [], ["stable"], ["beta"]]), "preset": preset, "chain": chain, "exact": rng.random() < 0.4}
    if rng.random() < 0.2:
        c["tags"], c["version"] = focus_pretag(rng, world, chain)
        c.update(vexpr=None, keep=False, preset=None, line={"tags": [], "vro": None, "keep": False}, exact=rng.random() < 0.6)
    return c


def d_table_line(c, name="p"):
    words = [name]
    for t in c["line"]["tags"]:
        words += ["-t", t]
    if c["line"]["vro"]:
        words += ["--vro", c["line"]["vro"]]
    if c["line"]["keep"]:
        words += ["-k"]
    if c["version"] is not None:
        words.append(c["version"] if " " not in c["version"] or c["vexpr"] else c["version"])
    if c["vexpr"]:
        words.append("[%s]" % c["vexpr"])
    return "%s(%s)\n" % ("setupOptional" if c["optional"] else "setupRequired", " ".join(words))


def d_child(stacks, c):
    _quiet()
    try:
        ps = c.get("preset")
        if ps:
            os.environ["SETUP_P"] = "p %s -f %s -Z %s" % (ps["version"], ps["flavor"], stacks[ps["stack"]])
            os.environ["P_DIR"] = "none"
        configure_chain(c.get("chain", FLAVS))
        E = common.new_eups(readCache=False, keep=c["keep"], exact_version=bool(c.get("exact")), setupType=[])
        E.selectVRO(c["tags"] or None, None, None, None, postTag=c["postTags"] or None)
        vro = list(E.getVRO())
        try:
            ok, ver, why = E.setup("top")
        except Exception as e:  # noqa
            return {"out": "ok", "vro": vro, "top": "raised", "p": None}
        env = os.environ.get("SETUP_P")
        hit = None
        if env:
            f = env.split()
            root = f[f.index("-Z") + 1]
            hit = {"version": f[1], "flavor": f[f.index("-f") + 1], "stack": stacks.index(root) if root in stacks else -1}
        return {"out": "ok", "vro": vro, "top": bool(ok), "p": hit}
    except Exception as e:  # noqa
        return {"out": "err", "err": err_enum(e)}


def d_impl_item(c):
    root = common.scratch("c03d")
    try:
        stacks = write_world(root, c["world"])
        pdir = os.path.join(root, "prod", "top")
        os.makedirs(os.path.join(pdir, "ups"))
        with open(os.path.join(pdir, "ups", "top.table"), "w") as f:
            f.write(d_table_line(c))
        d = os.path.join(stacks[0], "ups_db", "top")
        os.makedirs(d)
        with open(os.path.join(d, "1.0.version"), "w") as fd:
            fd.write("FILE = version\nPRODUCT = top\nVERSION = 1.0\nGroup:\n   FLAVOR = %s\n   QUALIFIERS = \"\"\n"
                     "   PROD_DIR = %s\n   UPS_DIR = ups\n   TABLE_FILE = top.table\nEnd:\n" % (c.get("chain", FLAVS)[0], pdir))
        with open(os.path.join(d, "current.chain"), "w") as fd:
            fd.write("FILE = version\nPRODUCT = top\nCHAIN = current\n#Group:\n   FLAVOR = %s\n   VERSION = 1.0\n"
                     "   QUALIFIERS = \"\"\n#End:\n" % c.get("chain", FLAVS)[0])
        r = common.in_child(d_child, stacks, c)
        return r[1] if r[0] == "ok" else {"child": list(r[:4])}
    finally:
        common.rmtree(root)


def d_sel_req(c):
    return {"m": "c03", "op": "selectVRO",
            "cfg": {"vroDict": DEFAULT_DICT, "userVRO": False, "keep": c["keep"], "exact": bool(c.get("exact")),
                    "globalTags": GLOBAL_TAGS + USER_TAGS + ["root"], "cmdTags": [], "prevPreferred": PREV_PREFERRED},
            "args": {"tags": c["tags"], "productDir": False, "versionName": False, "dbz": None,
                     "inexact": False, "postTags": c["postTags"]}}


def version_for_setup(c):
    """What table.py hands to Eups.setup as `vers`: the words behind the product, `[expr]` split off."""
    return c["version"]


def d_oracle(c, out, stats=None):
    """-t on the command line overrides the version a table names; -T does not; a named version that is not
    declared fails.  Only for lines without options of their own and without --keep (the property's setting)."""
    if (out.get("out") != "ok" or c["vexpr"] or c["keep"] or c["line"]["tags"] or c["line"]["vro"] or c["line"]["keep"]
            or c.get("preset")):
        return
    cc = {"world": c["world"], "name": "p", "version": c["version"], "depth": 1, "tags": c["tags"],
          "postTags": c["postTags"], "already": None, "chain": c.get("chain", FLAVS), "exact": c.get("exact")}
    sub = {"out": "ok", "vro": out["vro"], "hit": out["p"]}
    if out["top"] == "raised":
        if c["optional"]:
            yield ("optional_dependency_does_not_fail", "setup of top raised")
        sub["hit"] = None
    for clause, detail in c_oracle(cc, sub, stats):
        yield (clause, detail)
    if out["top"] is True and not c["optional"] and out["p"] is None:
        yield ("required_dependency", "top was set up without its required dependency p")


def eval_d(ctx, cases):
    impl = parallel_map(d_impl_item, cases, workers=6)
    sels = ctx.lean.ask_many([d_sel_req(c) for c in cases])
    lines = ctx.lean.ask_many([{"m": "c03", "op": "tableLineVro", "vro": s.get("vro", []),
                                "lineVro": c["line"]["vro"].split() if c["line"]["vro"] else None,
                                "lineTags": c["line"]["tags"], "lineKeep": c["line"]["keep"]} for c, s in zip(cases, sels)])
    reqs = []
    for c, ln in zip(cases, lines):
        chain = c.get("chain", FLAVS)
        reqs.append({"m": "c03", "op": "resolve", "db": c["world"]["stacks"], "mode": "files", "loaded": chain,
                     "accepted": [False] * len(c["world"]["stacks"]), "globalTags": GLOBAL_TAGS, "userTags": USER_TAGS + ["root"],
                     "vro": ln["vro"], "keep": c["keep"], "flavors": chain,
                     "req": {"name": "p", "version": c["version"], "vexpr": c["vexpr"], "depth": 1, "flavor": chain[0],
                             "ignore": False,
                             "already": dict(c["preset"], reason=None) if c.get("preset") else None}})
    answers = ctx.lean.ask_many(reqs)
    for c, io_, s, ans in zip(cases, impl, sels, answers):
        inp = dict(c, stream="D")
        if "child" in io_:
            raise common.InfraError("table child failed: %r" % (io_,))
        m = canon_model_hit(ans)
        if s.get("out") != "ok" or m["out"] == "bad-op":
            mo = {"out": "err", "err": s.get("err", m.get("err"))}
        else:
            hit = m.get("hit") if m["out"] == "ok" else None      # an error inside the dependency's setup counts as "not found"
            if hit:
                hit = {k: hit[k] for k in ("version", "flavor", "stack")}
            top = True if (hit or c["optional"]) else "raised"
            # what SETUP_P shows afterwards (Eups.setup l.1995-2009, not part of the resolution model): a product
            # already set up in the version resolved is left alone; a failed optional dependency restores the environment
            ps = c.get("preset")
            if ps and (hit is None or hit["version"] == ps["version"]):
                hit = dict(ps)
            mo = {"out": "ok", "vro": s["vro"], "top": top, "p": hit if top is True else None}
        ctx.case(key=inp, nontrivial=any(world_has(c["world"], "p", f) for f in c.get("chain", FLAVS)),
                 sample={"input": {k: c[k] for k in c if k != "world"}, "impl": io_} if ctx.evaluations % 499 == 0 else None)
        if c.get("preset"):
            ctx.hist("D:p-already-set-up")
        ctx.hist("D:chain=%s" % ">".join(c.get("chain", FLAVS)))
        if c.get("exact"):
            ctx.hist("D:--exact")
        ctx.hist("D:line=%s" % ("-t" if c["line"]["tags"] else "--vro" if c["line"]["vro"] else "-k" if c["line"]["keep"] else "plain"))
        ctx.hist("D:result=%s" % (io_.get("err") if io_["out"] != "ok" else "raised" if io_["top"] == "raised" else
                                  "p-absent" if io_["p"] is None else io_["p"]["flavor"]))
        if mo != io_:
            ctx.disagree("table_dependency", inp, io_, mo)
        stats = []
        for clause, detail in d_oracle(c, io_, stats):
            ctx.fail(clause, inp, io_, mo, note=detail)
        for k in stats:
            ctx.hist("D:" + k)
        for clause, detail in a_oracle({"dict": "default", "userVRO": False, "keep": c["keep"], "tags": c["tags"],
                                        "postTags": c["postTags"]}, io_):
            ctx.fail(clause, inp, io_, mo, note=detail)



# ---- stream E: several lines of one table — a line's -k / -t / --vro is in force for that line only ---------

E_NAMES = ["a", "b", "c"]


def gen_e(rng):
    world = gen_world(rng, E_NAMES)
    order = list(E_NAMES)
    rng.shuffle(order)
    lines = []
    for k, nm in enumerate(order[:rng.choice([2, 3, 3])]):
        have = sorted({d[1] for st in world["stacks"] for d in st["decls"] if d[0] == nm})
        r = rng.random()
        if r < 0.4 or not have:
            version = None
        elif r < 0.8:
            version = rng.choice(have)
        elif r < 0.85:
            version = "9.9"
        else:
            version = rng.choice(EXPRS)
        line = {"tags": [], "vro": None, "keep": False}
        r = rng.random()
        if k == 0:
            if r < 0.5:
                line["keep"] = True
            elif r < 0.75:
                line["tags"] = [rng.choice(["beta", "stable", "t"])]
            elif r < 0.85:
                line["vro"] = rng.choice(["current", "version", "latest"])
        elif r < 0.1:
            line["keep"] = True
        elif r < 0.2:
            line["tags"] = [rng.choice(["beta", "stable", "t"])]
        lines.append({"name": nm, "version": version, "vexpr": None, "optional": rng.random() < 0.5, "line": line})
    presets = {}
    for nm in E_NAMES:
        decls = [(i, d) for i, st in enumerate(world["stacks"]) for d in st["decls"] if d[0] == nm]
        if decls and rng.random() < 0.7:
            i, d = rng.choice(decls)
            presets[nm] = {"version": d[1], "flavor": d[2], "stack": i}
    return {"world": world, "lines": lines, "presets": presets, "keep": rng.random() < 0.1,
            "tags": rng.choice([[], [], [], ["beta"], ["stable"]]), "postTags": rng.choice([[], [], [], ["stable"]])}


def e_child(stacks, c):
    _quiet()
    try:
        for nm, ps in c["presets"].items():
            os.environ["SETUP_" + nm.upper()] = "%s %s -f %s -Z %s" % (nm, ps["version"], ps["flavor"], stacks[ps["stack"]])
            os.environ[nm.upper() + "_DIR"] = os.path.join(stacks[ps["stack"]], ps["flavor"], nm, ps["version"])
        E = common.new_eups(readCache=False, keep=c["keep"])
        E.selectVRO(c["tags"] or None, None, None, None, postTag=c["postTags"] or None)
        vro = list(E.getVRO())
        try:
            ok, ver, why = E.setup("top")
            top = bool(ok)
        except Exception as e:  # noqa
            top = "raised"
        setup = {}
        for nm in E_NAMES:
            env = os.environ.get("SETUP_" + nm.upper())
            if env:
                f = env.split()
                root = f[f.index("-Z") + 1]
                setup[nm] = {"version": f[1], "flavor": f[f.index("-f") + 1], "stack": stacks.index(root) if root in stacks else -1}
            else:
                setup[nm] = None
        return {"out": "ok", "vro": vro, "top": top, "set": setup, "vro_after": list(E.getVRO()),
                "pref_after": list(E.getPreferredTags())}
    except Exception as e:  # noqa
        return {"out": "err", "err": err_enum(e)}


def e_impl_item(c):
    root = common.scratch("c03e")
    try:
        stacks = write_world(root, c["world"])
        pdir = os.path.join(root, "prod", "top")
        os.makedirs(os.path.join(pdir, "ups"))
        with open(os.path.join(pdir, "ups", "top.table"), "w") as f:
            for ln in c["lines"]:
                f.write(d_table_line(ln, ln["name"]))
        d = os.path.join(stacks[0], "ups_db", "top")
        os.makedirs(d)
        with open(os.path.join(d, "1.0.version"), "w") as fd:
            fd.write("FILE = version\nPRODUCT = top\nVERSION = 1.0\nGroup:\n   FLAVOR = %s\n   QUALIFIERS = \"\"\n"
                     "   PROD_DIR = %s\n   UPS_DIR = ups\n   TABLE_FILE = top.table\nEnd:\n" % (NATIVE, pdir))
        with open(os.path.join(d, "current.chain"), "w") as fd:
            fd.write("FILE = version\nPRODUCT = top\nCHAIN = current\n#Group:\n   FLAVOR = %s\n   VERSION = 1.0\n"
                     "   QUALIFIERS = \"\"\n#End:\n" % NATIVE)
        r = common.in_child(e_child, stacks, c)
        return r[1] if r[0] == "ok" else {"child": list(r[:4])}
    finally:
        common.rmtree(root)


def spec_resolve(world, name, vro, v, depth):
    """The property at the level of one request: ('unspecified',) | ('none',) | ('hit', flavor, answers, entry)."""
    explicit = v is not None and not _RELOP.search(v)

    def walk(f):
        if not (explicit and depth == 0):
            return spec_walk(world, name, f, vro, v)
        for i, ent in enumerate(vro):
            ans = spec_entry(world, name, f, ent, v)
            if ans is None:
                return ("unspecified",)
            ans = {a for a in ans if a[0] == v}
            if ans:
                return ("hit", ans, ent)
            if ent in VT and not any(e in VT for e in vro[i + 1:]):
                return ("none",)
        return ("none",)
    per_flavor = {f: walk(f) for f in FLAVS}
    if any(w[0] == "unspecified" for w in per_flavor.values()):
        return ("unspecified",)
    for f in FLAVS:
        if per_flavor[f][0] == "hit":
            return ("hit", f, per_flavor[f][1], per_flavor[f][2])
    return ("none",)


def e_oracle(c, out):
    """Every request of the command is answered by the command's VRO as modified by ITS OWN table line only: a line
    without options, in a command without --keep, is read with the VRO the command reported — whatever an earlier
    line asked for, and whatever version of the product happens to be set up; and the command's VRO is the same
    after the table as before it."""
    if out.get("out") != "ok":
        return
    vro = out["vro"]
    if out["vro_after"] != vro or out["pref_after"] != vro:
        yield ("vro_unchanged_by_table", "VRO before %s, after: getVRO %s, getPreferredTags %s" % (vro, out["vro_after"], out["pref_after"]))
    if c["keep"] or out["top"] is not True:
        return
    for k, ln in enumerate(c["lines"]):
        if ln["line"]["tags"] or ln["line"]["vro"] or ln["line"]["keep"] or ln["vexpr"]:
            continue
        want = spec_resolve(c["world"], ln["name"], vro, ln["version"], 1)
        if want[0] == "unspecified":
            continue
        ps = c["presets"].get(ln["name"])
        got = out["set"][ln["name"]]
        if ps and ps["version"] == ln["version"]:
            continue      # the version named is the one set up: setup leaves it alone ("already setup locally"), the property is silent
        earlier = [l2["line"] for l2 in c["lines"][:k] if l2["line"]["tags"] or l2["line"]["vro"] or l2["line"]["keep"]]
        clause = "line_reads_command_vro" + ("_after_line_with_options" if earlier else "")
        if want[0] == "none":
            if not ln["optional"]:
                yield ("required_dependency", "top was set up although nothing is designated for its required %s" % ln["name"])
            elif got != ps:
                yield (clause, "nothing is designated for %s %s: the environment should be as before (%r), got %r"
                       % (ln["name"], ln["version"], ps, got))
            continue
        _, f, answers, ent = want
        versions = {a[0] for a in answers}
        if got is None or got["version"] not in versions:
            yield (clause, "%s %s: entry %s designates %s (%s), set up: %r (before the command: %r)"
                   % (ln["name"], ln["version"], ent, sorted(answers), f, got, ps))
        elif not (ps and ps["version"] == got["version"]) and (got["flavor"] != f or (got["version"], got["stack"]) not in answers):
            yield (clause, "%s %s: entry %s designates %s (%s), set up: %r" % (ln["name"], ln["version"], ent, sorted(answers), f, got))


def eval_e(ctx, cases):
    impl = parallel_map(e_impl_item, cases, workers=6)
    sels = ctx.lean.ask_many([d_sel_req(c) for c in cases])
    reqs = []
    for c, s in zip(cases, sels):
        reqs.append({"m": "c03", "op": "runTable", "db": c["world"]["stacks"], "mode": "files", "loaded": FLAVS,
                     "accepted": [False] * len(c["world"]["stacks"]), "globalTags": GLOBAL_TAGS, "vro": s.get("vro", []),
                     "keep": c["keep"], "flavors": FLAVS,
                     "lines": [{"name": ln["name"], "version": ln["version"], "vexpr": ln["vexpr"],
                                "lineVro": ln["line"]["vro"].split() if ln["line"]["vro"] else None,
                                "lineTags": ln["line"]["tags"], "lineKeep": ln["line"]["keep"], "optional": ln["optional"],
                                "already": dict(c["presets"][ln["name"]], reason=None) if ln["name"] in c["presets"] else None}
                               for ln in c["lines"]]})
    answers = ctx.lean.ask_many(reqs)
    for c, io_, s, ans in zip(cases, impl, sels, answers):
        inp = dict(c, stream="E")
        if "child" in io_:
            raise common.InfraError("table child failed: %r" % (io_,))
        if s.get("out") != "ok" or "bad-op" in ans:
            mo = {"out": "err", "err": s.get("err", ans.get("bad-op"))}
        else:
            setup = {nm: (dict(c["presets"][nm]) if nm in c["presets"] else None) for nm in E_NAMES}
            for ln, o in zip(c["lines"], ans["outs"]):
                ps = c["presets"].get(ln["name"])
                # Eups.setup l.1995-2009 (not part of the resolution model): the version already set up is left alone
                if o is not None and not (ps and ps["version"] == o["version"]):
                    setup[ln["name"]] = {k: o[k] for k in ("version", "flavor", "stack")}
            mo = {"out": "ok", "vro": s["vro"], "top": "raised" if ans["raised"] else True, "set": setup,
                  "vro_after": ans["vro"], "pref_after": ans["vro"]}
        ctx.case(key=inp, nontrivial=bool(c["presets"]) and any(world_has(c["world"], ln["name"], NATIVE) for ln in c["lines"]),
                 sample={"input": {k: c[k] for k in c if k != "world"}, "impl": io_} if ctx.evaluations % 499 == 0 else None)
        first = c["lines"][0]["line"]
        ctx.hist("E:first-line=%s" % ("-k" if first["keep"] else "-t" if first["tags"] else "--vro" if first["vro"] else "plain"))
        ctx.hist("E:result=%s" % (io_.get("err") if io_["out"] != "ok" else "raised" if io_["top"] == "raised" else "ok"))
        later = [ln for ln in c["lines"][1:] if ln["name"] in c["presets"] and not (ln["line"]["keep"] or ln["line"]["tags"] or ln["line"]["vro"])]
        if (first["keep"] or first["tags"]) and later:
            ctx.hist("E:later-plain-line-for-a-set-up-product")
        if mo != io_:
            ctx.disagree("table_lines", inp, io_, mo)
        for clause, detail in e_oracle(c, io_):
            ctx.fail(clause, inp, io_, mo, note=detail)


# ---- stream F: the command line — `eups vro ARGS` against the VRO `setup ARGS` resolves with ------------------

F_DEFAULTS = [None, None, None, {"pre": ["beta"], "post": []}, {"pre": [], "post": ["stable"]}, {"pre": ["beta"], "post": ["stable"]}]
F_TVALS = ["beta", "stable", "current", "t", "mine", "bogus"]


def gen_f(rng):
    """Option tokens in command-line order: ["t", tag] = -t tag, ["T", tag] = -T tag, ["c"] = -c."""
    toks = []
    r = rng.random()
    if r < 0.12:
        toks = [["t", rng.choice(["None", ""])]]
        if rng.random() < 0.4:
            toks.append(rng.choice([["T", "stable"], ["c"]]))
    else:
        for _ in range(rng.choice([0, 1, 1, 2, 2, 3])):
            k = rng.random()
            toks.append(["t", rng.choice(F_TVALS)] if k < 0.45 else ["T", rng.choice(F_TVALS[:5])] if k < 0.8 else ["c"])
    return {"toks": toks, "version": rng.random() < 0.5, "exact": rng.random() < 0.3,
            "dbz": rng.choice([None, None, None, "stack0"]), "defaults": rng.choice(F_DEFAULTS),
            "dict": rng.choice(["default"] * 5 + ["hooks-else", "tagkey", "dbz", "early-version", "warns", "noversion"])}


def all_f():
    """Thorough tier: every command line of at most three options over {-t beta, -t mine, -T stable, -c, -t None}, with and
    without a version, -e, and three default-tag configurations, on the default dictionary."""
    toks = [["t", "beta"], ["t", "mine"], ["T", "stable"], ["c"], ["t", "None"]]
    seqs = [[]] + [[a] for a in toks] + [[a, b] for a in toks for b in toks] + [[a, b, c] for a in toks for b in toks for c in toks]
    return [{"toks": sq, "version": v, "exact": e, "dbz": None, "defaults": d, "dict": "default"}
            for sq in seqs for v in (False, True) for e in (False, True)
            for d in (None, {"pre": ["beta"], "post": []}, {"pre": ["t"], "post": ["stable"]})]


def f_args(c):
    args = []
    for t in c["toks"]:
        args += {"t": ["-t", t[-1]], "T": ["-T", t[-1]], "c": ["-c"]}[t[0]]
    if c["exact"]:
        args += ["-e"]
    if c["dbz"]:
        args += ["-z", c["dbz"]]
    return args + ["p"] + (["1.0"] if c["version"] else [])


def f_impl_one(c, which):
    """which = 'vro': what `eups vro ARGS` prints; 'setup': the VRO of the Eups instance `setup ARGS` hands to eups.setup."""
    _quiet()
    hooks = common.eups_mod("hooks")
    hooks.config.Eups.VRO = dict_to_hooks(DICTS[c["dict"]])
    if c["defaults"]:
        hooks.config.Eups.defaultTags = {"pre": list(c["defaults"]["pre"]), "post": list(c["defaults"]["post"])}
    out, sink = io.StringIO(), io.StringIO()
    try:
        if which == "vro":
            cmdm = common.eups_mod("cmd")
            with contextlib.redirect_stderr(sink), contextlib.redirect_stdout(out):
                rc = cmdm.EupsCmd(args=["vro"] + f_args(c), toolname="eups").run()
            return {"out": "ok", "vro": out.getvalue().split(), "rc": rc}
        sc = common.eups_mod("setupcmd")
        import eups
        seen = {}

        def at_setup(productName, versionName, tags, productDir, Eups, **kw):
            seen["vro"] = list(Eups.getVRO())
            return []
        eups.setup = at_setup                # setupcmd.py calls eups.setup(...) once the instance and its VRO are ready
        with contextlib.redirect_stderr(sink), contextlib.redirect_stdout(out):
            rc = sc.EupsSetup(args=f_args(c), toolname="setup").run()
        if "vro" not in seen:
            return {"out": "err", "err": "setup-not-reached", "rc": rc}
        return {"out": "ok", "vro": seen["vro"], "rc": rc}
    except Exception as e:  # noqa
        return {"out": "err", "err": err_enum(e)}


def f_impl_chunk(cases):
    root = common.scratch("c03f")
    try:
        write_world(root, {"stacks": [{"decls": [["p", "1.0", NATIVE]], "tags": []}, {"decls": [], "tags": []}]})
        res = []
        for c in cases:
            pair = {}
            for which in ("vro", "setup"):
                r = common.in_child(f_impl_one, c, which)
                pair[which] = r[1] if r[0] == "ok" else {"out": "child", "err": list(r[:3])}
            res.append(pair)
        return res
    finally:
        common.rmtree(root)


def f_model_req(c, op):
    d = c["defaults"] or {"pre": [], "post": []}
    return {"m": "c03", "op": op, "toks": c["toks"], "version": c["version"], "exact": c["exact"], "dbz": c["dbz"],
            "defaults": d,
            "cfg": {"vroDict": DICTS[c["dict"]], "userVRO": False, "keep": False, "exact": False,
                    "globalTags": GLOBAL_TAGS + USER_TAGS + ["root"], "cmdTags": [], "prevPreferred": PREV_PREFERRED}}


def f_effective(c):
    """The -t / -T tags in force after default-tag processing, read off the command line as the help texts describe it:
    `-t None` / `-t ""` = no tags and no default tags; defaults when neither -t nor -T (nor -c) is given; -c = -T current
    where it stands."""
    tags = [t[1] for t in c["toks"] if t[0] == "t"]
    post = [t[1] if t[0] == "T" else "current" for t in c["toks"] if t[0] in ("T", "c")]
    if tags in (["None"], [""]):
        return [], post
    if not tags and not post and c["defaults"]:
        return list(c["defaults"]["pre"]), list(c["defaults"]["post"])
    return tags, post


def eval_f(ctx, cases):
    nw = 4
    impl = sum(parallel_map(f_impl_chunk, [cases[i::nw] for i in range(nw)], workers=nw), [])
    order = [c for i in range(nw) for c in cases[i::nw]]
    answers = ctx.lean.ask_many([f_model_req(c, op) for c in order for op in ("vroCmd", "setupCmdVro")])
    for k, (c, pair) in enumerate(zip(order, impl)):
        key = {"stream": "F", "case": c}
        ctx.case(key=key, nontrivial=bool(c["toks"] or c["defaults"]),
                 sample={"input": key, "impl": pair} if ctx.evaluations % 211 == 0 else None)
        ctx.hist("F:dict=%s" % c["dict"])
        for t in c["toks"]:
            ctx.hist("F:option=-%s%s" % (t[0], " None" if t[-1] in ("None", "") else ""))
        if c["defaults"]:
            ctx.hist("F:default-tags-configured")
        for j, which in enumerate(("vro", "setup")):
            io_ = pair[which]
            if io_["out"] == "child":
                raise common.InfraError("command child failed: %r" % (io_,))
            ans = answers[2 * k + j]
            mo = ({"out": "ok", "vro": ans["vro"], "rc": 0} if ans.get("out") == "ok" else
                  {"out": "err", "err": ans.get("err", ans.get("bad-op"))})
            if mo != io_:
                ctx.disagree("eups_vro_command" if which == "vro" else "setup_command_vro", key, io_, mo)
        a, b = pair["vro"], pair["setup"]
        mo2 = {"vroCmd": answers[2 * k].get("vro"), "setupCmdVro": answers[2 * k + 1].get("vro")}
        # oracle (ii): "Print information about the VRO to use if issuing the setup command with the same arguments"
        if a["out"] == "ok" and b["out"] == "ok" and a["vro"] != b["vro"]:
            ctx.fail("vro_cmd_reports_setup_vro", key, pair, mo2,
                     note="`eups vro %s` prints %s, `setup` with the same arguments resolves with %s" %
                          (" ".join(f_args(c)), a["vro"], b["vro"]))
        if b["out"] == "ok":
            tags, post = f_effective(c)
            sub = {"dict": c["dict"], "userVRO": False, "keep": False, "tags": tags, "postTags": post}
            for clause, detail in a_oracle(sub, b):
                ctx.fail(clause, key, pair, mo2, note="setup: " + detail)
            if c["dict"] == "default" and "type:exact" not in b["vro"] and all(t in A_KNOWN for t in tags + post):
                # (a tag that is not registered — `bogus`, or `None` next to another -t — is refused, and the qualified
                # entries go with it: _kindlySetPreferredTags; modelled, not a clause of the property)
                ctx.fail("default_vro_entries_kept", key, pair, mo2, note="type:exact is missing from %s" % b["vro"])


# ---- stream G: the older entry points — Eups.findProduct, findTaggedProduct with a tag file ---------------------

G_PREFS = [["current", "stable", "latest"], ["stable", "beta"], ["latest"], ["mine", "current"], ["version", "versionExpr", "current", "latest"],
           ["type:exact", "commandLine", "version", "versionExpr", "current"], ["beta", "warn:1", "current"], ["bogus", "current"],
           ["keep", "t", "12", ":", "stable"], ["user:mine", ":stable"]]
G_WS = [" ", "  ", "\t", " \t "]
G_HYPHEN = "2.0-rc1"


def gen_tagfile(rng, names):
    """A tag file as a list of structured lines and its text.  A line is ('pair', product, version) written in one of the
    accepted forms, ('comment',), ('blank',) or ('bad', text)."""
    lines, text = [], []
    for _ in range(rng.choice([1, 2, 3, 4, 6])):
        r = rng.random()
        if r < 0.12:
            lines.append(("comment",))
            text.append(rng.choice(["# a comment", "   # p 9.9", "|  # q 1.0"]))
        elif r < 0.2:
            lines.append(("blank",))
            text.append(rng.choice(["", "   ", "| |"]))
        elif r < 0.27:
            t = rng.choice(["p", "justoneword", "setupRequired(p)", "setupRequired(p 1.0 extra)", "setupRequired(q -j 1.0 2.0)"])
            lines.append(("bad", t))
            text.append(t)
        else:
            nm = rng.choice(names + ["r"])
            v = rng.choice(VERS + ["9.9", ">= 1.2", "LOCAL:$R/nodir", "LOCAL:$R/ldir", G_HYPHEN, G_HYPHEN]) if rng.random() < 0.9 else rng.choice(VERS)
            if " " in v:
                v = rng.choice(VERS)            # an expression cannot be written as one word of a plain line
            w = lambda: rng.choice(G_WS)
            form = rng.random()
            if form < 0.4:
                t = nm + w() + v + rng.choice(["", w() + "Linux", w() + "current  whatever"])
            elif form < 0.55:        # as printed by `eups list -D -s`
                t = rng.choice(["|", "| |", " | "]) + w() + nm + w() + v
            else:
                opts = rng.choice(["", "-j ", "-f  Linux ", "-j -k\t"]) if rng.random() < 0.6 else ""
                expr = rng.choice(["", " [>= 1.0]", "  [== 2.0 || > 3]"])
                t = "%ssetupRequired(%s%s%s%s%s)%s" % (rng.choice(["", "  "]), opts, nm, w(), v, expr, rng.choice(["", "  # trailing"]))
                if opts.startswith("-f"):
                    # `-f  Linux ` is not an option without argument: "strip options without arguments; we could do better"
                    lines.append(("bad", t))
                    text.append(t)
                    continue
            lines.append(("pair", nm, v))
            text.append(t)
    return lines, "\n".join(text) + rng.choice(["\n", ""])


def gen_g(rng):
    names = ["p", "q"]
    world = gen_world(rng, names)
    flavor = NATIVE if rng.random() < 0.7 else "generic"
    c = {"world": world, "name": rng.choice(names), "flavor": flavor, "pref": rng.choice(G_PREFS),
         "mode": rng.choice(["files", "files", "cache-rebuilt"]), "force": rng.random() < 0.15}
    have = sorted({d[1] for st in world["stacks"] for d in st["decls"] if d[0] == c["name"]})
    if rng.random() < 0.5:
        c["kind"] = "file"
        for st in world["stacks"]:
            for nm in names:
                if rng.random() < 0.5:          # a release candidate next to the release: a version name with a hyphen
                    st["decls"] = sorted(st["decls"] + [[nm, G_HYPHEN, flavor]])
        c["lines"], c["text"] = gen_tagfile(rng, names)
    else:
        c["kind"] = "findProduct"
        r = rng.random()
        c["version"] = None if r < 0.35 else rng.choice(have) if (r < 0.6 and have) else rng.choice(["9.9", ""]) if r < 0.7 else rng.choice(EXPRS)
        c["ignore"] = rng.random() < 0.1
    return c


def api_err(e):
    n, msg = type(e).__name__, str(e)
    return ("file:suspicious" if "Suspicious line" in msg else "file:invalid" if "Invalid line" in msg else
            "tagNotRecognized" if n == "TagNotRecognized" else "notFound" if n == "RuntimeError" and "Unable to find product" in msg
            else "badExpr" if n == "EupsException" and "Bad expr" in msg else err_enum(e))


def g_child(stacks, c):
    _quiet()
    sink = io.StringIO()
    with contextlib.redirect_stderr(sink), contextlib.redirect_stdout(sink):
        E = common.new_eups(readCache=(c["mode"] != "files"), force=c["force"])
        E.selectVRO()
        E.preferredTags = list(c["pref"])
        E.ignore_versions = bool(c.get("ignore"))
        scratch = os.path.dirname(stacks[0])
        try:
            if c["kind"] == "file":
                path = os.path.join(scratch, "tagfile.txt")
                with open(path, "w") as fd:
                    fd.write(c["text"].replace("$R", scratch))
                p = E.findTaggedProduct(c["name"], path, flavor=c["flavor"])
            else:
                p = E.findProduct(c["name"], c["version"], flavor=c["flavor"])
        except Exception as e:  # noqa
            n = type(e).__name__
            msg = str(e)
            kind = ("file:suspicious" if "Suspicious line" in msg else "file:invalid" if "Invalid line" in msg else
                    "tagNotRecognized" if n == "TagNotRecognized" else "notFound" if n == "RuntimeError" and "Unable to find product" in msg
                    else "badExpr" if n == "EupsException" and "Bad expr" in msg else "Other(%s)" % n)
            return {"out": "err", "err": kind}
        if p is None:
            return {"out": "ok", "prod": None}
        root = p.stackRoot()
        return {"out": "ok", "prod": {"version": p.version.replace(scratch, "$R"), "flavor": p.flavor or "",
                                      "stack": stacks.index(root) if root in stacks else -1}}


def g_impl_item(c):
    root = common.scratch("c03g")
    try:
        stacks = write_world(root, c["world"])
        if c["mode"] != "files":
            common.in_child(b_child, stacks, "cache-rebuilt", [])
        r = common.in_child(g_child, stacks, c)
        return dict(r[1], _root=root) if r[0] == "ok" else {"out": "child", "err": list(r[:4])}
    finally:
        common.rmtree(root)


def g_model_req(c, root="$R"):
    """`root`: the scratch directory the implementation ran in — the text of a tag file is compared as the code saw it"""
    base = {"m": "c03", "db": c["world"]["stacks"], "mode": "files" if c["mode"] == "files" else "cache", "loaded": FLAVS,
            "accepted": [False] * len(c["world"]["stacks"]), "globalTags": GLOBAL_TAGS, "userTags": USER_TAGS + ["root"],
            "dirs": [root + "/ldir"],
            "q": {"name": c["name"], "flavor": c["flavor"], "ignore": bool(c.get("ignore")), "preferred": c["pref"], "force": c["force"]}}
    if c["kind"] == "file":
        return dict(base, op="findTaggedFromFile", content=c["text"].replace("$R", root))
    return dict(base, op="findProductApi", version=c["version"])


def g_oracle(c, out):
    """From the generator's description: a tag file designates, for a product, the version of the first line naming it, and
    the lookup answers with that version from the first stack declaring it (or fails loudly); findProduct with an explicit
    version answers from the first stack declaring it."""
    world, name, flavor = c["world"], c["name"], c["flavor"]
    if c["kind"] == "file":
        want = None
        for ln in c["lines"]:
            if ln[0] == "bad":
                return          # an ill-formed line: the property says nothing
            if ln[0] == "pair" and ln[1] == name:
                want = ln[2]
                break
        if want is None:
            if out != {"out": "ok", "prod": None}:
                yield ("tag_file_entry", "the file does not list %s, got %r" % (name, out))
            return
        if _RELOP.search(want) or want.startswith("LOCAL:"):
            return
        r = spec_first_stack(world, lambda st: True if [name, want, flavor] in st["decls"] else None)
        if r is None:
            if c["force"]:
                if out != {"out": "ok", "prod": None}:
                    yield ("tag_file_entry", "%s %s is declared nowhere (--force): expected nothing, got %r" % (name, want, out))
            elif out.get("err") != "notFound":
                yield ("tag_file_entry", "%s %s is declared nowhere: expected a loud failure, got %r" % (name, want, out))
        elif out.get("prod") != {"version": want, "flavor": flavor, "stack": r[0]}:
            yield ("tag_file_entry", "the file lists %s %s, first declared in stack %d; got %r" % (name, want, r[0], out))
    elif c["version"] and not c.get("ignore") and not _RELOP.search(c["version"]):
        r = spec_first_stack(world, lambda st: True if [name, c["version"], flavor] in st["decls"] else None)
        want = {"version": c["version"], "flavor": flavor, "stack": r[0]} if r else None
        if out != {"out": "ok", "prod": want}:
            yield ("version_entry", "findProduct(%s, %s): expected %r, got %r" % (name, c["version"], want, out))
    elif not c["version"] or c.get("ignore"):
        # "the (most) preferred version": the first preferred tag that designates one
        for ent in c["pref"]:
            if ent == ":" or ent.isdigit() or "type:" in ent:
                continue
            if ent != "latest" and spec_tag_key(ent) is None and ent not in ("keep", "version", "versionExpr", "commandLine"):
                return          # not a tag: the property says nothing
            ans = spec_entry(world, name, flavor, ent, None)
            if ans is None:
                return
            if ans:
                got = out.get("prod")
                if not got or (got["version"], got["stack"]) not in ans:
                    yield ("first_match", "preferred tag %s designates %s, got %r" % (ent, sorted(ans), out))
                return
        if out != {"out": "ok", "prod": None}:
            yield ("first_match", "no preferred tag designates a version, got %r" % (out,))


def eval_g(ctx, cases):
    impl = parallel_map(g_impl_item, cases, workers=4)
    for io_ in impl:
        if io_.get("out") == "child":
            raise common.InfraError("entry-point child failed: %r" % (io_,))
    roots = [io_.pop("_root") for io_ in impl]
    answers = ctx.lean.ask_many([g_model_req(c, root) for c, root in zip(cases, roots)])
    for c, io_, ans, root in zip(cases, impl, answers, roots):
        key = {"stream": "G", "case": c}
        if "bad-op" in ans:
            mo = {"out": "bad-op", "err": ans["bad-op"]}
        elif ans["out"] != "ok":
            mo = {"out": "err", "err": ans["err"]}
        else:
            mo = {"out": "ok", "prod": ans["prod"]}
            if mo["prod"]:
                mo["prod"]["version"] = mo["prod"]["version"].replace(root, "$R")
                if mo["prod"]["stack"] >= len(c["world"]["stacks"]):
                    mo["prod"]["stack"] = -1
        ctx.case(key=key, nontrivial=world_has(c["world"], c["name"], c["flavor"]),
                 sample={"input": {k: v for k, v in c.items() if k != "world"}, "impl": io_} if ctx.evaluations % 307 == 0 else None)
        ctx.hist("G:%s" % c["kind"])
        ctx.hist("G:result=%s" % (io_.get("err") if io_["out"] != "ok" else "none" if io_["prod"] is None else "found"))
        if mo != io_:
            ctx.disagree("findTaggedProduct_file" if c["kind"] == "file" else "findProduct", key, io_, mo)
        for clause, detail in g_oracle(c, io_):
            ctx.fail(clause, key, io_, mo, note=detail)


# ---- stream H: which stacks are searched, in which order — Eups.setEupsPath(-Z path, -z dbz) -------------------

H_DIRS = ["stack0", "sub/stack1", "sub/deep/stack2", "other", "st.ck", "stock"]        # directories that exist under the scratch root
H_DECOR = ["%s", "%s/", "%s//", "%s/.", "%s/sub/..", "%s/./", "%s/../%b"]


def gen_h(rng):
    """Pieces of a -Z / $EUPS_PATH text: ("dir", i, decoration) = H_DIRS[i] written in some equivalent way,
    ("missing",) a directory that does not exist, ("file",) a plain file, ("empty",) an empty piece."""
    pieces = []
    for _ in range(rng.choice([1, 2, 3, 3, 4, 5])):
        r = rng.random()
        if r < 0.72:
            pieces.append(["dir", rng.randrange(len(H_DIRS)), rng.choice(H_DECOR), rng.random() < 0.15])
        else:
            pieces.append([rng.choice(["missing", "file", "empty"])])
    return {"pieces": pieces, "dbz": rng.choice([None] * 10 + ["stack0", "sub", "sub", "deep", "stack", "other", "nomatch", "stack1", "st.ck", "st.ck"])}


def h_text(c, root):
    out = []
    for p in c["pieces"]:
        if p[0] == "dir":
            base = os.path.join(root, H_DIRS[p[1]])
            t = p[2].replace("%b", os.path.basename(base)) % base
            out.append(t.replace(root, root + "/", 1) if p[3] else t)      # p[3]: a doubled slash in the middle
        else:
            out.append({"missing": os.path.join(root, "nowhere"), "file": os.path.join(root, "afile"), "empty": ""}[p[0]])
    return ":".join(out)


def h_child(root, c):
    _quiet()
    E = common.eups_mod("Eups").Eups
    text = h_text(c, root)
    dirs = [p for p in text.split(":") if os.path.isdir(p)]
    try:
        res = E.setEupsPath(text, c["dbz"])
        return {"out": "ok", "path": [p.replace(root, "$R") for p in res], "env": os.environ.get("EUPS_PATH", "").replace(root, "$R"),
                "_text": text, "_dirs": dirs}
    except Exception as e:  # noqa
        return {"out": "err", "err": err_enum(e), "_text": text, "_dirs": dirs}


def h_impl_chunk(cases):
    root = common.scratch("c03h")
    try:
        for d in H_DIRS:
            os.makedirs(os.path.join(root, d))
        with open(os.path.join(root, "afile"), "w") as fd:
            fd.write("x")
        res = []
        for c in cases:
            r = common.in_child(h_child, root, c)
            res.append(dict(r[1], _root=root) if r[0] == "ok" else {"out": "child", "err": list(r[:3])})
        return res
    finally:
        common.rmtree(root)


def h_oracle(c, out):
    """Stacks are searched in the order the path lists them; a directory listed twice (however written) is searched
    once; what is not a directory is ignored; -z keeps the entries that contain that directory."""
    if out.get("out") != "ok":
        return
    want = []
    for p in c["pieces"]:
        if p[0] != "dir" or p[2] == "%s/sub/..":
            continue            # `<dir>/sub/..` is not a directory: <dir>/sub does not exist
        base = "$R/" + H_DIRS[p[1]]
        comps = (p[2].replace("%b", "x") % base).split("/")
        if c["dbz"] and c["dbz"] not in comps:
            continue
        if base not in want:
            want.append(base)
    if out["path"] != want:
        yield ("path_order", "the path lists %s, searched %s" % (want, out["path"]))
    if out["env"] != ":".join(out["path"]):
        yield ("path_order", "EUPS_PATH is left as %r" % out["env"])


def eval_h(ctx, cases):
    nw = 2
    impl = sum(parallel_map(h_impl_chunk, [cases[i::nw] for i in range(nw)], workers=nw), [])
    order = [c for i in range(nw) for c in cases[i::nw]]
    for io_ in impl:
        if io_.get("out") == "child":
            raise common.InfraError("setEupsPath child failed: %r" % (io_,))
    answers = ctx.lean.ask_many([{"m": "c03", "op": "setEupsPath", "path": io_["_text"], "dbz": c["dbz"], "dirs": io_["_dirs"]}
                                 for c, io_ in zip(order, impl)])
    for c, io_, ans in zip(order, impl, answers):
        root = io_.pop("_root")
        io_.pop("_text"), io_.pop("_dirs")
        key = {"stream": "H", "case": c}
        mo = ({"out": "ok", "path": [p.replace(root, "$R") for p in ans["path"]]} if ans.get("out") == "ok" else
              {"out": "err", "err": ans.get("err", ans.get("bad-op"))})
        if mo["out"] == "ok":
            mo["env"] = ":".join(mo["path"])
        ctx.case(key=key, nontrivial=any(p[0] == "dir" for p in c["pieces"]),
                 sample={"input": key, "impl": io_} if ctx.evaluations % 97 == 0 else None)
        ctx.hist("H:dbz=%s" % ("none" if c["dbz"] is None else "given"))
        ctx.hist("H:stacks-found=%d" % len(io_.get("path", [])))
        if mo != io_:
            ctx.disagree("setEupsPath", key, io_, mo)
        for clause, detail in h_oracle(c, io_):
            ctx.fail(clause, key, io_, mo, note=detail)


# ---- stream I: several top-level requests served by ONE Eups object (API use) ---------------------------------

I_DEPS = ["a", "b"]
I_TOPS = ["top1", "top2", "top3"]


def gen_i(rng):
    """A history of 2-4 top-level requests on one Eups instance: `setup topK` (a table of 1-2 lines over the products a, b),
    `unsetup topK`, `setup a|b [version]`.  In the focused histories (40 %) an earlier request chooses `a` through a version
    entry and a later one names no version, so that it is answered by a tag standing to the RIGHT of `version` on the VRO."""
    world = gen_world(rng, I_DEPS)
    native = NATIVE
    tables = {}
    for t in I_TOPS:
        deps = list(I_DEPS)
        rng.shuffle(deps)
        lines = []
        for nm in deps[:rng.choice([1, 1, 2])]:
            have = sorted({d[1] for st in world["stacks"] for d in st["decls"] if d[0] == nm})
            r = rng.random()
            version = None if (r < 0.4 or not have) else rng.choice(have) if r < 0.85 else rng.choice(EXPRS)
            line = {"tags": [], "vro": None, "keep": False}
            r = rng.random()
            if r < 0.08:
                line["keep"] = True
            elif r < 0.16:
                line["tags"] = [rng.choice(["beta", "stable"])]
            lines.append({"name": nm, "version": version, "vexpr": None, "optional": rng.random() < 0.3, "line": line})
        tables[t] = lines
    cmds = []
    focus = rng.random() < 0.4
    if focus:
        st = world["stacks"][0]
        v1, v2 = rng.sample(VERS, 2)
        for v in (v1, v2):
            if ["a", v, native] not in st["decls"]:
                st["decls"].append(["a", v, native])
        st["decls"].sort()
        tag = rng.choice(["current", "current", "stable"])
        for stk in world["stacks"]:
            stk["tags"] = [r for r in stk["tags"] if not (r[0] == tag and r[1] == "a" and r[2] == native)]
        st["tags"] = sorted(st["tags"] + [[tag, "a", native, v2]])
        plain = {"tags": [], "vro": None, "keep": False}
        tables["top1"] = [{"name": "a", "version": v1, "vexpr": None, "optional": False, "line": dict(plain)}]
        tables["top2"] = [{"name": "a", "version": None, "vexpr": None, "optional": False, "line": dict(plain)}]
        first = rng.choice([{"op": "setup", "name": "top1", "version": None}, {"op": "setup", "name": "a", "version": v1}])
        cmds = [first] + ([{"op": "unsetup", "name": first["name"], "version": None}] if rng.random() < 0.4 else []) + \
               [{"op": "setup", "name": "top2", "version": None}]
        tagsel = ["stable"] if tag == "stable" else rng.choice([[], [], ["beta"]])
    else:
        for _ in range(rng.choice([2, 3, 3, 4])):
            r = rng.random()
            if r < 0.6:
                cmds.append({"op": "setup", "name": rng.choice(I_TOPS), "version": None})
            elif r < 0.75:
                cmds.append({"op": "unsetup", "name": rng.choice(I_TOPS + I_DEPS), "version": None})
            else:
                nm = rng.choice(I_DEPS)
                have = sorted({d[1] for st in world["stacks"] for d in st["decls"] if d[0] == nm})
                cmds.append({"op": "setup", "name": nm, "version": rng.choice(have) if (have and rng.random() < 0.6) else None})
        tagsel = rng.choice([[], [], [], ["beta"], ["stable"]])
    presets = {}
    if not focus:
        for nm in I_DEPS:
            decls = [(i, d) for i, st in enumerate(world["stacks"]) for d in st["decls"] if d[0] == nm]
            if decls and rng.random() < 0.3:
                i, d = rng.choice(decls)
                presets[nm] = {"version": d[1], "flavor": d[2], "stack": i}
    return {"world": world, "tables": tables, "cmds": cmds, "presets": presets, "tags": tagsel, "focus": focus}


def i_env(stacks):
    env = {}
    for nm in I_DEPS + I_TOPS:
        v = os.environ.get("SETUP_" + nm.upper())
        if v:
            f = v.split()
            root = f[f.index("-Z") + 1] if "-Z" in f else None
            env[nm] = {"version": f[1], "flavor": f[f.index("-f") + 1], "stack": stacks.index(root) if root in stacks else -1}
    return env


def i_child(stacks, c):
    _quiet()
    try:
        for nm, ps in c["presets"].items():
            os.environ["SETUP_" + nm.upper()] = "%s %s -f %s -Z %s" % (nm, ps["version"], ps["flavor"], stacks[ps["stack"]])
            os.environ[nm.upper() + "_DIR"] = os.path.join(stacks[ps["stack"]], ps["flavor"], nm, ps["version"])
        E = common.new_eups(readCache=False, setupType=[])          # ONE object for the whole history
        E.selectVRO(c["tags"] or None, None, None, None)
        vro = list(E.getVRO())
        steps = []
        for cmd in c["cmds"]:
            try:
                ok, ver, why = E.setup(cmd["name"], cmd["version"], fwd=(cmd["op"] == "setup"))
                res = bool(ok)
            except Exception as e:  # noqa
                res = "raised"
            steps.append({"result": res, "env": i_env(stacks)})
        return {"out": "ok", "vro": vro, "steps": steps, "vro_after": list(E.getVRO())}
    except Exception as e:  # noqa
        return {"out": "err", "err": err_enum(e)}


def i_impl_item(c):
    root = common.scratch("c03i")
    try:
        stacks = write_world(root, c["world"])
        for t in I_TOPS:
            pdir = os.path.join(root, "prod", t)
            os.makedirs(os.path.join(pdir, "ups"))
            with open(os.path.join(pdir, "ups", t + ".table"), "w") as f:
                for ln in c["tables"][t]:
                    f.write(d_table_line(ln, ln["name"]))
            d = os.path.join(stacks[0], "ups_db", t)
            os.makedirs(d)
            with open(os.path.join(d, "1.0.version"), "w") as fd:
                fd.write("FILE = version\nPRODUCT = %s\nVERSION = 1.0\nGroup:\n   FLAVOR = %s\n   QUALIFIERS = \"\"\n"
                         "   PROD_DIR = %s\n   UPS_DIR = ups\n   TABLE_FILE = %s.table\nEnd:\n" % (t, NATIVE, pdir, t))
            with open(os.path.join(d, "current.chain"), "w") as fd:
                fd.write("FILE = version\nPRODUCT = %s\nCHAIN = current\n#Group:\n   FLAVOR = %s\n   VERSION = 1.0\n"
                         "   QUALIFIERS = \"\"\n#End:\n" % (t, NATIVE))
        r = common.in_child(i_child, stacks, c)
        return r[1] if r[0] == "ok" else {"child": list(r[:4])}
    finally:
        common.rmtree(root)


def i_world_with_tops(c):
    """The database as the model sees it: the tops are declared (1.0, native, current) in the first stack."""
    w = json.loads(json.dumps(c["world"]))
    for t in I_TOPS:
        w["stacks"][0]["decls"].append([t, "1.0", NATIVE])
        w["stacks"][0]["tags"].append(["current", t, NATIVE, "1.0"])
    return w


def i_model_req(c, vro):
    def lines(t):
        return [{"name": ln["name"], "version": ln["version"], "vexpr": ln["vexpr"],
                 "lineVro": ln["line"]["vro"].split() if ln["line"]["vro"] else None, "lineTags": ln["line"]["tags"],
                 "lineKeep": ln["line"]["keep"], "optional": ln["optional"]} for ln in c["tables"].get(t, [])]
    w = i_world_with_tops(c)
    return {"m": "c03", "op": "runHistory", "db": w["stacks"], "mode": "files", "loaded": FLAVS,
            "accepted": [False] * len(w["stacks"]), "globalTags": GLOBAL_TAGS, "userTags": USER_TAGS + ["root"], "vro": vro,
            "keep": False, "flavors": FLAVS, "env": [[nm, ps] for nm, ps in sorted(c["presets"].items())],
            "cmds": [{"name": cmd["name"], "version": cmd["version"], "unsetup": cmd["op"] != "setup", "lines": lines(cmd["name"])}
                     for cmd in c["cmds"]]}


def i_oracle(c, out, stats):
    """Every top-level request is answered by reading the VRO afresh: a plain table line of the k-th request gets what the
    VRO designates now, whatever an earlier, finished request on the same object chose for the product and why."""
    if out.get("out") != "ok":
        return
    vro = out["vro"]
    if out["vro_after"] != vro:
        yield ("vro_unchanged_by_table", "VRO before the history %s, after it %s" % (vro, out["vro_after"]))
    before = dict(c["presets"])
    answered = {}                      # product -> index of the VRO entry that answered it in an earlier request
    for k, (cmd, st) in enumerate(zip(c["cmds"], out["steps"])):
        if cmd["op"] == "setup" and cmd["name"] in I_TOPS and st["result"] is True:
            was_up = cmd["name"] in before
            env_b = {nm: before[nm] for nm in I_DEPS if nm in before and not was_up}   # a top that is set up is unset first, with its table
            sub_c = {"world": c["world"], "lines": c["tables"][cmd["name"]], "presets": env_b, "keep": False}
            sub_o = {"out": "ok", "vro": vro, "vro_after": vro, "pref_after": vro, "top": True,
                     "set": {nm: st["env"].get(nm) for nm in I_DEPS}}
            for clause, detail in e_oracle(sub_c, sub_o):
                yield (clause if k == 0 else "later_request_reads_vro_afresh", "request %d (setup %s): %s" % (k + 1, cmd["name"], detail))
            for ln in c["tables"][cmd["name"]]:
                if ln["line"]["tags"] or ln["line"]["vro"] or ln["line"]["keep"]:
                    continue
                want = spec_resolve(c["world"], ln["name"], vro, ln["version"], 1)
                if want[0] == "hit":
                    idx = vro.index(want[3])
                    if ln["name"] in answered and answered[ln["name"]] < idx and k > 0:
                        stats.append("later-request-answered-right-of-an-earlier-one")
                    answered[ln["name"]] = idx
        elif cmd["op"] == "setup" and cmd["name"] in I_DEPS and st["result"] is True and cmd["version"] and not _RELOP.search(cmd["version"]):
            answered[cmd["name"]] = vro.index("commandLine") if "commandLine" in vro else 0
        before = dict(st["env"])


def eval_i(ctx, cases):
    impl = parallel_map(i_impl_item, cases, workers=4)
    sels = ctx.lean.ask_many([{"m": "c03", "op": "selectVRO",
                               "cfg": {"vroDict": DEFAULT_DICT, "userVRO": False, "keep": False, "exact": False,
                                       "globalTags": GLOBAL_TAGS + USER_TAGS + ["root"], "cmdTags": [], "prevPreferred": PREV_PREFERRED},
                               "args": {"tags": c["tags"], "productDir": False, "versionName": False, "dbz": None,
                                        "inexact": False, "postTags": []}} for c in cases])
    answers = ctx.lean.ask_many([i_model_req(c, s.get("vro", [])) for c, s in zip(cases, sels)])
    for c, io_, s, ans in zip(cases, impl, sels, answers):
        inp = dict(c, stream="I")
        if "child" in io_:
            raise common.InfraError("history child failed: %r" % (io_,))
        if s.get("out") != "ok" or "steps" not in ans:
            mo = {"out": "err", "err": s.get("err", ans.get("bad-op", ans.get("err")))}
        else:
            steps = []
            for stp in ans["steps"]:
                r = stp["result"]
                res = False if r["out"] != "ok" else "raised" if r["raised"] else True
                env = {nm: p for nm, p in stp["env"]}
                steps.append({"result": res, "env": env})
            mo = {"out": "ok", "vro": s["vro"], "steps": steps, "vro_after": s["vro"]}
        ctx.case(key=inp, nontrivial=any(world_has(c["world"], nm, NATIVE) for nm in I_DEPS),
                 sample={"input": {k: c[k] for k in c if k != "world"}, "impl": io_} if ctx.evaluations % 211 == 0 else None)
        ctx.hist("I:requests=%d" % len(c["cmds"]))
        if any(cmd["op"] == "unsetup" for cmd in c["cmds"]):
            ctx.hist("I:with-unsetup")
        if mo != io_:
            ctx.disagree("history_on_one_object", inp, io_, mo)
        stats = []
        for clause, detail in i_oracle(c, io_, stats):
            ctx.fail(clause, inp, io_, mo, note=detail)
        if stats:
            ctx.hist("I:" + stats[0])


# ---- the local order against the real one --------------------------------------------------------------

def check_order(ctx):
    def impl():
        _quiet()
        root = common.scratch("c03o")
        try:
            write_world(root, {"stacks": [{"decls": [], "tags": []}]})
            sink = io.StringIO()
            with contextlib.redirect_stderr(sink):
                E = common.new_eups()
                names = VERS + ["9.9", "1.000", "2"]
                cm = [[E.version_cmp(a, b) for b in names] for a in names]
                mt = [[bool(E.version_match(v, x)) for x in EXPRS] for v in names]
            return names, cm, mt
        finally:
            common.rmtree(root)
    r = common.in_child(impl)
    if r[0] != "ok":
        raise common.InfraError("order probe failed: %r" % (r,))
    names, cm, mt = r[1]
    reqs = [{"m": "c03", "op": "cmp", "a": a, "b": b} for a in names for b in names]
    reqs += [{"m": "c03", "op": "match", "v": v, "x": x} for v in names for x in EXPRS]
    ans = ctx.lean.ask_many(reqs)
    k = 0
    for i, a in enumerate(names):
        for j, b in enumerate(names):
            if ans[k]["cmp"] != cm[i][j]:
                ctx.disagree("version_cmp_on_generator_names", {"stream": "O", "a": a, "b": b}, cm[i][j], ans[k]["cmp"])
            if not ans[k]["conv"] or ans[k]["simple"] != ans[k]["cmp"]:
                raise common.InfraError("generator version names %r, %r: not conventional for C10's model, or its order "
                                        "differs from the dotted-decimal one of the examples" % (a, b))
            if (cm[i][j] > 0) - (cm[i][j] < 0) != (vkey(a) > vkey(b)) - (vkey(a) < vkey(b)):
                ctx.fail("order_is_numeric", {"stream": "O", "a": a, "b": b}, cm[i][j], ans[k]["cmp"],
                         note="version_cmp disagrees with numeric order on dotted versions")
            k += 1
    for i, v in enumerate(names):
        for j, x in enumerate(EXPRS):
            if ans[k]["match"] != mt[i][j]:
                ctx.disagree("version_match_on_generator_names", {"stream": "O", "v": v, "x": x}, mt[i][j], ans[k]["match"])
            if not ans[k]["ok"]:
                raise common.InfraError("expression %r cannot be evaluated on %r by C10's model" % (x, v))
            if mt[i][j] != spec_sat(v, x):
                ctx.fail("match_is_numeric", {"stream": "O", "v": v, "x": x}, mt[i][j], ans[k]["match"],
                         note="version_match disagrees with the numeric reading of the expression")
            k += 1
    ctx.hist("O:order-pairs", len(names) ** 2)



# ---- shrinking ----------------------------------------------------------------------------------------------

def _reevaluate(ctx, inp):
    sub = common.Ctx(ctx.pid, ctx.tier, ctx.seed, 600)
    sub.lean = ctx.lean
    run_inputs(sub, [inp])
    return sub


def _signature(sub):
    return {("fail", f["clause"]) for f in sub.failures} | {("dis", d["observable"]) for d in sub.disagreements}


def shrink_reports(ctx, limit=4, max_tests=120):
    """Delta-debug the database of the first few unexplained failures / disagreements (streams B, C, D): drop
    declarations and tag assignments while the same clause keeps failing.  Listed findings are left as they are."""
    todo, seen = [], set()
    for kind, rec in [("fail", f) for f in ctx.failures if not f.get("finding_class")] + [("dis", d) for d in ctx.disagreements]:
        inp = rec["input"]
        if not isinstance(inp, dict) or inp.get("stream") not in ("B", "C", "D", "E") or "world" not in inp:
            continue
        sig = (kind, rec.get("clause") or rec.get("observable"))
        if sig in seen or (inp.get("stream") == "B" and not inp.get("lookup")):
            continue
        seen.add(sig)
        todo.append((sig, rec))
        if len(todo) >= limit:
            break
    for sig, rec in todo:
        inp = rec["input"]
        items = [(i, "decls", d) for i, st in enumerate(inp["world"]["stacks"]) for d in st["decls"]] + \
                [(i, "tags", t) for i, st in enumerate(inp["world"]["stacks"]) for t in st["tags"]]

        def build(sub_items):
            w = {"stacks": [{"decls": [], "tags": []} for _ in inp["world"]["stacks"]]}
            for i, k, x in sub_items:
                w["stacks"][i][k].append(x)
            return dict(inp, world=w)

        def still(sub_items):
            try:
                return sig in _signature(_reevaluate(ctx, build(sub_items)))
            except common.InfraError:
                return False
        if not items or not still(items):
            continue
        small = common.ddmin(items, still, max_tests=max_tests)
        sub = _reevaluate(ctx, build(small))
        for r2 in (sub.failures if sig[0] == "fail" else sub.disagreements):
            if (r2.get("clause") or r2.get("observable")) == sig[1]:
                rec.update(input=r2["input"], impl_output=r2["impl_output"], model_output=r2["model_output"],
                           note=(r2.get("note", "") + " [shrunk from %d to %d database records]" % (len(items), len(small))).strip())
                break


# ---- entry points --------------------------------------------------------------------------------------

def corpus_cases():
    d = os.path.join(common.VERIF, "corpus", "C03")
    out = []
    if os.path.isdir(d):
        for f in sorted(os.listdir(d)):
            if f.endswith(".json"):
                with open(os.path.join(d, f)) as fh:
                    c = json.load(fh)
                c["_corpus"] = f
                out.append(c)
    return out


def run_inputs(ctx, inputs):
    """Evaluate replay-format inputs ({"stream": "A"|"B"|"C", ...})."""
    a = [c["case"] for c in inputs if c["stream"] == "A"]
    if a:
        eval_a(ctx, a, [])
    b = [c for c in inputs if c["stream"] == "B" and c.get("lookup")]
    if b:
        eval_b(ctx, [(c["world"], {c["mode"]: [c["lookup"]]}) for c in b])
    cs = [{k: v for k, v in c.items() if k not in ("stream", "_corpus", "comment")} for c in inputs if c["stream"] == "C"]
    if cs:
        eval_c(ctx, cs)
    ds = [{k: v for k, v in c.items() if k not in ("stream", "_corpus", "comment")} for c in inputs if c["stream"] == "D"]
    if ds:
        eval_d(ctx, ds)
    es = [{k: v for k, v in c.items() if k not in ("stream", "_corpus", "comment")} for c in inputs if c["stream"] == "E"]
    if es:
        eval_e(ctx, es)
    fs = [c["case"] for c in inputs if c["stream"] == "F"]
    if fs:
        eval_f(ctx, fs)
    gs = [c["case"] for c in inputs if c["stream"] == "G"]
    if gs:
        eval_g(ctx, gs)
    hs = [c["case"] for c in inputs if c["stream"] == "H"]
    if hs:
        eval_h(ctx, hs)
    is_ = [{k: v for k, v in c.items() if k not in ("stream", "_corpus", "comment")} for c in inputs if c["stream"] == "I"]
    if is_:
        eval_i(ctx, is_)


def exhaustive_b(ctx):
    """Thorough tier: every database of two stacks over versions {1.0, 2.0} for Linux, 1.0 for generic, and the tag
    `current` (absent / on 1.0 / on 2.0, for Linux) per stack — 24 x 24 databases — against a fixed set of VROs and
    requests, through the files and the accepted cache."""
    def stacks():
        out = []
        for mask in range(4):
            for g in (False, True):
                for cur in (None, "1.0", "2.0"):
                    decls = [["p", v, NATIVE] for k, v in enumerate(["1.0", "2.0"]) if mask >> k & 1]
                    if g:
                        decls.append(["p", "1.0", "generic"])
                    tags = [["current", "p", NATIVE, cur]] if cur else []
                    if g and cur == "1.0":
                        tags.append(["current", "p", "generic", "1.0"])
                    out.append({"decls": sorted(decls), "tags": sorted(tags)})
        return out
    sts = stacks()
    vros = [list(DEFAULT_DICT[0][1]), ["current", "version", "versionExpr"], ["versionExpr", "latest"],
            ["version", "current", "versionExpr", "latest"], ["latest", "version"]]
    reqs = [None, "1.0", "2.0", "9.9", ">= 1.0", "< 2.0", "== 2.0", ">= 2.0 || == 1.0"]
    lookups = [{"name": "p", "version": v, "vexpr": None, "depth": d, "flavor": f, "ignore": False, "already": None, "vro": vro}
               for vro in vros for v in reqs for f in FLAVS for d in (0, 1)]
    items = [({"stacks": [a, b]}, {"files": lookups, "cache-rebuilt": [], "cache-accepted": lookups}) for a in sts for b in sts]
    ctx.hist("B:exhaustive-databases", len(items))
    for k in range(0, len(items), 48):
        if ctx.out_of_time():
            ctx.note("exhaustive enumeration cut short by the time budget at %d of %d databases" % (k, len(items)))
            break
        eval_b(ctx, items[k:k + 48])


QUICK = {"A": 250, "B": 80, "C": 420, "D": 340, "E": 340, "F": 160, "G": 220, "H": 200, "I": 140}        # B counts databases (x ~42 lookups)
THOROUGH = {"A": 6000, "B": 4000, "C": 20000, "D": 15000, "E": 15000, "F": 6000, "G": 12000, "H": 8000, "I": 8000}
CHUNK = {"A": 600, "B": 120, "C": 600, "D": 600, "E": 700, "F": 300, "G": 400, "H": 400, "I": 300}


def run_stream(ctx, k, n, pool):
    """n more cases of stream k (B: n databases)."""
    if k == "A":
        eval_a(ctx, [gen_a(ctx.rng) for _ in range(n)], pool)
    elif k == "B":
        eval_b(ctx, gen_b_items(ctx.rng, n, 12, [v for v in pool if v][:60]))
    elif k == "C":
        eval_c(ctx, [gen_c(ctx.rng) for _ in range(n)])
    elif k == "D":
        eval_d(ctx, [gen_d(ctx.rng) for _ in range(n)])
    elif k == "E":
        eval_e(ctx, [gen_e(ctx.rng) for _ in range(n)])
    elif k == "F":
        eval_f(ctx, [gen_f(ctx.rng) for _ in range(n)])
    elif k == "G":
        eval_g(ctx, [gen_g(ctx.rng) for _ in range(n)])
    elif k == "H":
        eval_h(ctx, [gen_h(ctx.rng) for _ in range(n)])
    elif k == "I":
        eval_i(ctx, [gen_i(ctx.rng) for _ in range(n)])
    ctx.hist("stream-cases:" + k, n)


def check_floors(ctx, done):
    """Every class of input the clauses rely on must have been seen in proportion (InfraError otherwise)."""
    h = ctx.histogram
    for k in QUICK:
        if not done.get(k):
            raise common.InfraError("the time budget ran out before stream %s produced a case" % k)
    if h.get("E:later-plain-line-for-a-set-up-product", 0) < 0.08 * done["E"]:
        raise common.InfraError("degenerate distribution: too few tables with an option line before a plain line for a set-up product")
    if ctx.evaluations and ctx.distinct_nontrivial < ctx.evaluations * 0.3:
        raise common.InfraError("degenerate distribution: %d non-trivial of %d" % (ctx.distinct_nontrivial, ctx.evaluations))
    ncd = sum(v for k, v in h.items() if k.startswith("C:chain=") or k.startswith("D:chain="))
    for k, least in (("native-and-a-fallback-sorting-first-both-resolve", 0.05), ("exact+user-pretag-over-table-version", 0.01),
                     ("exact+global-pretag-over-table-version", 0.004), ("user-pretag-over-table-version", 0.005)):
        seen = h.get("C:" + k, 0) + h.get("D:" + k, 0)
        if ncd > 400 and seen < least * ncd:
            raise common.InfraError("degenerate distribution: %s seen %d times in %d setup cases" % (k, seen, ncd))
    nbl = sum(v for k, v in h.items() if k.startswith("B:flavor="))
    if h.get("B:flavor=generic", 0) < 0.1 * nbl:
        raise common.InfraError("degenerate distribution: fallback-flavor lookups under 10%")
    for k, least in (("B:result=via:setup", 0.004), ("B:result=via:mine", 0.003), ("B:result=via:user:mine", 0.002),
                     ("B:result=via:path from version", 0.002), ("B:vro-with-qualified-global-tag", 0.01)):
        if nbl > 2000 and h.get(k, 0) < least * nbl:
            raise common.InfraError("degenerate distribution: %s seen %d times in %d lookups" % (k, h.get(k, 0), nbl))
    if done["F"] > 100 and h.get("F:option=-t None", 0) < 0.03 * done["F"]:
        raise common.InfraError("degenerate distribution: too few command lines with -t None")
    if done["G"] > 100 and (h.get("G:file", 0) < 0.3 * done["G"] or h.get("G:result=found", 0) < 0.15 * done["G"]):
        raise common.InfraError("degenerate distribution: tag-file / findProduct cases")
    if done["I"] > 60 and (h.get("I:later-request-answered-right-of-an-earlier-one", 0) < 0.15 * done["I"]
                           or h.get("I:with-unsetup", 0) < 0.1 * done["I"]):
        raise common.InfraError("degenerate distribution: histories on one Eups object (%d of %d with a later request answered to the "
                                "right of an earlier one)" % (h.get("I:later-request-answered-right-of-an-earlier-one", 0), done["I"]))
    if done["H"] > 100 and h.get("H:stacks-found=0", 0) > 0.7 * done["H"]:
        raise common.InfraError("degenerate distribution: most path texts select no stack")


def run(ctx):
    """The ordinary quick portion of EVERY stream runs first and completely — in two passes of half the quick count per
    stream, so that a slow machine starves no stream — and its distribution floors are checked.  Only then is an enlarged
    budget (thorough tier, or the quick tier escalated because a mirrored function changed) spent, round-robin over the
    streams, chunk by chunk, until the counts or the time limit are reached."""
    check_order(ctx)
    corpus = corpus_cases()
    ctx.hist("corpus", len(corpus))
    run_inputs(ctx, corpus)
    pool = [list(DEFAULT_DICT[0][1])]
    eval_a(ctx, all_default_a(), pool)          # the default dictionary exhaustively
    done = {k: 0 for k in QUICK}
    for half in (0, 1):
        for k in QUICK:
            n = QUICK[k] // 2 if half == 0 else QUICK[k] - QUICK[k] // 2
            if ctx.out_of_time():
                break
            run_stream(ctx, k, n, pool)
            done[k] += n
    ctx.hist("A:distinct-vros", len([v for v in pool if v][:60]))
    check_floors(ctx, done)
    big = ctx.n(0, 1) == 1                       # thorough tier, or escalated
    if big:
        if ctx.tier == "thorough":
            # each exhaustive family gets a share of what is left, so that neither starves the other nor the streams
            final = ctx.deadline
            ctx.deadline = min(final, time.time() + 0.2 * max(0.0, final - time.time()))
            fa = all_f()
            ctx.hist("F:exhaustive-command-lines", len(fa))
            for k in range(0, len(fa), 300):
                if ctx.out_of_time():
                    ctx.note("exhaustive command lines cut short by the time budget at %d of %d" % (k, len(fa)))
                    break
                eval_f(ctx, fa[k:k + 300])
            ctx.deadline = min(final, time.time() + 0.45 * max(0.0, final - time.time()))
            exhaustive_b(ctx)
            ctx.deadline = final
        left = {k: THOROUGH[k] - done[k] for k in QUICK}
        while any(v > 0 for v in left.values()) and not ctx.out_of_time():
            for k in QUICK:
                if left[k] <= 0 or ctx.out_of_time():
                    continue
                n = min(CHUNK[k], left[k])
                run_stream(ctx, k, n, pool)
                left[k] -= n
                done[k] += n
    shrink_reports(ctx)


def search(ctx):
    """After a correspondence break with no failing input: the same streams again (fresh seed, enlarged budget)."""
    run(ctx)


def replay(ctx, rp):
    common.import_eups()      # before any scratch stack is set up: the first import cleans EUPS_* from the environment
    inp = rp["input"]
    sub = common.Ctx(ctx.pid, ctx.tier, ctx.seed, 600)
    sub.lean = ctx.lean
    if inp.get("stream") == "A" or "dict" in inp:
        eval_a(sub, [inp.get("case", inp)], [])
    elif inp.get("stream") == "O":
        check_order(sub)
    else:
        run_inputs(sub, [inp])
    impl = [d["impl_output"] for d in sub.disagreements] or [f["impl_output"] for f in sub.failures]
    model = [d["model_output"] for d in sub.disagreements] or [f["model_output"] for f in sub.failures]
    return {"input": inp, "impl_output": impl[0] if impl else "agrees with the model", "model_output": model[0] if model else None,
            "agree": not sub.disagreements,
            "fails": [{"clause": f["clause"], "class": f["finding_class"], "detail": f["note"]} for f in sub.failures]}
