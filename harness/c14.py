"""C14 — remove deletes exactly what was asked and never something still needed.

Implementation: the real command line `eups remove [-R] [-N] [-F] product version` (-> Eups.remove / _remove /
uses / undeclare / rmtree), one forked child per removal on a fresh copy of the generated stack; observed are the
database files and the directory tree before and after, and the outcome.
Model: lean/EupsModel/Model/Remove.lean through the driver handler "c14".
Oracle (ii), model-free: from the generated graph — exactly the target (non-recursive) or a set between
{target + direct dependencies} and the dependency closure (recursive) is undeclared, its directories and tags are
gone, every other file is byte-identical, nothing changes unless the outcome is success, no survivor's dependency
is deleted when the check is on and force is off, no refusal when the check is off or force is on."""
import json
import os

from . import common
from . import lib_deps as L
from . import c13
import time
from .common import parallel_map

RULE = ("cases = (declared graph as in C13 with extra tags, target product, recursive, check, force, products set up in "
        "the environment of the command: none in three quarters of the cases, else one or two, mostly from the target's closure; "
        "database writable or, in 8 % of the cases, not; the version given literally or (non-recursive -N removals only) by `-t TAG product`; plus "
        "`eups remove -t TAG` which takes a tag off every product); every product "
        "of a graph is a target, flag combinations are sampled so that each graph contributes about 18 removals; plus an "
        "exhaustive family (4 products, every subset of 2 candidate lines per table: 256 graphs x every target x flags; "
        "all in the thorough tier, 6 graphs otherwise); a "
        "case is non-trivial when the target has a dependency or a user; distinct = distinct (graph, case) digests")
TRUSTED = c13.TRUSTED + ["the abstract effect of Eups.undeclare (declaration and every tag on that version disappear) is C06's "
                         "subject; here it is observed on the files, not modelled in detail"]
ASSUMPTIONS = c13.ASSUMPTIONS + ["every declared product has its own installation directory inside the stack, holding its table file",
                                 "a set-up product is set up from this stack in a declared version (SETUP_<NAME>, <NAME>_DIR as setup leaves them)"]


def gen_graph(rng, wide=False):
    g = c13.gen_graph(rng, wide)
    # tables with an exact and an else branch are C13's (exact-mode objects, VRO without type:exact); `eups remove` runs
    # under the stock VRO, where the branch a table shows depends on what was resolved before: plain tables here
    for p in g["products"]:
        p.pop("xdeps", None)
    for p in g["products"]:
        if rng.random() < 0.2:
            p["tags"] = p["tags"] + ["beta"]
    # the same version declared for a second flavor in the same stack, tagged there (also with tags the version does not
    # carry for this flavor): nothing of the other flavor may be touched by a removal for this one
    if rng.random() < 0.3:
        taken = set()
        for p in rng.sample(g["products"], min(len(g["products"]), rng.choice([1, 2, 3]))):
            if p.get("notable") or p.get("missing"):
                continue
            tg = [t for t in rng.choice([["current"], ["current"], ["beta"], ["current", "beta"], []]) if (p["name"], t) not in taken]
            taken |= {(p["name"], t) for t in tg}
            p["also"] = {"flavor": "Linux64", "tags": tg}
    # a tag names one version per product
    seen = set()
    for p in g["products"]:
        keep = []
        for t in p["tags"]:
            if (p["name"], t) not in seen:
                seen.add((p["name"], t))
                keep.append(t)
        p["tags"] = keep
    return g


def gen_cases(rng, g, per_graph=18, setups=None):
    """[name, version, recursive, check, force, set-up products, read-only database]; a quarter of the cases run with
    one or two declared products set up in the environment of the command (preferably inside the dependency closure
    of the target), 8 % with a database the user may not write; `setups` = explicit list of (set-up products, read-only)."""
    allc = [[p["name"], p["version"], r, c, f, [], False, "version"] for p in g["products"] for r in (False, True) for c in (False, True) for f in (False, True)]
    if setups is not None:
        out = [c[:5] + [su[0], su[1], "version"] for c in allc for su in setups]
        tags = sorted({t for p in g["products"] for t in p.get("tags", [])})
        out += [["", "", False, False, False, [], False, "untag:" + t] for t in tags + ["beta"]]
        out += [[p["name"], p["version"], False, False, f, [], False, "tag:" + t] for p in g["products"] for f in (False, True)
                for t in p.get("tags", []) + ["beta"]]
        if g.get("_interactive"):
            out += [[p["name"], p["version"], True, c, False, [], False, "ask:" + sc] for p in g["products"]
                    for c in (False, True) for sc in ("nnnnq", "ynq", "nyq", "neq", "xyxnq", "yn!q")]
        return sorted(out, key=repr)
    rng.shuffle(allc)
    out = allc[:per_graph]
    R = c13.Resolved(g)
    plain = [p for p in g["products"] if p["name"].isalnum()]
    for c in out:
        if plain and rng.random() < 0.25:
            listed, _ = R.closure((c[0], c[1], True), ignore_j=True)
            near = [[t[0], t[1]] for t in listed if t[2] and t[0].isalnum()] + [[c[0], c[1]]] * (2 if c[0].isalnum() else 0)
            pool = near if (near and rng.random() < 0.8) else [[p["name"], p["version"]] for p in plain]
            su = []
            for _ in range(rng.choice([1, 1, 2])):
                x = rng.choice(pool)
                if all(x[0] != y[0] for y in su):
                    su.append(x)
            c[5] = sorted(su)
        if rng.random() < 0.08:
            c[6] = True                 # the database may not be written by the user of the command
        if not c[2] and not c[3] and rng.random() < 0.4:
            # `eups remove -N -t TAG product`: the version is named by a tag (one the product has, or does not have).
            # Only without -R and with -N: a tag on the command line also goes to the front of the VRO and overrides the
            # versions written in table files, which is outside the resolution rule modelled here (C03's subject).
            mine = [p.get("tags", []) for p in g["products"] if p["name"] == c[0] and p["version"] == c[1]][0]
            c[7] = "tag:" + (rng.choice(mine) if (mine and rng.random() < 0.8) else rng.choice(["current", "beta"]))
    for c in out:
        if c[7] == "version" and rng.random() < 0.15:
            # `eups remove -i`: what is typed at the prompts, one letter per line (e = empty line, x = something else);
            # always ends with q, so the answers never run out
            style = rng.random()
            if style < 0.15:
                script = "q"
            elif style < 0.35:
                script = rng.choice(["n", "ne", "nx"]) * 8
            elif style < 0.5:
                script = rng.choice(["!", "y!", "n!", "x!"])
            else:
                script = "".join(rng.choice("yyynnnex") for _ in range(rng.randint(2, 9))) + rng.choice(["", "", "!"])
            c[7] = "ask:" + script + "q"
    if rng.random() < 0.5:
        out.append(["", "", False, False, False, [], False, "untag:" + rng.choice(["current", "beta", "beta"])])
    return sorted(out, key=repr)


# ---- implementation ------------------------------------------------------------------------------------

def run_impl(job):
    graph, case = job
    name, version, rec, check, force, setup, ro, how = case
    root = common.scratch("c14")
    devnull = os.open(os.devnull, os.O_WRONLY)
    os.dup2(devnull, 1)
    os.dup2(devnull, 2)
    try:
        s = L.install(root, graph)
        L.set_up_in_env(s, setup)
        if ro:
            L.readonly_database(s)
        before, dbb, otherb = L.snapshot(s), L.db_listing(s), L.db_listing(s, others=True)
        flags = (["-R"] if rec else []) + ([] if check else ["-N"]) + (["-F"] if force else [])
        if how.startswith("ask:"):
            import builtins
            typed = [{"e": "", "x": "maybe", "!": "!"}.get(ch, ch) for ch in how[4:]]

            def fake_input(prompt=""):
                if not typed:
                    raise EOFError
                return typed.pop(0)
            builtins.input = fake_input
            args = ["remove", "-i"] + flags + [name, version]
        elif how == "version":
            args = ["remove"] + flags + [name, version]
        elif how.startswith("tag:"):
            args = ["remove"] + flags + ["-t", how[4:], name]
        else:
            args = ["remove", "-t", how[6:]]
        r = L.run_cli(args, record=())
        after, dba, othera = L.snapshot(s), L.db_listing(s), L.db_listing(s, others=True)
        if r["error"] is None and r["rc"] == 0:
            outcome = "ok"
        elif r["error"] is None and r["rc"] == 2 and how.startswith("tag:"):
            outcome = "NoSuchTag"
        else:
            outcome = r["error"] or "rc=%s" % r["rc"]
        if outcome == "Other(EOFError)":
            outcome = "EOF"
        return {"out": outcome, "before": before, "after": after, "dbb": dbb, "dba": dba, "otherb": otherb, "othera": othera}
    finally:
        common.rmtree(root)


def in_child_job(job):
    r = common.in_child(run_impl, job)
    return r[1] if r[0] == "ok" else {"crash": r}


# ---- histories: several commands by ONE Eups object in one process ---------------------------------------------------

PRELUDES = ("uses_all", "uses_query", "refused_remove", "noaction_remove", "none")


def gen_history(rng, g, R):
    """A who-uses-what computation (or a refused / a -n checked removal) first, then `declare` of a new product whose
    table requires D, then a checked unforced `remove D` — all by the same Eups object: whatever the object computed
    before the declaration must not decide the removal."""
    D = rng.choice(g["products"])
    top = (D["name"], D["version"], True)
    has_user = any(top in R.closure((k[0], k[1], True))[0] for k in R.decl if k != (D["name"], D["version"]))
    prelude = rng.choice(PRELUDES)
    if prelude == "refused_remove" and not has_user:
        prelude = "uses_all"            # (it would not be refused)
    if prelude == "noaction_remove" and has_user:
        prelude = "uses_query"
    if rng.random() < 0.2:
        # `remove(..., userInfo=self.uses())`: "if you're calling remove repeatedly, you can pass in a userInfo object"
        return {"prelude": "uses_all_pass_info", "target": [D["name"], D["version"]], "newp": None, "had_user": has_user}
    explicit = rng.random() < 0.5 or "current" not in D.get("tags", [])
    newp = {"name": "hnew", "version": "1", "tags": ["current"],
            "deps": [{"k": rng.choice(["req", "req", "opt"]), "n": D["name"], "v": D["version"] if explicit else None, "j": rng.random() < 0.2}]}
    return {"prelude": prelude, "target": [D["name"], D["version"]], "newp": newp, "had_user": has_user}


def run_history(job):
    graph, h = job
    n, v = h["target"]
    root = common.scratch("c14h")
    devnull = os.open(os.devnull, os.O_WRONLY)
    os.dup2(devnull, 1)
    os.dup2(devnull, 2)
    try:
        s = L.install(root, graph)
        start = L.snapshot(s)
        ecmd = L.cli_eups("remove", [n, v])
        e = ecmd.createEups()
        pre = "ok"
        try:
            info = None
            if h["prelude"] == "uses_all_pass_info":
                info = L.quietly(e.uses)
            elif h["prelude"] == "uses_all":
                L.quietly(e.uses)
            elif h["prelude"] == "uses_query":
                L.quietly(e.uses, n, v)
            elif h["prelude"] == "refused_remove":
                L.quietly(e.remove, n, v, False, True)
            elif h["prelude"] == "noaction_remove":
                e.noaction = True
                try:
                    L.quietly(e.remove, n, v, False, True)
                finally:
                    e.noaction = False
        except BaseException as ex:  # noqa
            pre = L.err_class(ex)
        pre_changed = L.snapshot(s) != start
        np_ = h["newp"]
        dec = "ok"
        if np_:
            d = common.mkprod(s, np_["name"], np_["version"], L.table_text(np_["deps"]))
            try:
                L.quietly(e.declare, np_["name"], np_["version"], d)
            except BaseException as ex:  # noqa
                dec = L.err_class(ex)
        before, dbb, otherb = L.snapshot(s), L.db_listing(s), L.db_listing(s, others=True)
        try:
            if h["prelude"] == "uses_all_pass_info":
                L.quietly(e.remove, n, v, False, True, False, info)
            else:
                L.quietly(e.remove, n, v, False, True)
            out = "ok"
        except BaseException as ex:  # noqa
            out = L.err_class(ex)
        after, dba, othera = L.snapshot(s), L.db_listing(s), L.db_listing(s, others=True)
        return {"pre": pre, "pre_changed": pre_changed, "declare": dec, "out": out, "before": before, "after": after,
                "dbb": dbb, "dba": dba, "otherb": otherb, "othera": othera}
    finally:
        common.rmtree(root)


def in_child_history(job):
    r = common.in_child(run_history, job)
    return r[1] if r[0] == "ok" else {"crash": r}


def history_request(g, h):
    rq = {"m": "c14", "graph": {"products": g["products"]}, "default": None,
          "cases": [h["target"] + [False, True, False, [], False, "version"]]}
    if h["newp"]:
        rq["declare"] = h["newp"]
    return rq


def evaluate_histories(ctx, graphs):
    L.preimport()
    jobs = []
    for g in graphs:
        fixed = g.get("_history")
        g = {k: v for k, v in g.items() if k not in ("_setups", "_history")}
        jobs.append((g, fixed or gen_history(ctx.rng, g, c13.Resolved(g))))
    impl = parallel_map(in_child_history, jobs, workers=4)
    answers = ctx.lean.ask_many([history_request(g, h) for g, h in jobs])
    for (g, h), io_, ans in zip(jobs, impl, answers):
        if "bad-op" in ans:
            raise common.InfraError("driver rejected a C14 history: %s" % ans["bad-op"])
        if "crash" in io_:
            raise common.InfraError("implementation child failed: %r" % (io_["crash"],))
        inp = {"graph": g, "history": h}
        ci, cm = canon_impl(io_), canon_model(ans["answers"][0])
        ctx.case(key=[g["products"], "history", h], nontrivial=True)
        ctx.hist("history:%s:%s" % (h["prelude"], io_["out"]))
        if io_["declare"] != "ok":
            raise common.InfraError("history: declare failed (%s)" % io_["declare"])
        if ci != cm:
            ctx.disagree("state_after_history", inp, ci, cm)
        unsetup_any = any(d["k"] in ("unreq", "unopt") for p in g["products"] for d in p["deps"])
        if io_["pre_changed"]:
            ctx.fail("history_prelude_changes_nothing", inp, ci, cm, note="%s (%s) changed the stack" % (h["prelude"], io_["pre"]), finding=None)
        if h["prelude"] == "refused_remove" and io_["pre"] != "Refused" and not unsetup_any:
            ctx.fail("never_still_needed", inp, ci, cm, note="the first removal of a product in use ended %s" % io_["pre"], finding=None)
        if io_["out"] != "ok" and io_["after"] != io_["before"]:
            ctx.fail("unchanged_unless_ok", inp, ci, cm, note="outcome %s but the stack changed" % io_["out"], finding=None)
        if h["newp"] is None:
            # the who-uses-what object handed to remove(): as the plain checked removal (the model's answer), never an error
            if io_["out"].startswith("Other("):
                ctx.fail("no_error", inp, ci, cm, note="remove(..., userInfo=uses()) raised %s" % io_["out"], finding=None)
            if not unsetup_any and h["had_user"] and io_["out"] == "ok":
                ctx.fail("never_still_needed", inp, ci, cm, note="removed although in use (userInfo passed in)", finding=None)
        elif not unsetup_any:
            # hnew was declared with a table that requires the target: the checked, unforced removal must be refused
            if io_["out"] == "Refused":
                ctx.hist("history:refused_after_declare")
                if not h["had_user"]:
                    ctx.hist("history:refused_only_because_of_the_new_user")
            else:
                ctx.fail("never_still_needed", inp, ci, cm, finding=None,
                         note="hnew 1, declared by the same Eups object after %s, requires %s %s; its removal ended %s"
                              % (h["prelude"], h["target"][0], h["target"][1], io_["out"]))


def canon_impl(io_):
    dirs = sorted([p.split("/")[1], p.split("/")[2]] for p in io_["after"] if p.startswith("Linux/") and p.count("/") == 3 and p.endswith("/"))
    return {"out": io_["out"], "decl": sorted(io_["dba"]["decl"]), "tags": sorted(io_["dba"]["tags"]), "dirs": dirs}


def canon_model(a):
    return {"out": a["out"], "decl": sorted(a["decl"]), "tags": sorted(a["tags"]), "dirs": sorted(a["dirs"])}


# ---- oracle (ii) -----------------------------------------------------------------------------------------

def oracle(R, graph, case, io_, closures):
    name, version, rec, check, force, setup, ro, how = case
    # whatever the command does for this flavor: declarations, tags and directories of another flavor stay as they were
    if io_["othera"] != io_["otherb"]:
        yield ("other_flavor_untouched", None, "other flavors before %s, after %s" % (io_["otherb"], io_["othera"]))
    for path, h in io_["before"].items():
        if path.startswith("Linux64/") and io_["after"].get(path) != h:
            yield ("other_flavor_untouched", None, "%s was changed or deleted" % path)
            break
    if how.startswith("untag:"):
        # the tag is taken off every product; no declaration, no directory, no other tag is touched
        t = how[6:]
        if io_["out"] != "ok":
            yield ("no_error", None, "untagging raised %s" % io_["out"])
        if io_["dba"]["decl"] != io_["dbb"]["decl"]:
            yield ("frame", None, "untagging changed the declarations")
        if sorted(io_["dba"]["tags"]) != sorted(x for x in io_["dbb"]["tags"] if x[1] != t):
            yield ("untag_exact", None, "tags after %s" % (io_["dba"]["tags"],))
        for path, h in io_["before"].items():
            if not (path.startswith("ups_db/") and path.endswith("/%s.chain" % t)) and not path.endswith("/") and io_["after"].get(path) != h:
                yield ("frame", None, "%s was changed or deleted" % path)
                break
        return
    if how.startswith("tag:"):
        tagged = [x[2] for x in io_["dbb"]["tags"] if x[0] == name and x[1] == how[4:]]
        if not tagged:
            if io_["out"] != "NoSuchTag" or io_["after"] != io_["before"]:
                yield ("tag_names_no_version", None, "outcome %s for a tag the product does not have" % io_["out"])
            return
        version = tagged[0]            # the command is to behave as `remove product <that version>`
    top = (name, version, True)
    out = io_["out"]
    before, after = io_["before"], io_["after"]
    # database files shared with another flavor legitimately survive (with that flavor's group only)
    shared = set()
    for x in io_["otherb"]["decl"]:
        shared.add("ups_db/%s/%s.version" % (x[0], x[1]))
    for x in io_["otherb"]["tags"]:
        shared.add("ups_db/%s/%s.chain" % (x[0], x[1]))
    decl_b = {tuple(x) for x in io_["dbb"]["decl"]}
    decl_a = {tuple(x) for x in io_["dba"]["decl"]}
    listed, expanded = R.closure(top, ignore_j=True)                   # remove follows -j dependencies too
    reach = {(t[0], t[1]) for t in listed if t[2]}                     # declared products in the dependency closure
    unresolved = any(not t[2] for t in listed)
    unsetup_any = any(R.has_unsetup.values())
    direct = {(t[0], t[1]) for t, _, _ in R.succ.get(top, []) if t[2]}
    # whatever the outcome: a product is never left declared without its directory, or undeclared with it
    for key in sorted(decl_b):
        has_dir = ("%s/%s/%s/" % (L.FLAVOR, key[0], key[1])) in after
        if (key in decl_a) != has_dir:
            yield ("declaration_and_directory_go_together", None,
                   "%s %s is %s but its directory %s" % (key[0], key[1], "declared" if key in decl_a else "undeclared",
                                                         "exists" if has_dir else "is gone"))
            break
    if out != "ok":
        if after != before:
            yield ("unchanged_unless_ok", None, "outcome %s but the stack changed" % out)
        if out == "NoPermission":
            if not ro:
                yield ("no_error", None, "permission refused although the database is writable")
            return
        if out == "IsSetup":
            cand = ({(name, version)} | reach) if rec else {(name, version)}
            if force:
                yield ("force_never_refuses", None, "refused a set-up product although force is on")
            elif not any(tuple(x) in cand for x in setup) and not unsetup_any:
                yield ("refusal_has_reason", None, "refused as set up, but no product that would be removed is set up")
            return
        if out == "Refused":
            if not check:
                yield ("noCheck_never_refuses", None, "refused although the in-use check is off")
            elif force:
                yield ("force_never_refuses", None, "refused although force is on")
            else:
                # a refusal needs a reason: some product other than the target lists something the command looked at
                # (the target, or with -R a node of its closure; an unresolved name without version stands for every version)
                cand = ({top} | listed) if rec else {top}
                reason = False
                for key in R.decl:
                    if key == (name, version):
                        continue
                    l2, _ = closures((key[0], key[1], True))
                    if any(t[0] == c[0] and (t[1] == c[1] or c[1] is None) for t in l2 for c in cand):
                        reason = True
                        break
                if not reason and not unsetup_any:
                    yield ("refusal_has_reason", None, "refused, but no other product depends on anything that would be removed")
        elif out == "TableError":
            if not (rec and any(p.get("missing") for p in graph["products"])):
                yield ("no_error", None, "TableFileNotFound although no collected product lacks its table file")
        elif out == "NotFound":
            if not (rec and (unresolved or unsetup_any)):
                yield ("no_error", None, "ProductNotFound for a declared target whose dependencies all resolve")
        elif out == "Recursion":
            nodes = listed | expanded
            rr = R.reach(nodes, expanded)
            cyclic = any(any(b != a and b in rr[a] and a in rr.get(b, ()) for b in nodes) for a in nodes) or top in listed
            if check and unsetup_any:
                yield ("terminates", None, "RecursionError from the in-use check (unsetupRequired inside a cycle: D32, repaired)")
            elif rec and unsetup_any:
                # also when the closure is cyclic: the model (which has the D33 repair) must reproduce the outcome
                yield ("terminates", None, "RecursionError: unsetupRequired line met while listing direct dependencies (D32, repaired)")
            elif rec and cyclic:
                yield ("terminates", None, "RecursionError: recursive remove over a cyclic dependency closure (D33, repaired)")
            else:
                yield ("no_error", None, "RecursionError")
        else:
            yield ("no_error", None, "remove raised %s" % out)
        return
    if ro and (decl_b - decl_a):
        yield ("readonly_database_untouched", None, "declarations removed from a database the user may not write")
    gone = decl_b - decl_a
    if decl_a - decl_b:
        yield ("exact", None, "new declarations %s" % sorted(decl_a - decl_b))
    ask = how[4:] if how.startswith("ask:") else None
    if ask is not None:
        # -i: at most what the command would remove without it; nothing when every answer is no, or the first is q
        eff = ask.replace("x", "")
        upper = ({(name, version)} | reach) if rec else {(name, version)}
        if not gone <= upper and not unsetup_any:
            yield ("exact", None, "undeclared %s, at most %s could be asked about" % (sorted(gone), sorted(upper)))
        body = eff[:-1]
        if gone and (eff.startswith("q") or (body[:1] == "n" and set(body) <= {"n", "e"})):
            yield ("interactive_no_means_no", None, "answers %r, but %s were removed" % (ask, sorted(gone)))
    elif not rec:
        if gone != {(name, version)}:
            yield ("exact", None, "undeclared %s, asked for %s" % (sorted(gone), (name, version)))
    else:
        lower = {(name, version)} | direct
        upper = {(name, version)} | reach
        if not (lower <= gone <= upper) and not unsetup_any:
            yield ("exact_recursive", None, "undeclared %s, expected between %s and %s" % (sorted(gone), sorted(lower), sorted(upper)))
    # files: everything of a removed product is gone, everything else is byte-identical, nothing new
    tags_b = {tuple(x) for x in io_["dbb"]["tags"]}
    for path, h in before.items():
        parts = path.split("/")
        owner = None
        if parts[0] == "Linux" and len(parts) >= 4:
            owner = (parts[1], parts[2])
        elif parts[0] == "ups_db" and len(parts) == 3 and parts[2].endswith(".version"):
            owner = (parts[1], parts[2][:-len(".version")])
        elif parts[0] == "ups_db" and len(parts) == 3 and parts[2].endswith(".chain"):
            tv = [t for t in tags_b if t[0] == parts[1] and t[1] == parts[2][:-len(".chain")]]
            owner = (parts[1], tv[0][2]) if tv else None
        if path in shared:
            if path not in after:
                yield ("other_flavor_untouched", None, "%s, which also holds a record of another flavor, is gone" % path)
                return
        elif owner in gone:
            if path in after:
                yield ("removed_completely", None, "%s survives the removal of %s" % (path, owner))
                return
        elif h != "dir" or parts[0] == "Linux":
            if after.get(path) != h:
                yield ("frame", None, "%s was changed or deleted" % path)
                return
    new = [p for p in after if p not in before]
    if new:
        yield ("frame", None, "new files %s" % new[:3])
    # safety: with the check on and force off, no survivor needs a removed product
    if check and not force and not unsetup_any:
        # (D74, repaired: with -i the user could keep the requested product and say yes to one of its dependencies)
        for key in decl_a:
            l2, _ = closures((key[0], key[1], True))
            bad = [(t[0], t[1]) for t in l2 if (t[0], t[1]) in gone]
            if bad:
                yield ("never_still_needed", None, "%s remains declared and depends on the removed %s" % (key, bad))
                return


# ---- evaluation ----------------------------------------------------------------------------------------

def model_request(graph, cases):
    return {"m": "c14", "graph": {"products": graph["products"]}, "default": None, "cases": cases}


def evaluate(ctx, graphs, per_graph=18, all_cases=False):
    L.preimport()
    jobs = []
    for g in graphs:
        if all_cases:
            cases = gen_cases(ctx.rng, g, setups=g.pop("_setups", [([], False)]))
            g.pop("_interactive", None)
        else:
            cases = gen_cases(ctx.rng, g, per_graph)
        jobs.append((g, cases))
    flat = [(g, c) for g, cases in jobs for c in cases]
    impl = parallel_map(in_child_job, flat, workers=4)
    answers = ctx.lean.ask_many([model_request(g, cases) for g, cases in jobs])
    k = 0
    for (g, cases), ans in zip(jobs, answers):
        if "bad-op" in ans:
            raise common.InfraError("driver rejected a C14 request: %s" % ans["bad-op"])
        R = c13.Resolved(g)
        cache = {}

        def closures(node, R=R, cache=cache):
            if node not in cache:
                cache[node] = R.closure(node)
            return cache[node]
        users_of = {}
        ctx.hist("shape=%s" % g.get("shape", "corpus"))
        for case, a in zip(cases, ans["answers"]):
            io_ = impl[k]
            k += 1
            if "crash" in io_:
                raise common.InfraError("implementation child failed: %r" % (io_["crash"],))
            ci, cm = canon_impl(io_), canon_model(a)
            inp = {"graph": g, "case": case}
            top = (case[0], case[1], True)
            nontriv = bool(R.succ.get(top)) or case[7].startswith("untag:")
            ctx.case(key=[g["products"], case], nontrivial=nontriv,
                     sample={"input": inp, "impl": ci} if ctx.evaluations % 1009 == 0 else None)
            ctx.hist("%s%s%s:%s" % ("R" if case[2] else "-", "C" if case[3] else "-", "F" if case[4] else "-", io_["out"]))
            if case[7].startswith("ask:"):
                nb, na = len(io_["dbb"]["decl"]), len(io_["dba"]["decl"])
                ctx.hist("interactive:%s:%s" % (io_["out"], "nothing removed" if na == nb else "%s removed" % ("one" if nb - na == 1 else "several")))
                if io_["out"] == "ok" and na < nb and [case[0], case[1]] in io_["dba"]["decl"]:
                    ctx.hist("interactive:requested_kept_dependency_removed")
            if case[5]:
                ctx.hist("setup_in_env:%s" % io_["out"])
            if case[6]:
                ctx.hist("readonly_db:%s" % io_["out"])
            if case[7] != "version":
                ctx.hist("form=%s:%s" % (case[7].split(":")[0], io_["out"]))
            if top not in users_of:
                mine = {t for t in closures(top)[0] if t[2]}
                others = [k for k in R.decl if k != (case[0], case[1])]
                users_of[top] = (any(top in closures((k[0], k[1], True))[0] for k in others),
                                 any(mine & closures((k[0], k[1], True))[0] for k in others))
            tp = R.decl.get((case[0], case[1]))
            if tp and tp.get("also") and io_["out"] == "ok":
                ctx.hist("target:removed_with_second_flavor")
                if any(t not in tp.get("tags", []) for t in tp["also"]["tags"]):
                    ctx.hist("target:removed_with_tag_of_other_flavor_only")
            if users_of[top][0]:
                ctx.hist("target:has_user")
            if nontriv:
                ctx.hist("target:has_dependency")
            if users_of[top][1]:
                ctx.hist("target:shares_dependency")
            if io_["out"] == "ok" and case[2]:
                ctx.hist("recursive_removed=%d" % min(len(io_["dbb"]["decl"]) - len(io_["dba"]["decl"]), 5))
            if ci != cm:
                ctx.disagree("state_after_remove", inp, ci, cm)
            for clause, fid, detail in oracle(R, g, case, io_, closures):
                ctx.fail(clause, inp, ci, cm, note=detail, finding=fid)


def corpus_items():
    d = os.path.join(common.VERIF, "corpus", "C14")
    out = []
    if os.path.isdir(d):
        for f in sorted(os.listdir(d)):
            if f.endswith(".json"):
                with open(os.path.join(d, f)) as fh:
                    c = json.load(fh)
                c["graph"]["shape"] = "corpus:" + f
                if "history" in c:
                    c["graph"]["_history"] = c["history"]
                if c.get("interactive"):
                    c["graph"]["_interactive"] = True
                c["graph"]["_setups"] = [(su, False) for su in c.get("setups", [[]])] + [([], True)] * bool(c.get("readonly"))
                out.append(c["graph"])
    return out


FLOORS = ("target:has_user", "target:has_dependency", "target:shares_dependency", "target:removed_with_second_flavor",
          "target:removed_with_tag_of_other_flavor_only", "interactive:ok:nothing removed", "interactive:ok:one removed")


def run(ctx):
    """The ordinary quick portion first (corpus, a slice of the exhaustive family, the generated stream with its floors);
    the enlarged budget (thorough tier, or a quick run escalated because the mirrored source changed) after it — see c13.run."""
    big = ctx.tier == "thorough" or ctx.escalated
    cg = corpus_items()
    ctx.hist("corpus", len(cg))
    ch = [g for g in cg if "_history" in g]
    cg = [g for g in cg if "_history" not in g]
    if cg:
        evaluate(ctx, cg, all_cases=True)
    if ch:
        evaluate_histories(ctx, ch)
    # exhaustive small family (C13's, two candidate lines per table: 256 graphs), every target and flag combination
    total = c13.enum_count(2)
    ids = [(ctx.seed * 97 + k * 37) % total for k in range(3)]
    evaluate(ctx, [c13.enum_graph(i, 2) for i in ids], all_cases=True)
    n = 45
    done = 0
    t_run = time.time()
    # a loaded machine: fewer cases rather than a late verdict — but never fewer than 30 generated graphs (the floors)
    soft = (lambda: done >= 30 and time.time() - t_run > 55) if not big else (lambda: False)
    while done < n and not ctx.out_of_time() and not soft():
        k = min(15, n - done)
        evaluate(ctx, [gen_graph(ctx.rng, wide=ctx.tier == "thorough") for _ in range(k)], per_graph=10)
        done += k
    hg = [gen_graph(ctx.rng) for _ in range(16)] + [c13.enum_graph(i, 2) for i in ids + [(ids[0] + 11) % total, (ids[0] + 23) % total, (ids[0] + 57) % total]]
    evaluate_histories(ctx, hg)
    if ctx.evaluations and ctx.distinct_nontrivial < ctx.evaluations * 0.3:
        raise common.InfraError("degenerate distribution: %d non-trivial of %d" % (ctx.distinct_nontrivial, ctx.evaluations))
    h = ctx.histogram
    for need in ("history:refused_after_declare", "history:refused_only_because_of_the_new_user"):
        if not h.get(need):
            raise common.InfraError("degenerate distribution: no case with %s" % need)
    if done < 30 and not ctx.out_of_time():
        raise common.InfraError("only %d generated graphs were evaluated" % done)
    if done >= 30:
        for need in FLOORS:
            if not h.get(need):
                raise common.InfraError("degenerate distribution: no case with %s" % need)
    if not big:
        return
    ctx.note("exhaustive family: all %d graphs x every target x recursive x check x force, interleaved with the generated stream" % total)
    rest = [i for i in range(total) if i not in set(ids)]
    at, more = 0, 0
    while (at < len(rest) or more < 4955) and not ctx.out_of_time():
        if more < 4955:
            evaluate(ctx, [gen_graph(ctx.rng, wide=ctx.tier == "thorough") for _ in range(40)])
            more += 40
            if not ctx.out_of_time():
                evaluate_histories(ctx, [gen_graph(ctx.rng, wide=ctx.tier == "thorough") for _ in range(40)])
        if at < len(rest) and not ctx.out_of_time():
            evaluate(ctx, [c13.enum_graph(i, 2) for i in rest[at:at + 16]], all_cases=True)
            at += 16


def replay(ctx, rp):
    common.import_eups()
    inp = rp["input"]
    if "history" in inp:
        g, h = inp["graph"], inp["history"]
        io_ = in_child_history((g, h))
        ans = ctx.lean.ask(history_request(g, h))
        ci, cm = canon_impl(io_), canon_model(ans["answers"][0])
        fails = []
        unsetup_any = any(d["k"] in ("unreq", "unopt") for p in g["products"] for d in p["deps"])
        if io_["pre_changed"]:
            fails.append({"clause": "history_prelude_changes_nothing", "class": None, "detail": io_["pre"]})
        if io_["out"] != "ok" and io_["after"] != io_["before"]:
            fails.append({"clause": "unchanged_unless_ok", "class": None, "detail": io_["out"]})
        if h["newp"] is None and io_["out"].startswith("Other("):
            fails.append({"clause": "no_error", "class": None, "detail": "remove(..., userInfo=uses()) raised %s" % io_["out"]})
        if h["newp"] and not unsetup_any and io_["out"] != "Refused":
            fails.append({"clause": "never_still_needed", "class": None, "detail": "removal after the declaration of a user ended %s" % io_["out"]})
        return {"input": inp, "impl_output": ci, "model_output": cm, "agree": ci == cm, "fails": fails}
    g, case = inp["graph"], inp["case"]
    io_ = in_child_job((g, case))
    ans = ctx.lean.ask(model_request(g, [case]))
    R = c13.Resolved(g)
    cache = {}

    def closures(node):
        if node not in cache:
            cache[node] = R.closure(node)
        return cache[node]
    ci, cm = canon_impl(io_), canon_model(ans["answers"][0])
    fails = [{"clause": c, "class": f, "detail": d} for c, f, d in oracle(R, g, case, io_, closures)]
    return {"input": inp, "impl_output": ci, "model_output": cm, "agree": ci == cm, "fails": fails}
