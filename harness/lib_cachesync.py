"""The staleness test between live `ProductStack` objects (C07, `Model/CacheSync.lean`), on the real code.

A scenario: `n` versions of product `p` declared long ago in one stack; the user's cache file (flavor Linux) absent /
stale (it lacks the last version and is older than the database) / fresh; a stack-wide cache inside ups_db/ that is
up to date, or none; two `ProductStack.fromCache(dbpath, ["Linux"], persistDir=<user cache dir>, autosave=False)`
objects constructed in one process (as `Eups._setProductStack_fromCache` does); then events:

  ["write", i]   instance i runs the write-through of Eups.declare (l.2663-2675, transcribed): Database.declare(product);
                 ensureInSync(); addProduct(product); save(getFlavors()) - on CacheOutOfSync: refreshFromDatabase()
  ["check", i]   instance i: ensureInSync()                       (Eups.unassignTag of a tag the stack does not hold)
  ["other"]      another process of the user: a fresh fromCache + the same write-through
  ["delete"]     the user's cache file is removed

After the constructors and after every event the state is read WITHOUT the objects' help where the property is
concerned: the versions in the version files of ups_db/p, the versions in the pickled cache file, its freshness
(`Database.isNewerThan` as a later process would ask), and per instance its `modtimes` entry (relative to the file's
time) and the versions its `lookup` holds.  Times are real; consecutive file operations are kept ~3 ms apart so that
their order is the order of the modification times."""
import os
import pickle
import time

from . import common

FLAVOR = "Linux"
TICK = 0.003


def _versions_in_db(dbpath):
    d = os.path.join(dbpath, "p")
    if not os.path.isdir(d):
        return []
    return sorted(int(f[:-8]) for f in os.listdir(d) if f.endswith(".version"))


def _versions_in_lookup(lookup):
    fam = (lookup or {}).get("p")
    return sorted(int(v) for v in fam.versions) if fam is not None else []


def _child(n, kind, sys_ok, evs, gate=None):
    import importlib
    from eups.db import Database
    from eups.Product import Product
    PS = importlib.import_module("eups.stack.ProductStack")
    ProductStack, CacheOutOfSync = PS.ProductStack, PS.CacheOutOfSync
    root = common.scratch("sync")
    try:
        stack = os.path.join(root, "stack")
        dbpath = os.path.join(stack, "ups_db")
        userdir = os.path.join(root, "user", "_caches_", "stack")
        os.makedirs(dbpath)
        os.makedirs(userdir)
        userfile = os.path.join(userdir, ProductStack.persistFilename(FLAVOR))

        def product(c):
            return Product("p", str(c), FLAVOR, os.path.join(stack, FLAVOR, "p", str(c)), "none")

        def tick():
            time.sleep(TICK)

        def write_through(st, c):
            prod = product(c)
            Database(dbpath).declare(prod)
            tick()
            st.ensureInSync()
            st.addProduct(prod)
            try:
                st.save(st.getFlavors())
            except CacheOutOfSync:
                st.refreshFromDatabase()
            tick()

        def fresh_stack():
            return ProductStack.fromCache(dbpath, [FLAVOR], persistDir=userdir, userTagDir=userdir,
                                          updateCache=True, autosave=False)

        # ---- the scenario --------------------------------------------------------------------------
        for c in range(n):
            if kind == 1 and c == n - 1:
                fresh_stack()              # the user's file as of n - 1 changes
                tick()
            Database(dbpath).declare(product(c))
            tick()
        if kind == 2:
            fresh_stack()
            tick()
        if kind == 1 and n == 0:
            kind = 0
        if sys_ok:
            s = ProductStack.fromCache(dbpath, [FLAVOR], persistDir=dbpath, updateCache=True, autosave=False)
            if not os.path.exists(os.path.join(dbpath, ProductStack.persistFilename(FLAVOR))):
                s.save(s.getFlavors() or [FLAVOR])
            tick()
        nxt = [n]
        if gate == "rebuild0":
            # another writer's whole command between instance 0's scan of the database and its save(): fires only when
            # the constructor rebuilds (it calls save() then)
            real_save = ProductStack.save
            fired = []

            def gated_save(self, *a, **kw):
                if not fired:
                    fired.append(1)
                    ProductStack.save = real_save
                    tick()
                    write_through(fresh_stack(), nxt[0])
                    nxt[0] += 1
                return real_save(self, *a, **kw)
            ProductStack.save = gated_save
            try:
                insts = [fresh_stack()]
            finally:
                ProductStack.save = real_save
        else:
            insts = [fresh_stack()]
        tick()
        insts.append(fresh_stack())
        tick()

        def observe():
            exists = os.path.exists(userfile)
            fm = os.stat(userfile).st_mtime if exists else None
            content = None
            if exists:
                with open(userfile, "rb") as fd:
                    content = _versions_in_lookup(pickle.load(fd))
            out = {"db": _versions_in_db(dbpath), "file": content,
                   "fresh": bool(exists and not Database(dbpath).isNewerThan(fm))}
            for k, st in enumerate(insts):
                m = st.modtimes.get(userfile)
                if m is None:
                    rel = "none"
                elif m == 0:
                    rel = "zero"
                elif not exists:
                    rel = "file gone"
                else:
                    rel = "eq" if m == fm else ("older" if m < fm else "newer")
                out["i%d" % k] = {"mod": rel, "mem": _versions_in_lookup(st.lookup.get(FLAVOR))}
            return out

        states = [observe()]
        for e in evs:
            if e[0] == "write":
                write_through(insts[e[1]], nxt[0])
                nxt[0] += 1
            elif e[0] == "check":
                insts[e[1]].ensureInSync()
            elif e[0] == "other":
                write_through(fresh_stack(), nxt[0])
                nxt[0] += 1
            elif e[0] == "delete":
                if os.path.exists(userfile):
                    os.remove(userfile)
            else:
                raise ValueError(e)
            states.append(observe())
        return states
    finally:
        common.rmtree(root)


def run_real(case):
    """case = {"n", "fileKind", "sysOk", "evs"} -> list of observed states, or {"error": ...}"""
    r = common.in_child(_child, case["n"], case["fileKind"], case["sysOk"], case["evs"], case.get("gate"))
    if r[0] != "ok":
        return {"error": [str(x)[:400] for x in r[:3]]}
    return r[1]


def model_request(case, fixed=True):
    return {"m": "c07", "op": "sync", "fixed": fixed, "n": case["n"], "fileKind": case["fileKind"], "sysOk": case["sysOk"],
            "gate": case.get("gate") or "", "evs": [[e[0], e[1]] if len(e) > 1 else [e[0]] for e in case["evs"]]}


def canon_model(states):
    """the model's states in the vocabulary of `observe`"""
    out = []
    for s in states:
        f = s["file"]
        o = {"db": s["db"], "file": None if f is None else sorted(f["content"]), "fresh": s["fresh"]}
        for k in ("i0", "i1"):
            m = s[k]["mod"]
            if m is None:
                rel = "none"
            elif m == 0:
                rel = "zero"
            elif f is None:
                rel = "file gone"
            else:
                rel = "eq" if m == f["mtime"] else ("older" if m < f["mtime"] else "newer")
            o[k] = {"mod": rel, "mem": sorted(s[k]["mem"])}
        out.append(o)
    return out


ALPHABET = [["write", 0], ["write", 1], ["check", 0], ["check", 1], ["other"], ["delete"]]


def all_cases(maxlen, n=2):
    import itertools
    out = []
    for kind in (0, 1, 2):
        for sys_ok in (False, True):
            for k in range(1, maxlen + 1):
                for evs in itertools.product(ALPHABET, repeat=k):
                    out.append({"n": n, "fileKind": kind, "sysOk": sys_ok, "evs": [list(e) for e in evs]})
    # another writer inside the constructor of instance 0 when it rebuilds (no usable cache anywhere)
    for kind in (0, 1):
        for k in range(0, min(maxlen, 2) + 1):
            for evs in itertools.product(ALPHABET, repeat=k):
                out.append({"n": n, "fileKind": kind, "sysOk": False, "gate": "rebuild0", "evs": [list(e) for e in evs]})
    return out
