"""C15 — dry-run (-n) commands change nothing.

Dynamic part: histories of the C06 generator (with `remove`), every mutating command preceded by its own
dry-run twin (`Eups(noaction=True)`, fresh forked child).  Oracle (ii): the sha1 over every byte of every file
and the name of every directory under each stack (cache files excluded) is the same before and after the dry
run — computed from the file system alone.  Oracle (i): outcome, flavors loaded and the reader's listing after
every command (dry or not) equal the model's (`Model/Db.lean` under `Model/Cache.lean`, driver op "c15").

Dynamic guard trace (round 3): in every child the four `Database` mutators, `shutil.rmtree` and `utils.copyfile` are
wrapped; the calls that return are compared, in order, with the model's effect trace (`calls` observable, oracle (i))
— for dry runs AND real runs, so the model's "what the real run would do" is tied too — and a dry run must have
called none (`dry_run_calls_no_mutator`, oracle (ii), no model).  The child's audit hook (open for writing, create,
remove, rename, mkdir, rmdir, utime, truncate, chmod) must show no event under a stack during a dry run, cache files
excepted (`dry_run_writes_nothing`): unlike the byte hash this sees a file written and put back, or made and removed.

Static part: the guard map (`c15_guardmap.py`), since round 3 an interprocedural, semantic summary: every write call
reachable from `Eups.declare / undeclare / assignTag / unassignTag / remove` through methods of the class, with whether
the `noaction` conditions along the call chain protect it, as a set of (chain of public methods, callee, guarded?).
Extracting helpers, binding a stack to a local, turning `if not noaction:` into an early return leave it unchanged
(harmless/H3-r1, H5-r3); a lost guard, a new unguarded write, a scratch file made inside the stack change it."""
import os
import time

from . import common, lib_db, c06, c15_guardmap
from .common import parallel_map

RULE = ("cases = histories of 4-20 commands of the C06 generator plus remove (recursive or not) over 3 products x 3 "
        "versions x 2 flavors x 2 stacks (stack, stack2) x 3 tags, each mutating command preceded by the same command run "
        "with noaction=True in a fresh process (new declaration, redeclaration, conflicting redeclaration, tag move, tag "
        "only, table: the directory's / none / a file kept elsewhere / a stream (declare -M) / the interned one by its "
        "path, external files, force, undeclare with/without version, tag only, version-and-tag, unassignTag, remove, "
        "also of products whose installation directory was deleted by hand); a history is non-trivial when at least 3 "
        "of its real commands change the stacks, so that the dry runs are taken from populated states; distinct = "
        "distinct history digests")
TRUSTED = ["fork-per-command runner and tree hash of harness/lib_db.py (every file and directory name under each "
           "stack, whatever it is called; only cache files `*.pickleDB*` are excluded)",
           "the call tracer of harness/lib_db.py (module attribute replacement of _Database.declare/undeclare/assignTag/"
           "unassignTag, shutil.rmtree, eups.utils.copyfile in the forked child) and the audit hook (sys.addaudithook: "
           "open with write flags, os.remove/rename/mkdir/rmdir/utime/truncate/chmod/chown/link/symlink)",
           "the AST walk of harness/c15_guardmap.py recognises write calls by the name of the callee and follows "
           "`self.<method>(...)` calls within class Eups; for scratch files (mkstemp / mkdtemp / NamedTemporaryFile) "
           "the directory argument is part of the recorded row"]
ASSUMPTIONS = ["every command - dry runs included - ends abnormally: the forked child leaves with os._exit, so atexit "
               "handlers do not run and whatever a dry run has put under a stack is still there when the tree is hashed; "
               "the scratch directory of the children (tempfile.tempdir) lies outside the stacks",
               "remove: table files declare no dependencies, so the recursive collection is the product itself"]

# the functions the model mirrors (harness/fingerprint.py): a changed fingerprint makes the quick tier run with the thorough case budget
MIRRORS = [
    ('python/eups/Eups.py', 'Eups.declare'),
    ('python/eups/Eups.py', 'Eups.undeclare'),
    ('python/eups/Eups.py', 'Eups.unassignTag'),
    ('python/eups/Eups.py', 'Eups.assignTag'),
    ('python/eups/Eups.py', 'Eups.remove'),
    ('python/eups/Eups.py', 'Eups._remove'),
    ('python/eups/utils.py', 'copyfile'),
    ('python/eups/utils.py', 'isSubpath'),
]

WORKERS = c06.WORKERS
DRYABLE = ("declare", "undeclare", "unassignTag", "remove")


def with_twins(case):
    cmds = []
    for c in case["cmds"]:
        if c["op"] in DRYABLE and not c.get("noaction"):
            t = dict(c)
            t["noaction"] = True
            t["twin"] = True
            cmds.append(t)
        cmds.append(c)
    return {"missing": case["missing"], "cmds": cmds}


def check_case(ctx, case, steps, msteps):
    inp = {"missing": case.get("missing", []), "cmds": case["cmds"]}
    prev = c06.EMPTY
    nchange = 0
    for i, (cmd, rec) in enumerate(zip(case["cmds"], steps)):
        m = msteps[i] if msteps and i < len(msteps) else None
        sub = {"missing": inp["missing"], "cmds": case["cmds"][:i + 1]}
        impl_obs, model_obs = c06.observations(rec, m)
        if "error" in rec["db"]:
            ctx.fail("reader_total", sub, impl_obs, model_obs, note="fresh reader raised %s" % (rec["db"]["error"],))
            return
        c06.oracle_i(ctx, i, sub, rec, impl_obs, model_obs)
        if cmd.get("ext"):
            ctx.hist("%s with external files/%s" % ("dry run" if cmd.get("noaction") else "declare", rec["out"]))
        if cmd.get("noaction"):
            ctx.hist("dry %s/%s" % (c06.kind_of(cmd), rec["out"]))
            if rec.get("hash_same") is False:
                ctx.fail("dry_run_bytes_unchanged", sub, dict(impl_obs, hash_same=False), None if model_obs is None else dict(model_obs, hash_same=True),
                         note="files under the stacks differ after the dry run: %s" % (rec.get("hash_diff"),))
            if rec.get("calls"):
                ctx.fail("dry_run_calls_no_mutator", sub, impl_obs, model_obs,
                         note="the dry run called %s" % (rec["calls"][:4],))
            if rec.get("dry_writes"):
                ctx.fail("dry_run_writes_nothing", sub, dict(impl_obs, dry_writes=rec["dry_writes"][:10]), model_obs,
                         note="the dry run opened for writing / created / removed / renamed under the stacks: %s" % (rec["dry_writes"][:6],))
            cli = rec.get("cli")
            if cli is not None:
                # the same dry run as typed (`eups declare|undeclare|remove -n`): the property itself, no model
                if "died" in cli:
                    raise common.InfraError("command-line child died: %s" % (cli["died"],))
                ctx.hist("cli dry %s/%s" % (cmd["op"], "rc=%s" % cli["rc"] if cli["exc"] is None else cli["exc"]))
                ctx.hist("cli class %s:%s" % ("undeclare" if cmd["op"] == "unassignTag" else cmd["op"], cmd.get("cli_class") or "plain"))
                ctx.hist("cli dry says something" if cli["would"] else "cli dry says nothing")
                ctx.hist("cli dry took locks" if cli.get("locks") else "cli dry took no lock")
                if not cli["hash_same"] or cli["writes"] or cli["calls"]:
                    ctx.fail("cli_dry_run_changes_nothing", sub, {"cli": cli}, None,
                             note="eups %s: bytes same=%s, writes under the stacks %s, mutators called %s" %
                                  (" ".join(map(str, cli["argv"])), cli["hash_same"], cli["writes"][:5], cli["calls"][:3]))
            if rec["db"] != prev:
                ctx.fail("dry_run_listing_unchanged", sub, impl_obs, model_obs, note="the reader's listing changed")
        elif rec["db"] != prev or rec["out"] == "ok" and cmd["op"] == "remove":
            nchange += 1
        prev = rec["db"]
    ctx.case(key=inp, nontrivial=nchange >= 3,
             sample={"input": inp} if ctx.evaluations % 53 == 0 else None)


def evaluate(ctx, cases):
    impl = parallel_map(c06._run_one, cases, workers=WORKERS)
    answers = ctx.lean.ask_many([lib_db.model_request(c, m="c15") for c in cases])
    for c, steps, ans in zip(cases, impl, answers):
        if isinstance(steps, dict):
            raise common.InfraError("runner failed: %s" % steps["error"])
        check_case(ctx, c, steps, lib_db.model_steps(ans))


def guard_map(ctx):
    sites = c15_guardmap.extract(common.REPO)
    fresh = c15_guardmap.summarise(sites)
    rec = c15_guardmap.recorded()
    ctx.hist("guard-map rows", len(fresh))
    if len(fresh) < 20 or not any("UNGUARDED" in r for r in fresh) or not any(r.endswith("| guarded") for r in fresh):
        raise common.InfraError("guard map degenerate: %d rows (the AST walk no longer finds the methods?)" % len(fresh))
    ctx.case(key={"guard_map": fresh}, nontrivial=True, sample={"guard_map_sites": len(fresh), "unguarded": [r for r in fresh if "UNGUARDED" in r]})
    if fresh != rec:
        gone = [r for r in rec if r not in fresh]
        new = [r for r in fresh if r not in rec]
        ctx.disagree("guard_map", {"guard_map": "python/eups/Eups.py"}, {"only_in_source": new}, {"only_in_recorded": gone},
                     note="the write calls reachable from declare, undeclare, assignTag, unassignTag, remove / whether noaction guards them "
                          "differ from the recorded summary; guards of the new rows: %s" % ({r: c15_guardmap.explain(sites, r) for r in new[:4]},))


def gen_case(rng):
    h = lib_db.gen_history(rng, rng.randint(4, 20), noaction=0.0, remove=0.12, direct_tag=0.05)
    c = with_twins(h)
    for t in c["cmds"]:
        if t.get("twin") and rng.random() < 0.5:
            t["cli"] = True            # also as the user types it: eups <command> -n ...
            t["cli_class"] = rng.choice(lib_db.CLI_CLASSES[t["op"]])     # ... with an unusual-but-legal or refused option combination
            if rng.random() < 0.3:
                t["spell"] = [rng.randrange(4) for _ in range(lib_db.NSTACKS)]
    return c


def _shrinker():
    return c06.make_shrinker("C15", c06._run_one, check_case, "c15")


def run(ctx):
    guard_map(ctx)
    cases = c06.corpus_cases("C15")
    ctx.hist("corpus", len(cases))
    evaluate(ctx, cases)
    n = ctx.n(1500, 12000)
    done = 0
    soft = ctx.t0 + (70 if ctx.tier == "quick" and not ctx.escalated else 1e9)
    while done < n and not ctx.out_of_time() and time.time() < soft:
        k = min(96, n - done)
        evaluate(ctx, [gen_case(ctx.rng) for _ in range(k)])
        done += k
    _shrinker()[2](ctx)
    dry = sum(v for k, v in ctx.histogram.items() if k.startswith("dry "))
    if ctx.evaluations > 20 and dry < 3 * ctx.evaluations:
        raise common.InfraError("degenerate distribution: %d dry runs in %d histories" % (dry, ctx.evaluations))
    if ctx.evaluations > 60 and not ctx.failures:
        want = set("%s:%s" % ("undeclare" if op == "unassignTag" else op, c) for op, cs in lib_db.CLI_CLASSES.items() for c in cs)
        low = sorted(k for k in want if ctx.histogram.get("cli class " + k, 0) < 2)
        if low:
            raise common.InfraError("degenerate distribution: command-line option classes (almost) never generated: %s" % low)
    cli = sum(v for k, v in ctx.histogram.items() if k.startswith("cli dry ") and "/" in k)
    if ctx.evaluations > 40 and cli < ctx.evaluations // 2:
        raise common.InfraError("degenerate distribution: %d dry runs through the command line in %d histories" % (cli, ctx.evaluations))
    if ctx.evaluations > 20 and ctx.distinct_nontrivial < ctx.evaluations * 0.3:
        raise common.InfraError("degenerate distribution: %d non-trivial of %d" % (ctx.distinct_nontrivial, ctx.evaluations))


def search(ctx):
    """after a broken correspondence (guard map or model) with no failing input: dry runs only, larger budget"""
    cases = c06.corpus_cases("C15")
    evaluate(ctx, cases)
    n = 0
    while n < 1500 and not ctx.out_of_time() and not ctx.failures:
        evaluate(ctx, [gen_case(ctx.rng) for _ in range(60)])
        n += 60


def replay(ctx, rp):
    common.import_eups()
    case = rp["input"]
    if "guard_map" in case:
        fresh = c15_guardmap.summarise(c15_guardmap.extract(common.REPO))
        rec = c15_guardmap.recorded()
        return {"input": case, "impl_output": {"only_in_source": [r for r in fresh if r not in rec]},
                "model_output": {"only_in_recorded": [r for r in rec if r not in fresh]}, "agree": fresh == rec,
                "fails": []}
    steps = c06._run_one(case)
    ms = lib_db.model_steps(ctx.lean.ask(lib_db.model_request(case, m="c15")))
    sub = common.Ctx("C15", "quick", 0, 60)
    check_case(sub, case, steps, ms)
    last = steps[-1] if steps else {}
    return {"input": case,
            "impl_output": {"out": last.get("out"), "loaded": last.get("loaded"), "db": last.get("db"), "hash_same": last.get("hash_same")},
            "model_output": {"out": ms[-1]["out"], "loaded": ms[-1]["loaded"], "db": ms[-1]["db"]} if ms else None,
            "agree": not sub.disagreements,
            "disagreements": [{"observable": d["observable"], "note": d["note"]} for d in sub.disagreements],
            "fails": [{"clause": f["clause"], "class": f["finding_class"], "detail": f["note"]} for f in sub.failures]}
