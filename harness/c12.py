"""C12 — path-variable commands obey list algebra.

Implementation: eups.table.Action(...).execute(Eups, 1, fwd) for envPrepend / envAppend / envSet / envUnset.
Model: lean/EupsModel/Model/PathAlg.lean through the driver op "path".
Oracle (ii): the list laws of the property evaluated on the implementation's own output, from the
generator's *structured* description of the case (no use of the model)."""
import contextlib
import io
import os

from . import common
from .common import parallel_map

RULE = ("cases = (prior environment, sequence of 1-6 envPrepend/envAppend/envSet/envUnset actions, setup or unsetup "
        "direction), generated from a grammar of old values (unset, empty, duplicates, leading/trailing/doubled "
        "delimiters, already containing the value), values (plain, ${VAR}, $?{VAR}, ${VAR-default}, with "
        "leading/trailing delimiter, multi-element) and delimiters (: ; , space | - :: . + * ?); a case is "
        "non-trivial when at least one action changes the variable or is refused; distinct = distinct case digests")
TRUSTED = ["CPython `re`, `str.split/join` on the patterns used by execute_envPrepend (exercised, not verified)",
           "values free of backslashes and newlines (re.sub template processing and `$` before a trailing newline are not modelled)"]
ASSUMPTIONS = ["delimiters are non-empty literal strings",
               "the oracle's notion of 'element' is: pieces of the value split at the literal delimiter, empties dropped"]

MIRRORS = [("python/eups/table.py", "Action.execute_envPrepend"), ("python/eups/table.py", "Action.execute_envSet"),
           ("python/eups/table.py", "Action.execute_envUnset"), ("python/eups/table.py", "Action.expandEnvironmentalVariable"),
           ("python/eups/table.py", "Action.pathUnique"), ("python/eups/Eups.py", "Eups.setEnv"),
           ("python/eups/Eups.py", "Eups.unsetEnv")]

DELIMS = [":", ":", ":", ":", ";", ",", " ", "|", "-", "::", ".", "+", "*", "?"]
ATOMS = ["a", "b", "/x/y", "q", "c d", "/opt/p/1.0/bin", "zz", "$FOO/../lib", "$BAR"]   # brace-less $NAME is NOT a reference for eups
VARS = ["V", "W"]


# ---- generator -----------------------------------------------------------------------------------

def gen_value(rng, delim, env):
    """Returns (text, spec) where spec describes what the text denotes:
    ('elems', [..]) | ('skip',) | ('error',) ; plus flags pre/app (requested empty first/last element)."""
    kind = rng.random()
    atoms = [a for a in ATOMS if delim not in a]
    if kind < 0.55:
        text, den = rng.choice(atoms), None
        den = ("elems", [text])
    elif kind < 0.70:      # defined reference
        key = rng.choice(["FOO", "BAR"])
        form = rng.choice(["${%s}", "$?{%s}", "${%s-dflt}"]) % key
        tail = rng.choice(["/bin", "", "/lib"])
        if key in env:
            den = ("elems", [env[key] + tail])
        elif "-dflt" in form:
            den = ("elems", ["dflt" + tail])
        elif form.startswith("$?"):
            den = ("skip",)
        else:
            den = ("error",)
        text = form + tail
    elif kind < 0.80:      # two references
        text = "${FOO}/a" + "/" + "${BAR}"
        if "FOO" in env and "BAR" in env:
            den = ("elems", [env["FOO"] + "/a/" + env["BAR"]])
        else:
            den = ("error",)
        if any(delim in e for e in (den[1] if den[0] == "elems" else [])):
            den = ("unspecified",)
    elif kind < 0.90:      # multi-element value
        a, b = rng.sample(atoms, 2)
        text, den = a + delim + b, ("multi", [a, b])
    else:
        text, den = rng.choice(atoms + ["x" + delim.strip() + "y" if delim.strip() else "xy"]), None
        den = ("elems", [text]) if delim not in text else ("unspecified",)
    pre = rng.random() < 0.12
    app = rng.random() < 0.12
    if pre:
        text = delim + text
    if app:
        text = text + delim
    if den[0] == "elems" and any((delim in e) or e == "" for e in den[1]):
        den = ("unspecified",)
    return text, {"den": den, "pre": pre, "app": app}


def gen_old(rng, delim, value_elems):
    r = rng.random()
    if r < 0.12:
        return None
    if r < 0.18:
        return ""
    pool = [a for a in ATOMS if delim not in a] + ["", ""]
    if value_elems and rng.random() < 0.4:
        pool += list(value_elems) * 2
    return delim.join(rng.choice(pool) for _ in range(rng.randint(1, 6)))


def gen_case(rng):
    delim = rng.choice(DELIMS)
    env = {}
    if rng.random() < 0.7:
        env["FOO"] = "/foo" if rng.random() < 0.8 else ""      # defined-but-empty is still defined
    if rng.random() < 0.4:
        env["BAR"] = "bar" if rng.random() < 0.8 else ""
    acts, specs = [], []
    nact = 1 if rng.random() < 0.6 else rng.randint(2, 6)
    roundtrip = rng.random() < 0.25      # setup action followed by its own unsetup
    for i in range(nact):
        var = "V" if rng.random() < 0.85 else "W"
        r = rng.random()
        fwd = rng.random() < 0.7
        if r < 0.75:
            text, spec = gen_value(rng, delim, env)
            op = "append" if rng.random() < 0.5 else "prepend"
            acts.append({"op": op, "fwd": fwd, "var": var, "value": text, "delim": delim})
        elif r < 0.93:
            text, spec = gen_value(rng, delim, env)
            spec["pre"] = spec["app"] = False
            text = text.strip(delim) if delim.strip() else text
            acts.append({"op": "set", "fwd": fwd, "var": var, "value": text, "delim": delim})
            if text == "" or delim in text:
                spec["den"] = ("unspecified",)
        else:
            spec = {"den": ("unspecified",), "pre": False, "app": False}
            acts.append({"op": "unset", "fwd": fwd, "var": var, "value": "", "delim": delim})
        specs.append(spec)
    if roundtrip:
        a = dict(acts[-1])
        a["fwd"] = True
        acts[-1] = a
        b = dict(a)
        b["fwd"] = False
        acts.append(b)
        specs.append(dict(specs[-1]))
    first = specs[0]["den"]
    velems = first[1] if first[0] in ("elems", "multi") else []
    for v in VARS:
        old = gen_old(rng, delim, velems)
        if old is not None:
            env[v] = old
    return {"env": env, "acts": acts, "specs": specs, "delim": delim, "roundtrip": roundtrip}


# ---- implementation ------------------------------------------------------------------------------

_E = None


def _eups():
    global _E
    if _E is None:
        root = common.scratch("c12")
        common.mkstacks(root)
        _E = common.new_eups()
        _E._c12root = root
    return _E


def run_impl(case):
    """Execute the case's actions on the real code; returns the outcome after every action."""
    e = _eups()
    from eups.table import Action
    for k in ("V", "W", "FOO", "BAR"):
        os.environ.pop(k, None)
    os.environ.update(case["env"])
    outs = []
    for a in case["acts"]:
        if a["op"] in ("prepend", "append"):
            args = [a["var"], a["value"]] + ([a["delim"]] if a["delim"] != ":" else [])
            act = Action("t.table", "envPrepend", args, dict(append=(a["op"] == "append")))
        elif a["op"] == "set":
            act = Action("t.table", "envSet", [a["var"], a["value"]], {})
        else:
            act = Action("t.table", "envUnset", [a["var"]], {})
        try:
            with contextlib.redirect_stderr(io.StringIO()), contextlib.redirect_stdout(io.StringIO()):
                act.execute(e, 1, a["fwd"])
        except RuntimeError:
            outs.append("RuntimeError")
            break
        except Exception as ex:  # noqa
            outs.append("EXC:" + type(ex).__name__)
            break
        outs.append({v: os.environ.get(v) for v in VARS})
    return outs


def run_impl_chunk(cases):
    res = [run_impl(c) for c in cases]
    if _E is not None:
        common.rmtree(_E._c12root)
    return res


def model_requests(case):
    """One request per prefix of the action list, so the state after every action is compared."""
    return [{"m": "path", "env": case["env"], "acts": case["acts"][:i + 1]} for i in range(len(case["acts"]))]


def model_outs(case, answers):
    outs = []
    for ans in answers:
        if "bad-op" in ans:
            outs.append("bad-op:" + str(ans["bad-op"]))
            break
        if ans["out"] != "ok":
            outs.append(ans["out"])
            break
        outs.append({v: ans["env"].get(v) for v in VARS})
    return outs


# ---- oracle (ii): the property on the implementation's own output -----------------------------------

def elems(s, delim):
    return [x for x in (s or "").split(delim) if x]


def uniq(l):
    out = []
    for x in l:
        if x not in out:
            out.append(x)
    return out


def oracle(case, outs):
    """Yields (clause, finding_class, detail) for every clause of C12 the implementation's output breaks."""
    delim = case["delim"]
    state = {v: case["env"].get(v) for v in VARS}
    for i, (a, spec) in enumerate(zip(case["acts"], case["specs"])):
        if i >= len(outs):
            break
        out = outs[i]
        den = spec["den"]
        var = a["var"]
        if isinstance(out, str):
            expected_err = (den[0] == "error" and a["fwd"])
            if den[0] != "unspecified" and not expected_err and not (den[0] == "error" and not a["fwd"]):
                yield ("no_error", None, "action %d raised %s" % (i, out))
            return
        before, after = state[var], out[var]
        other = [v for v in VARS if v != var]
        for v in other:
            if out[v] != state[v]:
                yield ("other_variable_untouched", None, "action %d on %s changed %s" % (i, var, v))
        if a["op"] in ("prepend", "append") and den[0] in ("elems", "skip", "error"):
            old = elems(before, delim)
            new = elems(after, delim)
            if den[0] == "error":
                if a["fwd"]:
                    yield ("undefined_reference_refused", None, "action %d: undefined ${VAR} accepted" % i)
            elif den[0] == "skip":
                if after != before:
                    yield ("optional_guard", None, "action %d: $?{VAR} undefined but %r -> %r" % (i, before, after))
            else:
                v = den[1][0]
                if a["fwd"]:
                    if len(new) != len(set(new)):
                        yield ("nodup", None, "action %d: duplicates in %r" % (i, new))
                    if [x for x in new if x != v] != [x for x in uniq(old) if x != v]:
                        yield ("others_kept_in_order", None, "action %d: %r -> %r" % (i, old, new))
                    if a["op"] == "prepend" and new[:1] != [v]:
                        yield ("prepend_first", None, "action %d: %r not first in %r" % (i, v, new))
                    if a["op"] == "append" and new[-1:] != [v]:
                        cls = "D8" if v in old else None
                        yield ("append_last", cls, "action %d: %r not last in %r" % (i, v, new))
                    if spec["pre"] and not (after or "").startswith(delim):
                        yield ("leading_empty_element", None, "action %d: %r" % (i, after))
                    if spec["app"] and not (after or "").endswith(delim):
                        yield ("trailing_empty_element", None, "action %d: %r" % (i, after))
                else:
                    if new != [x for x in uniq(old) if x != v]:
                        yield ("unsetup_removes_exactly", None, "action %d: %r -> %r (value %r)" % (i, old, new, v))
        if a["op"] == "set" and den[0] in ("elems", "skip", "error"):
            if a["fwd"]:
                if den[0] == "elems" and after != den[1][0]:
                    yield ("envset_exact", None, "action %d: %r, expected %r" % (i, after, den[1][0]))
                if den[0] == "skip" and after != before:
                    yield ("optional_guard", None, "action %d: envSet with $?{VAR} undefined changed %r -> %r" % (i, before, after))
                if den[0] == "error":
                    yield ("undefined_reference_refused", None, "action %d: envSet of undefined ${VAR} accepted" % i)
            elif after is not None:
                yield ("unsetup_removes_variable", None, "action %d: %r left" % (i, after))
        state = dict(out)


def nontrivial(case, outs):
    state = {v: case["env"].get(v) for v in VARS}
    for o in outs:
        if isinstance(o, str) or o != state:
            return True
    return False


# ---- entry points --------------------------------------------------------------------------------

def corpus_cases():
    d = os.path.join(common.VERIF, "corpus", "C12")
    out = []
    if os.path.isdir(d):
        import json
        for f in sorted(os.listdir(d)):
            if f.endswith(".json"):
                with open(os.path.join(d, f)) as fh:
                    c = json.load(fh)
                c["_corpus"] = f
                out.append(c)
    return out


def evaluate(ctx, cases):
    nw = 8
    chunks = [cases[i::nw] for i in range(nw)]
    impl_chunks = parallel_map(run_impl_chunk, chunks, workers=nw)
    impl = [None] * len(cases)
    for k, ch in enumerate(impl_chunks):
        for j, v in enumerate(ch):
            impl[k + j * nw] = v
    reqs, spans = [], []
    for c in cases:
        r = model_requests(c)
        spans.append((len(reqs), len(r)))
        reqs += r
    answers = ctx.lean.ask_many(reqs)
    for c, io_, (s, n) in zip(cases, impl, spans):
        mo = model_outs(c, answers[s:s + n])
        inp = {k: c[k] for k in ("env", "acts", "specs", "delim")}
        key = {k: c[k] for k in ("env", "acts")}
        ctx.case(key=key, nontrivial=nontrivial(c, io_), sample={"input": key, "impl": io_} if ctx.evaluations % 997 == 0 else None)
        ctx.hist("delim=%s" % c["delim"])
        ctx.hist("nacts=%d" % len(c["acts"]))
        for a, sp in zip(c["acts"], c["specs"]):
            ctx.hist("op=%s/%s" % (a["op"], "setup" if a["fwd"] else "unsetup"))
            ctx.hist("value=%s" % sp["den"][0])
        if isinstance(io_[-1], str):
            ctx.hist("outcome=" + io_[-1])
        if mo != io_:
            ctx.disagree("env_after_actions", inp, io_, mo)
        for clause, cls, detail in oracle(c, io_):
            ctx.fail(clause, inp, io_, mo, note=detail, finding=cls)


def run(ctx):
    cases = corpus_cases()
    ctx.hist("corpus", len(cases))
    n = ctx.n(40000, 400000)
    batch = 4000
    evaluate(ctx, cases)
    done = 0
    while done < n and not ctx.out_of_time():
        k = min(batch, n - done)
        evaluate(ctx, [gen_case(ctx.rng) for _ in range(k)])
        done += k
    if ctx.evaluations and ctx.distinct_nontrivial < ctx.evaluations * 0.3:
        raise common.InfraError("degenerate distribution: %d non-trivial of %d" % (ctx.distinct_nontrivial, ctx.evaluations))


def replay(ctx, rp):
    c = rp["input"]
    c.setdefault("roundtrip", False)
    io_ = common.in_child(run_impl, c)
    io_ = io_[1] if io_[0] == "ok" else io_
    answers = ctx.lean.ask_many(model_requests(c))
    mo = model_outs(c, answers)
    fails = [{"clause": cl, "class": k, "detail": d} for cl, k, d in oracle(c, io_)] if isinstance(io_, list) else []
    return {"input": c, "impl_output": io_, "model_output": mo, "agree": io_ == mo, "fails": fails}
