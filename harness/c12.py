"""C12 — path-variable commands obey list algebra.

Implementation: eups.table.Action(...).execute(Eups, 1, fwd) for envPrepend / envAppend / envSet / envUnset / addAlias, on
actions constructed directly or read from a real table file through Product.getTable(...).actions(flavor), after
Table.expandEupsVariables.
Model: lean/EupsModel/Model/PathAlg.lean + Model/PathAct.lean through the driver op "path".
Oracle (ii): the list laws of the property evaluated on the implementation's own output, from the
generator's *structured* description of the case (no use of the model)."""
import contextlib
import io
import os

from . import common
from .common import parallel_map

RULE = ("cases = (prior environment, sequence of 1-6 envPrepend/envAppend/envSet/envUnset/addAlias actions, setup or unsetup "
        "direction), generated from a grammar of old values (unset, empty, duplicates, leading/trailing/doubled "
        "delimiters, already containing the value), values (plain, ${VAR}, $?{VAR}, ${VAR-default}, with "
        "leading/trailing delimiter, multi-element, product macros ${PRODUCT_DIR} $?{PRODUCT_DIR} ${PRODUCT_DIR_EXTRA} "
        "${PRODUCTS} ${<NAME>_DIR} ${PRODUCT_FLAVOR/NAME/VERSION} ${UPS_DIR} over products with/without directory, flavor, "
        "extra directory) and delimiters (: ; , space | - :: . + * ?); a third of the cases carry a product (macros are "
        "expanded by Table.expandEupsVariables; half of those are read from a real table file through Product.getTable), "
        "a third run with --force over a generated oldEnviron/oldAliases; plus an exhaustive small family (prior lists over "
        "{a,b,x,empty} up to length 3 x 4 values x prepend/append x direction x flags) and an end-to-end family (a product "
        "directory whose table of 1-5 path/set lines is set up with eups.app.setup — setup -r dir, or declared and set up by name — and unset again, each by a "
        "fresh Eups, with and without --force, 40 % with a failed optional dependency before a variable the table sets and then "
        "refers to; the environments and the emitted commands applied to a model shell are compared with the model of the table's "
        "lines run forward and backward); a case is "
        "non-trivial when at least one action changes the variable or is refused; distinct = distinct case digests")
TRUSTED = ["CPython `re`, `str.split/join` on the patterns used by execute_envPrepend (exercised, not verified)",
           "values free of backslashes and newlines (re.sub template processing and `$` before a trailing newline are not modelled)"]
ASSUMPTIONS = ["product names, versions, flavors and directories are ASCII and free of backslashes (they pass through re.sub as replacement templates in Table.expandEupsVariables); subscripts of ${EUPS_PATH[n]} are ASCII digits",
               "table lines of the file route carry plainly quoted arguments (the parser itself is C11's)",
               "delimiters are non-empty literal strings",
               "the oracle's notion of 'element' is: pieces of the value split at the literal delimiter, empties dropped"]

MIRRORS = [("python/eups/table.py", "Action.execute_envPrepend"), ("python/eups/table.py", "Action.execute_envSet"),
           ("python/eups/table.py", "Action.execute_envUnset"), ("python/eups/table.py", "Action.expandEnvironmentalVariable"),
           ("python/eups/table.py", "Action.pathUnique"), ("python/eups/Eups.py", "Eups.setEnv"),
           ("python/eups/Eups.py", "Eups.unsetEnv"), ("python/eups/table.py", "Action.execute_addAlias"),
           ("python/eups/table.py", "Table.expandEupsVariables"), ("python/eups/Eups.py", "Eups.setAlias"),
           ("python/eups/Eups.py", "Eups.unsetAlias"), ("python/eups/Product.py", "Product.stackRoot"),
           ("python/eups/Product.py", "Product.extraProductDir"), ("python/eups/utils.py", "dirEnvNameFor"),
           ("python/eups/Product.py", "Product.getTable"),
           ("python/eups/table.py", "Table._rewrite"), ("python/eups/table.py", "Table._read"),   # synonyms, envUnset rule
           ("python/eups/table.py", "Action.execute")]      # the end-to-end family also runs Eups.setup / eups.app.setup (C01/C02's mirrors)

DELIMS = [":", ":", ":", ":", ";", ",", " ", "|", "-", "::", ".", "+", "*", "?"]
ATOMS = ["a", "b", "/x/y", "q", "c d", "/opt/p/1.0/bin", "zz", "$FOO/../lib", "$BAR"]   # brace-less $NAME is NOT a reference for eups
VARS = ["V", "W"]


# ---- generator -----------------------------------------------------------------------------------

LEGACY = {"${UPS_PROD_DIR}": "${PRODUCT_DIR}", "${UPS_DB}": "${PRODUCTS}", "${UPS_UPS_DIR}": "${UPS_DIR}",
          "${UPS_PROD_FLAVOR}": "${PRODUCT_FLAVOR}"}
EPREFS = ["${EUPS_PATH[0]}", "${EUPS_PATH[1]}", "${EUPS_PATH[7]}", "${EUPS_PATH[01]}"]
MACROS = list(LEGACY) + EPREFS + ["${OTHER_DIR}"] + ["${PRODUCT_DIR}", "$?{PRODUCT_DIR}", "${PRODUCT_DIR_EXTRA}", "$?{PRODUCT_DIR_EXTRA}", "${PRODUCTS}", "${NAME_DIR}",
          "${PRODUCT_FLAVOR}", "${PRODUCT_NAME}", "${PRODUCT_VERSION}", "${UPS_DIR}"]


def gen_product(rng):
    """A structured description of the product whose table the actions come from (resolved to real paths at run time)."""
    return {"name": rng.choice(["prod", "prod", "my-p", "P2x", "a.b", "c++"]), "version": rng.choice(["1.0", "1.0", "v2_3"]),
            "flavor": rng.choice(["Linux64", "Linux64", "Linux64", None]),
            "dir": rng.choice(["/opt/p/1.0", "/opt/p/1.0", "/opt/p/1.0", "none", None, "$S/local dir"]),
            "db": rng.choice(["stack", "stack", "flat"]),
            "via": rng.choice(["file", "inject"]),
            "eups_path": rng.choice([["$S/st", "/other/stack"], ["$S/st", "/other/stack"], ["/one"], None])}


OTHER = {"a.b": "${AXB_DIR}", "c++": "${C_DIR}"}      # the directory variable of *another* product (axb, c)


def macro_text(prod, m):
    if m == "${OTHER_DIR}":
        return OTHER.get(prod["name"], "${OTHER_DIR}")
    return "${%s_DIR}" % prod["name"].upper() if m == "${NAME_DIR}" else m


def interp1(env, s):
    """One pass of ${K} -> env[K] where defined (what a reference that came in with a variable's value gets)."""
    import re
    return re.sub(r"\$\{([^}]*)\}", lambda m: env.get(m.group(1), m.group(0)), s)


def gen_value(rng, delim, env, prod=None):
    """Returns (text, spec) where spec describes what the text denotes:
    ('elems', [..]) | ('skip',) | ('error',) | ('macro', m, tail) (resolved against the product at run time);
    plus flags pre/app (requested empty first/last element)."""
    kind = rng.random()
    atoms = [a for a in ATOMS if delim not in a]
    if prod is not None and kind < 0.5:
        ms = [m for m in MACROS if not (prod["flavor"] is None and "EXTRA" in m)]   # extraProductDir needs a flavor
        m = rng.choice(ms)
        tail = rng.choice(["/bin", "", "/lib", "/${PRODUCT_NAME}"]) if "?" not in m or rng.random() < 0.7 else ""
        text, den = macro_text(prod, m) + tail, ("macro", m, tail)
        if delim in text:
            den = ("unspecified",)
        pre = rng.random() < 0.08
        app = rng.random() < 0.08
        if pre:
            text = delim + text
        if app:
            text = text + delim
        return text, {"den": den, "pre": pre, "app": app}
    kind = rng.random()
    if kind < 0.55:
        text, den = rng.choice(atoms), None
        den = ("elems", [text])
    elif kind < 0.70:      # defined reference
        key = rng.choice(["FOO", "BAR"])
        form = rng.choice(["${%s}", "$?{%s}", "${%s-dflt}", "$?{%s-dflt}"]) % key
        tail = rng.choice(["/bin", "", "/lib"])
        if key in env:
            val = interp1(env, env[key] + tail)
            pieces = val.split(delim)
            if len(pieces) > 1 and all(pieces) and len(set(pieces)) == len(pieces):
                den = ("multi", pieces)         # the variable's value is itself a list: its elements, in order
            else:
                den = ("elems", [val])
        elif "-dflt" in form:
            den = ("elems", ["dflt" + tail])
        elif form.startswith("$?"):
            den = ("skip",)
        else:
            den = ("error",)
        text = form + tail
    elif kind < 0.80:      # two references
        text = "${FOO}/a" + "/" + "${BAR}"
        if "FOO" in env and "BAR" in env:
            den = ("elems", [interp1(env, env["FOO"] + "/a/" + env["BAR"])])
        else:
            den = ("error",)
        if any(delim in e for e in (den[1] if den[0] == "elems" else [])):
            den = ("unspecified",)
    elif kind < 0.90:      # multi-element value
        a, b = rng.sample(atoms, 2)
        text, den = a + delim + b, ("multi", [a, b])
    elif kind < 0.92:
        text, den = rng.choice([delim, delim + delim, ""]), ("unspecified",)      # nothing but delimiters
        return text, {"den": den, "pre": False, "app": False}
    else:
        text, den = rng.choice(atoms + ["x" + delim.strip() + "y" if delim.strip() else "xy"]), None
        den = ("elems", [text]) if delim not in text else ("unspecified",)
    pre = rng.random() < 0.12
    app = rng.random() < 0.12
    if pre:
        text = delim + text
    if app:
        text = text + delim
    if den[0] == "elems" and any((delim in e) or e == "" for e in den[1]):
        den = ("unspecified",)
    return text, {"den": den, "pre": pre, "app": app}


def gen_old(rng, delim, value_elems):
    r = rng.random()
    if r < 0.12:
        return None
    if r < 0.18:
        return ""
    pool = [a for a in ATOMS if delim not in a] + ["", ""]
    if rng.random() < 0.15 and delim not in "${}/":        # elements that hold a reference as text: they stay as they are
        pool += ["${FOO}/o", "${NOPE}", "/foo/o"]
    if value_elems and rng.random() < 0.4:
        pool += list(value_elems) * 2
    return delim.join(rng.choice(pool) for _ in range(rng.randint(1, 6)))


def gen_case(rng):
    delim = rng.choice(DELIMS)
    env = {}
    if rng.random() < 0.7:
        r = rng.random()
        # defined-but-empty is still defined; nested reference; a value that is itself a list
        env["FOO"] = "/foo" if r < 0.6 else ("" if r < 0.75 else ("${BAR}/n" if r < 0.88 else "/p1" + delim + "/p2"))
    if rng.random() < 0.4:
        env["BAR"] = "bar" if rng.random() < 0.8 else ""
    prod = gen_product(rng) if rng.random() < 0.35 else None
    force = rng.random() < 0.3
    acts, specs = [], []
    nact = 1 if rng.random() < 0.6 else rng.randint(2, 6)
    roundtrip = rng.random() < 0.25      # setup action followed by its own unsetup
    for i in range(nact):
        var = "V" if rng.random() < 0.85 else "W"
        r = rng.random()
        fwd = rng.random() < 0.7
        if r < 0.08:
            words = [rng.choice(["ls", "-l", "x y", "${PRODUCT_DIR}/bin/tool" if prod else "tool", "$HOME", "'q'"])
                     for _ in range(rng.randint(1, 3))]
            spec = {"den": ("alias",), "pre": False, "app": False}
            acts.append({"op": "alias", "fwd": fwd, "var": rng.choice(["ll", "gs"]), "words": words, "value": "", "delim": delim})
        elif r < 0.75:
            text, spec = gen_value(rng, delim, env, prod)
            op = "append" if rng.random() < 0.5 else "prepend"
            acts.append({"op": op, "fwd": fwd, "var": var, "value": text, "delim": delim})
        elif r < 0.93:
            text, spec = gen_value(rng, delim, env, prod)
            spec["pre"] = spec["app"] = False
            text = text.strip(delim) if delim.strip() else text
            acts.append({"op": "set", "fwd": fwd, "var": var, "value": text, "delim": delim})
            if text == "" or delim in text:
                spec["den"] = ("unspecified",)
        else:
            spec = {"den": ("unspecified",), "pre": False, "app": False}
            if prod is not None and rng.random() < 0.5:
                var = rng.choice(["PRODUCT_DIR", prod["name"].upper() + "_DIR"])    # the one variable a table may unset
            acts.append({"op": "unset", "fwd": fwd, "var": var, "value": "", "delim": delim})
        specs.append(spec)
    if roundtrip:
        a = dict(acts[-1])
        a["fwd"] = True
        acts[-1] = a
        b = dict(a)
        b["fwd"] = False
        acts.append(b)
        specs.append(dict(specs[-1]))
    first = specs[0]["den"]
    velems = first[1] if first[0] in ("elems", "multi") else []
    for v in VARS:
        old = gen_old(rng, delim, velems)
        if old is not None:
            env[v] = old
    case = {"env": env, "acts": acts, "specs": specs, "delim": delim, "roundtrip": roundtrip}
    if prod is not None:
        case["product"] = prod
        if rng.random() < 0.3:
            env[prod["name"].upper() + "_DIR"] = "/was/set"
    if rng.random() < 0.1:
        case["noaction"] = True         # Action.execute does not look at it: nothing may change
    if force or rng.random() < 0.2:
        case["force"] = force
        case["oldenv"] = {v: rng.choice([env.get(v), "other", None]) for v in VARS if rng.random() < 0.7}
        case["aliases"] = {k: "old " + k for k in ("ll", "gs") if rng.random() < 0.4}
        case["oldaliases"] = {k: rng.choice(["older", None]) for k in ("ll", "gs") if rng.random() < 0.5}
    return case


# ---- implementation ------------------------------------------------------------------------------

_E = None
_N = [0]


def _eups():
    global _E
    if _E is None:
        common.import_eups()        # first: importing eups resets EUPS_PATH
        root = common.scratch("c12")
        common.mkstacks(root)
        os.makedirs(os.path.join(root, "st", "ups_db", "Linux64", "prod", "1.0"))    # the one extra directory that exists
        os.makedirs(os.path.join(root, "flat"))
        _E = common.new_eups()
        _E._c12root = root
    return _E


def resolve_product(prod, root):
    """The product description with real paths under the scratch root: what Table.expandEupsVariables reads."""
    db = os.path.join(root, "st", "ups_db") if prod["db"] == "stack" else os.path.join(root, "flat")
    sroot = os.path.dirname(db) if prod["db"] == "stack" else db
    pdir = prod["dir"].replace("$S", root) if prod["dir"] else prod["dir"]
    info = {"root": sroot, "dir": pdir, "name": prod["name"], "flavor": prod["flavor"], "version": prod["version"], "db": db}
    ep = prod.get("eups_path", ["$S/st"])
    info["eupsPath"] = None if ep is None else ":".join(x.replace("$S", root) for x in ep)
    if prod["flavor"] is not None:
        info["extraDir"] = os.path.join(db, prod["flavor"], prod["name"], prod["version"])
        info["extraExists"] = os.path.isdir(info["extraDir"])
    else:
        info["extraDir"], info["extraExists"] = "", False
    return info


def _arg(s):
    return '"%s"' % s


def table_text(case):
    """The actions as table lines; every command is written under one of the names Table._read accepts for it (chosen by
    the position of the line, so that the text is a function of the case)."""
    names = {"append": ["envAppend", "pathAppend", "ENVAPPEND"], "prepend": ["envPrepend", "pathPrepend", "EnvPrepend"],
             "set": ["envSet", "pathSet", "setenv"], "unset": ["envUnset", "pathRemove", "unsetenv"], "alias": ["addAlias", "addalias"]}
    lines = []
    for i, a in enumerate(case["acts"]):
        if a["op"] == "optional":       # a dependency nobody declares: the request goes on, the environment is rolled back
            lines.append("setupOptional(%s)" % a["value"])
            continue
        cmd = names[a["op"]][(i + len(a["var"]) + len(a["value"])) % len(names[a["op"]])]
        if a["op"] in ("prepend", "append"):
            args = [a["var"], a["value"]] + ([a["delim"]] if a["delim"] != ":" else [])
        elif a["op"] == "set":
            args = [a["var"], a["value"]]
        elif a["op"] == "alias":
            args = [a["var"]] + list(a["words"])
        else:
            args = [a["var"]]
        lines.append("%s(%s)%s" % (cmd, ", ".join(_arg(x) for x in args), ";" if i % 3 == 2 else ""))
    return "\n".join(lines) + "\n"


def file_safe(case):
    """Can the actions be written as table lines that _read gives back argument for argument?  (C11 owns the parser;
    here only plain quoted arguments: no quote, backslash, control character; no empty envSet value.)"""
    for a in case["acts"]:
        for x in [a["var"], a["value"], a["delim"]] + a.get("words", []):
            if any(ch in x for ch in '"\\\n') or x != x.strip() and False:
                return False
        if a["op"] == "set" and a["value"] == "":
            return False
        if a["op"] in ("prepend", "append") and a["value"] == "":
            return False
        if a["op"] == "alias" and any(w == "" for w in a["words"]):
            return False
    return True


def unset_dropped(a, pdirvar):
    """Table._read keeps an envUnset line only for the product's own <NAME>_DIR (or PRODUCT_DIR, which it renames)."""
    return a["op"] == "unset" and a["var"] not in ("PRODUCT_DIR", pdirvar)


def build_actions(case, e):
    """The Action objects of the case, as eups makes them: from a table file read through Product.getTable, or
    constructed directly and run through Table.expandEupsVariables.  Returns (actions aligned with case['acts'] —
    None for a line the table reader drops —, info)."""
    from eups.table import Action, Table
    from eups.Product import Product
    prod = case.get("product")
    acts = case["acts"]

    def mk(a):
        if a["op"] in ("prepend", "append"):
            args = [a["var"], a["value"]] + ([a["delim"]] if a["delim"] != ":" else [])
            return Action("t.table", "envPrepend", args, dict(append=(a["op"] == "append")))
        if a["op"] == "set":
            return Action("t.table", "envSet", [a["var"], a["value"]], {})
        if a["op"] == "alias":
            return Action("t.table", "addAlias", [a["var"]] + list(a["words"]), {})
        return Action("t.table", "envUnset", [a["var"]], {})
    if prod is None:
        return [mk(a) for a in acts], None
    root = e._c12root
    info = resolve_product(prod, root)
    _N[0] += 1
    tdir = os.path.join(root, "t%d_%d" % (os.getpid(), _N[0]), "ups")
    tfile = os.path.join(tdir, prod["name"] + ".table")
    info["upsDir"] = tdir
    info["via"] = prod["via"] if file_safe(case) else "inject"
    p = Product(prod["name"], prod["version"], prod["flavor"], dir=info["dir"], table=tfile, db=info["db"])
    pdirvar = prod["name"].upper() + "_DIR"
    if info["eupsPath"] is None:        # (run_impl puts the harness's own EUPS_PATH back when the case is over)
        os.environ.pop("EUPS_PATH", None)
    else:
        os.environ["EUPS_PATH"] = info["eupsPath"]
    return _build(case, p, pdirvar, info, tfile, tdir, mk)


def _build(case, p, pdirvar, info, tfile, tdir, mk):
    from eups.table import Table
    prod, acts, root = case["product"], case["acts"], os.path.dirname(os.path.dirname(tdir))
    if info["via"] == "file":
        os.makedirs(tdir)
        with open(tfile, "w") as f:
            f.write(table_text(case))
        table = p.getTable(addDefaultProduct=False, quiet=True)
        got = table.actions(prod["flavor"] or "Linux64")
        common.rmtree(os.path.dirname(tdir))
        kept = [i for i, a in enumerate(acts) if not unset_dropped(a, pdirvar)]
        if len(got) != len(kept):
            raise AssertionError("table gave %d actions for %d kept lines" % (len(got), len(kept)))
        out = [None] * len(acts)
        for i, g in zip(kept, got):
            out[i] = g
        return out, info
    t = Table(None)
    t.file = tfile
    objs = [mk(a) for a in acts]
    t._actions = [["True", objs, []]]
    t.expandEupsVariables(p, quiet=True)
    return list(t.actions(prod["flavor"] or "Linux64")), info


def snapshot(e):
    return {"V": os.environ.get("V"), "W": os.environ.get("W"),
            "@aliases": {k: e.aliases.get(k) for k in ("ll", "gs") if k in e.aliases},
            "@oldenv": {k: e.oldEnviron.get(k) for k in VARS if k in e.oldEnviron},
            "@oldaliases": {k: e.oldAliases.get(k) for k in ("ll", "gs") if k in e.oldAliases}}


def run_impl(case):
    """Execute the case's actions on the real code; returns (the outcome after every action, resolved product)."""
    e = _eups()
    saved = os.environ.get("EUPS_PATH")
    try:
        return _run_impl(case, e)
    finally:
        if saved is None:
            os.environ.pop("EUPS_PATH", None)
        else:
            os.environ["EUPS_PATH"] = saved


def _run_impl(case, e):
    prod = case.get("product")
    clean = ["V", "W", "FOO", "BAR", "PRODUCT_DIR", "PRODUCT_DIR_EXTRA", "PRODUCTS", "UPS_DIR", "PRODUCT_FLAVOR",
             "PRODUCT_NAME", "PRODUCT_VERSION"] + [n.upper() + "_DIR" for n in ("prod", "my-p", "P2x", "a.b", "c++", "axb", "c", "other")]
    for k in clean:
        os.environ.pop(k, None)
    os.environ.update(case["env"])
    e.force = bool(case.get("force"))
    e.noaction = bool(case.get("noaction"))
    e.oldEnviron = dict(case.get("oldenv", {}))
    e.aliases = dict(case.get("aliases", {}))
    e.oldAliases = dict(case.get("oldaliases", {}))
    outs = []
    try:
        with contextlib.redirect_stderr(io.StringIO()), contextlib.redirect_stdout(io.StringIO()):
            actions, info = build_actions(case, e)
    except Exception as ex:  # noqa
        return ["EXC:build:" + type(ex).__name__ + ":" + str(ex)[:80]], None
    for a, act in zip(case["acts"], actions):
        if act is not None:
            try:
                with contextlib.redirect_stderr(io.StringIO()), contextlib.redirect_stdout(io.StringIO()):
                    act.execute(e, 1, a["fwd"])
            except RuntimeError:
                outs.append("RuntimeError")
                break
            except Exception as ex:  # noqa
                outs.append("EXC:" + type(ex).__name__)
                break
        outs.append(snapshot(e))
    return outs, info


def run_impl_one(case):
    res = run_impl(case)
    if _E is not None:
        common.rmtree(_E._c12root)
    return res


def run_impl_chunk(cases):
    res = [run_impl(c) for c in cases]
    if _E is not None:
        common.rmtree(_E._c12root)
    return res


def model_requests(case, info=None):
    """One request per prefix of the action list, so the state after every action is compared."""
    base = {"m": "path", "env": case["env"]}
    for k in ("force", "oldenv", "aliases", "oldaliases"):
        if k in case:
            base[k] = case[k]
    acts = case["acts"]
    if info is not None:
        base["product"] = {k: info[k] for k in ("root", "dir", "extraDir", "extraExists", "name", "flavor", "version", "upsDir")}
        base["eupspath"] = info["eupsPath"]
        if info["eupsPath"] is not None:
            base["env"] = dict(case["env"], EUPS_PATH=info["eupsPath"])
        base["fromfile"] = info["via"] == "file"
    reqs = []
    for i in range(len(acts)):
        r = dict(base)
        r["acts"] = acts[:i + 1]
        reqs.append(r)
    return reqs


def model_outs(case, answers):
    outs = []
    for ans in answers:
        if "bad-op" in ans:
            outs.append("bad-op:" + str(ans["bad-op"]))
            break
        if ans["out"] != "ok":
            outs.append(ans["out"])
            break
        outs.append({"V": ans["env"].get("V"), "W": ans["env"].get("W"),
                     "@aliases": {k: v for k, v in ans["aliases"].items() if k in ("ll", "gs")},
                     "@oldenv": {k: v for k, v in ans["oldenv"].items() if k in VARS},
                     "@oldaliases": {k: v for k, v in ans["oldaliases"].items() if k in ("ll", "gs")}})
    return outs


# ---- oracle (ii): the property on the implementation's own output -----------------------------------

def elems(s, delim):
    return [x for x in (s or "").split(delim) if x]


def uniq(l):
    out = []
    for x in l:
        if x not in out:
            out.append(x)
    return out


def resolve_den(den, info, case, delim):
    """What a value written with a product macro denotes, from the product's description (no model involved)."""
    if den[0] != "macro":
        return tuple(den) if isinstance(den, list) else den
    if info is None:
        return ("unspecified",)
    m, tail = den[1], den[2]
    opt, key = m.startswith("$?"), m.strip("$?{}")
    if m == "${OTHER_DIR}":     # another product's directory variable: not this table's business, and not defined here
        return ("error",)
    if m in EPREFS:         # a subscripted reference to $EUPS_PATH: that element; refused when EUPS_PATH is not set
        if info["eupsPath"] is None:
            return ("error",)
        els = info["eupsPath"].split(":")
        i = int(m[len("${EUPS_PATH["):-2])
        if i >= len(els):
            return ("unspecified",)     # "${EUPS_PATH}" is left, i.e. the whole path
        text = els[i] + tail.replace("${PRODUCT_NAME}", info["name"])
        return ("unspecified",) if (delim in text or text == "") else ("elems", [text])
    if m in LEGACY:         # older synonyms: rewritten when a table file is read, unknown otherwise
        if info["via"] != "file":
            return ("unspecified",) if key in case["env"] else ("error",)
        m = LEGACY[m]
        key = m.strip("${}")
    d = info["dir"] if info["dir"] else None
    val = {"${PRODUCT_DIR}": d, "$?{PRODUCT_DIR}": (d if d != "none" else None),
           "${PRODUCT_DIR_EXTRA}": info["extraDir"], "$?{PRODUCT_DIR_EXTRA}": (info["extraDir"] if info["extraExists"] else None),
           "${PRODUCTS}": info["root"], "${NAME_DIR}": d, "${PRODUCT_FLAVOR}": info["flavor"], "${PRODUCT_NAME}": info["name"],
           "${PRODUCT_VERSION}": info["version"], "${UPS_DIR}": info["upsDir"]}[m]
    if m == "${NAME_DIR}":
        key = info["name"].upper() + "_DIR"
        if key == "PROD_DIR" and info["via"] == "file":
            key = "PRODUCT_DIR"     # ${PROD_DIR} is itself an older synonym
    if val is None:         # the reference stays in the value and is then looked up in the environment
        if key in case["env"] or "-" in key:        # (${MY-P_DIR} reads as "MY, default P_DIR")
            return ("unspecified",)
        return ("skip",) if opt else ("error",)
    text = val + tail.replace("${PRODUCT_NAME}", info["name"])
    if delim in text or text == "":
        return ("unspecified",)
    return ("elems", [text])


def oracle(case, outs, info=None):
    """Yields (clause, finding_class, detail) for every clause of C12 the implementation's output breaks."""
    delim = case["delim"]
    state = {v: case["env"].get(v) for v in VARS}
    aliases = dict(case.get("aliases", {}))
    for i, (a, spec) in enumerate(zip(case["acts"], case["specs"])):
        if i >= len(outs):
            break
        out = outs[i]
        den = resolve_den(spec["den"], info, case, delim)
        var = a["var"]
        if isinstance(out, str):
            if out.startswith("EXC:"):      # neither done nor refused: an internal error
                yield ("no_crash", None, "action %d: %s" % (i, out))
                return
            expected_err = (den[0] == "error" and a["fwd"])
            if den[0] != "unspecified" and not expected_err and not (den[0] == "error" and not a["fwd"]):
                yield ("no_error", None, "action %d raised %s" % (i, out))
            return
        if a["op"] == "alias":
            al = out["@aliases"]
            if a["fwd"]:
                d = info["dir"] if info and info["dir"] else None
                want = " ".join(w.replace("${PRODUCT_DIR}", d) if d else w for w in a["words"])
                if al.get(var) != want:
                    yield ("alias_set_exact", None, "action %d: alias %s is %r, expected %r" % (i, var, al.get(var), want))
            elif var in al:
                yield ("unsetup_removes_alias", None, "action %d: alias %s left: %r" % (i, var, al[var]))
            for k in ("ll", "gs"):
                if k != var and al.get(k) != aliases.get(k):
                    yield ("other_alias_untouched", None, "action %d on %s changed alias %s" % (i, var, k))
        elif out["@aliases"] != aliases:
            yield ("other_alias_untouched", None, "action %d (%s) changed the aliases" % (i, a["op"]))
        aliases = dict(out["@aliases"])
        if var not in VARS:
            for v in VARS:
                if out[v] != state[v]:
                    yield ("other_variable_untouched", None, "action %d on %s changed %s" % (i, var, v))
            continue
        before, after = state[var], out[var]
        other = [v for v in VARS if v != var]
        for v in other:
            if out[v] != state[v]:
                yield ("other_variable_untouched", None, "action %d on %s changed %s" % (i, var, v))
        if a["op"] in ("prepend", "append") and den[0] in ("elems", "skip", "error"):
            old = elems(before, delim)
            new = elems(after, delim)
            if den[0] == "error":
                if a["fwd"]:
                    yield ("undefined_reference_refused", None, "action %d: undefined ${VAR} accepted" % i)
            elif den[0] == "skip":
                if after != before:
                    yield ("optional_guard", None, "action %d: $?{VAR} undefined but %r -> %r" % (i, before, after))
            else:
                v = den[1][0]
                if a["fwd"]:
                    if len(new) != len(set(new)):
                        yield ("nodup", None, "action %d: duplicates in %r" % (i, new))
                    if [x for x in new if x != v] != [x for x in uniq(old) if x != v]:
                        yield ("others_kept_in_order", None, "action %d: %r -> %r" % (i, old, new))
                    if a["op"] == "prepend" and new[:1] != [v]:
                        yield ("prepend_first", None, "action %d: %r not first in %r" % (i, v, new))
                    if a["op"] == "append" and new[-1:] != [v]:
                        yield ("append_last", None, "action %d: %r not last in %r" % (i, v, new))
                    if spec["pre"] and not (after or "").startswith(delim):
                        yield ("leading_empty_element", None, "action %d: %r" % (i, after))
                    if spec["app"] and not (after or "").endswith(delim):
                        yield ("trailing_empty_element", None, "action %d: %r" % (i, after))
                else:
                    if new != [x for x in uniq(old) if x != v]:
                        yield ("unsetup_removes_exactly", None, "action %d: %r -> %r (value %r)" % (i, old, new, v))
        if a["op"] in ("prepend", "append") and den[0] == "multi":
            # a value holding several elements: they all go first (last), in the order written
            old = elems(before, delim)
            new = elems(after, delim)
            vs = den[1]
            rest = [x for x in uniq(old) if x not in vs]
            if a["fwd"]:
                if len(new) != len(set(new)):
                    yield ("nodup", None, "action %d: duplicates in %r" % (i, new))
                if [x for x in new if x not in vs] != rest:
                    yield ("others_kept_in_order", None, "action %d: %r -> %r" % (i, old, new))
                if a["op"] == "prepend" and new[:len(vs)] != vs:
                    yield ("prepend_first", None, "action %d: elements %r not first, in order, in %r" % (i, vs, new))
                if a["op"] == "append" and new[-len(vs):] != vs:
                    yield ("append_last", None, "action %d: elements %r not last, in order, in %r" % (i, vs, new))
                if spec["pre"] and not (after or "").startswith(delim):
                    yield ("leading_empty_element", None, "action %d: %r" % (i, after))
                if spec["app"] and not (after or "").endswith(delim):
                    yield ("trailing_empty_element", None, "action %d: %r" % (i, after))
            elif new != rest:
                yield ("unsetup_removes_exactly", None, "action %d: %r -> %r (elements %r)" % (i, old, new, vs))
        if a["op"] == "set" and den[0] in ("elems", "skip", "error"):
            if a["fwd"]:
                if den[0] == "elems" and after != den[1][0]:
                    yield ("envset_exact", None, "action %d: %r, expected %r" % (i, after, den[1][0]))
                if den[0] == "skip" and after != before:
                    yield ("optional_guard", None, "action %d: envSet with $?{VAR} undefined changed %r -> %r" % (i, before, after))
                if den[0] == "error":
                    yield ("undefined_reference_refused", None, "action %d: envSet of undefined ${VAR} accepted" % i)
            elif after is not None:
                yield ("unsetup_removes_variable", None, "action %d: %r left" % (i, after))
        state = {v: out[v] for v in VARS}


def nontrivial(case, outs):
    state = {v: case["env"].get(v) for v in VARS}
    al = dict(case.get("aliases", {}))
    for o in outs:
        if isinstance(o, str) or {v: o[v] for v in VARS} != state or o["@aliases"] != al:
            return True
    return False


# ---- entry points --------------------------------------------------------------------------------

def corpus_cases():
    d = os.path.join(common.VERIF, "corpus", "C12")
    out = []
    if os.path.isdir(d):
        import json
        for f in sorted(os.listdir(d)):
            if f.endswith(".json"):
                with open(os.path.join(d, f)) as fh:
                    c = json.load(fh)
                c["_corpus"] = f
                out.append(c)
    return out



# ---- end to end: a table set up and unset through eups.app.setup (setup -r <dir>) -----------------------------------

E2E_ATOMS = ["a", "b", "/x/y", "q", "c d", "/opt/p/1.0/bin", "zz"]
E2E_TAILS = ["/bin", "/lib", "/share/man", ""]


def gen_e2e(rng):
    """A product directory with a table of 1-5 envPrepend/envAppend/envSet lines over V (path) and W (path or set), a
    prior environment; the table is set up with `setup -r dir` and then unset, each by a fresh Eups."""
    delim = rng.choice([":", ":", ":", ";", "::", "|"])
    atoms = [a for a in E2E_ATOMS if delim not in a]
    env = {"FOO": "/foo"} if rng.random() < 0.6 else {}
    w_is_set = rng.random() < 0.4
    lines = []
    for _ in range(rng.randint(1, 5)):
        r = rng.random()
        if r < 0.1 and len(atoms) > 2:
            a, b = rng.sample(atoms, 2)
            text, val = a + delim + b, ("multi", a, b)      # a value that is itself a list: its elements, in order
        elif r < 0.45:
            text, val = rng.choice(atoms), None
            val = text
        elif r < 0.8:
            tail = rng.choice(E2E_TAILS)
            text, val = "${PRODUCT_DIR}" + tail, ("dir", tail)
        elif r < 0.9 and "FOO" in env:
            text, val = "${FOO}/e", "/foo/e"
        else:
            text, val = "${UPS_DIR}/x", ("ups", "/x")
        if w_is_set and rng.random() < 0.3:
            lines.append({"op": "set", "var": "W", "value": text, "val": val, "delim": delim})
        else:
            var = "V" if (w_is_set or rng.random() < 0.7) else "W"
            lines.append({"op": rng.choice(["prepend", "append"]), "var": var, "value": text, "val": val, "delim": delim})
    rollback = rng.random() < 0.4
    if rollback:
        # a failed optional dependency (Eups.popStack("env") rebinds os.environ), then a variable set by the table and a
        # reference to it: the reference must read the value the table has just set, not the one from before the rollback
        if rng.random() < 0.6:
            env["BASE"] = "/old/base"
        ref = rng.choice(["${BASE}/bin", "${BASE}/bin", "$?{BASE}/opt"])
        tail = ref[ref.index("}") + 1:]
        k = rng.randint(0, len(lines))
        lines[k:k] = [{"op": "optional", "var": "", "value": "nosuchprod", "val": "", "delim": delim},
                      {"op": "set", "var": "BASE", "value": "${PRODUCT_DIR}/share", "val": ("dir", "/share"), "delim": delim},
                      {"op": rng.choice(["prepend", "append"]), "var": "V", "value": ref, "val": ("dir", "/share" + tail),
                       "delim": delim, "baseref": True}]
    for v in VARS:
        r = rng.random()
        if r < 0.2:
            continue
        pool = atoms + ["", "${X}/kept"] + [l["value"] for l in lines if isinstance(l["val"], str) and l["op"] != "set"]
        env[v] = delim.join(rng.choice(pool) for _ in range(rng.randint(0, 5)))
    return {"kind": "e2e", "env": env, "lines": lines, "delim": delim, "dirname": rng.choice(["prd", "loc dir", "p-1.0"]),
            "route": rng.choice(["local", "declared"]), "force": rng.random() < 0.35, "rollback": rollback}


def shell_apply(env, cmds):
    """What a POSIX shell holds after sourcing the emitted commands (`export K=V` with the emitter's quoting, `unset K`)."""
    env = dict(env)
    for c in cmds:
        if c.startswith("export "):
            k, v = c[len("export "):].split("=", 1)
            if len(v) >= 2 and v[0] == "'" and v[-1] == "'":
                v = v[1:-1].replace("'\\''", "'")
            env[k] = v
        elif c.startswith("unset ") and not c.startswith("unset -f "):
            env.pop(c[len("unset "):], None)
    return env


def run_e2e(case):
    """In a forked child: setup -r <dir> with one Eups, unsetup with another; the variables after each."""
    def body():
        common.import_eups()
        root = common.scratch("c12e")
        try:
            stacks, _ = common.mkstacks(root)
            d = os.path.join(root, case["dirname"], "prd")
            os.makedirs(os.path.join(d, "ups"))
            acts = [dict(l, fwd=True, words=[]) for l in case["lines"]]
            with open(os.path.join(d, "ups", "prd.table"), "w") as f:
                f.write(table_text({"acts": acts}))
            declared = case.get("route") == "declared"
            for k in ("V", "W", "FOO", "X", "BASE", "PRD_DIR", "SETUP_PRD"):
                os.environ.pop(k, None)
            os.environ.update(case["env"])
            M, app = common.eups_mod("Eups"), common.eups_mod("app")
            U = common.eups_mod("utils")
            U.stderr = U.stdwarn = U.stdinfo = U.stdok = io.StringIO()
            out = {"dir": d, "eupsPath": os.environ.get("EUPS_PATH"), "root": stacks[0] if declared else None}
            force = bool(case.get("force"))
            watch = VARS + ["BASE"]
            with contextlib.redirect_stderr(io.StringIO()), contextlib.redirect_stdout(io.StringIO()):
                try:
                    if declared:        # a declared version, set up by name: the main loop of Eups.setup runs the table
                        E0 = M.Eups(quiet=1)
                        E0.declare("prd", "1.0", productDir=d)
                        out["flavor"] = E0.flavor
                    shell = dict(os.environ)            # what the user's shell holds; it sources the emitted commands
                    if declared:
                        cmds = app.setup("prd", "1.0", eupsenv=M.Eups(quiet=1, force=force))
                    else:               # setup -r dir: the localProduct loop runs it
                        cmds = app.setup("prd", productRoot=d, eupsenv=M.Eups(quiet=1, force=force))
                    out["setup"] = "false" if "false" in cmds else {v: os.environ.get(v) for v in watch}
                    out["setup_dir"] = os.environ.get("PRD_DIR")
                    shell = shell_apply(shell, cmds)
                    out["shell_setup"] = {v: shell.get(v) for v in watch}
                    for k in list(os.environ):          # the next command runs in that shell
                        if k not in shell:
                            del os.environ[k]
                    os.environ.update(shell)
                    cmds = app.setup("prd", eupsenv=M.Eups(quiet=1, force=force), fwd=False)
                    out["unsetup"] = "false" if "false" in cmds else {v: os.environ.get(v) for v in watch}
                    out["unsetup_dir"] = os.environ.get("PRD_DIR")
                    shell = shell_apply(shell, cmds)
                    out["shell_unsetup"] = {v: shell.get(v) for v in watch}
                except Exception as ex:  # noqa
                    out["exc"] = type(ex).__name__ + ":" + str(ex)[:100]
            return out
        finally:
            common.rmtree(root)
    r = common.in_child(body)
    return r[1] if r[0] == "ok" else {"exc": "child:" + str(r[1:3])}


def run_e2e_chunk(cases):
    return [run_e2e(c) for c in cases]


def e2e_requests(case, out):
    """Model: the table's lines as Product.getTable hands them out (fromFile), run forward, then forward + backward."""
    d = out["dir"]
    acts = [{"op": l["op"], "fwd": True, "var": l["var"], "value": l["value"], "delim": l["delim"]} for l in case["lines"]
            if l["op"] != "optional"]       # the failed optional dependency leaves no trace
    base = {"m": "path", "env": dict(case["env"], EUPS_PATH=out["eupsPath"]), "fromfile": True, "eupspath": out["eupsPath"],
            "product": {"root": out.get("root"), "dir": d, "extraDir": "", "extraExists": False, "name": "prd",
                        "flavor": out.get("flavor"), "version": "1.0" if out.get("root") else None,
                        "upsDir": os.path.join(d, "ups")}}
    return [dict(base, acts=acts), dict(base, acts=acts + [dict(a, fwd=False) for a in acts])]


def e2e_oracle(case, out):
    """The property for a whole table, from the generator's description: after setup every prepended value stands in
    front (the latest first), every appended one at the end (the latest last), the other elements keep the order of their
    first occurrences; after unsetup exactly the table's values are gone; envSet sets / removes the variable."""
    if "exc" in out:
        yield ("no_crash", None, out["exc"])
        return
    d, delim = out["dir"], case["delim"]

    def vals(l):
        v = l["val"]
        if not isinstance(v, str) and v[0] == "multi":
            return list(v[1:])
        return [v if isinstance(v, str) else (d if v[0] == "dir" else os.path.join(d, "ups")) + v[1]]

    def val(l):
        return vals(l)[0]
    if out.get("setup_dir") != d or out.get("unsetup_dir") is not None:
        yield ("product_dir_variable", None, "PRD_DIR %r after setup, %r after unsetup" % (out.get("setup_dir"), out.get("unsetup_dir")))
    if isinstance(out.get("setup"), dict) and isinstance(out.get("unsetup"), dict):
        # the action-level clauses seen through the commands eups.app.setup hands to the shell (with and without --force)
        for phase in ("setup", "unsetup"):
            for v in VARS + ["BASE"]:
                if out["shell_" + phase].get(v) != out[phase].get(v):
                    yield ("emitted_commands_faithful", None, "%s%s: the shell holds %s=%r, eups computed %r" % (
                        phase, " --force" if case.get("force") else "", v, out["shell_" + phase].get(v), out[phase].get(v)))
        if case.get("rollback"):
            if out["setup"].get("BASE") != d + "/share":
                yield ("envset_exact", None, "BASE is %r after setup, expected %r" % (out["setup"].get("BASE"), d + "/share"))
            if out["shell_unsetup"].get("BASE") is not None:
                yield ("unsetup_removes_variable", None, "BASE is %r in the shell after unsetup" % out["shell_unsetup"].get("BASE"))
    for var in VARS:
        ls = [l for l in case["lines"] if l["var"] == var]
        if any(delim in x for l in ls if l["op"] != "set" for x in vals(l)):
            continue
        if any(len(vals(l)) > 1 for l in ls if l["op"] == "set"):
            continue
        old = uniq(elems(case["env"].get(var), delim))
        sets = [l for l in ls if l["op"] == "set"]
        if isinstance(out["setup"], str) or isinstance(out["unsetup"], str):
            yield ("no_error", None, "setup %r unsetup %r" % (out["setup"], out["unsetup"]))
            return
        after, back = out["setup"][var], out["unsetup"][var]
        if sets and len(sets) == len(ls):
            if after != val(sets[-1]):
                yield ("envset_exact", None, "%s is %r after setup, expected %r" % (var, after, val(sets[-1])))
            if back is not None or out["shell_unsetup"].get(var) is not None:
                yield ("unsetup_removes_variable", None, "%s is %r after unsetup (%r in the shell)" % (var, back, out["shell_unsetup"].get(var)))
            continue
        if sets:
            continue            # envSet mixed with path commands on one variable: not specified as a whole
        l_ = list(old)
        for l in ls:
            l_ = [x for x in l_ if x not in vals(l)]
            l_ = vals(l) + l_ if l["op"] == "prepend" else l_ + vals(l)
        if ls and elems(after, delim) != l_:
            yield ("table_setup_order", None, "%s: %r, expected %r" % (var, elems(after, delim), l_))
        if not ls and after != case["env"].get(var):
            yield ("other_variable_untouched", None, "%s changed by setup: %r" % (var, after))
        allvals = [x for l in ls for x in vals(l)]
        want = [x for x in old if x not in allvals]
        if any(l.get("baseref") for l in ls):
            continue        # unsetup runs the lines in table order: BASE is gone before the line that refers to it is unwound
        if ls and elems(back, delim) != want:
            yield ("table_unsetup_removes_exactly", None, "%s: %r, expected %r" % (var, elems(back, delim), want))


def evaluate_e2e(ctx, cases):
    nw = 4
    chunks = [cases[i::nw] for i in range(nw)]
    res = parallel_map(run_e2e_chunk, chunks, workers=nw)
    outs = [None] * len(cases)
    for k, ch in enumerate(res):
        for j, v in enumerate(ch):
            outs[k + j * nw] = v
    reqs = []
    for c, o in zip(cases, outs):
        reqs += e2e_requests(c, o) if "dir" in o else []
    answers = iter(ctx.lean.ask_many(reqs))
    for c, o in zip(cases, outs):
        ctx.hist("e2e")
        ctx.hist("e2e-lines=%d" % len(c["lines"]))
        ctx.hist("e2e-route=%s" % c.get("route"))
        ctx.hist("e2e-force=%s" % bool(c.get("force")))
        ctx.hist("e2e-rollback-ref=%s" % bool(c.get("rollback")))
        if c.get("force") and any(l["op"] == "set" for l in c["lines"]):
            ctx.hist("e2e-force-envset")
        ctx.case(key={"e2e": c["env"], "lines": c["lines"], "dirname": c["dirname"], "route": c.get("route"), "force": c.get("force")}, nontrivial=True, sample=None)
        if "dir" in o:
            a1, a2 = next(answers), next(answers)
            W_ = VARS + ["BASE"]
            mo = {"setup": ({v: a1["env"].get(v) for v in W_} if a1["out"] == "ok" else a1["out"]),
                  "unsetup": ({v: a2["env"].get(v) for v in W_} if a2["out"] == "ok" else a2["out"])}
            mo["shell_setup"], mo["shell_unsetup"] = mo["setup"], mo["unsetup"]     # the shell ends up with what eups computed
            io_ = {k: o.get(k) for k in ("setup", "unsetup", "shell_setup", "shell_unsetup")}
            if "exc" in o:
                io_ = {"exc": o["exc"]}
            if mo != io_:
                ctx.disagree("e2e_setup_unsetup", c, io_, mo)
        else:
            mo = None
        for clause, cls, detail in e2e_oracle(c, o):
            ctx.fail(clause, c, o, mo, note=detail, finding=cls)


CASE_KEYS = ("env", "acts", "specs", "delim", "product", "force", "noaction", "oldenv", "aliases", "oldaliases")


def exhaustive_cases(maxlen, delims):
    """Every prior list over {a, b, x, empty} up to maxlen elements x value in {a, x, a<d>b, x<d>a} x prepend/append x
    setup/unsetup x the four leading/trailing-delimiter flags: the small end of the property's quantifier, completely."""
    import itertools
    out = []
    for delim in delims:
        for n in range(maxlen + 1):
            for old in itertools.product(["a", "b", "x", ""], repeat=n):
                oldv = None if n == 0 else delim.join(old)
                for vals in (["a"], ["x"], ["a", "b"], ["x", "a"]):
                    for op in ("prepend", "append"):
                        for fwd in (True, False):
                            for pre, app in ((False, False), (True, False), (False, True), (True, True)):
                                if (pre or app) and not fwd:
                                    continue
                                text = (delim if pre else "") + delim.join(vals) + (delim if app else "")
                                den = ("elems", vals) if len(vals) == 1 else ("multi", vals)
                                env = {} if oldv is None else {"V": oldv}
                                out.append({"env": env, "acts": [{"op": op, "fwd": fwd, "var": "V", "value": text, "delim": delim}],
                                            "specs": [{"den": den, "pre": pre, "app": app}], "delim": delim, "roundtrip": False})
    return out


def evaluate(ctx, cases):
    nw = 4
    chunks = [cases[i::nw] for i in range(nw)]
    impl_chunks = parallel_map(run_impl_chunk, chunks, workers=nw)
    impl = [None] * len(cases)
    for k, ch in enumerate(impl_chunks):
        for j, v in enumerate(ch):
            impl[k + j * nw] = v
    reqs, spans = [], []
    for c, (io_, info) in zip(cases, impl):
        r = model_requests(c, info)
        spans.append((len(reqs), len(r)))
        reqs += r
    answers = ctx.lean.ask_many(reqs)
    for c, (io_, info), (s, n) in zip(cases, impl, spans):
        mo = model_outs(c, answers[s:s + n])
        inp = {k: c[k] for k in CASE_KEYS if k in c}
        key = {k: c[k] for k in CASE_KEYS if k in c and k not in ("specs", "delim")}
        ctx.case(key=key, nontrivial=nontrivial(c, io_), sample={"input": key, "impl": io_} if ctx.evaluations % 997 == 0 else None)
        ctx.hist("delim=%s" % c["delim"])
        ctx.hist("nacts=%d" % len(c["acts"]))
        ctx.hist("product=%s" % (info["via"] if info else ("none" if "product" not in c else "failed")))
        ctx.hist("force=%s" % c.get("force"))
        for a, sp in zip(c["acts"], c["specs"]):
            ctx.hist("op=%s/%s" % (a["op"], "setup" if a["fwd"] else "unsetup"))
            ctx.hist("value=%s" % (sp["den"][0] if sp["den"][0] != "macro" else "macro:" + sp["den"][1]))
            if sp["den"][0] == "macro":
                ctx.hist("macro-denotes=%s" % resolve_den(sp["den"], info, c, c["delim"])[0])
        if isinstance(io_[-1], str):
            ctx.hist("outcome=" + io_[-1][:40])
        if mo != io_:
            ctx.disagree("env_after_actions", inp, io_, mo)
        for clause, cls, detail in oracle(c, io_, info):
            ctx.fail(clause, inp, io_, mo, note=detail, finding=cls)


def json_key(c):
    import json
    return json.dumps({"env": c["env"], "acts": c["acts"]}, sort_keys=True)


def run(ctx):
    cases = corpus_cases()
    ctx.hist("corpus", len(cases))
    e2e_corpus = [c for c in cases if c.get("kind") == "e2e"]
    cases = [c for c in cases if c.get("kind") != "e2e"]
    big = ctx.tier == "thorough" or ctx.escalated
    batch = 4000

    def stream(n):
        done = 0
        while done < n and not ctx.out_of_time():
            k = min(batch, n - done)
            evaluate(ctx, [gen_case(ctx.rng) for _ in range(k)])
            done += k
    # the ordinary quick portion first and completely (every family, every class) ...
    evaluate(ctx, cases)
    ex = exhaustive_cases(3, [":"])
    ctx.hist("exhaustive", len(ex))
    evaluate(ctx, ex)
    evaluate_e2e(ctx, e2e_corpus + [gen_e2e(ctx.rng) for _ in range(240)])
    stream(40000)
    # ... and only then the enlarged budget (thorough tier, or a quick run escalated because a mirrored source changed),
    # the families in turn so that none starves when time runs out
    if big and not ctx.out_of_time():
        evaluate_e2e(ctx, [gen_e2e(ctx.rng) for _ in range(700)])
        stream(100000)
    if big and not ctx.out_of_time():
        seen = {json_key(c) for c in ex}
        ex2 = [c for c in exhaustive_cases(4, [":", "::", "|"]) if json_key(c) not in seen]
        ctx.hist("exhaustive", len(ex2))
        evaluate(ctx, ex2)
    if big and not ctx.out_of_time():
        evaluate_e2e(ctx, [gen_e2e(ctx.rng) for _ in range(1460)])
        stream(260000)
    if ctx.histogram.get("e2e", 0) >= 100:
        for cls in ("e2e-rollback-ref=True", "e2e-force=True", "e2e-force=False", "e2e-force-envset", "e2e-route=local", "e2e-route=declared"):
            if not ctx.histogram.get(cls):
                raise common.InfraError("degenerate distribution: no end-to-end case of class %s" % cls)
    if ctx.evaluations > 5000:
        for cls in ("product=file", "product=inject", "force=True", "op=alias/setup", "op=alias/unsetup", "value=multi",
                    "macro-denotes=elems", "macro-denotes=skip", "macro-denotes=error", "op=unset/setup"):
            if not ctx.histogram.get(cls):
                raise common.InfraError("degenerate distribution: no case of class %s" % cls)
    if ctx.evaluations and ctx.distinct_nontrivial < ctx.evaluations * 0.3:
        raise common.InfraError("degenerate distribution: %d non-trivial of %d" % (ctx.distinct_nontrivial, ctx.evaluations))


def replay(ctx, rp):
    c = rp["input"]
    if c.get("kind") == "e2e":
        o = run_e2e(c)
        answers = ctx.lean.ask_many(e2e_requests(c, o)) if "dir" in o else []
        fails = [{"clause": cl, "class": k, "detail": d} for cl, k, d in e2e_oracle(c, o)]
        mo = [a.get("env", a.get("out")) for a in answers]
        return {"input": c, "impl_output": o, "model_output": mo, "agree": None, "fails": fails}
    c.setdefault("roundtrip", False)
    r = common.in_child(run_impl_one, c)
    if r[0] != "ok":
        return {"input": c, "impl_output": list(r), "model_output": None, "agree": False, "fails": []}
    io_, info = r[1]
    answers = ctx.lean.ask_many(model_requests(c, info))
    mo = model_outs(c, answers)
    fails = [{"clause": cl, "class": k, "detail": d} for cl, k, d in oracle(c, io_, info)]
    return {"input": c, "impl_output": io_, "model_output": mo, "agree": io_ == mo, "fails": fails}
