"""C16 — database records round-trip and stacks are relocatable.

Implementation: `Eups.declare` (one forked child per command) → the version file `Database.declare` writes →
a fresh reader (`Eups.findProduct`, through the files and through the cache) before and after the stack is
renamed or copied; and `VersionFile` / `ChainFile` write → read on generated records and hand-written texts.
Model: lean/EupsModel/Model/Record.lean through the driver handler "c16".
Oracle (ii), model-free: from the generator's structured description of a case (placement of the directory and
of the table file, relocation target; generated record) the locations a reader must report are computed
directly: inside paths re-rooted, outside paths unchanged, everything reported exists on disk; a record written
and read back is the record generated; the other flavor's block is unchanged by a declaration."""
import io
import json
import os
import time
import shutil
import tempfile

from . import common, lib_records
from .common import parallel_map

RULE = ("cases = (a) stacks: a stack name (blanks, dots, '+'), 3-6 declarations each with a directory placement "
        "(inside / inside with blanks / outside / string-prefix sibling 'stack2' / none), a table-file placement "
        "(dir/ups, elsewhere in dir, absolute inside the stack, in 'ups_db2' (string-prefix sibling of ups_db), "
        "absolute outside, in the sibling, interned from a stream, none), a flavor (some versions get both), the "
        "working directory of the command (neutral / product dir / ups dir / stack root), the stack plain or reached "
        "through a symbolic link (arguments through the link, or by their real paths), then a rename or a copy "
        "of the stack to a new path (a linked stack: the real directory moves and is reached through a link of another "
        "name); (b) records with qualified flavors in an admissible order (clean-qual); (b') version/chain records generated field by field over a clean and a dirty "
        "alphabet, written and read back; (c) hand-written-style record texts from a line grammar (comments, "
        "quotes, missing End, fields before FLAVOR, QUALIFIERS); (d) hand-written version files whose PROD_DIR / UPS_DIR / "
        "TABLE_FILE use $PROD_ROOT, $PROD_DIR, $UPS_DIR, $UPS_DB, $FLAVOR, near-miss macro names, relative, absolute, "
        "none or missing values, over a random set of existing files, read by a real reader (files and cache) before and "
        "after the stack is renamed; (e) one product declared for two or three flavors (Linux, Linux64, generic) with the "
        "same tags on several flavors, then Database.undeclare / Eups.undeclare / unassignTag / untag / assignTag / "
        "declare -t (re-pointing) / forced redeclaration of ONE flavor, comparing every other flavor's block of every "
        "version and chain record (parsed and as text) before and after. Non-trivial: (a) at least one declaration "
        "succeeded and was read back after the relocation, (b,c) always; distinct = distinct case digests")
TRUSTED = ["os.path.realpath = replacement of the one symbolic link of the scratch tree (the stack's EUPS_PATH entry, when the "
           "case has one) by its target: the model's `realOf`, used where the code resolves links (VersionFile.write); "
           "the theorems are stated for real = identity; os.path.join/abspath on normalised paths = concatenation of segments",
           "CPython `re` on the record patterns (^(\\w+)\\s*=\\s*(.*), #.*$, ^(End|Group)\\s*:, quote stripping), "
           "ASCII input, no carriage returns",
           "the current directory of a command holds no entry named like a relative record value, except in the "
           "generated cwd cases where the product's own `ups` directory is there"]
ASSUMPTIONS = ["a path is 'inside' the stack iff its segment list extends the stack's; relocation re-roots it",
               "existence probes of Product.resolvePaths are answered from a snapshot of the scratch tree"]

FLAVORS = ["Linux", "generic"]
STACKS = ["stack", "st ack", "stack.d", "st+ck"]
NEWS = ["moved", "mo ved", "deeper/moved", "re.loc+1"]
VERSIONS = ["1.0", "v2_1", "1.0+2", "r(1)", "2(b", "1|2"]
CORPUS = os.path.join(common.VERIF, "corpus", "C16")


# ================================================================================================
# (a) relocation cases
# ================================================================================================

def gen_reloc(rng):
    stack = rng.choice(STACKS)
    prods = []
    n = rng.randint(3, 6)
    for i in range(n):
        name = "p%d" % rng.randint(0, 3)
        version = rng.choice(VERSIONS)
        flavor = "Linux" if rng.random() < 0.7 else "generic"
        if any(p["name"] == name and p["version"] == version and p["flavor"] == flavor for p in prods):
            continue
        prods.append(gen_product(rng, name, version, flavor, len(prods)))
    # the stack may be reached through a symbolic link (EUPS_PATH names the link); the directories and table files of
    # the declarations are then given through the link, or by their real paths
    link = rng.choice([None, None, None, "link", "link_real_args"])
    return {"kind": "reloc", "stack": stack, "new": rng.choice(NEWS), "mode": rng.choice(["move", "move", "copy"]),
            "products": prods, "link": link}


def gen_product(rng, name, version, flavor, idx):
    dk = rng.choice(["inside", "inside", "inside_odd", "outside", "sibling", "none", "otherstack"])
    tag = "%s-%d" % (name, idx)            # keeps locations of different declarations apart
    if dk == "inside":
        d = {"kind": "inside", "rel": "%s/%s/%s" % (flavor, name, version)}
    elif dk == "inside_odd":
        d = {"kind": "inside", "rel": "opt/x y/%s" % tag}
    elif dk == "outside":
        d = {"kind": "outside", "path": "elsewhere/%s" % tag}
    elif dk == "sibling":
        d = {"kind": "outside", "path": "@SIBLING/%s" % tag}
    elif dk == "otherstack":
        # installed in ANOTHER stack of EUPS_PATH, declared into this one (explicit eupsPathDir): the record is written to
        # this stack's database and must be canonicalised against THIS stack - the directory stays absolute
        d = {"kind": "outside", "path": "@OTHER/%s/%s" % (flavor, tag)}
    else:
        d = {"kind": "none"}
    kinds = ["ups", "ups", "in_dir", "abs_inside", "abs_db2", "abs_outside", "abs_sibling", "interned", "none"]
    tk = rng.choice(kinds)
    if d["kind"] == "none" and tk in ("ups", "in_dir"):
        tk = rng.choice(["abs_inside", "abs_outside", "interned", "none"])
    if tk == "ups":
        t = {"kind": "ups"}
    elif tk == "in_dir":
        sub = rng.choice(["etc/", "", "ups/sub/"])
        rel = "%s%s.table" % (sub, name)
        if d["kind"] == "inside":
            t = {"kind": "abs_inside", "rel": d["rel"] + "/" + rel}
        else:
            t = {"kind": "abs_outside", "path": d["path"] + "/" + rel}
    elif tk == "abs_inside":
        t = {"kind": "abs_inside", "rel": "tables/%s.table" % tag}
    elif tk == "abs_db2":
        t = {"kind": "abs_inside", "rel": "ups_db2/%s.table" % tag}
    elif tk == "abs_outside":
        t = {"kind": "abs_outside", "path": "tables/%s.table" % tag}
    elif tk == "abs_sibling":
        t = {"kind": "abs_outside", "path": "@SIBLING/tables/%s.table" % tag}
    elif tk == "interned":
        t = {"kind": "interned"}
    else:
        t = {"kind": "none"}
    cwd = rng.choice(["neutral", "neutral", "neutral", "proddir", "upsdir", "stack"])
    if d["kind"] == "none" and cwd in ("proddir", "upsdir"):
        cwd = "neutral"
    return {"name": name, "version": version, "flavor": flavor, "dir": d, "table": t, "cwd": cwd}


def _p(R, stackname, rel):
    """Scratch-relative description → absolute path (@SIBLING = the directory whose name is stack + '2')."""
    return os.path.join(R, rel.replace("@SIBLING", stackname + "2").replace("@OTHER", stackname + "-o"))


def want_dir(p, root, R, stackname):
    d = p["dir"]
    if d["kind"] == "inside":
        return os.path.join(root, d["rel"])
    if d["kind"] == "outside":
        return _p(R, stackname, d["path"])
    return "none"


def want_table(p, root, R, stackname):
    t = p["table"]
    if t["kind"] == "ups":
        return os.path.join(want_dir(p, root, R, stackname), "ups", p["name"] + ".table")
    if t["kind"] == "abs_inside":
        return os.path.join(root, t["rel"])
    if t["kind"] == "abs_outside":
        return _p(R, stackname, t["path"])
    if t["kind"] == "interned":
        return os.path.join(root, "ups_db", p["flavor"], p["name"], p["version"], "ups", p["name"] + ".table")
    return "none"


def want_extra(p, root):
    return os.path.join(root, "ups_db", p["flavor"], p["name"], p["version"])


def _child_declare(R, stack, p, cwd, dirpath, tablearg, clock0):
    lib_records.silence()
    os.chdir(cwd)
    tempfile.tempdir = os.path.join(R, "tmp")
    clock = lib_records.patch_stamps(clock0)
    D = common.eups_mod("db.Database")
    captured = {}
    orig = D._Database.declare

    def wrapped(self, product):
        captured["prod"] = {"name": product.name, "version": product.version, "flavor": product.flavor,
                            "dir": product.dir, "table": product.tablefile, "ups_dir": product.ups_dir,
                            "db": product.db}
        return orig(self, product)
    D._Database.declare = wrapped
    e = common.new_eups(flavor=p["flavor"])
    tf = io.StringIO(tablearg[7:]) if isinstance(tablearg, str) and tablearg.startswith("STREAM:") else tablearg
    if "@OTHER" in p["dir"].get("path", ""):
        e.declare(p["name"], p["version"], dirpath, tablefile=tf, eupsPathDir=stack)
    else:
        e.declare(p["name"], p["version"], dirpath, tablefile=tf)
    return captured.get("prod"), clock.n


def _child_read(stack, flavor, prods, cwd):
    lib_records.silence()
    os.chdir(cwd)
    os.environ["EUPS_PATH"] = stack
    e = common.new_eups(flavor=flavor)
    U = common.eups_mod("utils")
    out = {}
    for k, (name, version) in prods.items():
        for via, nc in (("files", True), ("cache", False)):
            try:
                q = e.findProduct(name, version, noCache=nc)
            except Exception as ex:  # noqa
                out[k + ":" + via] = "EXC:" + lib_records.exc_name(ex)
                continue
            if q is None:
                out[k + ":" + via] = None
            else:
                out[k + ":" + via] = {
                    "dir": q.dir, "table": q.tablefile, "extra": q.extraProductDir(),
                    "dir_ok": os.path.isdir(q.dir) if U.isRealFilename(q.dir) else None,
                    "table_ok": os.path.isfile(q.tablefile) if U.isRealFilename(q.tablefile) else None}
    return out


def run_reloc(case):
    """Execute one relocation case on the real code.  Returns the observations (absolute scratch paths)."""
    R = common.scratch("c16")
    try:
        sn = case["stack"]
        stack = os.path.join(R, sn)
        link = case.get("link")
        real = os.path.join(R, "real-" + sn) if link else stack
        if link:
            os.makedirs(real)
            os.symlink(real, stack)

        def arg(path):
            """a path inside the stack as the declaring user types it: through the link, or the real one"""
            if link == "link_real_args" and isinstance(path, str) and (path + "/").startswith(stack + "/"):
                return real + path[len(stack):]
            return path
        for d in (stack + "/ups_db", stack + "2", R + "/elsewhere", R + "/tables", R + "/cwd", R + "/tmp",
                  R + "/userdataA", stack + "/tables", stack + "/ups_db2", stack + "2/tables"):
            os.makedirs(d)
        with open(R + "/userdataA/startup.py", "w") as f:
            f.write(common.STARTUP % {"tags": "'beta'"})
        os.environ["EUPS_PATH"] = stack
        os.environ["EUPS_USERDATA"] = R + "/userdataA"
        other = stack + "-o"
        if any("@OTHER" in p["dir"].get("path", "") for p in case["products"]):
            os.makedirs(other + "/ups_db")
            os.environ["EUPS_PATH"] = stack + ":" + other          # two stacks while declaring; the readers see the first only
        obs = {"R": R, "stack": stack, "real": real, "decl": [], "vfiles": {}}
        fl = bool(link)
        clock = 0
        for i, p in enumerate(case["products"]):
            dirpath = want_dir(p, stack, R, sn)
            if dirpath != "none":
                os.makedirs(os.path.join(dirpath, "ups"), exist_ok=True)
            t = p["table"]
            tpath = want_table(p, stack, R, sn)
            if t["kind"] == "ups":
                tablearg = None
            elif t["kind"] == "interned":
                tablearg = "STREAM:envSet(A, %d)\n" % i
            elif t["kind"] == "none":
                tablearg = "none"
            else:
                tablearg = tpath
            if t["kind"] in ("ups", "abs_inside", "abs_outside"):
                os.makedirs(os.path.dirname(tpath), exist_ok=True)
                with open(tpath, "w") as f:
                    f.write("envSet(A, %d)\n" % i)
            cwd = {"neutral": R + "/cwd", "stack": stack,
                   "proddir": dirpath, "upsdir": os.path.join(dirpath, "ups")}[p["cwd"]]
            vfile = os.path.join(stack, "ups_db", p["name"], p["version"] + ".version")
            before = lib_records.read_text(vfile)
            ex = lib_records.walk(R, followlinks=fl)
            r = common.in_child(_child_declare, R, stack, p, arg(cwd), arg(dirpath), arg(tablearg), clock)
            after = lib_records.read_text(vfile)
            rec = {"i": i, "old_text": before, "text": after, "ex": ex, "clock0": clock}
            if r[0] == "ok":
                rec["status"] = "ok"
                rec["prod"], clock = r[1]
            else:
                rec["status"] = "EXC:" + str(r[1]) if r[0] == "exc" else "died"
                rec["detail"] = r[2][:200] if r[0] == "exc" else ""
                clock += 4
            obs["decl"].append(rec)
        # readers before the relocation
        obs["before"] = _read_all(case, stack, R)
        obs["ex_before"] = lib_records.walk(R, followlinks=fl)
        for p in case["products"]:
            vfile = os.path.join(stack, "ups_db", p["name"], p["version"] + ".version")
            obs["vfiles"]["%s/%s" % (p["name"], p["version"])] = lib_records.read_text(vfile)
        new = os.path.join(R, case["new"])
        os.makedirs(os.path.dirname(new), exist_ok=True)
        if case["mode"] == "move" and link:
            # the real directory moves as well, and the stack is reached through a link of another name
            real2 = os.path.join(R, "real-moved")
            os.rename(real, real2)
            os.remove(stack)
            os.symlink(real2, new)
        elif case["mode"] == "move":
            os.rename(stack, new)
        else:
            shutil.copytree(stack, new, symlinks=True)
        obs["new"] = new
        obs["after"] = _read_all(case, new, R)
        obs["ex_after"] = lib_records.walk(R, followlinks=fl)
        return obs
    finally:
        common.rmtree(R)


def _read_all(case, stack, R):
    out = {}
    for fl in FLAVORS:
        prods = {str(i): (p["name"], p["version"]) for i, p in enumerate(case["products"]) if p["flavor"] == fl}
        if not prods:
            continue
        r = common.in_child(_child_read, stack, fl, prods, R + "/cwd")
        if r[0] != "ok":
            out["reader:" + fl] = "EXC:" + str(r[1:3])
        else:
            out.update(r[1])
    return out


def _glue_req(case, p, obs, newroot):
    def pl(x):
        x = dict(x)
        if "path" in x:
            x["path"] = _p(obs["R"], case["stack"], x["path"])
        return x
    return {"m": "c16", "op": "glue", "root": obs["stack"], "new_root": newroot, "name": p["name"],
            "version": p["version"], "flavor": p["flavor"], "dir": pl(p["dir"]), "table": pl(p["table"])}


def check_reloc(ctx, case, obs):
    R, stack, new, sn = obs["R"], obs["stack"], obs["new"], case["stack"]
    pairs = [(new, "$NEW"), (stack + "2", "$SIBLING"), (stack, "$STACK"), (R, "$R")]
    inp = dict(case)
    reqs, tags = [], []
    for rec in obs["decl"]:
        p = case["products"][rec["i"]]
        if rec["status"] != "ok" or rec["prod"] is None:
            continue
        links = [[obs["stack"], obs["real"]]] if case.get("link") else []
        if case.get("link") != "link_real_args":
            reqs.append(_glue_req(case, p, obs, new)); tags.append(("glue", rec["i"]))
        else:
            # arguments typed by their real paths below a linked stack: the Product that Eups.declare builds mixes the
            # two spellings (real directory, database through the link); the glue model has one root and is not asked;
            # the record is predicted from that Product with os.path.realpath = the link map (VersionFile.write)
            ctx.hist("model=glue-not-asked(real-path arguments)")
        reqs.append({"m": "c16", "op": "declare", "prod": rec["prod"], "ex": rec["ex"], "who": lib_records.WHO, "links": links,
                     "now": "T%d" % (rec["clock0"] + 1), "old_text": rec["old_text"]}); tags.append(("declare", rec["i"]))
    last = {}
    for rec in obs["decl"]:
        if rec["status"] == "ok":
            p = case["products"][rec["i"]]
            last[(p["name"], p["version"], p["flavor"])] = rec["i"]
    for (name, version, flavor), i in sorted(last.items()):
        text = obs["vfiles"]["%s/%s" % (name, version)]
        for phase, root, ex in (("before", stack, obs["ex_before"]), ("after", new, obs["ex_after"])):
            reqs.append({"m": "c16", "op": "resolve", "text": text, "name": name, "version": version,
                         "flavor": flavor, "db": os.path.join(root, "ups_db"), "ex": ex}); tags.append((phase, i))
    answers = ctx.lean.ask_many(reqs)
    nontrivial = False
    declared_ok = 0
    for rec in obs["decl"]:
        p = case["products"][rec["i"]]
        if "@OTHER" in p["dir"].get("path", "") and rec["status"] == "ok":
            ctx.hist("declared-into-another-stack")
        ctx.hist("dir=%s/table=%s" % (p["dir"]["kind"] + ("~" if "@SIBLING" in p["dir"].get("path", "") else "") +
                                      ("@other" if "@OTHER" in p["dir"].get("path", "") else ""),
                                      _tkind(p)))
        ctx.hist("cwd=" + p["cwd"])
        ctx.hist("stack=" + (case.get("link") or "plain"))
        ctx.hist("declare=" + rec["status"].split(":")[0])
        if rec["status"] != "ok":
            ctx.fail("declare_succeeds", inp, lib_records.subst({"i": rec["i"], "status": rec["status"], "detail": rec.get("detail")}, pairs),
                     None, note="declaration %d of a valid placement raised" % rec["i"])
    for (tag, i), ans in zip(tags, answers):
        p = case["products"][i]
        rec = [r for r in obs["decl"] if r["i"] == i][0]
        if "bad-op" in ans:
            raise common.InfraError("driver: %s" % ans)
        if tag == "glue":
            impl = dict(rec["prod"])
            mo = {k: ans["prod"][k] for k in impl}
            if impl != mo:
                ctx.disagree("declare_glue", inp, lib_records.subst(impl, pairs), lib_records.subst(mo, pairs), note="product %d" % i)
        elif tag == "declare":
            impl = rec["text"]
            mo = ans.get("text", "ERR:" + ans.get("err", "?"))
            if ans.get("err") == "unmodelled":
                ctx.hist("model=unmodelled")
                continue
            if impl != mo:
                ctx.disagree("version_file_text", inp, lib_records.subst(impl, pairs), lib_records.subst(mo, pairs), note="product %d" % i)
        else:
            root = stack if tag == "before" else new
            views = obs[tag]
            k = str(i)
            fview, cview = views.get(k + ":files"), views.get(k + ":cache")
            if "err" in ans:
                mo = mo_cached = "ERR:" + ans["err"]
            else:
                mo = {"dir": ans["prod"]["dir"], "table": ans["prod"]["table"], "extra": ans["prod"]["extra"]}
                mo_cached = ("ERR:" + ans["cached"]["err"]) if "err" in ans["cached"] else \
                    {k: ans["cached"][k] for k in ("dir", "table", "extra")}
            wd, wt, we = want_dir(p, root, R, sn), want_table(p, root, R, sn), want_extra(p, root)
            # declared through real paths below a linked stack: before the relocation the cache of the declaring user
            # still holds the names as they were typed - the same directory and file by their real names
            alt = None
            if case.get("link") == "link_real_args" and tag == "before":
                alt = (want_dir(p, obs["real"], R, sn), want_table(p, obs["real"], R, sn))
            for via, v in (("files", fview), ("cache", cview)):
                ctx.hist("view=%s/%s" % (tag, via))
                if isinstance(v, dict):
                    impl = {"dir": v["dir"], "table": v["table"], "extra": v["extra"]}
                else:
                    impl = v
                # oracle (i): the files view always; the cache view after the relocation (rebuilt from the files)
                if (via == "files" or tag == "after") and impl != (mo if via == "files" else mo_cached) and mo != "ERR:unmodelled":
                    ctx.disagree("reader_%s_%s" % (tag, via), inp, lib_records.subst(impl, pairs), lib_records.subst(mo, pairs), note="product %d" % i)
                # oracle (ii)
                clause = None
                if not isinstance(v, dict):
                    clause, note = "declared_product_found", "reader returned %r" % (v,)
                elif v["dir"] != wd and not (alt and via == "cache" and v["dir"] == alt[0]):
                    clause, note = "dir_resolves", "dir %r, wanted %r" % (v["dir"], wd)
                elif v["table"] != wt and not (alt and via == "cache" and v["table"] == alt[1]):
                    clause, note = "table_resolves", "table %r, wanted %r" % (v["table"], wt)
                elif v["extra"] != we:
                    clause, note = "extra_dir_resolves", "extra %r, wanted %r" % (v["extra"], we)
                elif v["dir_ok"] is False or v["table_ok"] is False:
                    clause, note = "resolved_path_exists", "dir_ok=%r table_ok=%r" % (v["dir_ok"], v["table_ok"])
                if clause:
                    ctx.fail(clause + "/" + tag, inp, lib_records.subst(impl, pairs), lib_records.subst(mo, pairs),
                             note=lib_records.subst("product %d via %s: %s" % (i, via, note), pairs))
                elif tag == "after":
                    nontrivial = True
            declared_ok += 1
    return nontrivial


def _tkind(p):
    t = p["table"]
    if t["kind"] == "abs_inside":
        if t["rel"].startswith("ups_db2/"):
            return "abs_db2"
        if t["rel"].startswith("tables/"):
            return "abs_inside"
        return "in_dir"
    if t["kind"] == "abs_outside":
        if t["path"].startswith("@SIBLING"):
            return "abs_sibling" if "/tables/" in t["path"] else "in_dir"
        return "abs_outside" if t["path"].startswith("tables/") else "in_dir"
    return t["kind"]


# ================================================================================================
# (b) generated records, (c) hand-written texts
# ================================================================================================

CLEAN = "abcXYZ019/._-+:=$ ~()"
DIRTY = CLEAN + "##\"\"  \t'"
VFIELDS = ("declarer", "declared", "modifier", "modified", "productDir", "ups_dir", "table_file")
CFIELDS = ("declarer", "declared", "modifier", "modified")


def gen_str(rng, alphabet, lo=1, hi=10, clean=True):
    while True:
        s = "".join(rng.choice(alphabet) for _ in range(rng.randint(lo, hi)))
        if not clean:
            return s
        if s == s.strip() and s:
            return s


def gen_flavors(rng, clean):
    pool = ["Linux", "generic", "Darwin", "Linux64"]
    n = rng.choice([1, 1, 2, 2, 3])
    fl = rng.sample(pool, n)
    if not clean and rng.random() < 0.5:
        fl = [f + rng.choice([":build", ":", "::x", ":a:b"]) if rng.random() < 0.5 else f for f in fl]
        if rng.random() < 0.3:
            fl.append(fl[0].split(":")[0] + ":build")
            fl = list(dict.fromkeys(fl))
    elif clean and rng.random() < 0.35:
        # qualified flavors inside the round-trip alphabet (C16_text_roundtrip_*_qual): keys base:qual with a clean
        # qualifier that does not start with ':', in an order where no unqualified flavor precedes a qualified one
        # of the same base (the unqualified key of a base, if any, goes after every qualified key of that base)
        keys, plain = [], []
        for f in fl:
            keys += [f + ":" + q for q in rng.sample(["build", "a:b", "x y", "opt-2", "b::c"], rng.choice([1, 1, 2]))]
            if rng.random() < 0.5:
                plain.append(f)
        rng.shuffle(keys)
        for f in plain:
            last = max(i for i, k in enumerate(keys) if k.split(":")[0] == f)
            keys.insert(rng.randint(last + 1, len(keys)), f)
        fl = keys
    return fl


def qual_order(keys):
    """QualOrder of Lemmas/RecordQual.lean, computed from the keys alone."""
    for j, b in enumerate(keys):
        for a in keys[:j]:
            if a == b or (":" in b and a == b.split(":")[0]):
                return False
    return True


def gen_vrec(rng):
    clean = rng.random() < 0.6
    alpha = CLEAN if clean else DIRTY
    flavors = []
    for fq in gen_flavors(rng, clean):
        info = {}
        for k in VFIELDS:
            r = rng.random()
            if k in ("productDir", "table_file", "ups_dir"):
                if r < 0.08 and not clean:
                    continue                        # key absent
                if r < 0.12 and not clean:
                    info[k] = None if k == "productDir" else ""
                    continue
                info[k] = rng.choice(["none", gen_str(rng, alpha, clean=clean), "Linux/p/1.0", "ups", "/abs/x y/p.table"])
            elif r < 0.7:
                info[k] = gen_str(rng, alpha, clean=clean)
        flavors.append([fq, info])
    pre = rng.random() < 0.5
    return {"kind": "vrec", "clean": clean, "name": gen_str(rng, "abcp_019", clean=True), "version": gen_str(rng, alpha.replace(" ", ""), clean=clean),
            "flavors": flavors, "read_name": "other" if pre else None, "read_version": "v9" if pre else None}


def gen_crec(rng):
    clean = rng.random() < 0.6
    alpha = CLEAN if clean else DIRTY
    flavors = []
    for fq in gen_flavors(rng, clean):
        info = {"version": gen_str(rng, alpha.replace(" ", ""), clean=clean)}
        for k in CFIELDS:
            if rng.random() < 0.6:
                info[k] = gen_str(rng, alpha, clean=clean)
        flavors.append([fq, info])
    pre = rng.random() < 0.5
    return {"kind": "crec", "clean": clean, "name": gen_str(rng, "abcp_019", clean=True), "tag": rng.choice(["current", "beta", "stable"]),
            "flavors": flavors, "read_name": "other" if pre else None, "read_tag": "t9" if pre else None}


def gen_text(rng, chain):
    """A record text from a line grammar, the way a person (or an older eups) might have written it."""
    def ws():
        return rng.choice(["", " ", "  ", "\t"])

    def val():
        v = gen_str(rng, CLEAN + '"#', 0, 8, clean=False).strip()
        q = rng.random()
        if q < 0.25:
            v = '"' + v + '"'
        elif q < 0.3:
            v = '"' + v
        elif q < 0.35:
            v = v + '"'
        return v

    def kv(k, v=None):
        k = rng.choice([k, k.lower(), k.capitalize()])
        return ws() + k + ws() + "=" + ws() + (val() if v is None else v) + rng.choice(["", "", " ", "  # note"])
    lines = []
    if rng.random() < 0.9:
        lines.append(kv("FILE", rng.choice(["version"] * 6 + ["Version", "chain", "table", '"version"'])))
    if rng.random() < 0.9:
        lines.append(kv("PRODUCT", "prod"))
    if rng.random() < 0.9:
        lines.append(kv("CHAIN", "current") if chain else kv("VERSION", "1.0"))
    for _ in range(rng.randint(0, 3)):
        r = rng.random()
        if r < 0.8:
            lines.append(ws() + rng.choice(["Group:", "Group :", "#Group:", "group:", "Group"]))
        if rng.random() < 0.9:
            lines.append(kv("FLAVOR", rng.choice(["Linux", "generic", '"Linux"', "", "Darwin"])))
        if chain and rng.random() < 0.9:
            lines.append(kv("VERSION", rng.choice(["1.0", '"2.0"', "v3"])))
        if rng.random() < 0.6:
            lines.append(kv("QUALIFIERS", rng.choice(['""', '"build"', "", "x"])))
        fields = ["DECLARER", "DECLARED", "MODIFIER", "MODIFIED"] + ([] if chain else ["PROD_DIR", "UPS_DIR", "TABLE_FILE", "prod_dir", "Extra_Key"])
        for k in fields:
            if rng.random() < 0.55:
                lines.append(kv(k))
        if rng.random() < 0.1:
            lines.append(rng.choice(["junk line", "= 3", "a b = c", "# only a comment", "   "]))
        if rng.random() < 0.7:
            lines.append(ws() + rng.choice(["End:", "End :", "#End:", "End:  # done"]))
    if rng.random() < 0.3:
        lines.insert(rng.randint(0, len(lines)), rng.choice(["", "# comment", "#***", "DECLARER = early"]))
    text = "\n".join(lines) + rng.choice(["\n", "", "\n\n"])
    pre = rng.random() < 0.5
    return {"kind": "ctext" if chain else "vtext", "text": text, "read_name": "other" if pre else None,
            ("read_tag" if chain else "read_version"): "x9" if pre else None}


def _vf_mods():
    return common.eups_mod("db.VersionFile").VersionFile, common.eups_mod("db.ChainFile").ChainFile


def run_rec(case, workdir):
    """Execute a record case (kinds vrec, crec, vtext, ctext) on the real classes.  Returns
    {"text": written text or None or "EXC:..", "read": observable record or "EXC:.."}."""
    VersionFile, ChainFile = _vf_mods()
    path = os.path.join(workdir, "rec.version" if case["kind"][0] == "v" else "rec.chain")
    if os.path.exists(path):
        os.remove(path)
    out = {}
    chain = case["kind"][0] == "c"
    if case["kind"] in ("vrec", "crec"):
        try:
            if chain:
                f = ChainFile(path, case["name"], case["tag"], readFile=False)
            else:
                f = VersionFile(path, case["name"], case["version"], readFile=False)
            f.info = {fq: dict(i) for fq, i in case["flavors"]}
            f.write()
            out["text"] = lib_records.read_text(path)
        except Exception as ex:  # noqa
            out["text"] = "EXC:" + lib_records.exc_name(ex)
            if os.path.exists(path):
                os.remove(path)
    else:
        with open(path, "w", newline="") as fh:
            fh.write(case["text"])
        out["text"] = case["text"]
    if os.path.exists(path):
        try:
            if chain:
                f = ChainFile(path, case.get("read_name"), case.get("read_tag"), verbosity=-1)
                out["read"] = lib_records.info_of_chainfile(f)
            else:
                f = VersionFile(path, case.get("read_name"), case.get("read_version"), verbosity=-1)
                out["read"] = lib_records.info_of_versionfile(f)
        except Exception as ex:  # noqa
            out["read"] = "EXC:" + lib_records.exc_name(ex)
    else:
        out["read"] = None
    return out


def rec_requests(case, impl):
    chain = case["kind"][0] == "c"
    reqs = []
    if case["kind"] in ("vrec", "crec"):
        rec = {"name": case["name"], "flavors": case["flavors"]}
        rec["tag" if chain else "version"] = case["tag" if chain else "version"]
        reqs.append({"m": "c16", "op": "cprint" if chain else "vprint", "rec": rec})
    text = impl["text"]
    if isinstance(text, str) and not text.startswith("EXC:"):
        r = {"m": "c16", "op": "cparse" if chain else "vparse", "text": text, "name": case.get("read_name")}
        r["tag" if chain else "version"] = case.get("read_tag" if chain else "read_version")
        reqs.append(r)
    return reqs


def _norm_read(x):
    """Dictionaries of a flavor block compare unordered; the flavor list keeps its order."""
    if isinstance(x, dict) and "flavors" in x:
        return {**x, "flavors": [[fq, dict(sorted(i.items()))] for fq, i in x["flavors"]]}
    return x


def check_rec(ctx, case, impl, answers):
    chain = case["kind"][0] == "c"
    inp = case
    ai = 0
    if case["kind"] in ("vrec", "crec"):
        a = answers[ai]; ai += 1
        mo = ("EXC:" + a["err"]) if "err" in a else a["text"]
        if mo != impl["text"] and a.get("err") != "unmodelled":
            ctx.disagree("record_text", inp, impl["text"], mo)
    mo_read = None
    if ai < len(answers):
        a = answers[ai]
        mo_read = ("EXC:" + a["err"]) if "err" in a else a["rec"]
        if _norm_read(mo_read) != _norm_read(impl["read"]):
            ctx.disagree("record_read", inp, impl["read"], mo_read)
    cls = "clean" if case.get("clean", False) else ("text" if "text" in case else "dirty")
    if cls == "clean" and any(":" in fq for fq, _ in case["flavors"]):
        cls = "clean-qual"
        if not qual_order([fq for fq, _ in case["flavors"]]):
            raise common.InfraError("generator: a clean record with qualified flavors violates QualOrder: %r" % (case["flavors"],))
    ctx.hist("rec=%s/%s" % (case["kind"], cls))
    if isinstance(impl["read"], str):
        ctx.hist("read=" + impl["read"])
    if isinstance(impl["text"], str) and impl["text"].startswith("EXC:"):
        ctx.hist("write=" + impl["text"])
    # oracle (ii): a clean record written and read back is the record
    if case.get("clean"):
        want = {"name": case["read_name"] or case["name"], "flavors": [[fq, dict(i)] for fq, i in case["flavors"]]}
        if chain:
            want["tag"] = case["read_tag"] or case["tag"]
        else:
            want["version"] = case["read_version"] or case["version"]
        if _norm_read(impl["read"]) != _norm_read(want):
            ctx.fail("text_roundtrip", inp, impl["read"], mo_read, note="record read back differs from the record written")


# ================================================================================================
# (d) hand-written version files with macros, read by a real reader before and after a move
# ================================================================================================

def gen_hand(rng):
    name, version = "hp", rng.choice(["1.0", "v2"])
    flavor = rng.choice(FLAVORS)
    dirs = ["Linux/hp/1.0", "opt/x y/hp", "$PROD_ROOT/opt/hp", "$PROD_ROOT", "@OUT/elsewhere/hp", "none", "$FLAVOR/hp/1.0",
            "pkgs/$FLAVOR/hp", "$UPS_DB/inst/hp", "$PROD_DIRX/hp", None]
    upss = ["ups", "none", None, "$PROD_DIR/ups", "$PROD_DIR/etc", "$UPS_DB/$FLAVOR/hp/1.0/ups", "$UPS_DB", "etc/ups",
            "@OUT/elsewhere/hp/ups", "$PROD_ROOT/tables", "$UPS_DIRX"]
    tabs = ["hp.table", "none", None, "$UPS_DIR/hp.table", "$PROD_DIR/ups/hp.table", "$UPS_DB/tables/hp.table",
            "tables/hp.table", "@OUT/tables/hp.table", "sub/hp.table", "$PROD_ROOT/tables/hp.table", "$FLAVOR.table"]
    fields = {"PROD_DIR": rng.choice(dirs), "UPS_DIR": rng.choice(upss), "TABLE_FILE": rng.choice(tabs)}
    # files that exist in the stack / outside (relative to the stack root resp. the scratch root)
    pool_in = ["Linux/hp/1.0/ups/hp.table", "opt/x y/hp/ups/hp.table", "opt/hp/ups/hp.table", "tables/hp.table", "hp.table",
               "ups/hp.table", "Linux/hp/1.0/etc/hp.table", "ups_db/tables/hp.table", "ups_db/Linux/hp/1.0/ups/hp.table",
               "ups_db/generic/hp/1.0/ups/hp.table", "Linux/hp/1.0/ups/sub/hp.table", "sub/hp.table", "generic/hp/1.0/ups/hp.table",
               "pkgs/Linux/hp/ups/hp.table", "Linux.table", "Linux/hp/1.0/ups/Linux.table", "ups_db/inst/hp/ups/hp.table"]
    pool_out = ["elsewhere/hp/ups/hp.table", "tables/hp.table"]
    return {"kind": "hand", "name": name, "version": version, "flavor": flavor, "fields": fields,
            "stack": rng.choice(STACKS), "new": rng.choice(NEWS),
            "in": sorted(rng.sample(pool_in, rng.randint(0, 7))), "out": sorted(rng.sample(pool_out, rng.randint(0, 2))),
            "end": rng.random() < 0.9}


def hand_text(case, R):
    lines = ["FILE = version", "PRODUCT = %s" % case["name"], "VERSION = %s" % case["version"], "#***", "", "Group:",
             "   FLAVOR = %s" % case["flavor"], '   QUALIFIERS = ""', "   DECLARER = someone", "   DECLARED = sometime"]
    for k in ("PROD_DIR", "UPS_DIR", "TABLE_FILE"):
        v = case["fields"][k]
        if v is not None:
            lines.append("   %s = %s" % (k, v.replace("@OUT", R)))
    if case["end"]:
        lines.append("End:")
    return "\n".join(lines) + "\n"


def _child_find(stack, flavor, name, version, cwd):
    lib_records.silence()
    os.chdir(cwd)
    os.environ["EUPS_PATH"] = stack
    e = common.new_eups(flavor=flavor)
    out = {}
    for via, nc in (("files", True), ("cache", False)):
        try:
            q = e.findProduct(name, version, noCache=nc)
            out[via] = None if q is None else {"dir": q.dir, "table": q.tablefile, "extra": q.extraProductDir()}
        except Exception as ex:  # noqa
            out[via] = "EXC:" + lib_records.exc_name(ex)
    return out


def run_hand(case):
    R = common.scratch("c16h")
    try:
        stack = os.path.join(R, case["stack"])
        for d in (stack + "/ups_db/" + case["name"], R + "/cwd", R + "/userdataA"):
            os.makedirs(d)
        with open(R + "/userdataA/startup.py", "w") as f:
            f.write(common.STARTUP % {"tags": "'beta'"})
        os.environ["EUPS_USERDATA"] = R + "/userdataA"
        for rel, base in [(x, stack) for x in case["in"]] + [(x, R) for x in case["out"]]:
            p = os.path.join(base, rel)
            os.makedirs(os.path.dirname(p), exist_ok=True)
            with open(p, "w") as f:
                f.write("")
        text = hand_text(case, R)
        with open(os.path.join(stack, "ups_db", case["name"], case["version"] + ".version"), "w") as f:
            f.write(text)
        obs = {"R": R, "stack": stack, "text": text}
        obs["ex_before"] = lib_records.walk(R)
        r = common.in_child(_child_find, stack, case["flavor"], case["name"], case["version"], R + "/cwd")
        obs["before"] = r[1] if r[0] == "ok" else "EXC:child"
        new = os.path.join(R, case["new"])
        os.makedirs(os.path.dirname(new), exist_ok=True)
        os.rename(stack, new)
        obs["new"] = new
        obs["ex_after"] = lib_records.walk(R)
        r = common.in_child(_child_find, new, case["flavor"], case["name"], case["version"], R + "/cwd")
        obs["after"] = r[1] if r[0] == "ok" else "EXC:child"
        return obs
    finally:
        common.rmtree(R)


_HEADS = {"$PROD_ROOT": "prodRoot", "$UPS_DB": "upsDb", "$PROD_DIR": "prodDir", "$UPS_DIR": "upsDir"}


def _mexpr(v, R):
    """A hand-written entry as a macro expression (kind, segments) of Lemmas/RecordMacro.lean, or None when it is
    outside that grammar ($PROD_DIRX, $FLAVOR.table, ...)."""
    if v is None:
        return ("missing", [])
    if v == "none":
        return ("none", [])
    if v.startswith("@OUT"):
        return ("abs", [x for x in (R + v[4:]).split("/") if x])
    segs = v.split("/")
    if segs[0] in _HEADS:
        kind, segs = _HEADS[segs[0]], segs[1:]
    elif segs[0].startswith("$PROD_") or segs[0].startswith("$UPS_"):
        return None
    else:
        kind = "rel"
    if any("$" in x and x != "$FLAVOR" for x in segs) or any(x == "" for x in segs):
        return None
    return (kind, segs)


def hand_expect(case, root, R, exists):
    """Oracle (ii) for hand-written macro records, model-free: the specification side of C16_macro_records
    (MDir/MUps/MTab.denote, MacroWF) evaluated on the generator's description.  Returns (dir, table) as the reader
    must report them for a stack at `root`, or None when the record is outside the class the theorem covers."""
    f = case["flavor"]
    md, mu, mt = (_mexpr(case["fields"][k], R) for k in ("PROD_DIR", "UPS_DIR", "TABLE_FILE"))
    if md is None or mu is None or mt is None or md[0] in ("missing", "prodDir", "upsDir") or mu[0] == "upsDir" or mt[0] == "missing":
        return None
    if case["end"] and mu[0] == "missing" and mt[0] != "none":
        mu = ("none", [])                       # the End: line supplies ups_dir = none for a real table file
    ds = lambda segs: [f if x == "$FLAVOR" else x for x in segs]
    rootl = [x for x in root.split("/") if x]
    d_rel = md[0] in ("rel", "prodRoot", "upsDb")
    u_rel = mu[0] in ("rel", "prodDir", "prodRoot", "upsDb")
    # MacroWF
    if mu[0] == "rel" and md[0] == "none":
        return None
    if (mu[0] == "prodDir" or mt[0] == "prodDir") and not d_rel:
        return None
    if mt[0] == "upsDir" and not u_rel:
        return None
    if mt[0] == "rel" and (not mt[1] or any("$" in x for x in mt[1])):
        return None
    if md[0] == "abs" and any("$" in x for x in md[1]):
        return None

    def macro(kind, segs, D, U):
        if kind in ("prodRoot",):
            return rootl + ds(segs)
        if kind == "upsDb":
            return rootl + ["ups_db"] + ds(segs)
        if kind == "abs":
            return segs
        if kind == "prodDir":
            return D + ds(segs)
        if kind == "upsDir":
            return U + ds(segs)
        raise KeyError(kind)
    D = None if md[0] == "none" else (rootl + ds(md[1]) if md[0] == "rel" else macro(md[0], md[1], None, None))
    if mu[0] in ("none", "missing"):
        U = mu[0]
    elif mu[0] == "rel":
        U = D + ds(mu[1])
    else:
        U = macro(mu[0], mu[1], D, None)
    p = lambda l: "/" + "/".join(l)
    if mt[0] == "none":
        T = "none"
    elif mt[0] == "rel":
        U2 = (D + ["ups"]) if (U == "missing" and D is not None) else U
        if isinstance(U2, list):
            a, b = p(U2 + mt[1]), p(rootl + mt[1])
            T = a if a in exists else b if b in exists else a
        elif D is not None:
            T = p(D + mt[1])
        else:
            T = "/".join(mt[1])
    else:
        T = p(macro(mt[0], mt[1], D, U if isinstance(U, list) else None))
    return ("none" if D is None else p(D), T)


def check_hand(ctx, case, obs):
    R, stack, new = obs["R"], obs["stack"], obs["new"]
    pairs = [(new, "$NEW"), (stack, "$STACK"), (R, "$R")]
    reqs = []
    for root, ex in ((stack, obs["ex_before"]), (new, obs["ex_after"])):
        reqs.append({"m": "c16", "op": "resolve", "text": obs["text"], "name": case["name"], "version": case["version"],
                     "flavor": case["flavor"], "db": os.path.join(root, "ups_db"), "ex": ex})
    answers = ctx.lean.ask_many(reqs)
    for k in ("PROD_DIR", "UPS_DIR", "TABLE_FILE"):
        v = case["fields"][k]
        ctx.hist("hand:%s=%s" % (k, "missing" if v is None else "macro" if "$" in v else "abs" if v.startswith("@OUT") else v if v == "none" else "rel"))
    for phase, ans in zip(("before", "after"), answers):
        if "bad-op" in ans:
            raise common.InfraError("driver: %s" % ans)
        mo_f = ("ERR:" + ans["err"]) if "err" in ans else {k: ans["prod"][k] for k in ("dir", "table", "extra")}
        if mo_f == "ERR:unmodelled":
            ctx.hist("model=unmodelled")
            continue
        mo_c = mo_f if "err" in ans else (("ERR:" + ans["cached"]["err"]) if "err" in ans["cached"] else
                                          {k: ans["cached"][k] for k in ("dir", "table", "extra")})
        views = obs[phase]
        for via in ("files", "cache"):
            impl = views.get(via) if isinstance(views, dict) else views
            mo = mo_f if via == "files" else mo_c
            if impl != mo:
                ctx.disagree("hand_reader_%s_%s" % (phase, via), case, lib_records.subst(impl, pairs), lib_records.subst(mo, pairs))
    # oracle (ii): a record that says where things are *relative to the stack* (relative PROD_DIR or $PROD_ROOT/…) is
    # read as pointing below the stack's current root, before and after the move; an absolute one stays put
    pd = case["fields"]["PROD_DIR"]
    for phase, root in (("before", stack), ("after", new)):
        v = obs[phase].get("files") if isinstance(obs[phase], dict) else None
        if not isinstance(v, dict):
            ctx.fail("hand_record_readable/" + phase, case, lib_records.subst(obs[phase], pairs), None, note="reader did not return the product")
            continue
        want = None
        if pd in ("Linux/hp/1.0", "opt/x y/hp"):
            want = os.path.join(root, pd)
        elif pd == "$PROD_ROOT/opt/hp":
            want = os.path.join(root, "opt/hp")
        elif pd == "$PROD_ROOT":
            want = root
        elif pd == "@OUT/elsewhere/hp":
            want = os.path.join(R, "elsewhere/hp")
        elif pd == "none":
            want = "none"
        elif pd == "$FLAVOR/hp/1.0":
            want = os.path.join(root, case["flavor"], "hp/1.0")
        elif pd == "pkgs/$FLAVOR/hp":
            want = os.path.join(root, "pkgs", case["flavor"], "hp")
        elif pd == "$UPS_DB/inst/hp":
            want = os.path.join(root, "ups_db/inst/hp")
        if want is not None and v["dir"] != want:
            ctx.fail("hand_dir_resolves/" + phase, case, lib_records.subst(v, pairs), None,
                     note=lib_records.subst("PROD_DIR = %s read as %r, wanted %r" % (pd, v["dir"], want), pairs))
        # the macro semantics of C16_macro_records, evaluated without the model
        exp = hand_expect(case, root, R, set(obs["ex_before" if phase == "before" else "ex_after"]))
        ctx.hist("hand:class=" + ("macro-spec" if exp is not None else "outside"))
        if exp is not None:
            if "$" in "".join(str(case["fields"][k]) for k in ("PROD_DIR", "UPS_DIR", "TABLE_FILE")):
                ctx.hist("hand:macro-spec-with-macro")
            if v["dir"] != exp[0]:
                ctx.fail("hand_macro_dir/" + phase, case, lib_records.subst(v, pairs), None,
                         note=lib_records.subst("fields %r: directory read as %r, the macros mean %r" % (case["fields"], v["dir"], exp[0]), pairs))
            if v["table"] != exp[1]:
                ctx.fail("hand_macro_table/" + phase, case, lib_records.subst(v, pairs), None,
                         note=lib_records.subst("fields %r: table file read as %r, the macros mean %r" % (case["fields"], v["table"], exp[1]), pairs))


# ================================================================================================
# (e) database-layer operations on records that hold several flavors: the other flavors' blocks
# ================================================================================================

DB_FLAVORS = ["Linux", "Linux64", "generic"]
DB_TAGS = ["current", "beta", "rc-1", "v1.2", "2024.10", "beta+1"]      # tag names with non-word characters too
DB_ODD_TAGS = [t for t in DB_TAGS if not t.replace("_", "a").isalnum()]
DB_VERSIONS = ["1.0", "2.0"]


def gen_dbops(rng):
    """One product declared for two or three flavors (several versions, the same tags on several flavors), then
    operations that concern ONE flavor each: undeclare, unassign a tag, assign / re-point a tag, redeclare."""
    flavors = rng.sample(DB_FLAVORS, rng.choice([2, 2, 3]))
    decl = []
    for v in DB_VERSIONS if rng.random() < 0.7 else DB_VERSIONS[:1]:
        fl = [f for f in flavors if rng.random() < 0.85] or flavors[:1]
        for f in fl:
            decl.append({"version": v, "flavor": f})
    rng.shuffle(decl)
    tags = []
    for t in DB_TAGS:
        if rng.random() < 0.85:
            v = rng.choice(DB_VERSIONS)
            same = rng.random() < 0.7            # the same tag on the same version for every flavor that has it
            for f in flavors:
                vv = v if same else rng.choice(DB_VERSIONS)
                if any(d["version"] == vv and d["flavor"] == f for d in decl) and rng.random() < 0.9:
                    tags.append({"tag": t, "version": vv, "flavor": f})
    ops = []
    for _ in range(rng.randint(2, 6)):
        f = rng.choice(flavors)
        k = rng.choice(["db_undeclare", "eups_undeclare", "db_unassign", "eups_untag", "db_assign", "eups_retag", "redeclare"])
        op = {"kind": k, "flavor": f}
        if k in ("db_undeclare", "eups_undeclare", "db_assign", "eups_retag", "redeclare"):
            op["version"] = rng.choice(DB_VERSIONS)
        if k in ("db_unassign", "eups_untag", "db_assign", "eups_retag"):
            op["tag"] = rng.choice(DB_TAGS)
        ops.append(op)
    live = rng.random() < 0.5
    if live:
        # one process, one live Database object for the whole history (reads in between): database-layer operations
        # only, declarations included; often the shape "a version held for two flavors loses one, then is declared again"
        ops = []
        multi = sorted({d["version"] for d in decl if sum(1 for e in decl if e["version"] == d["version"]) >= 2})
        if multi and rng.random() < 0.7:
            v = rng.choice(multi)
            fa = rng.choice([d["flavor"] for d in decl if d["version"] == v])
            ops.append({"kind": "db_undeclare", "flavor": fa, "version": v})
            ops.append({"kind": "db_declare", "flavor": rng.choice(flavors), "version": v})
        for _ in range(rng.randint(2, 5)):
            k = rng.choice(["db_undeclare", "db_unassign", "db_assign", "db_declare", "db_declare"])
            op = {"kind": k, "flavor": rng.choice(flavors)}
            if k != "db_unassign":
                op["version"] = rng.choice(DB_VERSIONS)
            if k in ("db_unassign", "db_assign"):
                op["tag"] = rng.choice(DB_TAGS)
            ops.insert(rng.randint(0, len(ops)) if rng.random() < 0.3 else len(ops), op)
    return {"kind": "dbops", "name": "q", "flavors": flavors, "decl": decl, "tags": tags, "ops": ops, "live": live}


def _dir_texts(pdir):
    out = {}
    if os.path.isdir(pdir):
        for fn in sorted(os.listdir(pdir)):
            if fn.endswith(".version") or fn.endswith(".chain"):
                out[fn] = lib_records.read_text(os.path.join(pdir, fn))
    return out


def _blocks(fn, text):
    """flavor -> (parsed dictionary, text lines of the block) of a record text."""
    VersionFile, ChainFile = _vf_mods()
    tmp = os.path.join(os.getcwd(), "blk." + ("version" if fn.endswith(".version") else "chain"))
    with open(tmp, "w", newline="") as fh:
        fh.write(text)
    try:
        rec = (VersionFile if fn.endswith(".version") else ChainFile)(tmp, verbosity=-1)
        parsed = {fq: dict(i) for fq, i in rec.info.items()}
    except Exception as ex:  # noqa
        return {"?": ("EXC:" + lib_records.exc_name(ex), [])}
    finally:
        os.remove(tmp)
    lines, cur, blocks = text.split("\n"), None, {}
    for ln in lines:
        st = ln.strip()
        if st in ("Group:", "#Group:"):
            cur = []
            continue
        if cur is None or st in ("", "End:", "#End:"):
            continue
        cur.append(st)
        if st.startswith("FLAVOR = "):
            blocks[st[len("FLAVOR = "):]] = cur
    return {fq: (parsed.get(fq), blocks.get(fq.split(":")[0], [])) for fq in parsed}


def _child_dbsetup(stack, case):
    lib_records.silence()
    lib_records.patch_stamps(0)
    D = common.eups_mod("db.Database")
    P = common.eups_mod("Product")
    dbpath = os.path.join(stack, "ups_db")
    db = D.Database(dbpath)
    for d in case["decl"]:
        pd = common.mkprod(stack, case["name"], d["version"], flavor=d["flavor"])
        tags = [t["tag"] for t in case["tags"] if t["version"] == d["version"] and t["flavor"] == d["flavor"]]
        db.declare(P.Product(case["name"], d["version"], d["flavor"], pd,
                             os.path.join(pd, "ups", case["name"] + ".table"), tags, dbpath))
    return True


def _child_dbop(R, stack, case, op, clock0):
    lib_records.silence()
    os.chdir(R + "/cwd")
    shutil.rmtree(os.path.join(R, "userdataA", "_caches_"), ignore_errors=True)
    clock = lib_records.patch_stamps(clock0)
    name, f = case["name"], op["flavor"]
    dbpath = os.path.join(stack, "ups_db")
    err = None
    try:
        if op["kind"].startswith("db_"):
            D = common.eups_mod("db.Database")
            P = common.eups_mod("Product")
            db = D.Database(dbpath)
            if op["kind"] == "db_undeclare":
                db.undeclare(P.Product(name, op["version"], f))
            elif op["kind"] == "db_unassign":
                db.unassignTag(op["tag"], name, f)
            else:
                db.assignTag(op["tag"], name, op["version"], f)
        else:
            e = common.new_eups(flavor=f, force=(op["kind"] == "redeclare"))
            if op["kind"] == "eups_undeclare":
                e.undeclare(name, op["version"])
            elif op["kind"] == "eups_untag":
                e.undeclare(name, None, tag=op["tag"])
            elif op["kind"] == "eups_retag":
                e.declare(name, op["version"], tag=op["tag"])
            else:
                e.declare(name, op["version"], os.path.join(stack, f, name, op["version"]))
    except Exception as ex:  # noqa
        err = lib_records.exc_name(ex)
    return {"err": err, "clock": clock.n}


def _child_dblive(R, stack, case, clock0):
    """The whole history in this one process on one Database object, with reads through the object in between."""
    lib_records.silence()
    os.chdir(R + "/cwd")
    clock = lib_records.patch_stamps(clock0)
    D = common.eups_mod("db.Database")
    P = common.eups_mod("Product")
    name = case["name"]
    dbpath = os.path.join(stack, "ups_db")
    pdir = os.path.join(dbpath, name)
    db = D.Database(dbpath)

    def answers():
        out = {}
        for v in DB_VERSIONS:
            for f in case["flavors"]:
                try:
                    q = db.findProduct(name, v, f)
                    out["%s/%s" % (v, f)] = None if q is None else sorted(str(t) for t in db.findTags(name, v, f))
                except Exception as ex:  # noqa
                    out["%s/%s" % (v, f)] = "EXC:" + lib_records.exc_name(ex)
        try:
            out["versions"] = sorted(db.findVersions(name))
        except Exception as ex:  # noqa
            out["versions"] = "EXC:" + lib_records.exc_name(ex)
        try:      # a reader that scans the directory for chain files
            out["assignments"] = sorted([str(t), v, f] for t, v, f in db.getTagAssignments(name)) if os.path.isdir(pdir) else []
        except Exception as ex:  # noqa
            out["assignments"] = "EXC:" + lib_records.exc_name(ex)
        return out

    def eups_view():
        """Eups-level readers in this process after the history: findProducts and the (lazy) tags of each product."""
        out = {}
        for f in case["flavors"]:
            try:
                e = common.new_eups(flavor=f)
                for q in e.findProducts(name):
                    if q.flavor == f:
                        out["%s/%s" % (q.version, f)] = sorted(set(str(t) for t in q.tags))
            except Exception as ex:  # noqa
                out["EXC/" + f] = lib_records.exc_name(ex)
        return out
    first = answers()
    steps = []
    for op in case["ops"]:
        before, c0, err, prod = _dir_texts(pdir), clock.n, None, None
        f = op["flavor"]
        ex = lib_records.walk(R) if op["kind"] == "db_declare" else None
        try:
            if op["kind"] == "db_undeclare":
                db.undeclare(P.Product(name, op["version"], f))
            elif op["kind"] == "db_unassign":
                db.unassignTag(op["tag"], name, f)
            elif op["kind"] == "db_assign":
                db.assignTag(op["tag"], name, op["version"], f)
            elif op["kind"] == "db_declare":
                pd = common.mkprod(stack, name, op["version"], flavor=f)
                ex = lib_records.walk(R)
                prod = {"name": name, "version": op["version"], "flavor": f, "dir": pd,
                        "table": os.path.join(pd, "ups", name + ".table"), "ups_dir": None, "db": dbpath}
                db.declare(P.Product(name, op["version"], f, pd, prod["table"], [], dbpath))
            else:
                raise ValueError(op["kind"])
        except Exception as e:  # noqa
            err = lib_records.exc_name(e)
        steps.append({"before": before, "after": _dir_texts(pdir), "clock0": c0, "err": err, "prod": prod, "ex": ex,
                      "answers": answers()})
    return {"first": first, "steps": steps, "eups_view": eups_view()}


def run_dbops(case):
    R = common.scratch("c16d")
    try:
        stack = os.path.join(R, "stack")
        for d in (stack + "/ups_db", R + "/cwd", R + "/userdataA"):
            os.makedirs(d)
        with open(R + "/userdataA/startup.py", "w") as f:
            f.write(common.STARTUP % {"tags": ", ".join(repr(t) for t in DB_TAGS if t != "current")})
        os.environ["EUPS_PATH"] = stack
        os.environ["EUPS_USERDATA"] = R + "/userdataA"
        r = common.in_child(_child_dbsetup, stack, case)
        if r[0] != "ok":
            return {"setup": str(r[:3])}
        pdir = os.path.join(stack, "ups_db", case["name"])
        obs = {"steps": []}
        clock = 100
        back = os.getcwd()
        os.chdir(R + "/cwd")
        if case.get("live"):
            try:
                r = common.in_child(_child_dblive, R, stack, case, clock)
                if r[0] != "ok":
                    return {"setup": "live child: " + str(r[:3])}
                obs["first"] = r[1]["first"]
                obs["eups_view"] = r[1]["eups_view"]
                for st in r[1]["steps"]:
                    st["bb"] = {fn: _blocks(fn, t) for fn, t in st["before"].items()}
                    st["ba"] = {fn: _blocks(fn, t) for fn, t in st["after"].items()}
                    obs["steps"].append(st)
                obs["R"] = R
                return obs
            finally:
                os.chdir(back)
        try:
            for op in case["ops"]:
                before = _dir_texts(pdir)
                declared = {(d_, f_) for fn, t in before.items() if fn.endswith(".version")
                            for f_ in _blocks(fn, t) for d_ in [fn[:-8]]}
                # the Eups-level commands are only run on a declared (version, flavor): with fallback flavors an
                # undeclared one would first be *declared* from another flavor's directory
                if op["kind"] in ("eups_undeclare", "eups_retag", "redeclare") and (op["version"], op["flavor"]) not in declared:
                    obs["steps"].append({"skipped": True})
                    continue
                r = common.in_child(_child_dbop, R, stack, case, op, clock)
                after = _dir_texts(pdir)
                step = {"before": before, "after": after, "clock0": clock,
                        "bb": {fn: _blocks(fn, t) for fn, t in before.items()},
                        "ba": {fn: _blocks(fn, t) for fn, t in after.items()}}
                if r[0] == "ok":
                    step["err"] = r[1]["err"]
                    clock = r[1]["clock"]
                else:
                    step["err"] = "child:" + str(r[1])
                    clock += 4
                obs["steps"].append(step)
        finally:
            os.chdir(back)
        return obs
    finally:
        common.rmtree(R)


def check_dbops(ctx, case, obs):
    if "setup" in obs:
        raise common.InfraError("dbops setup failed: %s" % obs["setup"])
    reqs, idx = [], []
    for i, (op, st) in enumerate(zip(case["ops"], obs["steps"])):
        if st.get("skipped") or op["kind"] == "redeclare":
            continue
        if op["kind"] == "db_declare":
            if st.get("prod") is not None:
                reqs.append({"m": "c16", "op": "declare", "prod": st["prod"], "ex": st["ex"], "who": lib_records.WHO,
                             "now": "T%d" % (st["clock0"] + 1), "old_text": st["before"].get(op["version"] + ".version")})
                idx.append(i)
            continue
        kind = {"db_undeclare": "undeclare", "eups_undeclare": "undeclare", "db_unassign": "unassign",
                "eups_untag": "unassign", "db_assign": "assign", "eups_retag": "retag"}[op["kind"]]
        dbop = {"kind": kind, "flavor": op["flavor"], "who": lib_records.WHO, "now": "T%d" % (st["clock0"] + 1)}
        for k in ("version", "tag"):
            if k in op:
                dbop[k] = op[k]
        reqs.append({"m": "c16", "op": "dbop", "name": case["name"], "dbop": dbop,
                     "versions": [[fn[:-8], t] for fn, t in st["before"].items() if fn.endswith(".version")],
                     "chains": [[fn[:-6], t] for fn, t in st["before"].items() if fn.endswith(".chain")]})
        idx.append(i)
    answers = ctx.lean.ask_many(reqs)
    ans_of = dict(zip(idx, answers))
    ctx.hist("dbops=" + ("live-object" if case.get("live") else "process-per-command"))
    if case.get("live"):
        # the shape the live histories are there for: a version held for several flavors loses one of them and is
        # declared again later in the same process
        seen_und = set()
        hit = False
        for op, st in zip(case["ops"], obs["steps"]):
            if op["kind"] == "db_undeclare" and st["before"] != st["after"] and (op["version"] + ".version") in st["after"]:
                seen_und.add(op["version"])
            if op["kind"] == "db_declare" and op["version"] in seen_und and st["err"] is None:
                hit = True
        if hit:
            ctx.hist("dbops-live:undeclare-one-flavor-then-declare-same-version")
    if case.get("live") and obs["steps"] and "eups_view" in obs:
        last = obs["steps"][-1]["ba"]
        want = {}
        for fn, b in last.items():
            if fn.endswith(".version"):
                for fq in b:
                    want["%s/%s" % (fn[:-8], fq)] = sorted(c[:-6] for c, cb in last.items() if c.endswith(".chain")
                                                          and isinstance(cb.get(fq, (None,))[0], dict) and cb[fq][0].get("version") == fn[:-8])
        if obs["eups_view"] != want:
            ctx.fail("scanning_readers_agree_with_disk", {**case, "step": len(obs["steps"]) - 1}, obs["eups_view"], None,
                     note="after the history findProducts + product.tags report %r, the records on disk say %r" % (obs["eups_view"], want))
    for i, (op, st) in enumerate(zip(case["ops"], obs["steps"])):
        ctx.hist("dbop=%s%s" % (op["kind"], "/skipped" if st.get("skipped") else ""))
        if st.get("skipped"):
            continue
        inp = {**case, "step": i}
        if st["err"]:
            ctx.hist("dbop-outcome=" + st["err"])
        nfl = max([len(b) for b in st["bb"].values()] or [0])
        ctx.hist("dbop-max-flavors-in-a-record=%d" % nfl)
        # oracle (i): the texts of all records of the product after the operation
        a = ans_of.get(i)
        if a is not None:
            if "bad-op" in a:
                raise common.InfraError("driver: %s" % a)
            if "err" in a:
                mo = "ERR:" + a["err"]
                if not (op["kind"] == "db_declare" and a["err"] == "unmodelled"):
                    ctx.disagree("dbop_records", inp, st["after"], mo)
            else:
                if op["kind"] == "db_declare":
                    mo = dict(st["before"])                  # a declaration without tags rewrites its version record only
                    mo[op["version"] + ".version"] = a["text"]
                else:
                    mo = {n + ".version": t for n, t in a["versions"] if t is not None}
                    mo.update({n + ".chain": t for n, t in a["chains"] if t is not None})
                if mo != st["after"]:
                    ctx.disagree("dbop_records", inp, st["after"], mo)
        # oracle (ii), live histories: what the one long-lived Database object answers = what is on disk now
        if case.get("live"):
            disk = {"%s/%s" % (fn[:-8], fq): True for fn, b in st["ba"].items() if fn.endswith(".version") for fq in b}
            disk_assign = sorted([fn[:-6], b[fq][0].get("version"), fq] for fn, b in st["ba"].items() if fn.endswith(".chain")
                                 for fq in b if isinstance(b[fq][0], dict))
            for t_, _, _ in disk_assign:
                if t_ in DB_ODD_TAGS:
                    ctx.hist("dbops-live:odd-tag-chain-read-back")
            for key, ans in sorted(st["answers"].items()):
                if key == "assignments":
                    if ans != disk_assign:
                        ctx.fail("scanning_readers_agree_with_disk", inp, st["answers"], None,
                                 note="getTagAssignments answers %r, the chain records on disk say %r" % (ans, disk_assign))
                    continue
                if key == "versions":
                    want = sorted({fn[:-8] for fn in st["ba"] if fn.endswith(".version")})
                    if ans != want:
                        ctx.fail("live_object_agrees_with_disk", inp, st["answers"], None,
                                 note="findVersions answers %r, the directory holds %r" % (ans, want))
                    continue
                if isinstance(ans, str) or (ans is not None) != (key in disk):
                    ctx.fail("live_object_agrees_with_disk", inp, st["answers"], None,
                             note="after step %d (%s %s) the live Database object answers %r for %s, on disk the block is %s"
                             % (i, op["kind"], op["flavor"], ans, key, "present" if key in disk else "absent"))
                elif ans is not None:
                    v_, f_ = key.split("/")
                    tags_disk = sorted(fn[:-6] for fn, b in st["ba"].items() if fn.endswith(".chain")
                                       and isinstance(b.get(f_, (None,))[0], dict) and b[f_][0].get("version") == v_)
                    if ans != tags_disk:
                        ctx.fail("live_object_agrees_with_disk", inp, st["answers"], None,
                                 note="tags of %s: the object answers %r, the chain records say %r" % (key, ans, tags_disk))
        # oracle (ii): every block of every other flavor, in every version and chain record, parsed and as text
        F = op["flavor"]
        for fn in sorted(set(st["bb"]) | set(st["ba"])):
            bb, ba = st["bb"].get(fn, {}), st["ba"].get(fn, {})
            for fq in sorted(set(bb) | set(ba)):
                if fq.split(":")[0] == F:
                    continue
                if bb.get(fq) != ba.get(fq):
                    ctx.fail("other_flavor_block_unchanged/" + ("chain" if fn.endswith(".chain") else "version"), inp,
                             {"file": fn, "flavor": fq, "after": ba.get(fq)}, None if a is None else
                             {"file": fn, "flavor": fq, "after": _blocks(fn, mo[fn]).get(fq) if ("err" not in a and fn in mo) else None},
                             note="%s on flavor %s changed the %s block of %s: %r -> %r" % (op["kind"], F, fq, fn, bb.get(fq), ba.get(fq)))


# ================================================================================================
# entry points
# ================================================================================================

_MAIN = os.getpid()


def _work(cases):
    if os.getpid() != _MAIN:
        lib_records.silence()
    wd = common.scratch("c16w")
    back = os.getcwd()
    os.chdir(wd)
    out = []
    try:
        for c in cases:
            if c["kind"] == "reloc":
                out.append(run_reloc(c))
            elif c["kind"] == "hand":
                out.append(run_hand(c))
            elif c["kind"] == "dbops":
                out.append(run_dbops(c))
            else:
                out.append(run_rec(c, wd))
    finally:
        os.chdir(back)
        common.rmtree(wd)
    return out


def evaluate(ctx, cases, workers=6):
    nw = max(1, min(workers, len(cases)))
    chunks = [cases[i::nw] for i in range(nw)]
    res = parallel_map(_work, chunks, workers=nw)
    impl = [None] * len(cases)
    for k, ch in enumerate(res):
        for j, v in enumerate(ch):
            impl[k + j * nw] = v
    # record cases: one batch of model requests
    reqs, spans = [], []
    for c, io_ in zip(cases, impl):
        if c["kind"] in ("reloc", "hand", "dbops"):
            spans.append(None)
            continue
        r = rec_requests(c, io_)
        spans.append((len(reqs), len(r)))
        reqs += r
    answers = ctx.lean.ask_many(reqs)
    for a in answers:
        if "bad-op" in a:
            raise common.InfraError("driver: %s" % a)
    for c, io_, sp in zip(cases, impl, spans):
        key = {k: v for k, v in c.items() if not k.startswith("_")}
        if c["kind"] == "dbops":
            check_dbops(ctx, c, io_)
            ctx.case(key=key, nontrivial=any(not st.get("skipped") and st["before"] != st["after"] for st in io_["steps"]),
                     sample={"case": key} if ctx.evaluations % 211 == 0 else None)
        elif c["kind"] == "hand":
            check_hand(ctx, c, io_)
            ctx.case(key=key, nontrivial=True, sample={"case": key} if ctx.evaluations % 197 == 0 else None)
        elif c["kind"] == "reloc":
            nt = check_reloc(ctx, c, io_)
            ctx.hist("reloc=" + c["mode"])
            ctx.case(key=key, nontrivial=nt,
                     sample={"case": key} if ctx.evaluations % 97 == 0 else None)
        else:
            check_rec(ctx, c, io_, answers[sp[0]:sp[0] + sp[1]])
            ctx.case(key=key, nontrivial=True, sample={"case": key, "impl": io_} if ctx.evaluations % 397 == 0 else None)


def corpus_cases():
    out = []
    if os.path.isdir(CORPUS):
        for f in sorted(os.listdir(CORPUS)):
            if f.endswith(".json"):
                with open(os.path.join(CORPUS, f)) as fh:
                    c = json.load(fh)
                c["_corpus"] = f
                out.append(c)
    return out


def gen_batch(rng, nreloc, nrec):
    cases = [gen_reloc(rng) for _ in range(nreloc)] + [gen_hand(rng) for _ in range(nreloc * 3)] + \
        [gen_dbops(rng) for _ in range((nreloc + 1) // 2)]
    for _ in range(nrec):
        r = rng.random()
        cases.append(gen_vrec(rng) if r < 0.35 else gen_crec(rng) if r < 0.55 else gen_text(rng, chain=r > 0.8))
    return cases


def run(ctx):
    cc = corpus_cases()
    ctx.hist("corpus", len(cc))
    if cc:
        evaluate(ctx, cc)
    nreloc, nrec = ctx.n(200, 5000), ctx.n(3000, 60000)
    done_l = done_r = 0
    soft = ctx.t0 + (90 if ctx.tier == "quick" and not getattr(ctx, "escalated", False) else 1e9)   # quick tier: well under 3 minutes
    while (done_l < nreloc or done_r < nrec) and not ctx.out_of_time() and (time.time() < soft or done_l == 0):
        a, b = min(60, nreloc - done_l), min(1500, nrec - done_r)
        evaluate(ctx, gen_batch(ctx.rng, a, b))
        done_l += a
        done_r += b
    for k in ("rec=vrec/clean-qual", "rec=crec/clean-qual"):
        if done_r >= 1500 and ctx.histogram.get(k, 0) < 20:
            raise common.InfraError("degenerate distribution: only %d cases of class %s" % (ctx.histogram.get(k, 0), k))
    if done_l >= 60 and ctx.histogram.get("dbops-live:undeclare-one-flavor-then-declare-same-version", 0) < 3:
        raise common.InfraError("degenerate distribution: only %d live-object histories with undeclare-then-declare of one version"
                                % ctx.histogram.get("dbops-live:undeclare-one-flavor-then-declare-same-version", 0))
    if done_l >= 60 and ctx.histogram.get("declared-into-another-stack", 0) < 10:
        raise common.InfraError("degenerate distribution: only %d products of another stack declared into the recording stack"
                                % ctx.histogram.get("declared-into-another-stack", 0))
    if done_l >= 60 and ctx.histogram.get("dbops-live:odd-tag-chain-read-back", 0) < 10:
        raise common.InfraError("degenerate distribution: only %d chain records of tags with non-word characters read back"
                                % ctx.histogram.get("dbops-live:odd-tag-chain-read-back", 0))
    if done_l >= 60 and min(ctx.histogram.get("stack=link", 0), ctx.histogram.get("stack=link_real_args", 0)) < done_l // 4:
        raise common.InfraError("degenerate distribution: symlinked stacks: %d / %d declarations of %d stacks"
                                % (ctx.histogram.get("stack=link", 0), ctx.histogram.get("stack=link_real_args", 0), done_l))
    if done_l >= 60 and ctx.histogram.get("hand:macro-spec-with-macro", 0) < done_l:
        raise common.InfraError("degenerate distribution: only %d hand-written macro records inside the class of C16_macro_records"
                                % ctx.histogram.get("hand:macro-spec-with-macro", 0))
    views = sum(v for k, v in ctx.histogram.items() if k.startswith("view=after"))
    if nreloc and views < 2 * done_l:
        raise common.InfraError("degenerate distribution: only %d relocated views from %d stacks" % (views, done_l))


def replay(ctx, rp):
    common.import_eups()          # before any scratch stack puts EUPS_PATH into the environment
    c = rp["input"]
    before = (len(ctx.failures), len(ctx.disagreements))
    evaluate(ctx, [c], workers=1)
    fails = [{"clause": f["clause"], "class": f["finding_class"], "note": f["note"]} for f in ctx.failures[before[0]:]]
    dis = ctx.disagreements[before[1]:]
    impl = (ctx.failures[before[0]:] or dis or [{}])[0].get("impl_output")
    mo = (ctx.failures[before[0]:] or dis or [{}])[0].get("model_output")
    return {"input": c, "impl_output": impl, "model_output": mo, "agree": not dis,
            "disagreements": [{"observable": d["observable"], "impl": d["impl_output"], "model": d["model_output"]} for d in dis],
            "fails": fails}
