import EupsModel.Lemmas.RemoveClosure
import EupsModel.Lemmas.DepsTotal
/-! C14 — remove deletes exactly what was asked and never something still needed.
Property theorems only (model: `Model/Remove.lean`, lemmas: `Lemmas/Remove.lean`). -/
namespace EupsModel.C14
open EupsModel EupsModel.Deps EupsModel.Remove

variable (s : State) (uses : UsesOutcome) (name ver : Str) (recursive check force : Bool) (dn : Option Str)

/-- **Refusal changes nothing.**  Whatever the outcome other than success — refusal because a product is in
use, an unknown product, a failed listing — the state is the one before the command: collection precedes
destruction. -/
theorem C14_refuses (h : (removeWith s uses name ver recursive check force dn).1 ≠ .ok) :
    (removeWith s uses name ver recursive check force dn).2.1 = s := by
  rcases removeWith_failed_or_ok s uses name ver recursive check force dn with ⟨e, R, he⟩ | ⟨s', R, hok⟩
  · rw [he]
  · rw [hok] at h; exact absurd rfl h

/-- **Exactly what was collected.**  After a successful `remove` the declarations, tags and directories are
those of before minus the ones of the removed products `R`: every declaration, tag and directory outside
`R` is untouched, and those of `R` are gone. -/
theorem C14_exact (s' : State) (R : List Prod)
    (h : removeWith s uses name ver recursive check force dn = (.ok, s', R)) :
    s'.decls = s.decls.filter (fun d => !removed R d.name d.ver) ∧
    s'.tags = s.tags.filter (fun t => !removed R t.1 t.2.2) ∧
    s'.dirs = s.dirs.filter (fun d => !removed R d.1 d.2) := by
  obtain ⟨sb, l, sn, _, h2, h3, _, _⟩ := removeWith_ok h
  subst h2 h3
  exact ⟨rfl, rfl, rfl⟩

/-- Without `--recursive` the removed set is the requested product alone (or nothing, for the default product). -/
theorem C14_exact_nonrecursive (s' : State) (R : List Prod)
    (h : removeWith s uses name ver false check force dn = (.ok, s', R)) :
    R = [⟨name, some ver, true⟩] ∨ (R = [] ∧ dn = some name) := by
  obtain ⟨sb, l, sn, hl, _, h3, _, _⟩ := removeWith_ok h
  subst h3
  rcases collect_nonrecursive _ _ _ _ _ _ _ _ _ _ _ hl with ⟨rfl, hd⟩ | ⟨p, hp, rfl⟩
  · right; exact ⟨by simp [uniqProds, Topo.dedup], hd⟩
  · left
    have : p = ⟨name, some ver, true⟩ := by
      simp only [Db.find] at hp
      split at hp <;> simp_all
    subst this; simp [uniqProds, Topo.dedup]

/-- **With `--recursive` the removed set is the dependency closure `remove` walks**: the products *opened* from
the requested one (itself, and every declared direct dependency — `-j` or not — of an opened product that bears
another name) together with all their direct dependencies; nothing else.  (`Opened`, `Collected`:
`Lemmas/RemoveClosure.lean`.  Stacks without unsetup lines, no default product.) -/
theorem C14_exact_recursive (hns : NoUnsetup s.db) (s' : State) (R : List Prod)
    (h : removeWith s uses name ver true check force none = (.ok, s', R)) (q : Prod) :
    q ∈ R ↔ Collected s.db ⟨name, some ver, true⟩ q := by
  obtain ⟨sb, l, sn, hl, _, h3, _, _⟩ := removeWith_ok h
  subst h3
  obtain ⟨p, hp, hiff⟩ := collect_is_closure s.db hns sb force (name, ver) _ name (some ver) l sn hl
  have : p = ⟨name, some ver, true⟩ := by
    simp only [Db.find] at hp
    split at hp <;> simp_all
  subst this
  rw [mem_uniqProds]; exact hiff q

/-- On success the requested product itself is among the removed ones (unless it is the default product). -/
theorem C14_requested_is_removed (s' : State) (R : List Prod)
    (h : removeWith s uses name ver recursive check force dn = (Remove.Outcome.ok, s', R))
    (hd : dn ≠ some name) : ⟨name, some ver, true⟩ ∈ R := by
  obtain ⟨sb, l, sn, hl, _, h3, _, _⟩ := removeWith_ok h
  subst h3
  obtain ⟨p, hp, hpl⟩ := collect_contains_self _ _ _ _ _ _ _ _ _ _ _ _ hl hd
  have : p = ⟨name, some ver, true⟩ := by
    simp only [Db.find] at hp
    split at hp <;> simp_all
  subst this
  exact (mem_uniqProds l _).mpr hpl

/-- **Never something still needed.**  With the in-use check on and force off, a successful `remove` deletes
only products whose every user (as `uses` reports them) is the requested product itself — which is removed too. -/
theorem C14_never_still_needed (sb : SetupBy) (s' : State) (R : List Prod)
    (h : removeWith s (.ok sb) name ver recursive true false dn = (.ok, s', R)) :
    ∀ p ∈ R, ∀ u ∈ users sb p.name p.ver, u.name = name ∧ u.ver = ver := by
  obtain ⟨sb0, l, sn, hl, _, h3, _, hsb⟩ := removeWith_ok h
  obtain ⟨sb', hu, rfl⟩ := hsb rfl
  have : sb = sb' := by injection hu
  subst this h3
  intro p hp u hu
  have hp' := (mem_uniqProds l p).mp hp
  have := collect_checked _ _ _ _ _ _ _ _ _ _ _ hl p hp'
  simp only [inUse, usedBy, Bool.not_eq_false', List.isEmpty_iff, List.filter_eq_nil_iff] at this
  have := this u hu
  simpa using this

/-- **Never something still needed, in terms of the listings.**  With the in-use check on and force off, after a
successful `remove` the only declared product whose dependency listing holds a removed product is the
requested product itself (which is removed too): no product that remains declared needs a removed one. -/
theorem C14_never_still_needed_listing (s' : State) (R : List Prod)
    (h : remove s name ver recursive true false dn = (Remove.Outcome.ok, s', R))
    (p : Prod) (hp : p ∈ R) (d : Decl) (hd : d ∈ s.decls) (l : List Entry)
    (hl : getDependentProducts s.db s.db.fuel ⟨d.name, some d.ver, true⟩ true false = .ok l)
    (e : Entry) (he : e ∈ l) (hn : e.prod.name = p.name) (hv : e.prod.ver = p.ver) :
    d.name = name ∧ d.ver = ver := by
  unfold remove at h
  cases hu : usesInfo s.db s.db.fuel with
  | outOfFuel => simp [removeWith, hu] at h
  | cycle => simp [removeWith, hu] at h
  | ok sb =>
    rw [hu] at h
    have hex : ∃ u ∈ users sb p.name p.ver, u.name = d.name ∧ u.ver = d.ver ∧ u.need = p.ver :=
      (uses_inverse s.db s.db.fuel sb hu p.name p.ver d.name d.ver p.ver).mpr
        ⟨Or.inr rfl, d, hd, rfl, rfl, l, hl, e, he, hn, hv⟩
    obtain ⟨u, hu', h1, h2, _⟩ := hex
    have := C14_never_still_needed s name ver recursive dn sb s' R h p hp u hu'
    rw [← h1, ← h2]; exact this

/-- `--noCheck`: the command never refuses on the grounds that a product is in use. -/
theorem C14_noCheck : (removeWith s uses name ver recursive false force dn).1 ≠ .failed .refused := by
  intro h
  rcases removeWith_failed h with ⟨hc, _⟩ | ⟨sb, hsb, hc⟩ | ⟨he, _⟩ | ⟨he, _⟩
  · exact absurd hc (by simp)
  · rw [hsb rfl] at hc
    exact collect_not_refused _ none force dn _ (Or.inl rfl) _ _ _ _ _ hc
  · cases he
  · cases he

/-- `--force`: the command never refuses — neither because a product is in use nor because one is set up. -/
theorem C14_force (e : Err) (h : (removeWith s uses name ver recursive check true dn).1 = .failed e) :
    e ≠ .refused ∧ e ≠ .isSetup := by
  rcases removeWith_failed h with ⟨_, ⟨_, rfl⟩ | ⟨_, rfl⟩⟩ | ⟨sb, _, hc⟩ | ⟨_, hf⟩ | ⟨rfl, _⟩
  rotate_right
  · exact ⟨by simp, by simp⟩
  · exact ⟨by simp, by simp⟩
  · exact ⟨by simp, by simp⟩
  · refine ⟨fun he => ?_, fun he => ?_⟩
    · subst he; exact collect_not_refused _ sb true dn _ (Or.inr rfl) _ _ _ _ _ hc
    · subst he
      -- `collect` never yields `isSetup`
      have hk : ∀ f n v r sn, collect s.db sb true dn (name, ver) f n v r sn ≠ .error .isSetup := by
        intro f
        induction f with
        | zero => intro n v r sn; simp [collect]
        | succ k ih =>
          intro n v r sn
          unfold collect
          split
          · simp
          · split
            · simp
            · simp only
              split
              · rename_i e' he'
                rcases directDeps_error he' with rfl | rfl <;> simp
              · have loop : ∀ qs acc sn', collectLoop sb true (name, ver) r
                    (fun q sn => collect s.db sb true dn (name, ver) k q.name q.ver (q.name != n) sn) qs acc sn'
                    ≠ .error .isSetup := by
                  intro qs
                  induction qs with
                  | nil => intro acc sn'; simp [collectLoop]
                  | cons q qs ihq =>
                    intro acc sn'
                    rw [collectLoop_cons]
                    split
                    · simp
                    · split
                      · cases hq : collect s.db sb true dn (name, ver) k q.name q.ver (q.name != n) sn' with
                        | error e' =>
                          simp only
                          intro hh; injection hh with hh; subst hh; exact ih _ _ _ _ hq
                        | ok r' => obtain ⟨sub, sn2⟩ := r'; exact ihq _ _
                      · exact ihq _ _
                exact loop _ _ _
      exact hk _ _ _ _ _ hc
  · exact absurd hf (by simp)

/-- **`remove` ends** (tree with the D33 repair): on a stack whose tables are plain (no unsetup lines, every table
file present), dependency cycles included, the command never dies in the recursion (`RecursionError`), the in-use
index is always built and no table fails to load — the only ways not to remove are the refusals (a product is
in use; a product is set up; the database may not be written) and an unknown product. -/
theorem C14_terminates (hns : NoUnsetup s.db) (e : Err)
    (h : (remove s name ver recursive check force dn).1 = .failed e) :
    e = .refused ∨ e = .notFound ∨ e = .isSetup ∨ e = .noPermission := by
  unfold remove at h
  obtain ⟨sb, hsb⟩ := usesInfo_total s.db
  rw [hsb] at h
  rcases removeWith_failed h with ⟨_, ⟨hu, _⟩ | ⟨hu, _⟩⟩ | ⟨sb', _, hc⟩ | ⟨he, _⟩ | ⟨he, _⟩
  rotate_right
  · exact Or.inr (Or.inr (Or.inr he))
  · cases hu
  · cases hu
  · have hfuel := (collect_fuel s.db sb' force dn (name, ver) s.removeFuel name (some ver) recursive []
      (removeFuel_enough s)).1
    rcases collect_error_kinds s.db hns sb' force dn (name, ver) _ _ _ _ _ _ hc with rfl | rfl | rfl
    · exact Or.inl rfl
    · exact Or.inr (Or.inl rfl)
    · exact absurd hc hfuel
  · exact Or.inr (Or.inr (Or.inl he))

/-- **`remove` never dies in the recursion — on any stack** (tree with the D32 and D33 repairs): whatever the tables
say (unsetup lines inside dependency cycles, missing table files, unresolved names) and whatever the options, the
outcome is never the recursion limit: the in-use index is built (`C13_uses_total`), listing the direct
dependencies of a product returns, and the collection visits every product once. -/
theorem C14_never_recursion_error :
    (remove s name ver recursive check force dn).1 ≠ .failed .outOfFuel := by
  intro h
  unfold remove at h
  obtain ⟨sb, hsb⟩ := usesInfo_total s.db
  rw [hsb] at h
  rcases removeWith_failed h with ⟨_, ⟨hu, _⟩ | ⟨hu, _⟩⟩ | ⟨sb', _, hc⟩ | ⟨he, _⟩ | ⟨he, _⟩
  · cases hu
  · cases hu
  · exact (collect_fuel s.db sb' force dn (name, ver) s.removeFuel name (some ver) recursive []
      (removeFuel_enough s)).1 hc
  · cases he
  · cases he

/-- **A set-up product is never removed behind the user's back, and never half-way** (tree with the D37 repair):
unless forced, a successful `remove` removed no product that is set up; the refusal (`C14_refuses`) comes before
anything is destroyed. -/
theorem C14_setup_refused (s' : State) (R : List Prod)
    (h : removeWith s uses name ver recursive check false dn = (.ok, s', R)) :
    ∀ p ∈ R, s.isSetup p = false := by
  have hc := removeWith_course s uses name ver recursive check false dn
  rw [h] at hc
  cases hc with
  | done sb l sn _ _ _ hno =>
    rcases hno with hf | hno
    · exact absurd hf (by simp)
    · exact hno

/-! ## the `-t TAG` forms of the command line (`RemoveCmd.execute`) -/

/-- `eups remove -t TAG product` is `eups remove product <the version carrying TAG>`; without such a version
nothing happens. -/
theorem C14_by_tag (tag : Str) :
    (∃ v, (name, tag, v) ∈ s.tags ∧
        removeByTag s uses name tag recursive check force dn = removeWith s uses name v recursive check force dn) ∨
      ((∀ v, (name, tag, v) ∉ s.tags) ∧
        removeByTag s uses name tag recursive check force dn = (.failed .tagNotFound, s, [])) := by
  unfold removeByTag
  cases hf : s.tags.find? (fun t => t.1 == name && t.2.1 == tag) with
  | none =>
    right
    refine ⟨?_, rfl⟩
    intro v hv
    have := List.find?_eq_none.mp hf (name, tag, v) hv
    simp at this
  | some t =>
    left
    have hm := List.mem_of_find?_eq_some hf
    have hp := List.find?_some hf
    simp only [Bool.and_eq_true, beq_iff_eq] at hp
    refine ⟨t.2.2, ?_, rfl⟩
    have : t = (name, tag, t.2.2) := by
      obtain ⟨a, b, c⟩ := t
      simp only at hp
      rw [hp.1, hp.2]
    rw [← this]; exact hm

/-- `eups remove -t TAG` takes the tag off every product and touches nothing else. -/
theorem C14_untag_exact (tag : Str) :
    (untag s tag).decls = s.decls ∧ (untag s tag).dirs = s.dirs ∧
      ∀ t, t ∈ (untag s tag).tags ↔ (t ∈ s.tags ∧ t.2.1 ≠ tag) := by
  refine ⟨rfl, rfl, ?_⟩
  intro t
  simp [untag, List.mem_filter]

/-! Non-vacuity: `app 1 → lib 1 ← other 1`.  Removing `app` recursively is refused (lib is in use by `other`),
succeeds with `--noCheck` taking `lib` along, and a plain removal of `app` leaves everything else alone.
`cyc`: `x 1 ↔ y 1`, a dependency cycle: the recursive removal ends and takes both (D33 repaired). -/
section Example
def a : Str := [97]
def l : Str := [108]
def o : Str := [111]
def v1 : Str := [49]
def ex : State :=
  { decls := [⟨a, v1, [⟨false, false, l, none, false, false⟩], false⟩, ⟨l, v1, [], false⟩,
              ⟨o, v1, [⟨false, false, l, none, false, false⟩], false⟩]
    tags := [(a, currentTag, v1), (l, currentTag, v1), (o, currentTag, v1)]
    dirs := [(a, v1), (l, v1), (o, v1)] }

example : (remove ex a v1 true true false none).1 = .failed .refused := by decide
example : (remove ex a v1 true true false none).2.1 = ex := by decide
example : (remove ex a v1 true false false none).2.2 = [⟨a, some v1, true⟩, ⟨l, some v1, true⟩] := by decide
example : (remove ex a v1 false true false none).2.1.decls.map (·.name) = [l, o] := by decide

def x : Str := [120]
def y : Str := [121]
def cyc : State :=
  { decls := [⟨x, v1, [⟨false, false, y, none, false, false⟩], false⟩, ⟨y, v1, [⟨false, false, x, none, false, false⟩], false⟩]
    tags := [(x, currentTag, v1), (y, currentTag, v1)]
    dirs := [(x, v1), (y, v1)] }
example : (remove cyc x v1 true false false none).2.2 = [⟨x, some v1, true⟩, ⟨y, some v1, true⟩] := by decide
example : (remove cyc x v1 true false false none).2.1 = ⟨[], [], [], [], true⟩ := by decide
example : (remove cyc x v1 true true false none).1 = .failed .refused := by decide
end Example

end EupsModel.C14
