/-! C14 — property theorems (placeholder until the model exists). -/
