import EupsModel.Model.Setup
/-! C04 — setup changes only what it was asked to (keep, just, max-depth, bystanders).
Model: `EupsModel/Model/Setup.lean`. -/
namespace EupsModel.C04
open EupsModel EupsModel.Setup

/-! ## D21: `--keep` does not protect the dependencies of the requested product's previously set-up version -/

def nA : Name := [97]
def nC : Name := [99]
def v1 : Ver := [49]
def v3 : Ver := [51]

/-- `a 1 → c`, `a 3` has no dependencies -/
def dbKeep : Db :=
  { decls := [⟨nA, v1, [1], [(.always, .dep nC false false none none)]⟩, ⟨nA, v3, [2], []⟩, ⟨nC, v1, [3], []⟩],
    tags := [(tagCurrent, nA, v1), (tagCurrent, nC, v1)] }

def envOf : Res → Option Setup.Env
  | .ok s => some s.env
  | _ => none

/-- after `setup a` (→ `a 1`, `c 1`), `setup --keep a 3` ends with `c` not set up -/
theorem C04_keep_drop_witness :
    ∃ e1 e2, envOf (runSetup dbKeep 10 ⟨nA, none, false, none, false, []⟩ Setup.Env.empty) = some e1 ∧
      envOf (runSetup dbKeep 10 ⟨nA, some (.explicit v3), true, none, false, []⟩ e1) = some e2 ∧
      e1.rec? nC = some v1 ∧ e2.rec? nC = none := by
  refine ⟨⟨[(nC, v1), (nA, v1)], [(nC, .own (nC, v1) []), (nA, .own (nA, v1) [])], [], []⟩,
          ⟨[(nA, v3)], [(nA, .own (nA, v3) [])], [], []⟩, ?_, ?_, ?_, ?_⟩ <;> decide +kernel

end EupsModel.C04
