/-! C04 — property theorems (placeholder until the model exists). -/
