import EupsModel.Lemmas.SetupFrame
import EupsModel.Lemmas.SetupKeep
import EupsModel.Lemmas.SetupInverse
import EupsModel.Lemmas.SetupLines
import EupsModel.Lemmas.SetupShell
import EupsModel.Lemmas.SetupKeepD
/-! C04 — setup changes only what it was asked to (keep, just, max-depth, bystanders).
Model: `EupsModel/Model/Setup.lean`; lemmas: `EupsModel/Lemmas/SetupInv.lean`, `SetupFrame.lean`, `SetupKeep.lean`.

`Within db top k m`: a path of `k` dependency lines — of any declared version, under any guard — leads from `top` to `m`
(reading ii of DESIGN §6 C04, over-approximated: the tables of the versions a request selects *and of those it
replaces* are among them).  `SameFor m e e'`: `m`'s record, `<M>_DIR` and the sub-list of `m`'s own elements of every
path variable (order included) are the same in `e` and `e'`. -/
namespace EupsModel.C04
open EupsModel EupsModel.Setup

private theorem init_alreadyOK (db : Db) (e : Setup.Env) : AlreadyOK db (St.init e).already := by
  intro n d x h; simp [St.init, aget] at h

/-! ## frame: products not reachable from the requested product are untouched — every database, mode, flag, fuel -/

theorem C04_frame (db : Db) (fuel : Nat) (fwd : Bool) (r : Request) (e : Setup.Env) (s' : St) (m : Name)
    (hm : ∀ k, ¬ Within db r.name k m)
    (h : (if fwd then runSetup db fuel r e else runUnsetup db fuel r e) = .ok s') : SameFor m e s'.env := by
  have key := setup_subjInv (r.cfg db) (fun _ n => ∃ k, Within db r.name k n) (SameFor m e)
    (within_closedAt_unbounded (r.cfg db) r.name)
    (sameFor_subjInv (r.cfg db) _ m (fun _ ⟨k, hk⟩ => hm k hk) e) fuel
  cases fwd with
  | true => exact key true 0 false r.vro r.name r.version none (St.init e) s' ⟨0, Within.root⟩ (init_alreadyOK db e) (SameFor.refl m e) h
  | false => exact key false 0 false r.vro r.name none none (St.init e) s' ⟨0, Within.root⟩ (init_alreadyOK db e) (SameFor.refl m e) h

/-- … and so does every `envSet` variable that no table of a reachable product sets (own `envSet` variables of
bystanders included, whatever the tables look like) -/
theorem C04_frame_vars (db : Db) (fuel : Nat) (fwd : Bool) (r : Request) (e : Setup.Env) (s' : St) (var : Str)
    (hvar : ¬ SetVar db (fun n => ∃ k, Within db r.name k n) var)
    (h : (if fwd then runSetup db fuel r e else runUnsetup db fuel r e) = .ok s') :
    aget s'.env.vars var = aget e.vars var := by
  have key := setup_subjInv (r.cfg db) (fun _ n => ∃ k, Within db r.name k n) _
    (within_closedAt_unbounded (r.cfg db) r.name) (varsOther_subjInv (r.cfg db) _ e) fuel
  have hvar' : ¬ SetVar (r.cfg db).db (fun n => ∃ _ : Nat, ∃ k, Within db r.name k n) var := by
    intro ⟨d, hd, ⟨_, hk⟩, g, val, hg⟩
    exact hvar ⟨d, hd, hk, g, val, hg⟩
  cases fwd with
  | true => exact key true 0 false r.vro r.name r.version none (St.init e) s' ⟨0, Within.root⟩ (init_alreadyOK db e) (fun _ _ => rfl) h var hvar'
  | false => exact key false 0 false r.vro r.name none none (St.init e) s' ⟨0, Within.root⟩ (init_alreadyOK db e) (fun _ _ => rfl) h var hvar'

/-! ## depth: with `--max-depth N` no product deeper than `N` is set up or altered -/

/-- `m` is deeper than `N`: every path from the requested product to it has more than `N` edges -/
theorem C04_depth (db : Db) (fuel : Nat) (fwd : Bool) (r : Request) (N : Nat) (hN : r.maxDepth = some N)
    (e : Setup.Env) (s' : St) (m : Name) (hm : ∀ k, k ≤ N → ¬ Within db r.name k m)
    (h : (if fwd then runSetup db fuel r e else runUnsetup db fuel r e) = .ok s') : SameFor m e s'.env := by
  have key := setup_subjInv (r.cfg db) (fun k n => Within db r.name k n ∧ k ≤ N) (SameFor m e)
    (within_closedAt (r.cfg db) r.name N hN)
    (sameFor_subjInv (r.cfg db) _ m (fun k ⟨hk, hle⟩ => hm k hle hk) e) fuel
  cases fwd with
  | true => exact key true 0 false r.vro r.name r.version none (St.init e) s' ⟨Within.root, Nat.zero_le _⟩ (init_alreadyOK db e) (SameFor.refl m e) h
  | false => exact key false 0 false r.vro r.name none none (St.init e) s' ⟨Within.root, Nat.zero_le _⟩ (init_alreadyOK db e) (SameFor.refl m e) h

/-- … nor is any `envSet` variable that no table of a product within `N` edges sets -/
theorem C04_depth_vars (db : Db) (fuel : Nat) (fwd : Bool) (r : Request) (N : Nat) (hN : r.maxDepth = some N)
    (e : Setup.Env) (s' : St) (var : Str)
    (hvar : ¬ SetVar db (fun n => ∃ k, Within db r.name k n ∧ k ≤ N) var)
    (h : (if fwd then runSetup db fuel r e else runUnsetup db fuel r e) = .ok s') :
    aget s'.env.vars var = aget e.vars var := by
  have key := setup_subjInv (r.cfg db) (fun k n => Within db r.name k n ∧ k ≤ N) _
    (within_closedAt (r.cfg db) r.name N hN) (varsOther_subjInv (r.cfg db) _ e) fuel
  cases fwd with
  | true => exact key true 0 false r.vro r.name r.version none (St.init e) s' ⟨Within.root, Nat.zero_le _⟩ (init_alreadyOK db e) (fun _ _ => rfl) h var hvar
  | false => exact key false 0 false r.vro r.name none none (St.init e) s' ⟨Within.root, Nat.zero_le _⟩ (init_alreadyOK db e) (fun _ _ => rfl) h var hvar

/-- `--just` (`max_depth = 0`): only the requested product changes -/
theorem C04_just (db : Db) (fuel : Nat) (fwd : Bool) (r : Request) (hN : r.maxDepth = some 0)
    (e : Setup.Env) (s' : St) (m : Name) (hm : m ≠ r.name)
    (h : (if fwd then runSetup db fuel r e else runUnsetup db fuel r e) = .ok s') : SameFor m e s'.env := by
  refine C04_depth db fuel fwd r 0 hN e s' m ?_ h
  intro k hk hw
  have : k = 0 := by omega
  subst this
  cases hw
  exact hm rfl

/-! ## frame, the rest of the environment: foreign elements, bystanders' elements, shell functions -/

open Classical in
/-- the elements of a path variable that do not belong to a name in `S`: foreign strings and own elements of other products -/
noncomputable def outsideOf (S : Name → Prop) : Elem → Bool
  | .own p _ => decide (¬ S p.1)
  | .foreign _ => true

/-- In every path variable the sub-list (duplicates removed, order kept) of the elements that are foreign or belong to a
product not reachable from the requested one is the same before and after — setup and unsetup, every mode, every fuel;
for tables that contribute through their own `${PRODUCT_DIR}` (`OwnTables`: a literal contributed by a table of the
closure is, of course, added / removed). -/
theorem C04_frame_paths_partial (db : Db) (hown : OwnTables db) (fuel : Nat) (fwd : Bool) (r : Request) (e : Setup.Env)
    (s' : St) (h : (if fwd then runSetup db fuel r e else runUnsetup db fuel r e) = .ok s') (var : Str) :
    partBy (outsideOf (fun n => ∃ k, Within db r.name k n)) s'.env var =
      partBy (outsideOf (fun n => ∃ k, Within db r.name k n)) e var := by
  have key := setup_subjInv (r.cfg db) (fun _ n => ∃ k, Within db r.name k n) _
    (within_closedAt_unbounded (r.cfg db) r.name)
    (partBy_subjInvAt (r.cfg db) _ hown (outsideOf (fun n => ∃ k, Within db r.name k n))
      (fun _ p rel hp => by simp [outsideOf, hp]) e) fuel
  cases fwd with
  | true => exact key true 0 false r.vro r.name r.version none (St.init e) s' ⟨0, Within.root⟩ (init_alreadyOK db e) (fun _ => rfl) h var
  | false => exact key false 0 false r.vro r.name none none (St.init e) s' ⟨0, Within.root⟩ (init_alreadyOK db e) (fun _ => rfl) h var

/-- … and with `--max-depth N` / `--just` the same holds for everything that does not belong to a product within `N`
edges of the requested one -/
theorem C04_depth_paths_partial (db : Db) (hown : OwnTables db) (fuel : Nat) (fwd : Bool) (r : Request) (N : Nat)
    (hN : r.maxDepth = some N) (e : Setup.Env) (s' : St)
    (h : (if fwd then runSetup db fuel r e else runUnsetup db fuel r e) = .ok s') (var : Str) :
    partBy (outsideOf (fun n => ∃ k, Within db r.name k n ∧ k ≤ N)) s'.env var =
      partBy (outsideOf (fun n => ∃ k, Within db r.name k n ∧ k ≤ N)) e var := by
  have key := setup_subjInv (r.cfg db) (fun k n => Within db r.name k n ∧ k ≤ N) _
    (within_closedAt (r.cfg db) r.name N hN)
    (partBy_subjInvAt (r.cfg db) _ hown (outsideOf (fun n => ∃ k, Within db r.name k n ∧ k ≤ N))
      (fun k p rel hp => by
        have : ∃ k, Within db r.name k p.1 ∧ k ≤ N := ⟨k, hp⟩
        simp [outsideOf, this]) e) fuel
  cases fwd with
  | true => exact key true 0 false r.vro r.name r.version none (St.init e) s' ⟨Within.root, Nat.zero_le _⟩ (init_alreadyOK db e) (fun _ => rfl) h var
  | false => exact key false 0 false r.vro r.name none none (St.init e) s' ⟨Within.root, Nat.zero_le _⟩ (init_alreadyOK db e) (fun _ => rfl) h var

/-- Shell functions (aliases): a function that no table of a reachable product defines with `addAlias` is neither
defined, redefined nor removed by the commands a successful request emits — whatever the caller's functions `f` were.
Setup and unsetup, every database, mode, fuel. -/
theorem C04_frame_aliases (db : Db) (fuel : Nat) (fwd : Bool) (r : Request) (e : Setup.Env) (s' : St) (key : Str)
    (hkey : ¬ AliasOf db (fun _ n => ∃ k, Within db r.name k n) key) (f : Str → Option Str)
    (h : (if fwd then runSetup db fuel r e else runUnsetup db fuel r e) = .ok s') :
    ((appSetup db fuel fwd r e).apply (Shell.of e f)).funcs key = f key := by
  have hfree0 : AliasFree key (St.init e) := ⟨rfl, by simp [St.init]⟩
  have hnd0 : AliasND (St.init e) := by simp [AliasND, St.init]
  have key1 := setup_aliasFree (r.cfg db) (fun _ n => ∃ k, Within db r.name k n) key
    (within_closedAt_unbounded (r.cfg db) r.name) hkey fuel
  have hfree : AliasFree key s' ∧ AliasND s' := by
    cases fwd with
    | true =>
      have h' : setup (r.cfg db) fuel true 0 false r.vro r.name r.version none (St.init e) = .ok s' := h
      exact ⟨key1 true 0 false r.vro r.name r.version none (St.init e) s' ⟨0, Within.root⟩ (init_alreadyOK db e) hfree0 h',
        setup_aliasND (r.cfg db) fuel true 0 false r.vro r.name r.version none (St.init e) s' hnd0 (by rw [h']; rfl)⟩
    | false =>
      have h' : setup (r.cfg db) fuel false 0 false r.vro r.name none none (St.init e) = .ok s' := h
      exact ⟨key1 false 0 false r.vro r.name none none (St.init e) s' ⟨0, Within.root⟩ (init_alreadyOK db e) hfree0 h',
        setup_aliasND (r.cfg db) fuel false 0 false r.vro r.name none none (St.init e) s' hnd0 (by rw [h']; rfl)⟩
  have hem : appSetup db fuel fwd r e = .cmds (delta e s') := by unfold appSetup; rw [h]
  rw [hem]
  have := (runCmds_delta e s' f hfree.2).2.2.2.2 key
  show (runCmds (delta e s') (Shell.of e f)).funcs key = f key
  rw [this, hfree.1.1]
  simp [hfree.1.2]

/-- `setup --type t…` (`Db.withTypes`: the tables read under the setup types of the command line): the frame clause with
reachability taken in the database as declared — whatever the `if (type == t)` blocks select, a product that no
dependency line of any block leads to is untouched.  (Every theorem of this file holds of `db.withTypes types` as it
stands, being for every database; this one relates its hypothesis to the declared tables.) -/
theorem C04_frame_types (db : Db) (types : List Str) (fuel : Nat) (fwd : Bool) (r : Request) (e : Setup.Env) (s' : St)
    (m : Name) (hm : ∀ k, ¬ Within db r.name k m)
    (h : (if fwd then runSetup (db.withTypes types) fuel r e else runUnsetup (db.withTypes types) fuel r e) = .ok s') :
    SameFor m e s'.env :=
  C04_frame (db.withTypes types) fuel fwd r e s' m (fun k hw => hm k (within_withTypes db types r.name k m hw)) h

/-! ## keep -/

/-- all `SETUP_*` records of the environment name declared versions -/
def AllDeclared (db : Db) (e : Setup.Env) : Prop := ∀ n v, (n, v) ∈ e.recs → ∃ d, db.lookup (n, v) = some d

private theorem aget_alreadyOfEnv (db : Db) (l : List (Name × Ver)) (hl : ∀ n v, (n, v) ∈ l → ∃ d, db.lookup (n, v) = some d)
    (m : Name) (v : Ver) (h : aget l m = some v) :
    ∃ d, aget (l.filterMap (fun (nv : Name × Ver) => (db.lookup (nv.1, nv.2)).map (fun d => (nv.1, ((d, none) : Decl × Option VroEnt))))) m
      = some (d, none) ∧ d.ver = v := by
  induction l with
  | nil => simp [aget] at h
  | cons p rest ih =>
    obtain ⟨n', v'⟩ := p
    obtain ⟨d', hd'⟩ := hl n' v' (by simp)
    simp only [List.filterMap_cons, hd', Option.map_some]
    by_cases hn : n' = m
    · subst hn
      simp [aget] at h; subst h
      exact ⟨d', by simp [aget], (lookup_some db _ d' hd').2.2⟩
    · simp [aget, hn] at h ⊢
      exact ih (fun n v hm => hl n v (List.mem_cons_of_mem _ hm)) h

private theorem selectVRO_keep (inexact : Bool) (tags : List Str) : VroEnt.keep ∈ selectVRO true inexact tags := by
  unfold selectVRO
  have h3 : lastFixed 0 0 [VroEnt.keep, .typeExact, .commandLine, .version, .versionExpr, .tag tagCurrent] = 3 := by decide
  simp only [if_true, h3]
  have hd : ∀ l : List VroEnt, VroEnt.keep ∈ dedup [] (VroEnt.keep :: l) := by intro l; simp [dedup]
  cases inexact <;> cases tags <;> simp [dedup, List.mem_filter]

private theorem aget_alreadyOfEnvD (db : Db) (l : List (Name × Ver)) (m : Name) (v : Ver) (h : aget l m = some v)
    (hd : Decd db m v) :
    ∃ d, aget (l.filterMap (fun (nv : Name × Ver) => (db.lookup (nv.1, nv.2)).map (fun d => (nv.1, ((d, none) : Decl × Option VroEnt))))) m
      = some (d, none) ∧ d.ver = v := by
  induction l with
  | nil => simp [aget] at h
  | cons p rest ih =>
    obtain ⟨n', v'⟩ := p
    by_cases hn : n' = m
    · subst hn
      simp [aget] at h; subst h
      obtain ⟨d', hd'⟩ := hd
      simp only [List.filterMap_cons, hd', Option.map_some]
      exact ⟨d', by simp [aget], (lookup_some db _ d' hd').2.2⟩
    · simp [aget, hn] at h
      obtain ⟨d, hg, hv⟩ := ih h
      refine ⟨d, ?_, hv⟩
      simp only [List.filterMap_cons]
      cases hl : db.lookup (n', v') with
      | none => simpa using hg
      | some d0 => simp [aget, hn]; exact hg

/-- With `--keep`, every product `m` other than the requested one that is set up — its record names a *declared* version;
a record `findSetupProduct` cannot find is not a set-up product — keeps its version, unless the requested product is
itself set up beforehand (in a declared version `sd`, the same one included) **and** a dependency line of `sd`'s own table
leads to `m` (`ReachFrom db sd m`): exactly D21's class (`sd` is unwound together with what its table names before
`keep` is consulted; witness `C04_keep_drop_witness`).  Every database (name cycles included), every prior environment
(records of undeclared versions included), every other flag, every fuel. -/
theorem C04_keep_partial (db : Db) (fuel : Nat) (r : Request) (hkeep : r.keep = true) (e : Setup.Env) (s' : St)
    (h : runSetup db fuel r e = .ok s') :
    ∀ m v, e.rec? m = some v → (∃ d, db.lookup (m, v) = some d) → m ≠ r.name →
      (∀ sd, setupProd db e r.name = some sd → ¬ ReachFrom db sd m) → s'.env.rec? m = some v := by
  unfold runSetup at h
  cases fuel with
  | zero => simp [setup_zero] at h
  | succ k =>
    rw [setup_succ_true] at h
    have ha0 := init_alreadyOK db e
    cases hres : resolve (r.cfg db).db (r.cfg db).path (r.cfg db).keep (St.init e).already r.name r.version none 0 r.vro.length r.vro with
    | none => rw [hres] at h; cases h
    | error => rw [hres] at h; cases h
    | found d reason =>
      rw [hres] at h
      obtain ⟨hc, hname⟩ := resolve_spec _ _ _ _ ha0 _ _ _ _ _ _ _ _ hres
      simp only at h
      have hpd : pickDecl (r.cfg db).db (St.init e).cache d = d := rfl
      rw [hpd] at h
      generalize hcache : ((St.init e).afterResolve (r.cfg db) 0 r.vro r.name r.version none).cache = c0
      have hreg : register (r.cfg db) 0 d reason ((St.init e).afterResolve (r.cfg db) 0 r.vro r.name r.version none) =
          ⟨e, [], [], aset (alreadyOfEnv db e) d.name (d, reason), c0⟩ := by
        rw [← hcache]; simp [register, St.init, St.afterResolve, Request.cfg]
      rw [hreg] at h
      have hal : AlreadyOK (r.cfg db).db (aset (alreadyOfEnv db e) d.name (d, reason)) :=
        alreadyOK_aset _ _ (alreadyOfEnv_ok db e) d reason hc
      have hvro : VroEnt.keep ∈ r.vro := by
        unfold Request.vro; rw [hkeep]; exact selectVRO_keep _ _
      intro m v hmv hdv hne hreach
      refine install_keep_topD (r.cfg db) k false r.vro hvro d reason hc
        ⟨e, [], [], aset (alreadyOfEnv db e) d.name (d, reason), c0⟩ s' hal ?_ h m v (by rw [hname]; exact hne) hmv hdv
        (by rw [hname]; exact hreach)
      intro m' v' hne' hmv' hd'
      obtain ⟨d', hg, hv⟩ := aget_alreadyOfEnvD db e.recs m' v' hmv' hd'
      refine ⟨d', none, ?_, hv⟩
      show aget (aset (alreadyOfEnv db e) d.name (d, reason)) m' = _
      rw [aget_aset_other _ _ _ _ hne']; exact hg

/-- the form of the earlier rounds — the requested product is not set up beforehand, records name declared versions —
is a corollary -/
theorem C04_keep_fresh (db : Db) (fuel : Nat) (r : Request) (hkeep : r.keep = true) (e : Setup.Env) (s' : St)
    (hdecl : AllDeclared db e) (hnot : e.rec? r.name = none)
    (h : runSetup db fuel r e = .ok s') : ∀ m v, e.rec? m = some v → s'.env.rec? m = some v := by
  intro m v hmv
  refine C04_keep_partial db fuel r hkeep e s' h m v hmv (hdecl m v (aget_mem _ _ _ hmv)) ?_ ?_
  · intro e'; rw [e', hnot] at hmv; cases hmv
  · intro sd hsp
    obtain ⟨_, _, hr⟩ := setupProd_some _ _ _ _ hsp
    rw [hnot] at hr; cases hr

/-! ## D21: `--keep` does not protect the dependencies of the requested product's previously set-up version -/

def nA : Name := [97]
def nC : Name := [99]
def v1 : Ver := ([49], 0)
def v3 : Ver := ([51], 0)

/-- `a 1 → c`, `a 3` has no dependencies -/
def dbKeep : Db :=
  { decls := [⟨nA, v1, [1], [(.always, .dep nC false false none none [] false)]⟩, ⟨nA, v3, [2], []⟩, ⟨nC, v1, [3], []⟩],
    tags := [(tagCurrent, nA, v1), (tagCurrent, nC, v1)] }

def envOf : Res → Option Setup.Env
  | .ok s => some s.env
  | _ => none

/-- after `setup a` (→ `a 1`, `c 1`), `setup --keep a 3` ends with `c` not set up -/
theorem C04_keep_drop_witness :
    ∃ e1 e2, envOf (runSetup dbKeep 10 ⟨nA, none, false, none, false, [], [0]⟩ Setup.Env.empty) = some e1 ∧
      envOf (runSetup dbKeep 10 ⟨nA, some (.explicit v3.1), true, none, false, [], [0]⟩ e1) = some e2 ∧
      e1.rec? nC = some v1 ∧ e2.rec? nC = none := by
  refine ⟨⟨[(nC, v1), (nA, v1)], [(nC, .own (nC, v1) []), (nA, .own (nA, v1) [])], [], []⟩,
          ⟨[(nA, v3)], [(nA, .own (nA, v3) [])], [], []⟩, ?_, ?_, ?_, ?_⟩ <;> decide +kernel

/-! ## the narrower reading of "reachable" fails (for the record; not claimed) -/

def nP : Name := [112]
def nX : Name := [120]
def nZ : Name := [122]
def v2 : Ver := ([50], 0)

/-- `p 1 → z`, `p 2` has no dependencies, the bystander `x 1 → z` -/
def dbNarrow : Db :=
  { decls := [⟨nP, v1, [1], [(.always, .dep nZ false false none none [] false)]⟩, ⟨nP, v2, [2], []⟩,
              ⟨nX, v1, [3], [(.always, .dep nZ false false none none [] false)]⟩, ⟨nZ, v1, [4], []⟩],
    tags := [(tagCurrent, nP, v1), (tagCurrent, nX, v1), (tagCurrent, nZ, v1)] }

/-- Under the reading "reachable through the tables of the newly selected versions only", `z` is not reachable from
the request `setup p 2` (`p 2` has no dependencies) — yet it loses its record, although the bystander `x` needs it:
replacing `p 1` unwinds `p 1`'s dependencies.  `C04_frame` is therefore stated for reachability through the tables of
the selected *and the replaced* versions. -/
theorem C04_narrow_frame_fails :
    ∃ e1 e2 e3, envOf (runSetup dbNarrow 10 ⟨nX, none, false, none, false, [], [0]⟩ Setup.Env.empty) = some e1 ∧
      envOf (runSetup dbNarrow 10 ⟨nP, none, false, none, false, [], [0]⟩ e1) = some e2 ∧
      envOf (runSetup dbNarrow 10 ⟨nP, some (.explicit v2.1), false, none, false, [], [0]⟩ e2) = some e3 ∧
      e2.rec? nZ = some v1 ∧ e3.rec? nZ = none ∧ e3.rec? nX = some v1 := by
  refine ⟨⟨[(nZ, v1), (nX, v1)], [(nZ, .own (nZ, v1) []), (nX, .own (nX, v1) [])], [], []⟩,
          ⟨[(nP, v1), (nZ, v1), (nX, v1)], [(nP, .own (nP, v1) []), (nZ, .own (nZ, v1) []), (nX, .own (nX, v1) [])], [], []⟩,
          ⟨[(nP, v2), (nX, v1)], [(nP, .own (nP, v2) []), (nX, .own (nX, v1) [])], [], []⟩, ?_, ?_, ?_, ?_, ?_, ?_⟩ <;>
    decide +kernel

/-- the hypotheses of `C04_keep_fresh` are satisfiable with something to keep: `c 1` is set up, `a` is not -/
example : AllDeclared dbKeep ⟨[(nC, v1)], [(nC, .own (nC, v1) [])], [], []⟩ ∧
    (⟨[(nC, v1)], [(nC, .own (nC, v1) [])], [], []⟩ : Setup.Env).rec? nA = none := by
  constructor
  · intro n v h
    simp at h; obtain ⟨rfl, rfl⟩ := h
    exact ⟨⟨nC, v1, [3], []⟩, by decide +kernel⟩
  · decide +kernel

/-- … and with the requested product set up beforehand: in D21's own history (`a 1`, `c 1` set up; `setup --keep a 3`)
a bystander `x` that `a 1`'s table does not name satisfies the hypothesis of `C04_keep_partial`, `c` does not -/
example : (∀ sd, setupProd dbKeep ⟨[(nC, v1), (nA, v1)], [], [], []⟩ nA = some sd → ¬ ReachFrom dbKeep sd [120]) ∧
    (∃ sd, setupProd dbKeep ⟨[(nC, v1), (nA, v1)], [], [], []⟩ nA = some sd ∧ ReachFrom dbKeep sd nC) := by
  have hsp : setupProd dbKeep ⟨[(nC, v1), (nA, v1)], [], [], []⟩ nA =
      some ⟨nA, v1, [1], [(.always, .dep nC false false none none [] false)]⟩ := by decide +kernel
  constructor
  · intro sd h
    rw [hsp] at h; cases h
    intro ⟨g, n, o, j, v, x, t, kl, k, hg, hw⟩
    simp at hg
    obtain ⟨_, rfl, _⟩ := hg
    have key : ∀ k n, Within dbKeep nC k n → n = nC := by
      intro k n hw
      induction hw with
      | root => rfl
      | step _ hd hn hg ih =>
        subst ih
        simp [dbKeep] at hd
        rcases hd with rfl | rfl | rfl <;> simp at hg <;> simp [nA, nC] at hn
    have := key k _ hw
    simp [nC] at this
  · exact ⟨_, hsp, .always, nC, false, false, none, none, [], false, 0, by simp, Within.root⟩

/-- a product outside the reach of the request exists in `dbKeep`: nothing leads from `c` to `a` -/
example : ∀ k, ¬ Within dbKeep nC k nA := by
  intro k h
  have key : ∀ k n, Within dbKeep nC k n → n = nC := by
    intro k n hw
    induction hw with
    | root => rfl
    | step _ hd hn hg ih =>
      subst ih
      simp [dbKeep] at hd
      rcases hd with rfl | rfl | rfl <;> simp at hg <;> simp [nA, nC] at hn
  have := key k nA h
  simp [nA, nC] at this

/-- the hypotheses of the three theorems above are satisfiable: `dbKeep` has own-directory tables only and defines no alias -/
example : OwnTables dbKeep ∧ ∀ key, ¬ AliasOf dbKeep (fun _ n => ∃ k, Within dbKeep nA k n) key := by
  refine ⟨ownTables_of_check _ (by decide +kernel), ?_⟩
  intro key ⟨d, hd, _, g, val, hg⟩
  simp [dbKeep] at hd
  rcases hd with rfl | rfl | rfl <;> simp at hg

def nB9 : Name := [98]
def v9 : Ver := ([57], 0)

/-- the hypotheses of `C04_keep_partial` tolerate a record of an undeclared version (`b 9`): it is not a set-up product,
`c 1` beside it is kept -/
example : (⟨[(nB9, v9), (nC, v1)], [], [], []⟩ : Setup.Env).rec? nC = some v1 ∧ (∃ d, dbKeep.lookup (nC, v1) = some d) ∧
    dbKeep.lookup (nB9, v9) = none := by
  refine ⟨by decide +kernel, ⟨⟨nC, v1, [3], []⟩, by decide +kernel⟩, by decide +kernel⟩

end EupsModel.C04
