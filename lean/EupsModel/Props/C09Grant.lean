import EupsModel.Lemmas.LockRGrant
import EupsModel.Lemmas.LockRMeasure
/-! C09 — what the repaired lock protocol GRANTS (property theorems; the exclusion theorems are in `Props/C09.lean`).

"Any number of readers may share", "a child of the lock holder may re-enter its parent's lock", "released locks
leave no residue that blocks later commands" — stated for a request made in ANY reachable state (whatever
interleaving, races included, led to it) in which the other processes are at rest, i.e. not in the middle of a
`takeLocks` / `giveLocks` of their own while the requester makes its three or four calls.  (While others are in the
middle of theirs the protocol is deliberately conservative: two requests that exclude each other may both withdraw.) -/
namespace EupsModel.C09
open EupsModel.Lock (Pid Kind Err exFiles parentHolds)
open EupsModel.LockR

/-- "released locks leave no residue that blocks later commands": a request of either kind, made while nobody holds
and the others are at rest, is granted — in three calls (mkdir, create, look). -/
theorem C09_free_lock_granted (kind : Pid → Kind) (lp : Pid → Option Pid) (tries : Pid → Nat) (sched : List Pid)
    (i : Pid) (l : Nat)
    (hpc : (run (init kind lp tries) sched).pc i = .mkdir l)
    (hrest : ∀ j, j ≠ i → quiet ((run (init kind lp tries) sched).pc j) = true)
    (hfree : ∀ j, (run (init kind lp tries) sched).pc j ≠ .hold) :
    (run (run (init kind lp tries) sched) [i, i, i]).pc i = .hold := by
  have h := inv_run _ sched (inv_init kind lp tries)
  generalize run (init kind lp tries) sched = s at *
  obtain ⟨hd, hf⟩ := rest_free h hrest hpc hfree
  exact grant_free hpc hd hf

/-- "any number of readers may share": a shared request made while every holder is shared and the others are at rest
is granted — in three calls. -/
theorem C09_readers_share (kind : Pid → Kind) (lp : Pid → Option Pid) (tries : Pid → Nat) (sched : List Pid)
    (i : Pid) (l : Nat) (hk : kind i = .sh)
    (hpc : (run (init kind lp tries) sched).pc i = .mkdir l)
    (hrest : ∀ j, j ≠ i → quiet ((run (init kind lp tries) sched).pc j) = true)
    (hsh : ∀ j, (run (init kind lp tries) sched).pc j = .hold → kind j = .sh) :
    (run (run (init kind lp tries) sched) [i, i, i]).pc i = .hold := by
  have h := inv_run _ sched (inv_init kind lp tries)
  have hkind : ∀ j, (run (init kind lp tries) sched).kind j = kind j := by intro j; simp [init]
  generalize run (init kind lp tries) sched = s at *
  have hk' : s.kind i = .sh := by rw [hkind, hk]
  have hnf : (Kind.sh, i) ∉ s.files := by
    have := h.noFile (p := i) (by simp [hpc, hasFile])
    rwa [hk'] at this
  have hex : exFiles s.files = [] := by
    cases hx : exFiles s.files with
    | nil => rfl
    | cons a r =>
      have ha : a ∈ exFiles s.files := by rw [hx]; simp
      have ha' := List.mem_filter.1 ha
      obtain ⟨hh, hka, _⟩ := rest_file_holder h hrest hpc ha'.1
      have := hsh a.2 hh
      rw [← hkind, ← hka] at this
      have hex : a.1 = Kind.ex := by simpa using ha'.2
      rw [hex] at this; cases this
  refine grant_share hpc hk' hex hnf ?_
  intro hd
  cases hf : s.files with
  | nil => rfl
  | cons x xs =>
    have := h.inDir (by rw [hf]; simp)
    rw [hd] at this; cases this

/-- "a child of the lock holder may re-enter its parent's lock": a request of either kind by a process that started
with `EUPS_LOCK_PID = p`, made while `p` is the only holder (of either kind) and the others are at rest, is granted —
an exclusive one in four calls (mkdir, the parent test, create, look), a shared one in three. -/
theorem C09_child_reenters (kind : Pid → Kind) (lp : Pid → Option Pid) (tries : Pid → Nat) (sched : List Pid)
    (c p : Pid) (l : Nat) (hlp : lp c = some p)
    (hpc : (run (init kind lp tries) sched).pc c = .mkdir l)
    (hrest : ∀ j, j ≠ c → quiet ((run (init kind lp tries) sched).pc j) = true)
    (hp : (run (init kind lp tries) sched).pc p = .hold)
    (honly : ∀ j, (run (init kind lp tries) sched).pc j = .hold → j = p) :
    (run (run (init kind lp tries) sched) (match kind c with | .ex => [c, c, c, c] | .sh => [c, c, c])).pc c = .hold := by
  have h := inv_run _ sched (inv_init kind lp tries)
  have hnd := nodup_run _ sched (inv_init kind lp tries) (by simp [init])
  have hkind : ∀ j, (run (init kind lp tries) sched).kind j = kind j := by intro j; simp [init]
  have hlp' : (run (init kind lp tries) sched).lp c = some p := by simp [init, hlp]
  rw [← hkind c]
  generalize run (init kind lp tries) sched = s at *
  have hpne : p ≠ c := by intro e; rw [e, hpc] at hp; cases hp
  have hpm : (s.kind p, p) ∈ s.files := h.own p (by simp [hp, hasFile])
  have hd : s.dir = true := h.inDir (by intro e; rw [e] at hpm; simp at hpm)
  have hall : ∀ x ∈ s.files, x = (s.kind p, p) := by
    intro x hx
    obtain ⟨hh, hkx, _⟩ := rest_file_holder h hrest hpc hx
    have := honly x.2 hh
    exact Prod.ext (by rw [hkx, this]) this
  have hfiles : s.files = [(s.kind p, p)] := by
    cases hfs : s.files with
    | nil => rw [hfs] at hpm; simp at hpm
    | cons a r =>
      have ha : a = (s.kind p, p) := hall a (by rw [hfs]; simp)
      cases r with
      | nil => rw [ha]
      | cons b r2 =>
        have hb : b = (s.kind p, p) := hall b (by rw [hfs]; simp)
        rw [hfs, ha, hb] at hnd; simp at hnd
  exact grant_reenter hpc hd hfiles hlp' hpne

/-- … and an incompatible request is refused: while an unrelated process `q` is in its command body and one of the two
locks would be exclusive, no continuation — of the requester alone or of any interleaving — ends with the requester
in its body too, as long as `q` is still in its body. -/
theorem C09_incompatible_refused (kind : Pid → Kind) (lp : Pid → Option Pid) (tries : Pid → Nat) (sched : List Pid)
    (i q : Pid) (hne : q ≠ i) (hunrel : lp i ≠ some q ∧ lp q ≠ some i) (hex : kind i = .ex ∨ kind q = .ex)
    (hq : (run (init kind lp tries) sched).pc q = .hold) :
    (run (init kind lp tries) sched).pc i ≠ .hold := by
  have h := inv_run _ sched (inv_init kind lp tries)
  intro hi
  refine h.excl i q (fun e => hne e.symm) hi hq ?_ (by simpa [init] using hex)
  simp only [related, run_lp, init]
  intro r; rcases r with r | r
  · exact hunrel.1 r
  · exact hunrel.2 r

/-- **A refused request leaves no trace**: in any reachable state with the others at rest, a request that meets an
unrelated holder it is incompatible with ends — after 8 calls (shared: announced, seen, withdrawn) or 3 (exclusive:
turned away at the gate) — refused or waiting for its next attempt, with the lock directory, the lock files and every
other process exactly as they were. -/
theorem C09_refused_request_leaves_no_trace (kind : Pid → Kind) (lp : Pid → Option Pid) (tries : Pid → Nat)
    (sched : List Pid) (i q : Pid) (l : Nat) (hne : q ≠ i) (hlpq : lp i ≠ some q)
    (hex : kind i = .ex ∨ kind q = .ex)
    (hpc : (run (init kind lp tries) sched).pc i = .mkdir l)
    (hq : (run (init kind lp tries) sched).pc q = .hold) :
    ∃ n, n ≤ 8 ∧
      run (run (init kind lp tries) sched) (List.replicate n i) =
        setPC (run (init kind lp tries) sched) i (refusedPC (kind i) l) := by
  have h := inv_run _ sched (inv_init kind lp tries)
  have hkind : ∀ j, (run (init kind lp tries) sched).kind j = kind j := by intro j; simp [init]
  have hlp' : (run (init kind lp tries) sched).lp i = lp i := by simp [init]
  generalize run (init kind lp tries) sched = s at *
  have hqf : (s.kind q, q) ∈ s.files := h.own q (by simp [hq, hasFile])
  have hd : s.dir = true := h.inDir (by intro e; rw [e] at hqf; simp at hqf)
  cases hki : kind i with
  | ex =>
    refine ⟨3, by omega, ?_⟩
    have hp : parentHolds (s.lp i) s.files = false := by
      cases hph : parentHolds (s.lp i) s.files with
      | false => rfl
      | true =>
        -- the one file would be the parent's, but q's file is there and q is not the parent
        unfold parentHolds at hph
        split at hph
        · rename_i p f hl hf
          rw [hf] at hqf
          have : f = (s.kind q, q) := by
            have := List.mem_singleton.1 hqf
            exact this.symm
          rw [this] at hph
          have : q = p := by simpa using hph
          rw [hlp', ← this] at hl
          exact absurd hl hlpq
        · cases hph
    have := refuse_exclusive (s := s) (i := i) (l := l) hpc (by rw [hkind, hki]) hd hp
    simp only [List.replicate] at this ⊢
    rw [this]
  | sh =>
    refine ⟨8, by omega, ?_⟩
    have hkq : kind q = .ex := by
      rcases hex with hex | hex
      · rw [hki] at hex; cases hex
      · exact hex
    have hnf : (Kind.sh, i) ∉ s.files := by
      have := h.noFile (p := i) (by simp [hpc, hasFile])
      rwa [hkind, hki] at this
    rw [hkind, hkq] at hqf
    have := refuse_shared (s := s) (i := i) (l := l) (q := q) hpc (by rw [hkind, hki]) hd hqf hne
      (by rw [hlp']; exact hlpq) hnf
    simp only [List.replicate] at this ⊢
    rw [this]
    cases l <;> rfl

/-- **No livelock, no unbounded retrying**: whatever the schedule — the others may remove the lock directory under
the requester again and again — a command with `ntry = tries + 1` attempts makes at most `10·tries + 9` lock-directory
calls between the start of its `takeLocks` and the end of its `giveLocks` (`callsOf` counts the schedule entries at
which the process, not yet terminated, really makes a call). -/
theorem C09_calls_bounded (kind : Pid → Kind) (lp : Pid → Option Pid) (tries : Pid → Nat) (sched : List Pid)
    (p : Pid) : callsOf p (init kind lp tries) sched ≤ 10 * tries p + 9 := by
  have := calls_bounded p (init kind lp tries) sched
  simp only [init, LockR.measure] at this
  simp only [init]
  omega

/-- A requester that has not (yet) put its lock file down — in particular an updater waiting at the gate for readers
to finish — is invisible to the others: no lock file of its is in the directory, so it turns nobody away. -/
theorem C09_waiting_requester_has_no_file (kind : Pid → Kind) (lp : Pid → Option Pid) (tries : Pid → Nat)
    (sched : List Pid) (i : Pid) (hw : hasFile ((run (init kind lp tries) sched).pc i) = false) (k : Kind) :
    (k, i) ∉ (run (init kind lp tries) sched).files := by
  have h := inv_run _ sched (inv_init kind lp tries)
  intro hm
  have := (h.owner _ hm).2
  simp [hw] at this

/-- non-vacuity of the grants, on one schedule with overlapping calls before the requests in question: S₁ and S₂
acquire interleaved and share; E₀ is refused at the gate (the directory is theirs) and sleeps; after both have
released, E₀'s second attempt is granted (free lock), and its child 3 (EUPS_LOCK_PID = 0) re-enters with an exclusive
request of its own in four calls. -/
example :
    let kind : Pid → Kind := fun i => if i = 0 ∨ i = 3 then .ex else .sh
    let lp : Pid → Option Pid := fun i => if i = 3 then some 0 else none
    let s := run (init kind lp (fun _ => 1))
      ([1, 2, 1, 2, 1, 2] ++ [0, 0, 0] ++ [1, 1, 1, 1, 1, 2, 2, 2, 2, 2] ++ [0, 0, 0] ++ [3, 3, 3, 3])
    s.pc 0 = .hold ∧ s.pc 3 = .hold ∧ s.pc 1 = .done ∧ s.pc 2 = .done ∧
    (run (init kind lp (fun _ => 1)) ([1, 2, 1, 2, 1, 2] ++ [0, 0, 0])).pc 0 = .mkdir 0 ∧
    (run (init kind lp (fun _ => 1)) [1, 2, 1, 2, 1, 2]).pc 2 = .hold := by decide

end EupsModel.C09
