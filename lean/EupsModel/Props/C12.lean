import EupsModel.Lemmas.PathAlg
import EupsModel.Lemmas.PathAlgSeq
import EupsModel.Lemmas.PathAlgMulti
import EupsModel.Lemmas.PathAlgRef
import EupsModel.Lemmas.PathAct
import EupsModel.Lemmas.PathActEups
import EupsModel.Lemmas.PathAlgRun
import EupsModel.Lemmas.PathAlgFlags
import EupsModel.Lemmas.PathActName
import EupsModel.Lemmas.PathActFile
import EupsModel.Lemmas.PathAlgNested
/-! C12 — path-variable commands obey list algebra.  Property theorems only (helper lemmas live in
`Lemmas/PathAlg.lean`, the model in `Model/PathAlg.lean`). -/
namespace EupsModel.C12
open EupsModel EupsModel.PathAlg
variable {α : Type} [DecidableEq α]

/-- envPrepend puts its value first. -/
theorem prepend_first (v : α) (old : List α) :
    (applyL false true [v] old).head? = some v := by
  simp [applyL, prependL, uniq]

/-- The result contains each element once (any direction, any values). -/
theorem nodup (append fwd : Bool) (vals old : List α) : (applyL append fwd vals old).Nodup :=
  uniq_nodup _

/-- envPrepend keeps every other element, in the relative order of first occurrences. -/
theorem prepend_others_kept_in_order (v : α) (old : List α) :
    (applyL false true [v] old).filter (· != v) = (uniq old).filter (· != v) := by
  simp [applyL, prependL, uniq, List.filter_filter]

/-- envAppend keeps every other element, in the relative order of first occurrences. -/
theorem append_others_kept_in_order (v : α) (old : List α) :
    (applyL true true [v] old).filter (· != v) = (uniq old).filter (· != v) := by
  rw [applyL_append_single]
  simp [List.filter_append, List.filter_filter]

/-- envAppend puts its value last — for every prior list, also one that already holds the value (the element
moves; repair of D8). -/
theorem append_last (v : α) (old : List α) :
    (applyL true true [v] old).getLast? = some v := by
  simp [applyL_append_single]

/-- The pinned rule (before the repair of D8: add at the end, then `pathUnique` keeping the first occurrence) puts
the value last only when it was not already present … -/
theorem append_last_pinned_partial (v : α) (old : List α) (h : v ∉ old) :
    (applyLPinned true true [v] old).getLast? = some v := by
  simp [applyLPinned, appendLPinned, uniq_append_singleton v old h]

/-- … and is false without that hypothesis: an element that is already present kept its earlier position (D8). -/
theorem append_present_witness_pinned : applyLPinned true true [1] [1, 2] = [1, 2] := by decide

/-- On lists that do not hold the value the repaired and the pinned rule agree (the repair changes nothing else). -/
theorem append_pinned_agree (v : α) (old : List α) (h : v ∉ old) :
    applyL true true [v] old = applyLPinned true true [v] old := by
  have hf : old.filter (· != v) = old := by
    apply List.filter_eq_self.mpr; intro a ha; simp; intro e; exact h (e ▸ ha)
  simp [applyL, applyLPinned, appendL, appendLPinned, hf]

/-- Unsetup removes exactly the element: nothing equal to `v` is left, everything else is kept. -/
theorem unsetup_removes_exactly (append : Bool) (v : α) (old : List α) :
    applyL append false [v] old = (uniq old).filter (· != v) := by
  simp [applyL, removeL, filter_uniq]

/-- Unsetup after setup restores the (de-duplicated) list when the value was not there before. -/
theorem unsetup_after_setup (append : Bool) (v : α) (old : List α) (h : v ∉ old) :
    applyL append false [v] (applyL append true [v] old) = uniq old := by
  have hf : ((uniq old).filter (· != v)) = uniq old := by
    apply List.filter_eq_self.mpr; intro a ha; have := (mem_uniq old a).mp ha
    simp; intro hav; exact h (hav ▸ this)
  rw [unsetup_removes_exactly]
  cases append
  · simp [applyL, prependL, uniq, List.filter_filter, hf, uniq_idem]
  · rw [applyL_append_single, hf, uniq_append_singleton v _ (fun hm => h ((mem_uniq old v).mp hm))]
    simp [List.filter_append, hf, uniq_idem]

/-- Sequences: any fold of actions leaves a duplicate-free list. -/
theorem sequence_nodup (acts : List (Bool × Bool × α)) (old : List α) :
    acts ≠ [] → (acts.foldl (fun l a => applyL a.1 a.2.1 [a.2.2] l) old).Nodup := by
  intro hne
  obtain ⟨rest, a, rfl⟩ : ∃ rest a, acts = rest ++ [a] :=
    ⟨acts.dropLast, acts.getLast hne, (List.dropLast_concat_getLast hne).symm⟩
  simp only [List.foldl_append, List.foldl_cons, List.foldl_nil]
  exact nodup _ _ _ _

/-- Non-vacuity: a populated list with duplicates, prepend an element that is present. -/
example : applyL false true [3] [1, 3, 1, 2] = [3, 1, 2] := by decide
example : applyL true false [3] (applyL true true [3] [1, 1, 2]) = [1, 2] := by decide


/-! ## whole tables: sequences of contributions to one variable (`Lemmas/PathAlgSeq.lean`) -/

/-- Normal form of a table's contributions `acts` (pairs (append?, value), in table order) to one variable: the
values that were prepended (latest first), then the other elements of the prior list in the order of their first
occurrences, then the values that were appended (latest last) — for every prior list. -/
theorem table_normal_form (acts : List (Bool × α)) (old : List α) (hne : acts ≠ []) :
    setupAll acts old
      = front acts ++ (uniq old).filter (fun x => decide (x ∉ acts.map (·.2))) ++ back acts :=
  setupAll_eq acts old hne

/-- … where every value of the table occurs exactly once in `front ++ back`. -/
theorem table_values_once (acts : List (Bool × α)) :
    (front acts ++ back acts).Nodup ∧ ∀ x, x ∈ front acts ++ back acts ↔ x ∈ acts.map (·.2) :=
  ⟨front_back_nodup acts, fun _ => mem_front_back acts _⟩

/-- List-level inverse (the list half of C02): running the whole table in unsetup mode after its setup restores
the prior list (duplicate-free reading), for arbitrary prior lists not holding the table's values … -/
theorem table_unsetup_restores (acts : List (Bool × α)) (old : List α) (hne : acts ≠ [])
    (h : ∀ a ∈ acts, a.2 ∉ old) : unsetupAll acts (setupAll acts old) = uniq old :=
  unsetupAll_setupAll acts old hne h

/-- … and without that hypothesis exactly the table's values are gone (also occurrences that were there before):
the hypothesis of `table_unsetup_restores` cannot be dropped (witness below). -/
theorem table_unsetup_removes_values (acts : List (Bool × α)) (old : List α) (hne : acts ≠ []) :
    unsetupAll acts (setupAll acts old) = (uniq old).filter (fun x => decide (x ∉ acts.map (·.2))) :=
  unsetupAll_setupAll_filter acts old hne

theorem table_unsetup_present_witness :
    unsetupAll [(false, 1)] (setupAll [(false, 1)] [2, 1]) = [2] := by decide

/-- the order in which the unsetup actions run, and whether they were prepends or appends, does not matter -/
theorem table_unsetup_order_irrelevant (acts : List (Bool × α)) (l : List α) :
    unsetupAll acts.reverse l = unsetupAll acts l :=
  unsetupAll_reverse acts l

/-- Idempotence: setting up the same table twice is the same as once … -/
theorem table_setup_idempotent (acts : List (Bool × α)) (old : List α) :
    setupAll acts (setupAll acts old) = setupAll acts old :=
  setupAll_idem acts old

/-- … in particular for one action. -/
theorem setup_idempotent (app : Bool) (v : α) (old : List α) :
    applyL app true [v] (applyL app true [v] old) = applyL app true [v] old :=
  applyL_idem app v old

/-! order laws between two different values -/

theorem prepend_prepend_order (a b : α) (hab : a ≠ b) (old : List α) :
    applyL false true [b] (applyL false true [a] old)
      = b :: a :: (uniq old).filter (fun x => x != a && x != b) :=
  prepend_prepend a b hab old

theorem append_append_order (a b : α) (hab : a ≠ b) (old : List α) :
    applyL true true [b] (applyL true true [a] old)
      = (uniq old).filter (fun x => x != a && x != b) ++ [a, b] :=
  append_append a b hab old

theorem prepend_append_commute (a b : α) (hab : a ≠ b) (old : List α) :
    applyL true true [b] (applyL false true [a] old) = applyL false true [a] (applyL true true [b] old) :=
  prepend_append_comm a b hab old

/-- unsetup of one value does not disturb the setup of another -/
theorem unsetup_setup_commute (app app2 : Bool) (a b : α) (hab : a ≠ b) (l : List α) :
    applyL app2 false [a] (applyL app true [b] l) = applyL app true [b] (applyL app2 false [a] l) :=
  remove_setup_comm app app2 a b hab l

/-! values holding several elements -/

/-- envPrepend of a value with several elements puts them first in the order written (repair of D121) … -/
theorem prepend_multi_first (vals old : List α) : applyL false true vals old = uniq (vals ++ old) :=
  applyL_prepend_vals vals old

/-- … the pinned loop reversed them. -/
theorem prepend_multi_reversed_witness_pinned : applyLPinned false true [1, 2] [3] = [2, 1, 3] :=
  prepend_multi_reversed_pinned

/-- envAppend of a value with several (distinct) elements puts them last in the order written -/
theorem append_multi_last (vals old : List α) (hnd : vals.Nodup) :
    applyL true true vals old = (uniq old).filter (fun x => decide (x ∉ vals)) ++ vals :=
  applyL_append_vals vals old hnd

/-- unsetup of a value with several elements removes exactly these -/
theorem unsetup_multi_removes_exactly (app : Bool) (vals old : List α) :
    applyL app false vals old = (uniq old).filter (fun x => decide (x ∉ vals)) :=
  applyL_remove_vals app vals old

example : setupAll [(false, 5), (true, 6), (false, 7)] [1, 6, 1, 2] = [7, 5, 1, 2, 6] := by decide
example : unsetupAll [(false, 5), (true, 6)] (setupAll [(false, 5), (true, 6)] [1, 1, 2]) = [1, 2] := by decide

/-! ## string level -/

/-- String level: on a variable whose value is a `c`-separated list of well-formed pieces, the real
string-manipulating action computes exactly the list-level operation. -/
theorem string_level_is_list_level (c : Nat) (hc : c ≠ 36) (append fwd : Bool) (var v : Str)
    (oldl : List Str) (env : Env)
    (hold : ∀ e ∈ oldl, GoodPiece c e) (hv : GoodPiece c v)
    (henv : (env.get var).getD [] = join [c] oldl) :
    envPrepend append fwd var v [c] env
      = .ok (env.set var (join [c] (applyL append fwd [v] oldl))) :=
  envPrepend_lifts c hc append fwd var v oldl env hold hv henv

/-- `$?{VAR}` with VAR undefined: the action does nothing, in either direction. -/
theorem optional_guard (append fwd : Bool) (var value delim : Str) (env : Env)
    (hpre : startsWith value delim = false) (happ : endsWith value delim = false)
    (h : expand env value = .skip) :
    envPrepend append fwd var value delim env = .ok env := by
  unfold envPrepend
  simp [hpre, happ, h]

theorem optional_guard_envSet (var value : Str) (env : Env) (h : expand env value = .skip) :
    envSet true var value env = .ok env := by
  simp [envSet, h]

/-- the guard really is about an undefined optional reference: `$?{K}...` with K undefined skips -/
theorem optional_undefined_skips (env : Env) (key rest : Str)
    (hk : ∀ ch ∈ key, ch ≠ 45 ∧ ch ≠ 125) (hundef : env.get key = none) :
    expand env (36 :: 63 :: 123 :: key ++ 125 :: rest) = .skip := by
  have htw : ∀ (k : Str), (∀ ch ∈ k, ch ≠ 45 ∧ ch ≠ 125) →
      takeWhileNot (fun c => c == 45 || c == 125) (k ++ 125 :: rest) = (k, 125 :: rest) := by
    intro k hk
    induction k with
    | nil => simp [takeWhileNot]
    | cons a as ih =>
      have ha := hk a (by simp)
      have := ih (fun ch hch => hk ch (by simp [hch]))
      simp [takeWhileNot, ha.1, ha.2, this]
  simp [expand, expandGo, varAt, htw key hk, hundef]

/-- envSet sets exactly the given value (no references in it). -/
theorem envset_exact (var v : Str) (env : Env) (hne : v ≠ []) (hd : 36 ∉ v) :
    envSet true var v env = .ok (env.set var v) := by
  cases v with
  | nil => exact absurd rfl hne
  | cons a as => simp [envSet, expand_no_dollar env _ hd, setEnvI, interp_no_dollar env _ _ hd]

/-- ... and the variable then reads back as that value; unsetup removes the variable. -/
theorem envset_get (var v : Str) (env : Env) (hne : v ≠ []) (hd : 36 ∉ v) :
    ∃ env', envSet true var v env = .ok env' ∧ env'.get var = some v :=
  ⟨_, envset_exact var v env hne hd, Env.get_set_same _ _ _⟩

theorem envset_unsetup (var v : Str) (env : Env) :
    ∃ env', envSet false var v env = .ok env' ∧ env'.get var = none :=
  ⟨env.unset var, by simp [envSet], Env.get_unset_same _ _⟩

example : expand [] (Str.ofString "$?{NOPE}/z") = .skip := by decide
example : GoodPiece 58 (Str.ofString "/opt/p/1.0/bin") := by unfold GoodPiece; decide


/-- MANPATH style: a leading and/or trailing delimiter written around the value asks for an empty
first / last element; on well-formed values the new value of the variable is exactly the list
result with the requested empty elements re-attached (and never doubled). -/
theorem manpath_flags (c : Nat) (hc : c ≠ 36) (append pre app : Bool) (var v : Str)
    (oldl : List Str) (env : Env)
    (hold : ∀ e ∈ oldl, GoodPiece c e) (hv : GoodPiece c v)
    (henv : (env.get var).getD [] = join [c] oldl) :
    envPrepend append true var (flagged c pre app v) [c] env
      = .ok (env.set var (flagged c pre app (join [c] (applyL append true [v] oldl)))) :=
  envPrepend_lifts_flags c hc append pre app var v oldl env hold hv henv

/-- ... so the value starts (ends) with the delimiter iff a leading (trailing) one was written. -/
theorem manpath_leading_iff (c : Nat) (pre app : Bool) (l : List Str) (hne : l ≠ [])
    (h : ∀ e ∈ l, GoodPiece c e) :
    startsWith (flagged c pre app (join [c] l)) [c] = pre := by
  cases pre
  · have hsw := startsWith_join_good c l hne h
    obtain ⟨p, x, hp, _⟩ := getLast_join_good c l hne h
    cases hJ : join [c] l with
    | nil => rw [hJ] at hp; exact absurd hp (by simp)
    | cons y ys =>
      rw [hJ] at hsw
      have hy : (c == y) = false := by simpa [startsWith, List.isPrefixOf] using hsw
      simp [flagged, startsWith, List.isPrefixOf, hy]
  · simp [flagged, startsWith, List.isPrefixOf]

example : flagged 58 true false (Str.ofString "/usr/man") = Str.ofString ":/usr/man" := by decide


/-! ## `${VAR}` references inside values (`Lemmas/PathAlgRef.lean`) -/

/-- "envSet sets exactly the given value with `${VAR}` references expanded": a reference to a defined variable,
anywhere in the value, is replaced by the variable's value. -/
theorem envset_expands_reference (var pre key post v : Str) (env : Env)
    (hpre : 36 ∉ pre) (hpost : 36 ∉ post) (hv36 : 36 ∉ v) (hk : GoodKey key) (hv : env.get key = some v)
    (hne : pre ++ v ++ post ≠ []) :
    envSet true var (pre ++ (36 :: 123 :: key ++ [125]) ++ post) env = .ok (env.set var (pre ++ v ++ post)) := by
  have hnd : 36 ∉ pre ++ v ++ post := by simp [hpre, hpost, hv36]
  simp only [envSet, ↓reduceIte]
  rw [expand_defined env pre key post v hpre hpost hk hv]
  cases h : pre ++ v ++ post with
  | nil => exact absurd h hne
  | cons a as =>
    rw [h] at hnd
    simp [setEnvI, interp_no_dollar env _ _ hnd]

/-- `${VAR-default}` with VAR undefined stands for the default. -/
theorem envset_uses_default (var pre key dflt post : Str) (env : Env)
    (hpre : 36 ∉ pre) (hpost : 36 ∉ post) (hd36 : 36 ∉ dflt) (hk : GoodKey key)
    (hd : dflt ≠ []) (hd2 : 125 ∉ dflt) (hv : env.get key = none) :
    envSet true var (pre ++ (36 :: 123 :: key ++ 45 :: dflt ++ [125]) ++ post) env
      = .ok (env.set var (pre ++ dflt ++ post)) := by
  have hnd : 36 ∉ pre ++ dflt ++ post := by simp [hpre, hpost, hd36]
  simp only [envSet, ↓reduceIte]
  rw [expand_default env pre key dflt post hpre hpost hk hd hd2 hv]
  cases h : pre ++ dflt ++ post with
  | nil => simp at h; exact absurd h.2.1 hd
  | cons a as =>
    rw [h] at hnd
    simp [setEnvI, interp_no_dollar env _ _ hnd]

/-- A reference to an undefined variable (no default, not optional) is refused: envSet … -/
theorem envset_undefined_refused (var pre key post : Str) (env : Env)
    (hpre : 36 ∉ pre) (hpost : 36 ∉ post) (hk : GoodKey key) (hv : env.get key = none) :
    envSet true var (pre ++ (36 :: 123 :: key ++ [125]) ++ post) env = .runtimeError := by
  simp only [envSet, ↓reduceIte]
  rw [expand_undefined env pre key post hpre hpost hk hv]

/-- … and envPrepend / envAppend in setup mode (the value free of the delimiter character). -/
theorem prepend_undefined_refused (c : Nat) (append : Bool) (var pre key post : Str) (env : Env)
    (hpre : 36 ∉ pre) (hpost : 36 ∉ post) (hk : GoodKey key) (hv : env.get key = none)
    (hc : c ∉ pre ++ (36 :: 123 :: key ++ [125]) ++ post) :
    envPrepend append true var (pre ++ (36 :: 123 :: key ++ [125]) ++ post) [c] env = .runtimeError :=
  envPrepend_refuses append var _ [c] env (startsWith_not_mem c _ hc) (endsWith_not_mem c _ hc)
    (expand_undefined env pre key post hpre hpost hk hv)

/-- `$?{VAR}` anywhere in the value, VAR undefined: the action does nothing (either direction). -/
theorem optional_guard_anywhere (c : Nat) (append fwd : Bool) (var pre key post : Str) (env : Env)
    (hpre : 36 ∉ pre) (hpost : 36 ∉ post) (hk : GoodKey key) (hv : env.get key = none)
    (hc : c ∉ pre ++ (36 :: 63 :: 123 :: key ++ [125]) ++ post) :
    envPrepend append fwd var (pre ++ (36 :: 63 :: 123 :: key ++ [125]) ++ post) [c] env = .ok env :=
  optional_guard append fwd var _ [c] env (startsWith_not_mem c _ hc) (endsWith_not_mem c _ hc)
    (expand_optional_undefined env pre key post hpre hpost hk hv)

/-- envPrepend / envAppend / their unsetup with a value written with a reference (`${PROD_DIR}/bin`): the list
operation on the *expanded* value — so setup and unsetup act on the same element (D7 repaired). -/
theorem path_expands_reference (c : Nat) (hc : c ≠ 36) (append fwd : Bool) (var pre key post v : Str)
    (oldl : List Str) (env : Env)
    (hpre : 36 ∉ pre) (hpost : 36 ∉ post) (hk : GoodKey key) (hv : env.get key = some v)
    (hcv : c ∉ pre ++ (36 :: 123 :: key ++ [125]) ++ post)
    (hold : ∀ e ∈ oldl, GoodPiece c e) (hgood : GoodPiece c (pre ++ v ++ post))
    (henv : (env.get var).getD [] = join [c] oldl) :
    envPrepend append fwd var (pre ++ (36 :: 123 :: key ++ [125]) ++ post) [c] env
      = .ok (env.set var (join [c] (applyL append fwd [pre ++ v ++ post] oldl))) :=
  envPrepend_lifts_expand c hc append fwd var _ _ oldl env hold hgood
    (startsWith_not_mem c _ hcv) (endsWith_not_mem c _ hcv)
    (expand_defined env pre key post v hpre hpost hk hv) henv

example : GoodKey (Str.ofString "PROD_DIR") := by unfold GoodKey; decide
example : envSet true (Str.ofString "X") (Str.ofString "a/${FOO}/b") [(Str.ofString "FOO", Str.ofString "/foo")]
    = .ok [(Str.ofString "FOO", Str.ofString "/foo"), (Str.ofString "X", Str.ofString "a//foo/b")] := by decide


/-! ## the actions as `Action.execute` runs them for a product's table (`Model/PathAct.lean`, `Lemmas/PathAct.lean`) -/
section Actions
open EupsModel.PathAct

/-- Product macros (`Table.expandEupsVariables`) leave text without `$` alone … -/
theorem macros_leave_plain_text (p : ProdInfo) (s : Str) (h : 36 ∉ s) : expandMacros p s = s :=
  expandMacros_no_dollar p s h

/-- … `${PRODUCT_DIR}` stands for the product's directory … -/
theorem product_dir_macro (p : ProdInfo) (d tail : Str) (hd : p.dir = some d) (hne : d ≠ [])
    (hd36 : 36 ∉ d) (ht : 36 ∉ tail) : expandMacros p (mDIR ++ tail) = d ++ tail :=
  expandMacros_product_dir p d tail hd hne hd36 ht

/-- … and `envPrepend(VAR, ${PRODUCT_DIR}/bin)` (any such tail, either command, either direction) in the table of a
product with directory `d` is the list operation with the element `d/bin`. -/
theorem path_product_dir (c : Nat) (hc : c ≠ 36) (p : ProdInfo) (app fwd : Bool) (var d tail : Str)
    (oldl : List Str) (s : St) (hd : p.dir = some d) (hne : d ≠ []) (hvar : 36 ∉ var)
    (hold : ∀ e ∈ oldl, GoodPiece c e) (hv : GoodPiece c (d ++ tail))
    (henv : (s.env.get var).getD [] = join [c] oldl) :
    exec fwd ((Act.path app var (mDIR ++ tail) [c]).expandMacros p) s
      = .ok { forgetEnv s var with env := s.env.set var (join [c] (applyL app fwd [d ++ tail] oldl)) } :=
  exec_path_product_dir c hc p app fwd var d tail oldl s hd hne hvar hold hv henv

/-- `$?{PRODUCT_DIR}` in the table of a product without a directory (`none`) stays as written, and the action it
guards does nothing. -/
theorem optional_product_dir_guard (p : ProdInfo) (fwd app : Bool) (var tail delim : Str) (s : St)
    (hd : p.dir = some sNone ∨ truthy p.dir = none) (ht : 36 ∉ tail)
    (hpre : startsWith (mDIRopt ++ tail) delim = false) (hend : endsWith (mDIRopt ++ tail) delim = false)
    (hundef : s.env.get (Str.ofString "PRODUCT_DIR") = none) :
    expandMacros p (mDIRopt ++ tail) = mDIRopt ++ tail ∧
    exec fwd (.path app var (mDIRopt ++ tail) delim) s = .ok s :=
  ⟨expandMacros_optional_dir_none p tail hd ht,
   exec_path_optional_dir_none fwd app var tail delim s hpre hend hundef⟩

/-- Frame: an action changes no environment variable but its own (any command, any direction, any state). -/
theorem other_variables_untouched (fwd : Bool) (a : Act) (s s' : St) (k : Str)
    (h : exec fwd a s = .ok s') (hk : k ≠ a.target) : s'.env.get k = s.env.get k :=
  exec_other_var fwd a s s' k h hk

/-- addAlias defines exactly the alias (the words joined by blanks), leaves the others and the environment … -/
theorem alias_setup_exact (key : Str) (ws : List Str) (s : St) :
    ∃ s', exec true (.alias key ws) s = .ok s' ∧ s'.aliases.get key = some (joinWords ws) ∧
      (∀ k, k ≠ key → s'.aliases.get k = s.aliases.get k) ∧ s'.env = s.env :=
  exec_alias_setup key ws s

/-- … and in unsetup mode removes exactly it (and records that the shell must forget it). -/
theorem alias_unsetup_removes (key : Str) (ws : List Str) (s : St) :
    ∃ s', exec false (.alias key ws) s = .ok s' ∧ s'.aliases.get key = none ∧
      (∀ k, k ≠ key → s'.aliases.get k = s.aliases.get k) ∧ s'.oldAliases.get key = some none :=
  exec_alias_unsetup key ws s

/-- the commands on variables never touch the aliases -/
theorem aliases_untouched (fwd : Bool) (a : Act) (s s' : St) (h : exec fwd a s = .ok s')
    (ha : ∀ k ws, a ≠ .alias k ws) : s'.aliases = s.aliases ∧ s'.oldAliases = s.oldAliases :=
  exec_aliases_untouched fwd a s s' h ha

/-- `--force`: without it the record of the old environment is never touched … -/
theorem noforce_keeps_old_environment (fwd : Bool) (a : Act) (s s' : St) (hf : s.force = false)
    (h : exec fwd a s = .ok s') : s'.oldEnv = s.oldEnv :=
  exec_noforce_oldEnv fwd a s s' hf h

/-- … with it, envSet forgets the variable's old value (so that it is always exported) … -/
theorem force_set_forgets (fwd : Bool) (var value : Str) (s s' : St) (hf : s.force = true)
    (hin : s.oldEnv.has var = true) (h : exec fwd (.set var value) s = .ok s') :
    s'.oldEnv.get var = some none :=
  exec_set_force_forgets fwd var value s s' hf hin h

/-- … and so does envPrepend / envAppend unless the action is skipped by its `$?{VAR}` guard. -/
theorem force_path_forgets (fwd app : Bool) (var value delim : Str) (s s' : St) (hf : s.force = true)
    (hin : s.oldEnv.has var = true) (hns : exec.expandSkips app fwd var value delim s.env = false)
    (h : exec fwd (.path app var value delim) s = .ok s') : s'.oldEnv.get var = some none :=
  exec_path_force_forgets fwd app var value delim s s' hf hin hns h

/-- envUnset removes the variable; its unsetup does nothing. -/
theorem envunset_removes (var : Str) (s : St) :
    (∃ s', exec true (.unset var) s = .ok s' ∧ s'.env.get var = none ∧ s'.oldEnv = s.oldEnv) ∧
    exec false (.unset var) s = .ok s :=
  ⟨exec_unset_get var s, exec_unset_unsetup var s⟩

/-- A table can unset only its product's own `<NAME>_DIR`: an envUnset line for any other variable never reaches
execution. -/
theorem table_unsets_only_own_dir (name var : Str) (h1 : var ≠ Str.ofString "PRODUCT_DIR")
    (h2 : var ≠ upper name ++ Str.ofString "_DIR") : readFilter name (.unset var) = none :=
  readFilter_other name var h1 h2

end Actions


/-! ## the elements already in the list are stored as they are (repair of D123) -/

/-- String level with the weakest hypothesis on the prior value: its elements only have to be non-empty and free of the
delimiter — they may hold `$` or `${VAR}` text, which is kept as it is (the pinned code re-interpolated the whole list
when it stored it). -/
theorem string_level_any_old_elements (c : Nat) (append fwd : Bool) (var v : Str) (oldl : List Str) (env : Env)
    (hold : ∀ e ∈ oldl, OldPiece c e) (hv : GoodPiece c v)
    (henv : (env.get var).getD [] = join [c] oldl) :
    envPrepend append fwd var v [c] env = .ok (env.set var (join [c] (applyL append fwd [v] oldl))) :=
  envPrepend_lifts_old c append fwd var v oldl env hold hv henv

/-- The pinned code rewrote an element that was already there (and so could produce a duplicate) … -/
theorem old_element_rewritten_witness_pinned :
    envPrependPinned false true (Str.ofString "V") (Str.ofString "q") [58]
        [(Str.ofString "V", Str.ofString "${F}/x:/f/x"), (Str.ofString "F", Str.ofString "/f")]
      = .ok [(Str.ofString "V", Str.ofString "q:/f/x:/f/x"), (Str.ofString "F", Str.ofString "/f")] := by decide

/-- … the repaired code keeps it. -/
theorem old_element_kept_example :
    envPrepend false true (Str.ofString "V") (Str.ofString "q") [58]
        [(Str.ofString "V", Str.ofString "${F}/x:/f/x"), (Str.ofString "F", Str.ofString "/f")]
      = .ok [(Str.ofString "V", Str.ofString "q:${F}/x:/f/x"), (Str.ofString "F", Str.ofString "/f")] := by decide

/-- A value with a nested reference (`${F}` whose value is `${B}/n`): the pinned code added it expanded but, in
unsetup mode, looked for it unexpanded, so it stayed … -/
theorem nested_reference_not_removed_witness_pinned :
    envPrependPinned false false (Str.ofString "V") (Str.ofString "${F}/bin") [58]
        [(Str.ofString "V", Str.ofString "/b/n/bin:a"), (Str.ofString "F", Str.ofString "${B}/n"),
         (Str.ofString "B", Str.ofString "/b")]
      = .ok [(Str.ofString "V", Str.ofString "/b/n/bin:a"), (Str.ofString "F", Str.ofString "${B}/n"),
         (Str.ofString "B", Str.ofString "/b")] := by decide

/-- … the repaired code removes what it added. -/
theorem nested_reference_removed_example :
    envPrepend false false (Str.ofString "V") (Str.ofString "${F}/bin") [58]
        [(Str.ofString "V", Str.ofString "/b/n/bin:a"), (Str.ofString "F", Str.ofString "${B}/n"),
         (Str.ofString "B", Str.ofString "/b")]
      = .ok [(Str.ofString "V", Str.ofString "a"), (Str.ofString "F", Str.ofString "${B}/n"),
         (Str.ofString "B", Str.ofString "/b")] := by decide



/-- Two references in one value: each is replaced by the value of its own variable (the pinned code of round 0
replaced both by the first one's: D22) — at the level of envSet. -/
theorem envset_two_references (var pre keyA mid keyB post a b : Str) (env : Env)
    (hpre : 36 ∉ pre) (hmid : 36 ∉ mid) (hpost : 36 ∉ post) (ha : 36 ∉ a) (hb : 36 ∉ b)
    (hkA : GoodKey keyA) (hkB : GoodKey keyB)
    (hA : env.get keyA = some a) (hB : env.get keyB = some b) (hne : pre ++ a ++ mid ++ b ++ post ≠ []) :
    envSet true var (pre ++ (36 :: 123 :: keyA ++ 125 :: (mid ++ (36 :: 123 :: keyB ++ 125 :: post)))) env
      = .ok (env.set var (pre ++ a ++ mid ++ b ++ post)) := by
  have hnd : 36 ∉ pre ++ a ++ mid ++ b ++ post := by simp [hpre, hmid, hpost, ha, hb]
  simp only [envSet, ↓reduceIte]
  rw [expand_two_defined env pre keyA mid keyB post a b hpre hmid hpost hkA hkB hA hB]
  cases h : pre ++ a ++ mid ++ b ++ post with
  | nil => exact absurd h hne
  | cons x xs =>
    rw [h] at hnd
    simp [setEnvI, interp_no_dollar env _ _ hnd]

/-- A value written with a reference whose variable's value holds a reference itself (`${F}/bin` with `F = v1${B}v2`):
setup and unsetup both act on the fully expanded element `pre v1 b v2 post` (repair of D123: the pinned code added it
expanded and looked for it unexpanded). -/
theorem path_nested_reference (c : Nat) (append fwd : Bool) (var pre keyF post v1 keyB v2 b : Str)
    (oldl : List Str) (env : Env)
    (hpre : 36 ∉ pre) (hpost : 36 ∉ post) (hv1 : 36 ∉ v1) (hv2 : 36 ∉ v2)
    (hkF : GoodKey keyF) (hkB : 125 ∉ keyB)
    (hF : env.get keyF = some (v1 ++ (36 :: 123 :: keyB ++ [125]) ++ v2)) (hB : env.get keyB = some b)
    (hcv : c ∉ pre ++ (36 :: 123 :: keyF ++ [125]) ++ post)
    (hold : ∀ e ∈ oldl, OldPiece c e) (hgood : GoodPiece c ((pre ++ v1) ++ b ++ (v2 ++ post)))
    (henv : (env.get var).getD [] = join [c] oldl) :
    envPrepend append fwd var (pre ++ (36 :: 123 :: keyF ++ [125]) ++ post) [c] env
      = .ok (env.set var (join [c] (applyL append fwd [(pre ++ v1) ++ b ++ (v2 ++ post)] oldl))) := by
  have hexp := expand_defined env pre keyF post _ hpre hpost hkF hF
  have hw : pre ++ (v1 ++ (36 :: 123 :: keyB ++ [125]) ++ v2) ++ post
      = (pre ++ v1) ++ (36 :: 123 :: keyB ++ [125]) ++ (v2 ++ post) := by simp [List.append_assoc]
  have hint := interp_defined env (pre ++ v1) keyB (v2 ++ post) b
    (by simp [hpre, hv1]) (by simp [hv2, hpost]) hkB hB
  rw [← hw] at hint
  exact envPrepend_lifts_nested c append fwd var _ _ _ oldl env hold hgood
    (startsWith_not_mem c _ hcv) (endsWith_not_mem c _ hcv) hexp hint henv

/-! ## `${EUPS_PATH[n]}` (`Lemmas/PathActEups.lean`; repair of D122) -/
section EupsPath
open EupsModel.PathAct

/-- A subscripted reference to `$EUPS_PATH` anywhere in an argument is replaced by that element of the path (or by
`${EUPS_PATH}` when the index is past the end) and the text around it stays. -/
theorem eups_path_subscript (p : ProdInfo) (ep pre ds post : Str) (hpre : 36 ∉ pre) (hpost : 36 ∉ post)
    (h : AllDigits ds) (hname : 91 ∉ p.name) :
    expandArg p (some ep) (pre ++ pEUPSPATH ++ ds ++ 93 :: 125 :: post)
      = pre ++ (split [58] ep).getD (Str.toNat ds) mEUPSPATH ++ post :=
  expandArg_eups_path p ep pre ds post hpre hpost h hname

/-- The pinned rule made the element the whole argument. -/
theorem eups_path_subscript_witness_pinned :
    subEupsPathPinned [Str.ofString "/st", Str.ofString "/o"] (Str.ofString "${EUPS_PATH[0]}/share")
      = some (Str.ofString "/st") := by decide

/-- With `EUPS_PATH` unset an argument holding such a reference stays exactly as written. -/
theorem eups_path_unset (p : ProdInfo) (arg : Str) (h : hasEupsPathRef (expandMacros p arg) = true) :
    expandArg p none arg = arg :=
  expandArg_unset_ref p arg h

/-- Arguments without `$` are not touched by any step of `Table.expandEupsVariables`. -/
theorem expand_arg_plain (p : ProdInfo) (ep : Option Str) (s : Str) (h : 36 ∉ s) : expandArg p ep s = s :=
  expandArg_no_dollar p ep s h

end EupsPath


/-! ## a whole table on one variable, at string level (`Lemmas/PathAlgRun.lean`) -/

/-- The table's envPrepend/envAppend lines on one variable, run through the string-manipulating action one after the
other, compute the list-level normal form `setupAll` on the variable's value and touch no other variable. -/
theorem table_run_string_level (c : Nat) (var : Str) (acts : List (Bool × Str)) (oldl : List Str) (env : Env)
    (hgood : ∀ a ∈ acts, GoodPiece c a.2) (hold : ∀ e ∈ oldl, OldPiece c e)
    (henv : (env.get var).getD [] = join [c] oldl) (hne : acts ≠ []) :
    ∃ env', pathRun c var true acts env = .ok env'
      ∧ env'.get var = some (join [c] (setupAll acts oldl))
      ∧ ∀ k, k ≠ var → env'.get k = env.get k :=
  pathRun_setup c var acts oldl env hgood hold henv hne

/-- String-level inverse (the path-variable half of C02): setup of the table's lines, then the same lines in unsetup
mode, leaves the variable with its prior elements (duplicate-free reading) and every other variable as it was … -/
theorem table_roundtrip_string_level (c : Nat) (var : Str) (acts : List (Bool × Str)) (oldl : List Str) (env : Env)
    (hgood : ∀ a ∈ acts, GoodPiece c a.2) (hold : ∀ e ∈ oldl, OldPiece c e)
    (henv : (env.get var).getD [] = join [c] oldl) (hne : acts ≠ [])
    (hfresh : ∀ a ∈ acts, a.2 ∉ oldl) :
    ∃ env1 env2, pathRun c var true acts env = .ok env1 ∧ pathRun c var false acts env1 = .ok env2
      ∧ env2.get var = some (join [c] (uniq oldl))
      ∧ ∀ k, k ≠ var → env2.get k = env.get k :=
  pathRun_roundtrip c var acts oldl env hgood hold henv hne hfresh

/-- … and when the prior value had no duplicate the whole environment is back, string for string. -/
theorem table_roundtrip_restores_environment (c : Nat) (var : Str) (acts : List (Bool × Str)) (oldl : List Str)
    (env : Env) (hgood : ∀ a ∈ acts, GoodPiece c a.2) (hold : ∀ e ∈ oldl, OldPiece c e)
    (henv : env.get var = some (join [c] oldl)) (hne : acts ≠ [])
    (hfresh : ∀ a ∈ acts, a.2 ∉ oldl) (hnd : oldl.Nodup) :
    ∃ env1 env2, pathRun c var true acts env = .ok env1 ∧ pathRun c var false acts env1 = .ok env2
      ∧ ∀ k, env2.get k = env.get k :=
  pathRun_roundtrip_nodup c var acts oldl env hgood hold henv hne hfresh hnd

/-- Repeated setup of the table changes nothing any more (string level, every variable). -/
theorem table_run_idempotent (c : Nat) (var : Str) (acts : List (Bool × Str)) (oldl : List Str) (env : Env)
    (hgood : ∀ a ∈ acts, GoodPiece c a.2) (hold : ∀ e ∈ oldl, OldPiece c e)
    (henv : (env.get var).getD [] = join [c] oldl) :
    ∃ env1 env2, pathRun c var true acts env = .ok env1 ∧ pathRun c var true acts env1 = .ok env2
      ∧ ∀ k, env2.get k = env1.get k :=
  pathRun_twice c var acts oldl env hgood hold henv


/-- The product's own `${<NAME>_DIR}` stands for its directory whatever characters the name holds (`c++`, `a.b`:
the reference is matched literally; repair of D124).  Hypothesis: the reference does not itself spell a `${PRODUCT…`
macro (a product called `product` writes `${PRODUCT_DIR}`, which the earlier step owns — with the same result). -/
theorem name_dir_macro (p : PathAct.ProdInfo) (d tail : Str) (hd : p.dir = some d) (hne : d ≠ [])
    (hd36 : 36 ∉ d) (ht : 36 ∉ tail) (hn36 : 36 ∉ p.name)
    (hP : PathAct.sPRODUCT.isPrefixOf (PathAct.upper p.name ++ Str.ofString "_DIR}" ++ tail) = false) :
    PathAct.expandMacros p (PathAct.mNameDir p.name ++ tail) = d ++ tail :=
  PathAct.expandMacros_name_dir p d tail hd hne hd36 ht hn36 hP

/-- … and a reference to another product's variable is not this product's: concrete instance for `c++` vs `${C_DIR}`
(the pinned pattern `\${C++_DIR}` matched it). -/
theorem other_product_dir_untouched_example :
    PathAct.expandMacros PathAct.cxx (Str.ofString "${C_DIR}/lib") = Str.ofString "${C_DIR}/lib" ∧
    PathAct.expandMacros PathAct.cxx (Str.ofString "${C++_DIR}/bin") = Str.ofString "/opt/c/bin" := by decide


/-- Frame for a whole run (a table's actions in order, any directions): a variable that no action targets keeps its
value; without addAlias lines the aliases are untouched. -/
theorem run_frame (acts : List (Bool × PathAct.Act)) (s s' : PathAct.St) (k : Str)
    (h : PathAct.run acts s = .ok s') (hk : ∀ a ∈ acts, k ≠ a.2.target) : s'.env.get k = s.env.get k :=
  PathAct.run_other_var acts s s' k h hk

theorem run_aliases_frame (acts : List (Bool × PathAct.Act)) (s s' : PathAct.St)
    (h : PathAct.run acts s = .ok s') (hal : ∀ a ∈ acts, ∀ key ws, a.2 ≠ .alias key ws) :
    s'.aliases = s.aliases :=
  PathAct.run_aliases_untouched acts s s' h hal


/-! ## what `Product.getTable` hands out for a table file (`Lemmas/PathActFile.lean`) -/
section File
open EupsModel.PathAct

/-- Lines other than envUnset all come out of the file, in order, with the older synonyms rewritten and the macros
expanded in every argument. -/
theorem table_file_lines_come_through (p : ProdInfo) (ep : Option Str) (acts : List (Bool × Act))
    (h : ∀ a ∈ acts, ∀ v, a.2 ≠ .unset v) :
    fromFile p ep acts = acts.map (fun a => (a.1, (a.2.mapArgs legacySyn).expandAll p ep)) :=
  fromFile_no_unset p ep acts h

/-- An envUnset line for a variable other than the product's own directory variable never comes out … -/
theorem table_file_drops_foreign_unset (p : ProdInfo) (ep : Option Str) (fwd : Bool) (var : Str)
    (rest : List (Bool × Act)) (h36 : 36 ∉ var)
    (h1 : var ≠ Str.ofString "PRODUCT_DIR") (h2 : var ≠ upper p.name ++ Str.ofString "_DIR") :
    fromFile p ep ((fwd, .unset var) :: rest) = fromFile p ep rest :=
  fromFile_drops_foreign_unset p ep fwd var rest h36 h1 h2

/-- … and `envUnset(PRODUCT_DIR)` comes out as the unsetting of `<NAME>_DIR`. -/
theorem table_file_unset_product_dir (p : ProdInfo) (ep : Option Str) (fwd : Bool) (rest : List (Bool × Act))
    (hn36 : 36 ∉ p.name) :
    fromFile p ep ((fwd, .unset (Str.ofString "PRODUCT_DIR")) :: rest)
      = (fwd, .unset (upper p.name ++ Str.ofString "_DIR")) :: fromFile p ep rest :=
  fromFile_unset_product_dir p ep fwd rest hn36

/-- The older synonym `${UPS_PROD_DIR}` is `${PRODUCT_DIR}` (`Table._rewrite`), wherever it stands in an argument. -/
theorem legacy_ups_prod_dir (pre post : Str) (hpre : 36 ∉ pre) (hpost : 36 ∉ post) :
    legacySyn (pre ++ lUPSPRODDIR ++ post) = pre ++ mDIR ++ post :=
  legacySyn_ups_prod_dir pre post hpre hpost

end File

/-! ## delimiters of several characters, values of several elements (`Lemmas/PathAlgMulti.lean`) -/

/-- `d.join(l).split(d) = l` for a delimiter of any length when no piece holds the delimiter's first character … -/
theorem split_join_any_delimiter (c : Nat) (ds : Str) (l : List Str) (hne : l ≠ []) (h : ∀ e ∈ l, c ∉ e) :
    split (c :: ds) (join (c :: ds) l) = l :=
  split_join_multi c ds l hne h

/-- … which cannot be dropped: `"a:" :: "b"` joined with `::` splits as `"a", ":b"`. -/
theorem split_join_witness : split [58, 58] (join [58, 58] [[97, 58], [98]]) = [[97], [58, 98]] :=
  split_join_multi_witness

/-- String level for a literal delimiter of any length (`::`, …): on well-formed values (non-empty pieces sharing no
character with the delimiter, no `$`) the action computes exactly the list operation. -/
theorem string_level_is_list_level_any_delimiter (d : Str) (hd : d ≠ []) (hd36 : 36 ∉ d) (append fwd : Bool)
    (var v : Str) (oldl : List Str) (env : Env)
    (hold : ∀ e ∈ oldl, GoodPieceD d e) (hv : GoodPieceD d v)
    (henv : (env.get var).getD [] = join d oldl) :
    envPrepend append fwd var v d env = .ok (env.set var (join d (applyL append fwd [v] oldl))) :=
  envPrepend_lifts_multi d hd hd36 append fwd var v oldl env hold hv henv

/-- … and for a value holding several elements (`a:b:c` written in the table): the list operation on all of them. -/
theorem string_level_is_list_level_multi_value (d : Str) (hd : d ≠ []) (hd36 : 36 ∉ d) (append fwd : Bool)
    (var : Str) (vals oldl : List Str) (env : Env) (hvne : vals ≠ [])
    (hold : ∀ e ∈ oldl, GoodPieceD d e) (hv : ∀ e ∈ vals, GoodPieceD d e)
    (henv : (env.get var).getD [] = join d oldl) :
    envPrepend append fwd var (join d vals) d env = .ok (env.set var (join d (applyL append fwd vals oldl))) :=
  envPrepend_lifts_vals d hd hd36 append fwd var vals oldl env hvne hold hv henv

example : GoodPieceD [58, 58] (Str.ofString "/opt/bin") := by unfold GoodPieceD; decide


/-- MANPATH style for a literal delimiter of any length and a value of several elements: the new value is the list
result with the requested leading / trailing delimiters re-attached, never doubled; the elements the list already
holds may carry any `$` text. -/
theorem manpath_flags_any_delimiter (d : Str) (hd : d ≠ []) (hd36 : 36 ∉ d) (append pre app : Bool) (var : Str)
    (vals oldl : List Str) (env : Env) (hvne : vals ≠ [])
    (hold : ∀ e ∈ oldl, OldPieceD d e) (hv : ∀ e ∈ vals, GoodPieceD d e)
    (henv : (env.get var).getD [] = join d oldl) :
    envPrepend append true var (flaggedD d pre app (join d vals)) d env
      = .ok (env.set var (flaggedD d pre app (join d (applyL append true vals oldl)))) :=
  envPrepend_lifts_flags_old d hd hd36 append pre app var vals oldl env hvne hold hv henv

/-- … so the new value starts (ends) with the delimiter iff a leading (trailing) one was written. -/
theorem manpath_flags_iff_any_delimiter (d : Str) (hd : d ≠ []) (append pre app : Bool) (vals oldl : List Str)
    (hvne : vals ≠ []) (hold : ∀ e ∈ oldl, OldPieceD d e) (hv : ∀ e ∈ vals, GoodPieceD d e) :
    startsWith (flaggedD d pre app (join d (applyL append true vals oldl))) d = pre ∧
    endsWith (flaggedD d pre app (join d (applyL append true vals oldl))) d = app :=
  envPrepend_flags_result d hd append pre app vals oldl hvne hold hv


/-! ## non-vacuity: concrete instances of the hypotheses used above -/
section NonVacuity
open EupsModel.PathAct

private def sPATH : Str := Str.ofString "PATH"
private def envX : Env := [(sPATH, Str.ofString "/usr/bin:${X}/b:/usr/bin"), (Str.ofString "F", Str.ofString "/f"),
  (Str.ofString "N", Str.ofString "${F}/n")]

-- prior elements that hold `$` text are `OldPiece`s, not `GoodPiece`s; the value is a `GoodPiece`
example : (∀ e ∈ [Str.ofString "/usr/bin", Str.ofString "${X}/b"], OldPiece 58 e) ∧ GoodPiece 58 (Str.ofString "/opt/bin")
    ∧ ¬ GoodPiece 58 (Str.ofString "${X}/b") := by
  unfold OldPiece GoodPiece; decide
-- string_level_any_old_elements / table_roundtrip_string_level on such a variable
example : envPrepend false true sPATH (Str.ofString "/opt/bin") [58] envX
    = .ok (envX.set sPATH (Str.ofString "/opt/bin:/usr/bin:${X}/b")) := by decide
example : pathRun 58 sPATH false [(false, Str.ofString "/opt/bin")] (envX.set sPATH (Str.ofString "/opt/bin:/usr/bin:${X}/b"))
    = .ok (envX.set sPATH (Str.ofString "/usr/bin:${X}/b")) := by decide
-- path_expands_reference / path_nested_reference: `${F}/bin` and `${N}/bin`
example : GoodKey (Str.ofString "F") ∧ GoodKey (Str.ofString "N") := by unfold GoodKey; decide
example : envPrepend true true sPATH (Str.ofString "${F}/bin") [58] envX
    = .ok (envX.set sPATH (Str.ofString "/usr/bin:${X}/b:/f/bin")) := by decide
example : envPrepend true true sPATH (Str.ofString "${N}/bin") [58] envX
    = .ok (envX.set sPATH (Str.ofString "/usr/bin:${X}/b:/f/n/bin")) := by decide
example : envPrepend true false sPATH (Str.ofString "${N}/bin") [58] (envX.set sPATH (Str.ofString "/usr/bin:/f/n/bin"))
    = .ok (envX.set sPATH (Str.ofString "/usr/bin")) := by decide
-- envset_two_references
example : envSet true (Str.ofString "V") (Str.ofString "${F}/a/${N}") envX
    = .ok (envX.set (Str.ofString "V") (Str.ofString "/f/a//f/n")) := by decide
-- eups_path_subscript: digits, a name without `[`
example : AllDigits (Str.ofString "10") ∧ 91 ∉ exProd.name := by unfold AllDigits; decide
example : expandArg exProd (some (Str.ofString "/st:/o")) (Str.ofString "x/${EUPS_PATH[1]}/share") = Str.ofString "x//o/share" := by
  decide
-- product_dir_macro / path_product_dir
example : exProd.dir = some (Str.ofString "/st/p/1") ∧ GoodPiece 58 (Str.ofString "/st/p/1" ++ Str.ofString "/bin") := by
  unfold GoodPiece; decide
-- manpath_flags_any_delimiter with `::`
example : OldPieceD [58, 58] (Str.ofString "/a/${X}") ∧ GoodPieceD [58, 58] (Str.ofString "/m1") := by
  unfold OldPieceD GoodPieceD; decide
example : flaggedD [58, 58] true false (Str.ofString "/m1") = Str.ofString "::/m1" := by decide

end NonVacuity


end EupsModel.C12
