import EupsModel.Lemmas.PathAlg
/-! C12 — path-variable commands obey list algebra.  Property theorems only (helper lemmas live in
`Lemmas/PathAlg.lean`, the model in `Model/PathAlg.lean`). -/
namespace EupsModel.C12
open EupsModel EupsModel.PathAlg
variable {α : Type} [DecidableEq α]

/-- envPrepend puts its value first. -/
theorem prepend_first (v : α) (old : List α) :
    (applyL false true [v] old).head? = some v := by
  simp [applyL, prependL, uniq]

/-- The result contains each element once (any direction, any values). -/
theorem nodup (append fwd : Bool) (vals old : List α) : (applyL append fwd vals old).Nodup :=
  uniq_nodup _

/-- envPrepend keeps every other element, in the relative order of first occurrences. -/
theorem prepend_others_kept_in_order (v : α) (old : List α) :
    (applyL false true [v] old).filter (· != v) = (uniq old).filter (· != v) := by
  simp [applyL, prependL, uniq, List.filter_filter]

/-- envAppend keeps every other element, in the relative order of first occurrences. -/
theorem append_others_kept_in_order (v : α) (old : List α) :
    (applyL true true [v] old).filter (· != v) = (uniq old).filter (· != v) := by
  simp only [applyL, appendL, List.foldl_cons, List.foldl_nil, if_true]
  rw [filter_uniq, filter_uniq]
  simp [List.filter_append]

/-- envAppend puts its value last when it was not already present. -/
theorem append_last_partial (v : α) (old : List α) (h : v ∉ old) :
    (applyL true true [v] old).getLast? = some v := by
  simp [applyL, appendL, uniq_append_singleton v old h]

/-- The unrestricted clause "envAppend puts it last" is false of the code: an element that is
already present keeps its earlier position (known finding D8). -/
theorem append_present_witness : applyL true true [1] [1, 2] = [1, 2] := by decide

/-- Unsetup removes exactly the element: nothing equal to `v` is left, everything else is kept. -/
theorem unsetup_removes_exactly (append : Bool) (v : α) (old : List α) :
    applyL append false [v] old = (uniq old).filter (· != v) := by
  simp [applyL, removeL, filter_uniq]

/-- Unsetup after setup restores the (de-duplicated) list when the value was not there before. -/
theorem unsetup_after_setup (append : Bool) (v : α) (old : List α) (h : v ∉ old) :
    applyL append false [v] (applyL append true [v] old) = uniq old := by
  have hf : ((uniq old).filter (· != v)) = uniq old := by
    apply List.filter_eq_self.mpr; intro a ha; have := (mem_uniq old a).mp ha
    simp; intro hav; exact h (hav ▸ this)
  rw [unsetup_removes_exactly]
  cases append
  · simp [applyL, prependL, uniq, List.filter_filter, hf, uniq_idem]
  · have h' : v ∉ uniq old := fun hm => h ((mem_uniq old v).mp hm)
    simp [applyL, appendL, uniq_append_singleton v old h, uniq_append_singleton v _ h',
      List.filter_append, hf, uniq_idem]

/-- Sequences: any fold of actions leaves a duplicate-free list. -/
theorem sequence_nodup (acts : List (Bool × Bool × α)) (old : List α) :
    acts ≠ [] → (acts.foldl (fun l a => applyL a.1 a.2.1 [a.2.2] l) old).Nodup := by
  intro hne
  obtain ⟨rest, a, rfl⟩ : ∃ rest a, acts = rest ++ [a] :=
    ⟨acts.dropLast, acts.getLast hne, (List.dropLast_concat_getLast hne).symm⟩
  simp only [List.foldl_append, List.foldl_cons, List.foldl_nil]
  exact nodup _ _ _ _

/-- Non-vacuity: a populated list with duplicates, prepend an element that is present. -/
example : applyL false true [3] [1, 3, 1, 2] = [3, 1, 2] := by decide
example : applyL true false [3] (applyL true true [3] [1, 1, 2]) = [1, 2] := by decide

/-! ## string level -/

/-- String level: on a variable whose value is a `c`-separated list of well-formed pieces, the real
string-manipulating action computes exactly the list-level operation. -/
theorem string_level_is_list_level (c : Nat) (hc : c ≠ 36) (append fwd : Bool) (var v : Str)
    (oldl : List Str) (env : Env)
    (hold : ∀ e ∈ oldl, GoodPiece c e) (hv : GoodPiece c v)
    (henv : (env.get var).getD [] = join [c] oldl) :
    envPrepend append fwd var v [c] env
      = .ok (env.set var (join [c] (applyL append fwd [v] oldl))) :=
  envPrepend_lifts c hc append fwd var v oldl env hold hv henv

/-- `$?{VAR}` with VAR undefined: the action does nothing, in either direction. -/
theorem optional_guard (append fwd : Bool) (var value delim : Str) (env : Env)
    (hpre : startsWith value delim = false) (happ : endsWith value delim = false)
    (h : expand env value = .skip) :
    envPrepend append fwd var value delim env = .ok env := by
  unfold envPrepend
  simp [hpre, happ, h]

theorem optional_guard_envSet (var value : Str) (env : Env) (h : expand env value = .skip) :
    envSet true var value env = .ok env := by
  simp [envSet, h]

/-- the guard really is about an undefined optional reference: `$?{K}...` with K undefined skips -/
theorem optional_undefined_skips (env : Env) (key rest : Str)
    (hk : ∀ ch ∈ key, ch ≠ 45 ∧ ch ≠ 125) (hundef : env.get key = none) :
    expand env (36 :: 63 :: 123 :: key ++ 125 :: rest) = .skip := by
  have htw : ∀ (k : Str), (∀ ch ∈ k, ch ≠ 45 ∧ ch ≠ 125) →
      takeWhileNot (fun c => c == 45 || c == 125) (k ++ 125 :: rest) = (k, 125 :: rest) := by
    intro k hk
    induction k with
    | nil => simp [takeWhileNot]
    | cons a as ih =>
      have ha := hk a (by simp)
      have := ih (fun ch hch => hk ch (by simp [hch]))
      simp [takeWhileNot, ha.1, ha.2, this]
  simp [expand, expandGo, varAt, htw key hk, hundef]

/-- envSet sets exactly the given value (no references in it). -/
theorem envset_exact (var v : Str) (env : Env) (hne : v ≠ []) (hd : 36 ∉ v) :
    envSet true var v env = .ok (env.set var v) := by
  cases v with
  | nil => exact absurd rfl hne
  | cons a as => simp [envSet, expand_no_dollar env _ hd, setEnvI, interp_no_dollar env _ _ hd]

/-- ... and the variable then reads back as that value; unsetup removes the variable. -/
theorem envset_get (var v : Str) (env : Env) (hne : v ≠ []) (hd : 36 ∉ v) :
    ∃ env', envSet true var v env = .ok env' ∧ env'.get var = some v :=
  ⟨_, envset_exact var v env hne hd, Env.get_set_same _ _ _⟩

theorem envset_unsetup (var v : Str) (env : Env) :
    ∃ env', envSet false var v env = .ok env' ∧ env'.get var = none :=
  ⟨env.unset var, by simp [envSet], Env.get_unset_same _ _⟩

example : expand [] (Str.ofString "$?{NOPE}/z") = .skip := by decide
example : GoodPiece 58 (Str.ofString "/opt/p/1.0/bin") := by unfold GoodPiece; decide


/-- MANPATH style: a leading and/or trailing delimiter written around the value asks for an empty
first / last element; on well-formed values the new value of the variable is exactly the list
result with the requested empty elements re-attached (and never doubled). -/
theorem manpath_flags (c : Nat) (hc : c ≠ 36) (append pre app : Bool) (var v : Str)
    (oldl : List Str) (env : Env)
    (hold : ∀ e ∈ oldl, GoodPiece c e) (hv : GoodPiece c v)
    (henv : (env.get var).getD [] = join [c] oldl) :
    envPrepend append true var (flagged c pre app v) [c] env
      = .ok (env.set var (flagged c pre app (join [c] (applyL append true [v] oldl)))) :=
  envPrepend_lifts_flags c hc append pre app var v oldl env hold hv henv

/-- ... so the value starts (ends) with the delimiter iff a leading (trailing) one was written. -/
theorem manpath_leading_iff (c : Nat) (pre app : Bool) (l : List Str) (hne : l ≠ [])
    (h : ∀ e ∈ l, GoodPiece c e) :
    startsWith (flagged c pre app (join [c] l)) [c] = pre := by
  cases pre
  · have hsw := startsWith_join_good c l hne h
    obtain ⟨p, x, hp, _⟩ := getLast_join_good c l hne h
    cases hJ : join [c] l with
    | nil => rw [hJ] at hp; exact absurd hp (by simp)
    | cons y ys =>
      rw [hJ] at hsw
      have hy : (c == y) = false := by simpa [startsWith, List.isPrefixOf] using hsw
      simp [flagged, startsWith, List.isPrefixOf, hy]
  · simp [flagged, startsWith, List.isPrefixOf]

example : flagged 58 true false (Str.ofString "/usr/man") = Str.ofString ":/usr/man" := by decide

end EupsModel.C12
