import EupsModel.Lemmas.PathAlg
/-! C12 — path-variable commands obey list algebra.  Property theorems only (helper lemmas live in
`Lemmas/PathAlg.lean`, the model in `Model/PathAlg.lean`). -/
namespace EupsModel.C12
open EupsModel.PathAlg
variable {α : Type} [DecidableEq α]

/-- envPrepend puts its value first. -/
theorem prepend_first (v : α) (old : List α) :
    (applyL false true [v] old).head? = some v := by
  simp [applyL, prependL, uniq]

/-- The result contains each element once (any direction, any values). -/
theorem nodup (append fwd : Bool) (vals old : List α) : (applyL append fwd vals old).Nodup :=
  uniq_nodup _

/-- envPrepend keeps every other element, in the relative order of first occurrences. -/
theorem prepend_others_kept_in_order (v : α) (old : List α) :
    (applyL false true [v] old).filter (· != v) = (uniq old).filter (· != v) := by
  simp [applyL, prependL, uniq, List.filter_filter]

/-- envAppend keeps every other element, in the relative order of first occurrences. -/
theorem append_others_kept_in_order (v : α) (old : List α) :
    (applyL true true [v] old).filter (· != v) = (uniq old).filter (· != v) := by
  simp only [applyL, appendL, List.foldl_cons, List.foldl_nil, if_true]
  rw [filter_uniq, filter_uniq]
  simp [List.filter_append]

/-- envAppend puts its value last when it was not already present. -/
theorem append_last_partial (v : α) (old : List α) (h : v ∉ old) :
    (applyL true true [v] old).getLast? = some v := by
  simp [applyL, appendL, uniq_append_singleton v old h]

/-- The unrestricted clause "envAppend puts it last" is false of the code: an element that is
already present keeps its earlier position (known finding D8). -/
theorem append_present_witness : applyL true true [1] [1, 2] = [1, 2] := by decide

/-- Unsetup removes exactly the element: nothing equal to `v` is left, everything else is kept. -/
theorem unsetup_removes_exactly (append : Bool) (v : α) (old : List α) :
    applyL append false [v] old = (uniq old).filter (· != v) := by
  simp [applyL, removeL, filter_uniq]

/-- Unsetup after setup restores the (de-duplicated) list when the value was not there before. -/
theorem unsetup_after_setup (append : Bool) (v : α) (old : List α) (h : v ∉ old) :
    applyL append false [v] (applyL append true [v] old) = uniq old := by
  have hf : ((uniq old).filter (· != v)) = uniq old := by
    apply List.filter_eq_self.mpr; intro a ha; have := (mem_uniq old a).mp ha
    simp; intro hav; exact h (hav ▸ this)
  rw [unsetup_removes_exactly]
  cases append
  · simp [applyL, prependL, uniq, List.filter_filter, hf, uniq_idem]
  · have h' : v ∉ uniq old := fun hm => h ((mem_uniq old v).mp hm)
    simp [applyL, appendL, uniq_append_singleton v old h, uniq_append_singleton v _ h',
      List.filter_append, hf, uniq_idem]

/-- Sequences: any fold of actions leaves a duplicate-free list. -/
theorem sequence_nodup (acts : List (Bool × Bool × α)) (old : List α) :
    acts ≠ [] → (acts.foldl (fun l a => applyL a.1 a.2.1 [a.2.2] l) old).Nodup := by
  intro hne
  obtain ⟨rest, a, rfl⟩ : ∃ rest a, acts = rest ++ [a] :=
    ⟨acts.dropLast, acts.getLast hne, (List.dropLast_concat_getLast hne).symm⟩
  simp only [List.foldl_append, List.foldl_cons, List.foldl_nil]
  exact nodup _ _ _ _

/-- Non-vacuity: a populated list with duplicates, prepend an element that is present. -/
example : applyL false true [3] [1, 3, 1, 2] = [3, 1, 2] := by decide
example : applyL true false [3] (applyL true true [3] [1, 1, 2]) = [1, 2] := by decide

end EupsModel.C12
