import EupsModel.Lemmas.Vro
import EupsModel.Lemmas.VroSelect
import EupsModel.Lemmas.VroC10
import EupsModel.Lemmas.VroSelectGen
import EupsModel.Lemmas.VroSelectWarn
import EupsModel.Lemmas.VroCmd
import EupsModel.Lemmas.VroApiSem
import EupsModel.Lemmas.VroApi
import EupsModel.Lemmas.VroPath
import EupsModel.Lemmas.VroPretagAny
import EupsModel.Lemmas.VroOrder
import EupsModel.Lemmas.VroOrder2
import EupsModel.Lemmas.VroSort
/-! C03 — the version chosen is the one the Version Resolution Order designates.
Property theorems only; the model is `Model/Vro.lean`, helper lemmas are in `Lemmas/Vro.lean`. -/
namespace EupsModel.C03
open EupsModel EupsModel.Vro

/-! ## a small database for the non-vacuity examples

stack 0: `p 1.0` (Linux), tagged `stable`; stack 1: `p 1.0`, `p 2.0` (Linux), `p 3.0` (generic),
`current -> 2.0` (Linux), `current -> 3.0` (generic). -/
def sP : Str := [112]
def sLinux : Str := [76, 105, 110, 117, 120]
def sGeneric : Str := [103, 101, 110, 101, 114, 105, 99]
def sCurrent : Str := [99, 117, 114, 114, 101, 110, 116]
def sStable : Str := [115, 116, 97, 98, 108, 101]
def sBeta : Str := [98, 101, 116, 97]
def v10 : Str := [49, 46, 48]
def v20 : Str := [50, 46, 48]
def v30 : Str := [51, 46, 48]
def v99 : Str := [57, 46, 57]
def exDb : Db :=
  [ { decls := [⟨sP, v10, sLinux⟩], tags := [⟨sStable, sP, sLinux, v10⟩] },
    { decls := [⟨sP, v10, sLinux⟩, ⟨sP, v20, sLinux⟩, ⟨sP, v30, sGeneric⟩],
      tags := [⟨sCurrent, sP, sLinux, v20⟩, ⟨sCurrent, sP, sGeneric, v30⟩] } ]
def exCtx : Ctx := mkCtx simpleOrd [sCurrent, sStable, sBeta] exDb .files [sLinux, sGeneric] []
def exReq (version : Option Str) (depth : Nat) : Req :=
  { name := sP, version := version, vexpr := none, depth := depth, flavor := sLinux,
    ignoreVersions := false, already := none }
/-- `type:exact commandLine version versionExpr current` -/
def defaultVro : List Str := [kTypeExact, kCommandLine, kVersion, kVersionExpr, sCurrent]

/-! ## first match -/

/-- `findProductFromVRO` returns a product exactly when some entry of the VRO yields one and every
entry before it said "continue" (none yielded a product, none of the version entries gave the
request up, none raised); the product and reason are that entry's, up to the "an earlier reason
outranks a later one" rule for a product this command has already set up. -/
theorem C03_first_match (C : Ctx) (r : Req) (vro : List Str) (h : Hit) :
    find C r vro = .ok (some h) ↔
      ∃ (h0 : Hit) (pre post : List Str),
        vro = pre ++ h0.entry :: post ∧
        lookupEntry C r h0.entry post = .ok (.hit h0.prod h0.reason) ∧
        (∀ a x b, pre = a ++ x :: b → lookupEntry C r x (b ++ h0.entry :: post) = .ok .skip) ∧
        h = applyAlready r vro h0 := by
  unfold find
  constructor
  · intro hf
    cases hw : walk C r vro with
    | error err => simp [hw] at hf
    | ok o =>
      cases o with
      | none => simp [hw] at hf
      | some h0 =>
        simp [hw] at hf
        obtain ⟨pre, post, h1, h2, h3⟩ := (walk_hit_iff C r vro h0).mp hw
        exact ⟨h0, pre, post, h1, h2, h3, hf.symm⟩
  · rintro ⟨h0, pre, post, h1, h2, h3, rfl⟩
    have hw := (walk_hit_iff C r vro h0).mpr ⟨pre, post, h1, h2, h3⟩
    simp [hw]

/-- With nothing set up beforehand the answer is the first matching entry's, as it stands. -/
theorem C03_first_match_fresh (C : Ctx) (r : Req) (vro : List Str) (h : Hit) (hr : r.already = none) :
    find C r vro = .ok (some h) ↔
      ∃ (pre post : List Str),
        vro = pre ++ h.entry :: post ∧
        lookupEntry C r h.entry post = .ok (.hit h.prod h.reason) ∧
        (∀ a x b, pre = a ++ x :: b → lookupEntry C r x (b ++ h.entry :: post) = .ok .skip) := by
  rw [C03_first_match]
  constructor
  · rintro ⟨h0, pre, post, h1, h2, h3, rfl⟩
    have : applyAlready r vro h0 = h0 := by simp [applyAlready, hr]
    rw [this]
    exact ⟨pre, post, h1, h2, h3⟩
  · rintro ⟨pre, post, h1, h2, h3⟩
    exact ⟨h, pre, post, h1, h2, h3, by simp [applyAlready, hr]⟩

/-- Nothing is returned exactly when every entry said "continue", or the first entry that did not
is a version entry giving the request up. -/
theorem C03_no_match (C : Ctx) (r : Req) (vro : List Str) :
    find C r vro = .ok none ↔
      (∀ a x b, vro = a ++ x :: b → lookupEntry C r x b = .ok .skip) ∨
      ∃ pre e post, vro = pre ++ e :: post ∧ lookupEntry C r e post = .ok .abort ∧
        (∀ a x b, pre = a ++ x :: b → lookupEntry C r x (b ++ e :: post) = .ok .skip) := by
  have hw := walk_none_iff C r vro
  unfold AllSkip at hw
  simp only [List.append_nil] at hw
  rw [← hw]
  unfold find
  cases walk C r vro with
  | error err => simp
  | ok o => cases o <;> simp

/-- non-vacuity: on the default VRO, no version named, `current` (the fifth entry) answers with the
version tagged in stack 1 — stack 0 has no `current` — after four entries that said "continue" -/
example : find exCtx (exReq none 0) defaultVro = .ok (some ⟨⟨v20, sLinux, 1⟩, sCurrent, sCurrent⟩) := by
  decide

/-! ## a request that names a version does not fall through -/

/-- Once a request names a version or an expression, whatever stands behind the last version-type
entry of the VRO is never consulted: looking the product up with the whole VRO gives the answer of
the VRO cut after that entry — whatever tags follow, and whatever they are assigned to. -/
theorem C03_named_request_never_falls_through (C : Ctx) (r : Req) (pre : List Str) (e : Str)
    (post : List Str) (hn : r.named.isSome = true) (he : isVT e = true)
    (hpost : ∀ x ∈ post, isVT x = false) :
    find C r (pre ++ e :: post) = find C r (pre ++ [e]) := by
  have hw := walk_cut C r pre e post hn he hpost
  unfold find
  rw [hw]
  cases hw' : walk C r (pre ++ [e]) with
  | error err => rfl
  | ok o =>
    cases o with
    | none => rfl
    | some h =>
      have hm := walk_entry_mem hw'
      have : pre ++ e :: post = (pre ++ [e]) ++ post := by simp
      simp only [this, applyAlready_append r (pre ++ [e]) post h hm]

/-- In particular: when the version entries find nothing, the request fails, whatever tags follow. -/
theorem C03_named_request_fails (C : Ctx) (r : Req) (pre : List Str) (e : Str) (post : List Str)
    (hn : r.named.isSome = true) (he : isVT e = true) (hpost : ∀ x ∈ post, isVT x = false)
    (hnone : find C r (pre ++ [e]) = .ok none) : find C r (pre ++ e :: post) = .ok none := by
  rw [C03_named_request_never_falls_through C r pre e post hn he hpost, hnone]

/-- non-vacuity: `p 9.9` is not declared; `current` stands behind `versionExpr` on the default VRO
and would answer `2.0` — the request fails instead (and `p` without a version does get `2.0`). -/
example : (exReq (some v99) 1).named.isSome = true ∧ isVT kVersionExpr = true ∧
    (∀ x ∈ [sCurrent], isVT x = false) ∧
    find exCtx (exReq (some v99) 1) ([kTypeExact, kCommandLine, kVersion] ++ kVersionExpr :: [sCurrent]) = .ok none := by
  decide

/-! ## what each kind of entry yields -/

theorem tagHere_none_iff (st : Stack) (t n f : Str) :
    tagHere st t n f = none ↔
      ∀ v, ¬ (tagVersion st t n f = some v ∧ declared st n v f = true) := by
  rw [Option.eq_none_iff_forall_ne_some]
  constructor
  · intro h v hv
    exact h v ((tagHere_some_iff st t n f v).mpr hv)
  · intro h v hv
    exact h v ((tagHere_some_iff st t n f v).mp hv)

/-- A tag entry yields the version carrying that tag in the first stack on the path that has it —
"has it" meaning: the stack's chain file assigns the tag, for the flavor asked, to a version the
stack declares for that flavor.  The reason reported is the tag. -/
theorem C03_tag_entry (C : Ctx) (r : Req) (e : Str) (post : List Str) (p : Prod) (reason : Str)
    (ht : isPlainTag C e = true) :
    lookupEntry C r e post = .ok (.hit p reason) ↔
      reason = e ∧ p.flavor = r.flavor ∧
      (∃ st, C.db[p.stack]? = some st ∧ tagVersion st e r.name r.flavor = some p.version ∧
          declared st r.name p.version r.flavor = true) ∧
      ∀ (j : Nat) (st' : Stack), j < p.stack → C.db[j]? = some st' →
        ∀ v, ¬ (tagVersion st' e r.name r.flavor = some v ∧ declared st' r.name v r.flavor = true) := by
  rw [lookupEntry_plainTag post ht]
  cases hl : lookupTag C.db e r.name r.flavor with
  | none =>
    simp only [Except.ok.injEq, reduceCtorEq, false_iff]
    rintro ⟨_, hf, hst, hmin⟩
    have : lookupTag C.db e r.name r.flavor = some p := by
      apply (lookupTag_some_iff ..).mpr
      obtain ⟨st, h1, h2, h3⟩ := hst
      refine ⟨hf, ⟨st, h1, (tagHere_some_iff ..).mpr ⟨h2, h3⟩⟩, ?_⟩
      intro j st' hj hget
      exact (tagHere_none_iff ..).mpr (hmin j st' hj hget)
    rw [hl] at this
    cases this
  | some q =>
    simp only [Except.ok.injEq, Outcome.hit.injEq]
    constructor
    · rintro ⟨hq, hr⟩
      subst hq
      obtain ⟨hf, ⟨st, h1, h2⟩, hmin⟩ := (lookupTag_some_iff ..).mp hl
      obtain ⟨h2, h3⟩ := (tagHere_some_iff ..).mp h2
      refine ⟨hr.symm, hf, ⟨st, h1, h2, h3⟩, ?_⟩
      intro j st' hj hget
      exact (tagHere_none_iff ..).mp (hmin j st' hj hget)
    · rintro ⟨hr, hf, ⟨st, h1, h2, h3⟩, hmin⟩
      have : lookupTag C.db e r.name r.flavor = some p := by
        apply (lookupTag_some_iff ..).mpr
        refine ⟨hf, ⟨st, h1, (tagHere_some_iff ..).mpr ⟨h2, h3⟩⟩, ?_⟩
        intro j st' hj hget
        exact (tagHere_none_iff ..).mpr (hmin j st' hj hget)
      rw [hl] at this
      cases this
      exact ⟨rfl, hr.symm⟩

/-- ... and says "continue" exactly when no stack has it; it never gives the request up. -/
theorem C03_tag_entry_absent (C : Ctx) (r : Req) (e : Str) (post : List Str) (ht : isPlainTag C e = true) :
    (lookupEntry C r e post = .ok .skip ↔
      ∀ st ∈ C.db, ∀ v, ¬ (tagVersion st e r.name r.flavor = some v ∧ declared st r.name v r.flavor = true)) ∧
    lookupEntry C r e post ≠ .ok .abort := by
  rw [lookupEntry_plainTag post ht]
  cases hl : lookupTag C.db e r.name r.flavor with
  | none =>
    refine ⟨⟨fun _ st hst => ?_, fun _ => rfl⟩, by simp⟩
    have : firstStack (fun st => tagHere st e r.name r.flavor) 0 C.db = none := by
      simpa [lookupTag] using hl
    exact (tagHere_none_iff ..).mp ((firstStack_none_iff _ 0 C.db).mp this st hst)
  | some q =>
    refine ⟨⟨fun h => by simp at h, fun h => ?_⟩, by simp⟩
    obtain ⟨_, ⟨st, h1, h2⟩, _⟩ := (lookupTag_some_iff ..).mp hl
    exact absurd ((tagHere_some_iff ..).mp h2) (h st (List.mem_of_getElem? h1) q.version)

/-- non-vacuity: `current` is an ordinary tag of the example context -/
example : isPlainTag exCtx sCurrent = true := by decide

/-- The same for a tag entry spelled in any way `Tags.getTag` accepts — a user tag `mine` or `user:mine`
(chain records kept under `user:mine`), a global tag `global:t` / `:t` (kept under `t`): the entry yields
the version carrying the tag `key` in the first stack on the path that has it; the reason reported is
the entry as written. -/
theorem C03_tag_entry_any_spelling (C : Ctx) (r : Req) (e key : Str) (post : List Str) (p : Prod) (reason : Str)
    (ht : IsTagEntry C e key) :
    lookupEntry C r e post = .ok (.hit p reason) ↔
      reason = e ∧ p.flavor = r.flavor ∧
      (∃ st, C.db[p.stack]? = some st ∧ tagVersion st key r.name r.flavor = some p.version ∧
          declared st r.name p.version r.flavor = true) ∧
      ∀ (j : Nat) (st' : Stack), j < p.stack → C.db[j]? = some st' →
        ∀ v, ¬ (tagVersion st' key r.name r.flavor = some v ∧ declared st' r.name v r.flavor = true) := by
  rw [lookupEntry_tagKey post ht]
  cases hl : lookupTag C.db key r.name r.flavor with
  | none =>
    simp only [Except.ok.injEq, reduceCtorEq, false_iff]
    rintro ⟨_, hf, hst, hmin⟩
    have : lookupTag C.db key r.name r.flavor = some p := by
      apply (lookupTag_some_iff ..).mpr
      obtain ⟨st, h1, h2, h3⟩ := hst
      refine ⟨hf, ⟨st, h1, (tagHere_some_iff ..).mpr ⟨h2, h3⟩⟩, ?_⟩
      intro j st' hj hget
      exact (tagHere_none_iff ..).mpr (hmin j st' hj hget)
    rw [hl] at this
    cases this
  | some q =>
    simp only [Except.ok.injEq, Outcome.hit.injEq]
    constructor
    · rintro ⟨hq, hr⟩
      subst hq
      obtain ⟨hf, ⟨st, h1, h2⟩, hmin⟩ := (lookupTag_some_iff ..).mp hl
      obtain ⟨h2, h3⟩ := (tagHere_some_iff ..).mp h2
      refine ⟨hr.symm, hf, ⟨st, h1, h2, h3⟩, ?_⟩
      intro j st' hj hget
      exact (tagHere_none_iff ..).mp (hmin j st' hj hget)
    · rintro ⟨hr, hf, ⟨st, h1, h2, h3⟩, hmin⟩
      have : lookupTag C.db key r.name r.flavor = some p := by
        apply (lookupTag_some_iff ..).mpr
        refine ⟨hf, ⟨st, h1, (tagHere_some_iff ..).mpr ⟨h2, h3⟩⟩, ?_⟩
        intro j st' hj hget
        exact (tagHere_none_iff ..).mpr (hmin j st' hj hget)
      rw [hl] at this
      cases this
      exact ⟨rfl, hr.symm⟩

/-- ... and it says "continue" exactly when no stack has the tag; it never gives the request up. -/
theorem C03_tag_entry_any_spelling_absent (C : Ctx) (r : Req) (e key : Str) (post : List Str)
    (ht : IsTagEntry C e key) :
    (lookupEntry C r e post = .ok .skip ↔
      ∀ st ∈ C.db, ∀ v, ¬ (tagVersion st key r.name r.flavor = some v ∧ declared st r.name v r.flavor = true)) ∧
    lookupEntry C r e post ≠ .ok .abort := by
  rw [lookupEntry_tagKey post ht]
  cases hl : lookupTag C.db key r.name r.flavor with
  | none =>
    refine ⟨⟨fun _ st hst => ?_, fun _ => rfl⟩, by simp⟩
    have : firstStack (fun st => tagHere st key r.name r.flavor) 0 C.db = none := by
      simpa [lookupTag] using hl
    exact (tagHere_none_iff ..).mp ((firstStack_none_iff _ 0 C.db).mp this st hst)
  | some q =>
    refine ⟨⟨fun h => by simp at h, fun h => ?_⟩, by simp⟩
    obtain ⟨_, ⟨st, h1, h2⟩, _⟩ := (lookupTag_some_iff ..).mp hl
    exact absurd ((tagHere_some_iff ..).mp h2) (h st (List.mem_of_getElem? h1) q.version)

/-- non-vacuity: with the user tag `mine` registered, both `mine` and `user:mine` are tag entries whose chain
records are kept under `user:mine`; `global:stable` and `:stable` are kept under `stable`; a plain tag is
its own key. -/
def sMine : Str := [109, 105, 110, 101]
def exCtxU : Ctx := exCtx.withExtras [sMine] []
example : IsTagEntry exCtxU sMine (kUserColon ++ sMine) ∧ IsTagEntry exCtxU (kUserColon ++ sMine) (kUserColon ++ sMine) ∧
    IsTagEntry exCtxU (kGlobalColon ++ sStable) sStable ∧ IsTagEntry exCtxU (58 :: sStable) sStable ∧
    IsTagEntry exCtxU sCurrent sCurrent := by
  refine ⟨⟨by decide, by decide, by decide, by decide, by decide, by decide, by decide, by decide⟩,
    ⟨by decide, by decide, by decide, by decide, by decide, by decide, by decide, by decide⟩,
    ⟨by decide, by decide, by decide, by decide, by decide, by decide, by decide, by decide⟩,
    ⟨by decide, by decide, by decide, by decide, by decide, by decide, by decide, by decide⟩,
    isTagEntry_of_plain (by decide)⟩

/-- The `setup` pseudo-tag yields the version that is set up (`SETUP_<NAME>`): it must be recorded for the
flavor asked, and — unless it is a `LOCAL:` version, which is taken as it stands — be declared for that
flavor in the stack its `-Z` names (looked up through the cache when the instance has one: `dbLatest`).
Otherwise the entry says "continue"; it never gives the request up.  (Without `--ignore-versions`: with it the
lookup inside `findSetupProduct` becomes the older `findPreferredProduct`, which the model leaves out.) -/
theorem C03_setup_entry (C : Ctx) (r : Req) (post : List Str) (p : Prod) (reason : Str)
    (hi : r.ignoreVersions = false) :
    (lookupEntry C r kSetup post = .ok (.hit p reason) ↔
      reason = kSetup ∧ ∃ s, r.setupEnv = some s ∧ s.flavor = r.flavor ∧ p.version = s.version ∧ p.flavor = r.flavor ∧
        ((kLocal.isPrefixOf s.version = true ∧ p.stack = s.stack.getD C.db.length) ∨
         (kLocal.isPrefixOf s.version = false ∧ ∃ i st, s.stack = some i ∧ p.stack = i ∧ C.dbLatest[i]? = some st ∧
            declared st r.name s.version r.flavor = true))) ∧
    lookupEntry C r kSetup post ≠ .ok .abort := by
  rw [lookupEntry_setup C r post hi]
  constructor
  · cases hls : lookupSetup C r with
    | none =>
      simp only [Except.ok.injEq, reduceCtorEq, false_iff]
      rintro ⟨_, s, hs, hf, hv, hpf, hcase⟩
      unfold lookupSetup at hls
      simp only [hs, hf, bne_self_eq_false, Bool.false_eq_true, if_false] at hls
      rcases hcase with ⟨hl, _⟩ | ⟨hl, i, st, hi, _, hget, hd⟩
      · simp [hl] at hls
      · simp [hl, hi, hget, hd] at hls
    | some q =>
      simp only [Except.ok.injEq, Outcome.hit.injEq]
      unfold lookupSetup at hls
      cases hs : r.setupEnv with
      | none => simp [hs] at hls
      | some s =>
        simp only [hs] at hls
        by_cases hf : s.flavor = r.flavor
        · simp only [hf, bne_self_eq_false, Bool.false_eq_true, if_false] at hls
          by_cases hl : kLocal.isPrefixOf s.version = true
          · simp only [hl, if_true, Option.some.injEq] at hls
            constructor
            · rintro ⟨rfl, rfl⟩
              subst hls
              exact ⟨rfl, s, rfl, hf, rfl, rfl, Or.inl ⟨hl, rfl⟩⟩
            · rintro ⟨rfl, s', hs', _, hv, hpf, hcase⟩
              cases hs'
              rcases hcase with ⟨_, hst⟩ | ⟨hl', _⟩
              · subst hls
                refine ⟨?_, rfl⟩
                cases p; simp_all
              · rw [hl] at hl'; cases hl'
          · have hl' : kLocal.isPrefixOf s.version = false := Bool.eq_false_iff.mpr hl
            simp only [hl', Bool.false_eq_true, if_false] at hls
            cases hi : s.stack with
            | none => simp [hi] at hls
            | some i =>
              simp only [hi] at hls
              cases hget : C.dbLatest[i]? with
              | none => simp [hget] at hls
              | some st =>
                simp only [hget] at hls
                by_cases hd : declared st r.name s.version r.flavor = true
                · simp only [hd, if_true, Option.some.injEq] at hls
                  constructor
                  · rintro ⟨rfl, rfl⟩
                    subst hls
                    exact ⟨rfl, s, rfl, hf, rfl, rfl, Or.inr ⟨hl', i, st, hi, rfl, hget, hd⟩⟩
                  · rintro ⟨rfl, s', hs', _, hv, hpf, hcase⟩
                    cases hs'
                    rcases hcase with ⟨hl'', _⟩ | ⟨_, i', st', hi', hpi, _, _⟩
                    · rw [hl'] at hl''; cases hl''
                    · rw [hi] at hi'; cases hi'
                      subst hls
                      refine ⟨?_, rfl⟩
                      cases p; simp_all
                · simp [hd] at hls
        · have : (s.flavor != r.flavor) = true := by simpa using hf
          simp [this] at hls
  · cases lookupSetup C r <;> simp

/-- non-vacuity: `p 2.0 -f Linux -Z <stack 1>` is set up; the `setup` entry yields it -/
example : lookupEntry exCtx { exReq none 1 with setupEnv := some ⟨v20, sLinux, some 1⟩ } kSetup [] =
    .ok (.hit ⟨v20, sLinux, 1⟩ kSetup) := by decide

/-- A version entry yields the explicitly named version from the first stack declaring it for the
flavor; the reason reported is `commandLine` at the top level and `version` below it.  Only when no
stack declares it can a `LOCAL:<dir>` version naming an existing directory answer (second disjunct):
the product is the directory itself — no flavor, no stack — for the reason `commandLine` / `path from version`. -/
theorem C03_version_entry (C : Ctx) (r : Req) (e v : Str) (post : List Str) (p : Prod) (reason : Str)
    (he : isVT e = true) (hv : r.named = some v) (hex : isExpr v = .ok false)
    (hx : e = kVersionExpr → r.vexpr = none) :
    lookupEntry C r e post = .ok (.hit p reason) ↔
      (reason = (if r.depth == 0 then kCommandLine else kVersion) ∧
       p.version = v ∧ p.flavor = r.flavor ∧
       (∃ st, C.db[p.stack]? = some st ∧ declared st r.name v r.flavor = true) ∧
       ∀ (j : Nat) (st' : Stack), j < p.stack → C.db[j]? = some st' → declared st' r.name v r.flavor = false) ∨
      ((∀ st ∈ C.db, declared st r.name v r.flavor = false) ∧ localProd C v = some p ∧
       reason = (if r.depth == 0 then kCommandLine else kPathFromVersion)) := by
  rw [lookupEntry_vt he, hv]
  simp only
  rw [lookupVT_explicit post hex hx]
  cases hl : lookupVersion C.db r.name v r.flavor with
  | none =>
    have habs := (lookupVersion_none_iff ..).mp hl
    have hleft : ¬ (reason = (if r.depth == 0 then kCommandLine else kVersion) ∧
       p.version = v ∧ p.flavor = r.flavor ∧
       (∃ st, C.db[p.stack]? = some st ∧ declared st r.name v r.flavor = true) ∧
       ∀ (j : Nat) (st' : Stack), j < p.stack → C.db[j]? = some st' → declared st' r.name v r.flavor = false) := by
      rintro ⟨_, h1, h2, h3, h4⟩
      have : lookupVersion C.db r.name v r.flavor = some p := (lookupVersion_some_iff ..).mpr ⟨h1, h2, h3, h4⟩
      rw [hl] at this
      cases this
    cases hlp : localProd C v with
    | none =>
      have hne : ¬ ((if post.any isVT = true then (Except.ok Outcome.skip : Except Err Outcome) else .ok .abort)
          = .ok (.hit p reason)) := by
        split <;> simp
      simp only [hne, false_iff, not_or]
      exact ⟨hleft, by rintro ⟨_, h, _⟩; cases h⟩
    | some q =>
      simp only [Except.ok.injEq, Outcome.hit.injEq]
      constructor
      · rintro ⟨rfl, rfl⟩
        exact Or.inr ⟨habs, rfl, rfl⟩
      · rintro (h | ⟨_, h, rfl⟩)
        · exact absurd h hleft
        · cases h; exact ⟨rfl, rfl⟩
  | some q =>
    simp only [Except.ok.injEq, Outcome.hit.injEq]
    constructor
    · rintro ⟨rfl, rfl⟩
      exact Or.inl ⟨rfl, (lookupVersion_some_iff ..).mp hl⟩
    · rintro (⟨rfl, h⟩ | ⟨habs, _, _⟩)
      · have : lookupVersion C.db r.name v r.flavor = some p := (lookupVersion_some_iff ..).mpr h
        rw [hl] at this
        cases this
        exact ⟨rfl, rfl⟩
      · rw [(lookupVersion_none_iff ..).mpr habs] at hl
        cases hl

/-- When no stack declares the named version (and it is not a `LOCAL:` directory that exists), the entry
hands over to a later version-type entry if there is one and gives the request up otherwise — it never
lets the walk go on to the tags. -/
theorem C03_version_entry_absent (C : Ctx) (r : Req) (e v : Str) (post : List Str)
    (he : isVT e = true) (hv : r.named = some v) (hex : isExpr v = .ok false)
    (hx : e = kVersionExpr → r.vexpr = none)
    (habs : ∀ st ∈ C.db, declared st r.name v r.flavor = false) (hloc : localProd C v = none) :
    lookupEntry C r e post = .ok (if post.any isVT then .skip else .abort) := by
  rw [lookupEntry_vt he, hv]
  simp only
  rw [lookupVT_explicit post hex hx, (lookupVersion_none_iff ..).mpr habs, hloc]
  by_cases hp : post.any isVT = true <;> simp [hp]

/-- non-vacuity: `p 1.0` at depth 1 on the example database: stack 0 declares it -/
example : isVT kVersion = true ∧ (exReq (some v10) 1).named = some v10 ∧ isExpr v10 = .ok false ∧
    lookupEntry exCtx (exReq (some v10) 1) kVersion [kVersionExpr, sCurrent] = .ok (.hit ⟨v10, sLinux, 0⟩ kVersion) := by
  decide

/-- An expression entry yields the highest declared version satisfying the expression: when some
stack declares, for the flavor, a version that satisfies it, the `versionExpr` entry answers with a
satisfying version, taken from the first stack in which it satisfies, such that no satisfying
version anywhere on the path is newer.  (`GoodOrdOn P`: the order properties of `version_cmp` on a class
`P` of names containing every declared version name; `C03_expr_entry_is_max_conv` instantiates it
with C10's comparator on conventional names.) -/
theorem C03_expr_entry_is_max (C : Ctx) (P : Str → Prop) (g : GoodOrdOn P C.ord.cmp) (hP : DeclIn P C.db)
    (r : Req) (v : Str) (post : List Str) (hv : r.named = some v) (hex : isExpr v = .ok true)
    (hsat : ∃ st ∈ C.db, ∃ w, declared st r.name w r.flavor = true ∧ C.ord.vmatch w v = true) :
    ∃ p, lookupEntry C r kVersionExpr post = .ok (.hit p kVersionExpr) ∧
      p.flavor = r.flavor ∧
      (∃ st, C.db[p.stack]? = some st ∧ declared st r.name p.version r.flavor = true ∧
          C.ord.vmatch p.version v = true ∧
          ∀ (j : Nat) (st' : Stack), j < p.stack → C.db[j]? = some st' →
            ¬ (declared st' r.name p.version r.flavor = true ∧ C.ord.vmatch p.version v = true)) ∧
      ∀ (j : Nat) (st : Stack) (w : Str), C.db[j]? = some st → declared st r.name w r.flavor = true →
        C.ord.vmatch w v = true → C.ord.cmp w p.version ≤ 0 := by
  rw [lookupEntry_vt isVT_versionExpr, hv]
  simp only
  rw [lookupVT_expr post hex (named_nonempty hv)]
  cases hl : lookupExpr C.ord C.db r.name r.flavor v with
  | none =>
    obtain ⟨st, hst, w, h1, h2⟩ := hsat
    exact absurd ⟨h1, h2⟩ (lookupExpr_none hl st hst w)
  | some p =>
    obtain ⟨h1, ⟨st, h2, h3, h4⟩, h5⟩ := lookupExpr_some g hP hl
    refine ⟨p, rfl, h1, ⟨st, h2, h3.1, h3.2, h4⟩, ?_⟩
    intro j st' w hj hd hm
    exact h5 j st' w hj ⟨hd, hm⟩

/-- When no declared version satisfies the expression (and none is literally named like it), the
entry hands over to a later version-type entry or gives the request up. -/
theorem C03_expr_entry_absent (C : Ctx) (r : Req) (v : Str) (post : List Str)
    (hv : r.named = some v) (hex : isExpr v = .ok true)
    (hnone : ∀ st ∈ C.db, ∀ w, ¬ (declared st r.name w r.flavor = true ∧ C.ord.vmatch w v = true))
    (hlit : ∀ st ∈ C.db, declared st r.name v r.flavor = false) (hloc : localProd C v = none) :
    lookupEntry C r kVersionExpr post = .ok (if post.any isVT then .skip else .abort) := by
  rw [lookupEntry_vt isVT_versionExpr, hv]
  simp only
  rw [lookupVT_expr post hex (named_nonempty hv)]
  cases hl : lookupExpr C.ord C.db r.name r.flavor v with
  | none =>
    simp only
    rw [(lookupVersion_none_iff ..).mpr hlit]
    simp only [hloc]
    by_cases hp : post.any isVT = true <;> simp [hp]
  | some p =>
    obtain ⟨_, ⟨st, h2, h3, _⟩, _⟩ :=
      selectLatest_some hl |> fun ⟨a, b, c⟩ => (⟨a, (mem_exprCands ..).mp b, c⟩ :
        p.flavor = r.flavor ∧ (∃ st, C.db[p.stack]? = some st ∧ satisfies C.ord.vmatch st r.name r.flavor v p.version ∧ _) ∧ _)
    exact absurd h3 (hnone st (List.mem_of_getElem? h2) p.version)

/-- An expression at a `version` / `version!` entry is left for the `versionExpr` entry if one
follows; otherwise the request is given up there and then. -/
theorem C03_expr_at_version_entry (C : Ctx) (r : Req) (e v : Str) (post : List Str)
    (he : e = kVersion ∨ e = kVersionBang) (hv : r.named = some v) (hex : isExpr v = .ok true) :
    lookupEntry C r e post = .ok (if post.contains kVersionExpr then .skip else .abort) := by
  have hvt : isVT e = true := by rcases he with rfl | rfl <;> decide
  have hne : (e != kVersionExpr) = true := by rcases he with rfl | rfl <;> decide
  rw [lookupEntry_vt hvt, hv]
  simp only [lookupVT, hex, hne, Bool.and_self, if_true]
  split <;> rfl

/-- the order hypotheses are satisfiable: any comparison by a numeric key is a `GoodOrd`
(here: the decimal value of the name) -/
example : GoodOrd (fun a b => (Str.toNat a : Int) - Str.toNat b) :=
  ⟨fun a _ => by simp, fun a b _ _ h => by omega, fun a b c _ _ _ h1 h2 => by omega⟩

/-- ... and so is the dotted-decimal order the correspondence runs and the examples use -/
example : GoodOrd exCtx.ord.cmp := simpleCmp_good

/-- non-vacuity: `p >= 2.0` on the example database (flavor Linux) is answered by `versionExpr`
with 2.0 from stack 1; `3.0` exists for the other flavor only -/
example : lookupEntry exCtx (exReq (some [62, 61, 32, 50, 46, 48]) 1) kVersionExpr [sCurrent]
    = .ok (.hit ⟨v20, sLinux, 1⟩ kVersionExpr) := by decide

/-- `latest` is not "the first stack that has the tag": it yields a declared version such that no
version declared anywhere on the path (for the flavor) is newer; it says "continue" only when
nothing is declared.  (`latest` reads `Ctx.dbLatest`: `_findLatestProduct` ignores `noCache`.) -/
theorem C03_latest_entry_is_max (C : Ctx) (P : Str → Prop) (g : GoodOrdOn P C.ord.cmp) (hP : DeclIn P C.dbLatest)
    (r : Req) (post : List Str) :
    (∀ p reason, lookupEntry C r kLatest post = .ok (.hit p reason) →
      reason = kLatest ∧ p.flavor = r.flavor ∧
      (∃ st, C.dbLatest[p.stack]? = some st ∧ declared st r.name p.version r.flavor = true) ∧
      ∀ (j : Nat) (st : Stack) (w : Str), C.dbLatest[j]? = some st → declared st r.name w r.flavor = true →
        C.ord.cmp w p.version ≤ 0) ∧
    (lookupEntry C r kLatest post = .ok .skip →
      ∀ st ∈ C.dbLatest, ∀ w, declared st r.name w r.flavor = false) ∧
    lookupEntry C r kLatest post ≠ .ok .abort := by
  have hentry : lookupEntry C r kLatest post =
      .ok (match lookupLatest C.ord.cmp C.dbLatest r.name r.flavor with
           | some p => .hit p kLatest
           | none => .skip) := by
    cases hll : lookupLatest C.ord.cmp C.dbLatest r.name r.flavor <;>
      simp [lookupEntry, show (kLatest == kPath) = false by decide, show (kLatest == kKeep) = false by decide,
        show (kLatest == kCommandLine) = false by decide, show isVT kLatest = false by decide,
        show isWarn kLatest = false by decide, tagKey_latest C,
        show (kLatest == kSetup) = false by decide, lookupTagEntry, hll]
  rw [hentry]
  cases hll : lookupLatest C.ord.cmp C.dbLatest r.name r.flavor with
  | none =>
    refine ⟨by intro p reason h; simp at h, ?_, by simp⟩
    intro _
    exact lookupLatest_none g hP hll
  | some q =>
    refine ⟨?_, by intro h; simp at h, by simp⟩
    intro p reason h
    simp only [Except.ok.injEq, Outcome.hit.injEq] at h
    obtain ⟨rfl, rfl⟩ := h
    obtain ⟨h1, h2, h3⟩ := lookupLatest_some g hP hll
    exact ⟨rfl, h1, h2, h3⟩

/-- non-vacuity: in the example database the newest Linux version, 2.0, is in the second stack -/
example : lookupEntry exCtx (exReq none 0) kLatest [] = .ok (.hit ⟨v20, sLinux, 1⟩ kLatest) := by decide

/-! ## with C10's comparator: unconditional on conventional version names -/

/-- `C03_expr_entry_is_max` with the model of `version_cmp` / `version_match` that C10 verifies
(`c10Ord`), for databases whose version names are conventional (`convName`): no hypothesis on the
order is left — C10's `C10_refl`, `C10_conv_total`, `C10_conv_trans` discharge it. -/
theorem C03_expr_entry_is_max_conv (C : Ctx) (hord : C.ord = c10Ord) (hconv : DeclIn ConvName C.db)
    (r : Req) (v : Str) (post : List Str) (hv : r.named = some v) (hex : isExpr v = .ok true)
    (hsat : ∃ st ∈ C.db, ∃ w, declared st r.name w r.flavor = true ∧ c10Match w v = true) :
    ∃ p, lookupEntry C r kVersionExpr post = .ok (.hit p kVersionExpr) ∧
      p.flavor = r.flavor ∧
      (∃ st, C.db[p.stack]? = some st ∧ declared st r.name p.version r.flavor = true ∧
          c10Match p.version v = true ∧
          ∀ (j : Nat) (st' : Stack), j < p.stack → C.db[j]? = some st' →
            ¬ (declared st' r.name p.version r.flavor = true ∧ c10Match p.version v = true)) ∧
      ∀ (j : Nat) (st : Stack) (w : Str), C.db[j]? = some st → declared st r.name w r.flavor = true →
        c10Match w v = true → c10Cmp w p.version ≤ 0 := by
  have g : GoodOrdOn ConvName C.ord.cmp := by rw [hord]; exact c10Cmp_good
  have := C03_expr_entry_is_max C ConvName g hconv r v post hv hex (by rw [hord]; exact hsat)
  rw [hord] at this
  exact this

/-- ... and `latest` likewise -/
theorem C03_latest_entry_is_max_conv (C : Ctx) (hord : C.ord = c10Ord) (hconv : DeclIn ConvName C.dbLatest)
    (r : Req) (post : List Str) :
    (∀ p reason, lookupEntry C r kLatest post = .ok (.hit p reason) →
      reason = kLatest ∧ p.flavor = r.flavor ∧
      (∃ st, C.dbLatest[p.stack]? = some st ∧ declared st r.name p.version r.flavor = true) ∧
      ∀ (j : Nat) (st : Stack) (w : Str), C.dbLatest[j]? = some st → declared st r.name w r.flavor = true →
        c10Cmp w p.version ≤ 0) ∧
    (lookupEntry C r kLatest post = .ok .skip →
      ∀ st ∈ C.dbLatest, ∀ w, declared st r.name w r.flavor = false) ∧
    lookupEntry C r kLatest post ≠ .ok .abort := by
  have g : GoodOrdOn ConvName C.ord.cmp := by rw [hord]; exact c10Cmp_good
  have := C03_latest_entry_is_max C ConvName g hconv r post
  rw [hord] at this
  exact this

/-- non-vacuity: the example database has conventional version names, and with C10's comparator
`p >= 2.0` is answered by 2.0 from stack 1 -/
def exCtxC10 : Ctx := mkCtx c10Ord [sCurrent, sStable, sBeta] exDb .files [sLinux, sGeneric] []
example : DeclIn ConvName exCtxC10.db := by
  intro st hst d hd
  simp only [exCtxC10, mkCtx, exDb, List.mem_cons, List.not_mem_nil, or_false] at hst
  rcases hst with rfl | rfl
  · simp only [List.mem_cons, List.not_mem_nil, or_false] at hd
    subst hd; show VersionCmp.convName _ = true; decide
  · simp only [List.mem_cons, List.not_mem_nil, or_false] at hd
    rcases hd with rfl | rfl | rfl <;> (show VersionCmp.convName _ = true; decide)
example : lookupEntry exCtxC10 (exReq (some [62, 61, 32, 50, 46, 48]) 1) kVersionExpr [sCurrent]
    = .ok (.hit ⟨v20, sLinux, 1⟩ kVersionExpr) := by decide

/-! ## the flavor loop -/

/-- The flavor loop answers with a native-flavor declaration when one resolves: if the VRO walk for
the native flavor yields a product (one that the top level accepts: no other version than an
explicitly named one), that product is the answer, and it is of the native flavor — the fallback
flavors are not consulted.  (`NoLocal`: a `LOCAL:<dir>` version naming an existing directory is answered by the
directory itself, a product without flavor.) -/
theorem C03_native_flavor_first (C : Ctx) (r : Req) (keep : Bool) (vro : List Str) (native : Str)
    (rest : List Str) (h : Hit) (hr : r.already = none)
    (hf : find C { r with flavor := native } vro = .ok (some h))
    (hacc : acceptableB r h = .ok true) :
    resolve C r keep vro (native :: rest) = .ok (some h) ∧ (NoLocal C r → h.prod.flavor = native) := by
  have hr' : ({ r with flavor := native } : Req).already = none := hr
  have hacc' : acceptableB { r with flavor := native } h = .ok true := hacc
  constructor
  · unfold resolve
    rw [resolveFlavor_of_find_some hf hacc']
  · intro hloc
    have hloc' : NoLocal C { r with flavor := native } := hloc
    rw [find_eq_walk vro hr'] at hf
    exact walk_flavor hr' hloc' hf

/-- ... and with the fallback declaration otherwise: when nothing resolves for the native flavor the
answer is that of the remaining flavors, in their order. -/
theorem C03_fallback_when_native_absent (C : Ctx) (r : Req) (keep : Bool) (vro : List Str) (native : Str)
    (rest : List Str) (hr : r.already = none)
    (hf : find C { r with flavor := native } vro = .ok none) :
    resolve C r keep vro (native :: rest) = resolve C r keep vro rest := by
  have hr' : ({ r with flavor := native } : Req).already = none := hr
  conv => lhs; unfold resolve
  rw [resolveFlavor_of_find_none hr' hf]

/-- the recursion of the flavor loop never runs out of the fuel `resolve` gives it (so `outOfFuel`
is never the model's answer) -/
theorem C03_resolve_fuel_enough (C : Ctx) (r : Req) (keep : Bool) (vro : List Str) (flavors : List Str) :
    resolve C r keep vro flavors ≠ .error .outOfFuel := by
  induction flavors with
  | nil => simp [resolve]
  | cons fl rest ih =>
    unfold resolve
    split
    · rename_i e he
      intro hc; cases hc
      exact resolveFlavor_fuel C _ keep _ vro (Nat.lt_succ_self _) he
    · simp
    · exact ih

/-- non-vacuity: `p >= 2.0`: 2.0 (Linux, stack 1) wins over 3.0 (generic);
`p >= 3.0`: nothing for Linux, the generic 3.0 is used -/
example : resolve exCtx (exReq (some [62, 61, 32, 50, 46, 48]) 0) false defaultVro [sLinux, sGeneric]
    = .ok (some ⟨⟨v20, sLinux, 1⟩, kVersionExpr, kVersionExpr⟩) := by decide
example : resolve exCtx (exReq (some [62, 61, 32, 51, 46, 48]) 0) false defaultVro [sLinux, sGeneric]
    = .ok (some ⟨⟨v30, sGeneric, 1⟩, kVersionExpr, kVersionExpr⟩) := by decide

/-! ## through the cache (D16, repaired by 9143b09) -/

/-- Through the cache — whatever was accepted or rebuilt, `noCache=True` on a cached instance
(`Mode.mixed`) included — `findProductFromVRO` gives, for every flavor the process loads (the native
flavor and its fallbacks), the answer it gives through the files. -/
theorem C03_cache_view_agrees (o : Ord) (tags : List Str) (db : Db) (loaded : List Str)
    (accepted : List Bool) (r : Req) (vro : List Str) (m : Mode) (userTags dirs : List Str)
    (hyp : (∀ b ∈ accepted, b = false) ∨ r.flavor ∈ loaded) :
    find ((mkCtx o tags db m loaded accepted).withExtras userTags dirs) r vro =
      find ((mkCtx o tags db .files loaded accepted).withExtras userTags dirs) r vro := by
  rcases hyp with h | h
  · have := cacheView_all_rebuilt loaded accepted db h
    cases m <;> simp [mkCtx, this]
  · have hv : ViewsAgree r.flavor (cacheView loaded accepted db) db := cacheView_agree h accepted db
    cases m
    · rfl
    · exact find_view_congr (C := (mkCtx o tags db .cache loaded accepted).withExtras userTags dirs)
        (C' := (mkCtx o tags db .files loaded accepted).withExtras userTags dirs) rfl rfl rfl rfl hv hv vro
    · exact find_view_congr (C := (mkCtx o tags db .mixed loaded accepted).withExtras userTags dirs)
        (C' := (mkCtx o tags db .files loaded accepted).withExtras userTags dirs) rfl rfl rfl rfl
        (viewsAgree_refl _ _) hv vro

/-- The flavor loop through the cache is the flavor loop through the files: the process loads the
native flavor and its fallbacks, which are the flavors the loop visits, so whatever stacks had their
cache accepted or rebuilt the answer is the same — no hypothesis on the load outcome is left.  User
tags, the `setup` pseudo-tag (which reads the cache too) and `LOCAL:` versions included. -/
theorem C03_fallback_via_cache (o : Ord) (tags : List Str) (db : Db) (native : Str) (fallbacks : List Str)
    (accepted : List Bool) (r : Req) (keep : Bool) (vro : List Str) (m : Mode) (userTags dirs : List Str) :
    resolve ((mkCtx o tags db m (native :: fallbacks) accepted).withExtras userTags dirs) r keep vro (native :: fallbacks) =
      resolve ((mkCtx o tags db .files (native :: fallbacks) accepted).withExtras userTags dirs) r keep vro
        (native :: fallbacks) := by
  cases m
  · rfl
  · exact resolve_view_congr (C := (mkCtx o tags db .cache (native :: fallbacks) accepted).withExtras userTags dirs)
      (C' := (mkCtx o tags db .files (native :: fallbacks) accepted).withExtras userTags dirs) r keep vro _
      rfl rfl rfl rfl
      (fun f hf => cacheView_agree hf accepted db) (fun f hf => cacheView_agree hf accepted db)
  · exact resolve_view_congr (C := (mkCtx o tags db .mixed (native :: fallbacks) accepted).withExtras userTags dirs)
      (C' := (mkCtx o tags db .files (native :: fallbacks) accepted).withExtras userTags dirs) r keep vro _
      rfl rfl rfl rfl
      (fun f _ => viewsAgree_refl f db) (fun f hf => cacheView_agree hf accepted db)

/-- so a native-flavor declaration is preferred, and the fallback used otherwise, through the cache as
through the files: `C03_native_flavor_first` read through any cache view -/
theorem C03_native_flavor_first_via_cache (o : Ord) (tags : List Str) (db : Db) (native : Str)
    (fallbacks : List Str) (accepted : List Bool) (m : Mode) (r : Req) (keep : Bool) (vro : List Str) (h : Hit)
    (userTags dirs : List Str) (hr : r.already = none)
    (hf : find ((mkCtx o tags db .files (native :: fallbacks) accepted).withExtras userTags dirs)
            { r with flavor := native } vro = .ok (some h))
    (hacc : acceptableB r h = .ok true) :
    resolve ((mkCtx o tags db m (native :: fallbacks) accepted).withExtras userTags dirs) r keep vro
        (native :: fallbacks) = .ok (some h) ∧
      (NoLocal ((mkCtx o tags db .files (native :: fallbacks) accepted).withExtras userTags dirs) r →
        h.prod.flavor = native) := by
  rw [C03_fallback_via_cache]
  exact C03_native_flavor_first _ r keep vro native fallbacks h hr hf hacc

/-- On the pinned tree (before 9143b09) the clause was false (D16): `p 3.0` is declared for the fallback
flavor only; a fresh process that accepts the cache of the stack reads it for the native flavor alone
(`mkCtxPinned`) and does not see the declaration, the files do. -/
theorem C03_fallback_via_cache_witness :
    let db : Db := [{ decls := [⟨sP, v20, sLinux⟩, ⟨sP, v30, sGeneric⟩], tags := [⟨sCurrent, sP, sGeneric, v30⟩] }]
    let r : Req := { exReq none 0 with flavor := sGeneric }
    find (mkCtxPinned simpleOrd [sCurrent] db .cache sLinux [true]) r defaultVro = .ok none ∧
    find (mkCtxPinned simpleOrd [sCurrent] db .files sLinux [true]) r defaultVro
      = .ok (some ⟨⟨v30, sGeneric, 0⟩, sCurrent, sCurrent⟩) ∧
    resolve (mkCtxPinned simpleOrd [sCurrent] db .cache sLinux [true]) { exReq (some v30) 0 with } false defaultVro
      [sLinux, sGeneric] = .ok none ∧
    resolve (mkCtxPinned simpleOrd [sCurrent] db .files sLinux [true]) { exReq (some v30) 0 with } false defaultVro
      [sLinux, sGeneric] = .ok (some ⟨⟨v30, sGeneric, 0⟩, kCommandLine, kVersion⟩) ∧
    -- the repaired rule on the same input sees it
    resolve (mkCtx simpleOrd [sCurrent] db .cache [sLinux, sGeneric] [true]) { exReq (some v30) 0 with } false
      defaultVro [sLinux, sGeneric] = .ok (some ⟨⟨v30, sGeneric, 0⟩, kCommandLine, kVersion⟩) := by
  decide

/-! ## where `selectVRO` puts the -t and -T tags (default configuration) -/

/-- example configuration: hooks.py as shipped, global tags `current stable beta`, a fresh instance -/
def exCfg (keep exact : Bool) : VroCfg :=
  { vroDict := [(kDefault, .flat defaultBase)], userVRO := false, keep := keep, exact := exact,
    globalTags := [kCurrent, sStable, sBeta], cmdTags := [],
    prevPreferred := [kVersion, kVersionExpr, kCurrent, sStable, kLatest] }
def exArgs (tags postTags : List Str) (version : Bool) : VroArgs :=
  { tags := tags, productDir := false, versionName := version, dbz := none, inexact := false, postTags := postTags }

/-- Under the default configuration, with any -t and -T tags (registered global tags), keep / exact /
inexact / version / -r in any combination, `selectVRO` succeeds and every -t tag stands on the
resulting VRO behind nothing but `keep`, `type:exact`, `commandLine` and other -t tags — in
particular in front of every version-type entry. -/
theorem C03_pretag_before_version (c : VroCfg) (a : VroArgs) (d : DefaultCfg c)
    (ht : ∀ t ∈ a.tags, GoodTag c t) (hp : ∀ t ∈ a.postTags, GoodTag c t) :
    ∃ out, selectVRO c a = .ok out ∧
      ∀ t ∈ a.tags, ∃ pre post, out.vro = pre ++ t :: post ∧
        ∀ x ∈ pre, (x ∈ [kKeep, kTypeExact, kCommandLine] ∨ x ∈ a.tags) ∧ isVT x = false := by
  obtain ⟨out, hsel, hvro⟩ := selectVRO_default d a ht hp
  refine ⟨out, hsel, ?_⟩
  intro t htm
  have hnw := noWarn_placed (keep := c.keep) ht hp
  have hm : movedByExact c a.tags t = false := by
    rw [(ht t htm).moved]; simp [htm]
  have hne : t ≠ kTypeExact := by
    intro h; have := (ht t htm).noColon; rw [h] at this; revert this; decide
  obtain ⟨pre, post, h1, h2⟩ := beforeP_cleanVro d a.tags a.inexact hnw hm hne (beforeP_placed c.keep a.tags a.postTags htm)
  refine ⟨pre, post, by rw [hvro, h1], ?_⟩
  intro x hx
  refine ⟨h2 x hx, ?_⟩
  rcases h2 x hx with h | h
  · simp only [List.mem_cons, List.not_mem_nil, or_false] at h
    rcases h with rfl | rfl | rfl <;> decide
  · exact (ht x h).isVT

/-- ... and no version-type entry stands behind a -T tag (one that is not also given with -t); the
tag is on the VRO, and so are `version` and `versionExpr`. -/
theorem C03_posttag_after_version (c : VroCfg) (a : VroArgs) (d : DefaultCfg c)
    (ht : ∀ t ∈ a.tags, GoodTag c t) (hp : ∀ t ∈ a.postTags, GoodTag c t) :
    ∃ out, selectVRO c a = .ok out ∧ kVersion ∈ out.vro ∧ kVersionExpr ∈ out.vro ∧
      ∀ y ∈ a.postTags, y ∉ a.tags →
        y ∈ out.vro ∧ ∀ pre post, out.vro = pre ++ y :: post → ∀ x ∈ post, isVT x = false := by
  obtain ⟨out, hsel, hvro⟩ := selectVRO_default d a ht hp
  have hnw := noWarn_placed (keep := c.keep) ht hp
  have hv := kVersion_mem_placed c.keep a.tags a.postTags
  refine ⟨out, hsel, ?_, ?_, ?_⟩
  · rw [hvro]; exact mem_cleanVro_of_mem d a.tags a.inexact hnw hv.1 (by decide)
  · rw [hvro]; exact mem_cleanVro_of_mem d a.tags a.inexact hnw hv.2 (by decide)
  · intro y hy hyt
    have gy := hp y hy
    have hne : y ≠ kTypeExact := by
      intro h; have := gy.noColon; rw [h] at this; revert this; decide
    have hm : movedByExact c a.tags y = true := by
      rw [gy.moved]; simpa using hyt
    have hvt : ∀ x, isVT x = true → movedByExact c a.tags x = false :=
      fun x hx => fixed_not_moved d a.tags (isVT_fixed hx)
    constructor
    · rw [hvro]
      apply mem_cleanVro_of_mem d a.tags a.inexact hnw _ hne
      simp [placed, hy]
    · rw [hvro]
      exact noVTBehind_cleanVro d a.tags a.inexact hnw hm hvt (noVTBehind_placed c.keep hp gy hyt)

/-- non-vacuity: the example configuration is a default configuration, `beta` and `stable` are good
tags, and `setup --keep -t beta -T stable p 1.0` gives
`keep type:exact commandLine beta version versionExpr stable current` -/
example : DefaultCfg (exCfg true false) :=
  ⟨rfl, rfl, rfl, by decide, by
    intro t h
    have : t = kCurrent ∨ t = sStable ∨ t = sBeta := by simpa [exCfg] using h
    rcases this with rfl | rfl | rfl <;> decide⟩
example : GoodTag (exCfg true false) sBeta ∧ GoodTag (exCfg true false) sStable :=
  ⟨⟨by decide, by decide, by decide, by decide⟩, ⟨by decide, by decide, by decide, by decide⟩⟩
example : (selectVRO (exCfg true false) (exArgs [sBeta] [sStable] true)).map (·.vro)
    = .ok [kKeep, kTypeExact, kCommandLine, sBeta, kVersion, kVersionExpr, sStable, kCurrent] := by decide
/-- with `--exact`, tags not given with -t go to the end, behind `warn:1` -/
example : (selectVRO (exCfg false true) (exArgs [sBeta] [sStable] false)).map (·.vro)
    = .ok [kTypeExact, kCommandLine, sBeta, kVersion, kVersionExpr, sStable, kCurrent] := by decide

/-- Pre-tags override table versions: below the top level, with nothing set up beforehand, if `x` is
the only -t tag that designates a version of the product, that version is the answer on the VRO
`selectVRO` built — whatever version (or expression) the table names. -/
theorem C03_pretag_overrides_table_version (c : VroCfg) (a : VroArgs) (d : DefaultCfg c)
    (ht : ∀ t ∈ a.tags, GoodTag c t) (hp : ∀ t ∈ a.postTags, GoodTag c t)
    (out : VroOut) (hsel : selectVRO c a = .ok out)
    (C : Ctx) (r : Req) (hr : r.already = none) (hdepth : 0 < r.depth)
    (hplain : ∀ t ∈ a.tags, isPlainTag C t = true)
    (x : Str) (hx : x ∈ a.tags) (p : Prod) (hxp : lookupTag C.db x r.name r.flavor = some p)
    (hothers : ∀ t ∈ a.tags, t ≠ x → lookupTag C.db t r.name r.flavor = none) :
    find C r out.vro = .ok (some ⟨p, x, x⟩) := by
  obtain ⟨out', hsel', hpos⟩ := C03_pretag_before_version c a d ht hp
  rw [hsel] at hsel'
  cases hsel'
  obtain ⟨A, B, hAB, hxA, hA⟩ := beforeP_first (P := fun y => (y ∈ [kKeep, kTypeExact, kCommandLine] ∨ y ∈ a.tags) ∧ isVT y = false)
    (hpos x hx)
  rw [find_eq_walk _ hr]
  apply (walk_hit_iff C r out.vro ⟨p, x, x⟩).mpr
  refine ⟨A, B, hAB, ?_, ?_⟩
  · show lookupEntry C r x B = _
    rw [lookupEntry_plainTag B (hplain x hx), hxp]
  · intro a0 e b hsplit
    have heA : e ∈ A := by rw [hsplit]; simp
    obtain ⟨hmem, _⟩ := hA e heA
    rcases hmem with h | h
    · simp only [List.mem_cons, List.not_mem_nil, or_false] at h
      rcases h with rfl | rfl | rfl
      · have : (0 < r.depth) = True := by simp [hdepth]
        simp [lookupEntry, show (kKeep == kPath) = false by decide, hdepth, hr]
      · simp [lookupEntry, show (kTypeExact == kPath) = false by decide,
          show (kTypeExact == kKeep) = false by decide, show (kTypeExact == kCommandLine) = false by decide,
          show isVT kTypeExact = false by decide, show isWarn kTypeExact = false by decide,
          tagKey_typeExact C, show colon ∈ kTypeExact by decide, show isType kTypeExact = true by decide]
      · simp [lookupEntry, show (kCommandLine == kPath) = false by decide,
          show (kCommandLine == kKeep) = false by decide, hr]
    · have hne : e ≠ x := fun hc => hxA (hc ▸ heA)
      rw [lookupEntry_plainTag _ (hplain e h), hothers e h hne]

/-- **Precedence among pre-tags is left to right**, for tags of any kind and with or without `--exact`: below the top level,
with nothing set up beforehand, the answer on the VRO `selectVRO` built is the version designated by the FIRST -t tag on
the command line that designates one — whatever later -t tags designate and whatever version (or expression) the table
names.  `key t` is the name the chain records of tag `t` are kept under (`user:mine` for the user tag `mine`, spelled
`mine` on the command line); `C03_pretag_overrides_table_version` is the special case of global tags of which only one
designates. -/
theorem C03_pretag_first_designating (c : VroCfg) (a : VroArgs) (d : DefaultCfg c)
    (ht : ∀ t ∈ a.tags, GoodTag c t) (hp : ∀ t ∈ a.postTags, GoodTag c t)
    (out : VroOut) (hsel : selectVRO c a = .ok out)
    (C : Ctx) (r : Req) (hr : r.already = none) (hdepth : 0 < r.depth)
    (key : Str → Str) (htag : ∀ t ∈ a.tags, IsTagEntry C t (key t))
    (ta tb : List Str) (x : Str) (hsplit : a.tags = ta ++ x :: tb)
    (p : Prod) (hxp : lookupTag C.db (key x) r.name r.flavor = some p)
    (hbefore : ∀ t ∈ ta, lookupTag C.db (key t) r.name r.flavor = none) :
    find C r out.vro = .ok (some ⟨p, x, x⟩) :=
  pretag_first_designating c a d ht hp out hsel C r hr hdepth key htag ta tb x hsplit p hxp hbefore

/-- ... and the flavor loop of `Eups.setup` settles on it: when that tag designates a version for the native flavor the
fallback flavors are not consulted, whatever they declare and whatever their names are. -/
theorem C03_pretag_first_designating_through_setup (c : VroCfg) (a : VroArgs) (d : DefaultCfg c)
    (ht : ∀ t ∈ a.tags, GoodTag c t) (hp : ∀ t ∈ a.postTags, GoodTag c t)
    (out : VroOut) (hsel : selectVRO c a = .ok out)
    (C : Ctx) (r : Req) (keep : Bool) (native : Str) (rest : List Str) (hr : r.already = none) (hdepth : 0 < r.depth)
    (key : Str → Str) (htag : ∀ t ∈ a.tags, IsTagEntry C t (key t))
    (ta tb : List Str) (x : Str) (hsplit : a.tags = ta ++ x :: tb)
    (p : Prod) (hxp : lookupTag C.db (key x) r.name native = some p)
    (hbefore : ∀ t ∈ ta, lookupTag C.db (key t) r.name native = none) :
    resolve C r keep out.vro (native :: rest) = .ok (some ⟨p, x, x⟩) :=
  pretag_first_designating_setup c a d ht hp out hsel C r keep native rest hr hdepth key htag ta tb x hsplit p hxp hbefore

/-- non-vacuity: `--exact -t mine -t stable` with the user tag `mine` (kept as `user:mine`) on `p 3.0` (generic) and a table
naming `p 1.0`: on the VRO `type:exact commandLine mine stable version versionExpr current` the lookup for `generic` at
depth 1 answers 3.0 through `mine` -/
def exCfgU : VroCfg := { exCfg false true with globalTags := [kCurrent, sStable, sBeta, sMine] }
def exDbU : Db := [{ decls := [⟨sP, v10, sGeneric⟩, ⟨sP, v30, sGeneric⟩],
                     tags := [⟨kUserColon ++ sMine, sP, sGeneric, v30⟩, ⟨sStable, sP, sGeneric, v10⟩] }]
def exCtxU2 : Ctx := (mkCtx simpleOrd [sCurrent, sStable, sBeta] exDbU .files [sLinux, sGeneric] []).withExtras [sMine] []
example : (selectVRO exCfgU (exArgs [sMine, sStable] [] false)).map (·.vro)
    = .ok [kTypeExact, kCommandLine, sMine, sStable, kVersion, kVersionExpr, kCurrent] := by decide
example : find exCtxU2 { exReq (some v10) 1 with flavor := sGeneric }
    [kTypeExact, kCommandLine, sMine, sStable, kVersion, kVersionExpr, kCurrent]
    = .ok (some ⟨⟨v30, sGeneric, 0⟩, sMine, sMine⟩) := by decide
example : IsTagEntry exCtxU2 sMine (kUserColon ++ sMine) ∧ IsTagEntry exCtxU2 sStable sStable ∧
    GoodTag exCfgU sMine ∧ GoodTag exCfgU sStable :=
  ⟨⟨by decide, by decide, by decide, by decide, by decide, by decide, by decide, by decide⟩,
   ⟨by decide, by decide, by decide, by decide, by decide, by decide, by decide, by decide⟩,
   ⟨by decide, by decide, by decide, by decide⟩, ⟨by decide, by decide, by decide, by decide⟩⟩

/-- **The complete reading of the VRO for a request that names no version** (default configuration; keep / exact /
inexact / -r / -z in any combination; tags of any kind): the answer is that of the FIRST of — the -t tags in command-line
order, then the -T tags in command-line order, then `current` — that designates a version of the product
(`firstDesignating`); nothing else on the VRO `selectVRO` built can answer.  (`hkeep`: with `--keep` at the top level the
`keep` entry is looked up as a tag named `keep`; excluded.) -/
theorem C03_unversioned_request_reads_tags_in_order (c : VroCfg) (a : VroArgs) (d : DefaultCfg c)
    (ht : ∀ t ∈ a.tags, GoodTag c t) (hp : ∀ t ∈ a.postTags, GoodTag c t)
    (out : VroOut) (hsel : selectVRO c a = .ok out)
    (C : Ctx) (r : Req) (hr : r.already = none) (hn : r.named = none)
    (hkeep : c.keep = false ∨ 0 < r.depth)
    (key : Str → Str) (htag : ∀ t ∈ a.tags ++ a.postTags ++ [kCurrent], IsTagEntry C t (key t)) :
    find C r out.vro = .ok (firstDesignating C r key (a.tags ++ a.postTags ++ [kCurrent])) :=
  unversioned_request_reads_tags_in_order c a d ht hp out hsel C r hr hn hkeep key htag

/-- **The complete reading of the VRO for a request that names a version or an expression** (default configuration; keep /
exact / inexact / -r / -z in any combination; tags of any kind; nothing set up beforehand): the answer is that of the first
-t tag, in command-line order, that designates a version; when none does, that of the two version entries `version`
`versionExpr` alone (whose answers `C03_version_entry`, `C03_expr_entry_is_max` and their `_absent` companions describe) —
the -T tags and `current` behind them are never consulted: pre-tags override the named version, post-tags do not, and the
request fails rather than fall through. -/
theorem C03_versioned_request_reading (c : VroCfg) (a : VroArgs) (d : DefaultCfg c)
    (ht : ∀ t ∈ a.tags, GoodTag c t) (hp : ∀ t ∈ a.postTags, GoodTag c t)
    (out : VroOut) (hsel : selectVRO c a = .ok out)
    (C : Ctx) (r : Req) (hr : r.already = none) (hn : r.named.isSome = true)
    (hkeep : c.keep = false ∨ 0 < r.depth)
    (key : Str → Str) (htag : ∀ t ∈ a.tags ++ a.postTags ++ [kCurrent], IsTagEntry C t (key t)) :
    find C r out.vro =
      match firstDesignating C r key a.tags with
      | some hit => .ok (some hit)
      | none => walk C r [kVersion, kVersionExpr] :=
  versioned_request_reading c a d ht hp out hsel C r hr hn hkeep key htag

/-- non-vacuity: `-T stable p 9.9` (9.9 declared nowhere; `stable -> 1.0`): the request fails, `stable` is not consulted -/
example : find exCtx (exReq (some v99) 1) [kTypeExact, kCommandLine, kVersion, kVersionExpr, sStable, sCurrent] = .ok none ∧
    walk exCtx (exReq (some v99) 1) [kVersion, kVersionExpr] = .ok none := by decide

/-- "Post-tags apply only when no usable version is named", the positive half: for a request that names no version, when no
-t tag designates a version, the first -T tag in command-line order that designates one answers; when none does, `current`. -/
theorem C03_posttags_apply_in_order (c : VroCfg) (a : VroArgs) (d : DefaultCfg c)
    (ht : ∀ t ∈ a.tags, GoodTag c t) (hp : ∀ t ∈ a.postTags, GoodTag c t)
    (out : VroOut) (hsel : selectVRO c a = .ok out)
    (C : Ctx) (r : Req) (hr : r.already = none) (hn : r.named = none)
    (hkeep : c.keep = false ∨ 0 < r.depth)
    (key : Str → Str) (htag : ∀ t ∈ a.tags ++ a.postTags ++ [kCurrent], IsTagEntry C t (key t))
    (hpre : ∀ t ∈ a.tags, lookupTag C.db (key t) r.name r.flavor = none) :
    find C r out.vro = .ok (firstDesignating C r key (a.postTags ++ [kCurrent])) :=
  posttags_apply_in_order c a d ht hp out hsel C r hr hn hkeep key htag hpre

/-- non-vacuity: `-t beta -T stable p` on the example database (no `beta` anywhere; `stable -> 1.0` in stack 0):
answered by `stable`, not by `current` -/
example : find exCtx (exReq none 0) [kTypeExact, kCommandLine, sBeta, kVersion, kVersionExpr, sStable, sCurrent]
    = .ok (some ⟨⟨v10, sLinux, 0⟩, sStable, sStable⟩) := by decide
example : firstDesignating exCtx (exReq none 0) id [sBeta, sStable, sCurrent] = some ⟨⟨v10, sLinux, 0⟩, sStable, sStable⟩ := by
  decide

/-- Post-tags apply only when no usable version is named: for a request that names a version or an
expression the answer on the VRO `selectVRO` built is the answer of an initial piece of that VRO which
does not contain the -T tag — so it does not depend on what the tag is assigned to. -/
theorem C03_posttag_only_without_version (c : VroCfg) (a : VroArgs) (d : DefaultCfg c)
    (ht : ∀ t ∈ a.tags, GoodTag c t) (hp : ∀ t ∈ a.postTags, GoodTag c t)
    (out : VroOut) (hsel : selectVRO c a = .ok out)
    (C : Ctx) (r : Req) (hn : r.named.isSome = true) (y : Str) (hy : y ∈ a.postTags) (hyt : y ∉ a.tags) :
    ∃ pre e post, out.vro = pre ++ e :: post ∧ y ∉ pre ++ [e] ∧
      find C r out.vro = find C r (pre ++ [e]) := by
  obtain ⟨out', hsel', hv, _, hpos⟩ := C03_posttag_after_version c a d ht hp
  rw [hsel] at hsel'
  cases hsel'
  obtain ⟨pre, e, post, hsplit, he, hpost⟩ := last_VT_split ⟨kVersion, hv, by decide⟩
  refine ⟨pre, e, post, hsplit, ?_, ?_⟩
  · intro hm
    rcases List.mem_append.mp hm with hm | hm
    · obtain ⟨p1, p2, rfl⟩ := List.append_of_mem hm
      have := (hpos y hy hyt).2 p1 (p2 ++ e :: post) (by rw [hsplit]; simp) e (by simp)
      rw [he] at this; cases this
    · simp only [List.mem_singleton] at hm
      have := (hp y hy).isVT
      rw [hm, he] at this; cases this
  · rw [hsplit]
    exact C03_named_request_never_falls_through C r pre e post hn he hpost

/-! ## any VRO dictionary (site configurations, `-z` dictionaries, a `-t` tag that is a dictionary key)

The property quantifies over the default configuration; the placement clauses hold for every dictionary
whose selected list has the shape `ShapedBaseW`: every entry recognised (`warn` / `warn:N` entries included) and no
version-type entry in front of the last `commandLine` / `type:*` entry.  `C03_pretag_shape_needed_witness`
and `C03_posttag_in_dict_witness` show that the shape and the side condition on the -T tag cannot be dropped. -/

/-- Every -t tag stands on the resulting VRO in front of every version-type entry, whatever the
dictionary, for any list `chooseBase` selects that has the shape `ShapedBaseW` (`hpost`: a -T tag needs a
-t tag or a version-type entry to be placed at all — otherwise the code raises `UnboundLocalError`). -/
theorem C03_pretag_before_version_any_dict (c : VroCfg) (a : VroArgs) (hu : c.userVRO = false) (base : List Str)
    (store : List Str → List (Str × VroVal))
    (hcb : chooseBase c a a.tags = .ok (base, store)) (hs : ShapedBaseW c base)
    (ht : ∀ t ∈ a.tags, GoodTag c t) (hp : ∀ t ∈ a.postTags, GoodTag c t)
    (hpost : a.postTags = [] ∨ a.tags ≠ [] ∨ ∃ x ∈ base, isVT x = true) :
    ∃ out, selectVRO c a = .ok out ∧
      ∀ t ∈ a.tags, ∃ pre post, out.vro = pre ++ t :: post ∧ ∀ x ∈ pre, isVT x = false :=
  selectVRO_shapedW_pretag c a hu base store hcb hs ht hp hpost

/-- On a shaped list with a version-type entry `selectVRO` succeeds, the version-type entries of the list are
on the resulting VRO, and no version-type entry stands behind a -T tag `y` (not also given with -t) unless one
already stood behind `y` in the dictionary's own list. -/
theorem C03_posttag_after_version_any_dict (c : VroCfg) (a : VroArgs) (g : GenCfg c) (base : List Str)
    (store : List Str → List (Str × VroVal))
    (hcb : chooseBase c a a.tags = .ok (base, store)) (hs : ShapedBaseW c base)
    (ht : ∀ t ∈ a.tags, GoodTag c t) (hp : ∀ t ∈ a.postTags, GoodTag c t)
    (hvt : ∃ x ∈ base, isVT x = true) :
    ∃ out, selectVRO c a = .ok out ∧ (∀ x ∈ base, isVT x = true → x ∈ out.vro) ∧
      ∀ y ∈ a.postTags, y ∉ a.tags → NoVTBehind y base →
        y ∈ out.vro ∧ ∀ pre post, out.vro = pre ++ y :: post → ∀ x ∈ post, isVT x = false :=
  selectVRO_shapedW_posttag c a g base store hcb hs ht hp hvt

/-- non-vacuity: a site dictionary with warnings, `default: commandLine warn:2 warn version warn:3 warn:1 versionExpr
current current latest` -/
example (keep exact : Bool) : ShapedBaseW (wCfg keep exact) wBase := wShaped keep exact

/-- the default configuration is an instance -/
example (c : VroCfg) (d : DefaultCfg c) : GenCfg c ∧ ShapedBaseW c defaultBase :=
  ⟨genCfg_of_default d, (shapedBase_default d).toW⟩

/-- negation: on `default: version commandLine current` (a version entry in front of `commandLine`; every other
hypothesis holds) `-t beta` gives `version commandLine beta current`: the tag stands behind `version`. -/
theorem C03_pretag_shape_needed_witness :
    (selectVRO w1Cfg w1Args).map (·.vro) = .ok [kVersion, kCommandLine, gBeta, kCurrent] ∧
    (¬ ∃ H T, w1Base = H ++ T ∧ (∀ x ∈ H, isVT x = false) ∧
        (∀ x ∈ T, (x == kCommandLine || isType x) = false)) ∧
    ¬ ∃ out, selectVRO w1Cfg w1Args = .ok out ∧
        ∀ t ∈ w1Args.tags, ∃ pre post, out.vro = pre ++ t :: post ∧ ∀ x ∈ pre, isVT x = false := by
  obtain ⟨_, _, _, _, _, _, _, h1, h2, h3⟩ := W1_split_needed
  exact ⟨h1, h2, h3⟩

/-- negation: on the shaped list `default: commandLine stable version versionExpr current`, `-T stable` leaves
`stable` where the dictionary put it, in front of `version`. -/
theorem C03_posttag_in_dict_witness :
    ShapedBaseW w2Cfg w2Base ∧
    (selectVRO w2Cfg w2Args).map (·.vro) = .ok [kCommandLine, gStable, kVersion, kVersionExpr, kCurrent] ∧
    ¬ ∃ out, selectVRO w2Cfg w2Args = .ok out ∧
        ∀ y ∈ w2Args.postTags, y ∉ w2Args.tags →
          y ∈ out.vro ∧ ∀ pre post, out.vro = pre ++ y :: post → ∀ x ∈ post, isVT x = false := by
  obtain ⟨_, h0, _, _, _, _, h1, h2⟩ := W2_posttag_in_base
  exact ⟨h0.toW, h1, h2⟩

/-! ## the command line: `eups vro ARGS` prints the VRO `setup ARGS` resolves with

`Model/Vro.lean`, "command-line glue": `setupCmdVro` (setupcmd.py: `_processDefaultTags`, then one `selectVRO`) and
`vroCmd` (cmd.py `VroCmd.execute`: `_processDefaultTags`, `createEups` — which already calls `selectVRO` and thereby
edits the dictionary's own list, switches exact mode on and records the command-line tags — then `selectVRO` again). -/

/-- Under the default configuration, for every command line of `-t`, `-T`, `-c`, `-e`, `-z` options, a version or
none, and any configured default tags (the tags in force being registered global tags): `eups vro` reports exactly the
VRO `setup` uses.  In particular the second `selectVRO` on the state the first one left changes nothing. -/
theorem C03_vro_cmd_reports_setup_vro (c : VroCfg) (dc : DefaultCfg c) (d : DefaultTags) (k : CliCmd)
    (hg : GoodCli c d k) :
    (vroCmd c d k).map (·.vro) = (setupCmdVro c d k).map (·.vro) :=
  vroCmd_eq_setupCmdVro c dc d k hg

/-- the underlying fact, for every combination of keep / exact / inexact / version / -r / -z: calling `selectVRO` a
second time with the same tags on the instance the first call left gives the VRO of a single call -/
theorem C03_select_vro_twice (c : VroCfg) (dc : DefaultCfg c) (a : VroArgs)
    (ht : ∀ t ∈ a.tags, GoodTag c t) (hp : ∀ t ∈ a.postTags, GoodTag c t) :
    (selectVROTwice c a).map (·.vro) = (selectVRO c a).map (·.vro) :=
  selectVROTwice_vro_eq c dc a ht hp

/-- non-vacuity: `-t beta -c -T stable p 1.0` (with and without `-e`), and `-t None` with default tags configured -/
example (e : Bool) : GoodCli cmdCfg noDefaultTags (cmdBetaCurrentStable e) := goodCli_betaCurrentStable e
example : GoodCli cmdCfg betaDefault cmdNone := goodCli_none

/-- negation, for the command as it was before fixes D90 and D91 (`vroCmdPinned`): `eups vro -t None p` printed a VRO
without `type:exact`, and `eups vro -c -T beta p 1.0` put `beta` before `current`; `setup` with the same arguments
resolves with `type:exact …` and `… current beta`.  The repaired command agrees with `setup` on both. -/
theorem C03_vro_cmd_pinned_witness :
    ((vroCmdPinned cmdCfg noDefaultTags cmdNone).map (·.vro)
        = .ok [kCommandLine, kVersion, kVersionExpr, kCurrent] ∧
     (setupCmdVro cmdCfg noDefaultTags cmdNone).map (·.vro)
        = .ok [kTypeExact, kCommandLine, kVersion, kVersionExpr, kCurrent] ∧
     (vroCmd cmdCfg noDefaultTags cmdNone).map (·.vro) = (setupCmdVro cmdCfg noDefaultTags cmdNone).map (·.vro)) ∧
    ((vroCmdPinned cmdCfg noDefaultTags cmdCurrentBeta).map (·.vro)
        = .ok [kTypeExact, kCommandLine, kVersion, kVersionExpr, gBeta, kCurrent] ∧
     (setupCmdVro cmdCfg noDefaultTags cmdCurrentBeta).map (·.vro)
        = .ok [kTypeExact, kCommandLine, kVersion, kVersionExpr, kCurrent, gBeta] ∧
     (vroCmd cmdCfg noDefaultTags cmdCurrentBeta).map (·.vro)
        = (setupCmdVro cmdCfg noDefaultTags cmdCurrentBeta).map (·.vro)) := by
  obtain ⟨a1, a2, a3, _⟩ := vroCmdPinned_none_witness
  obtain ⟨b1, b2, b3, _⟩ := vroCmdPinned_current_order_witness
  exact ⟨⟨a1, a2, a3.trans a2.symm⟩, ⟨b1, b2, b3.trans b2.symm⟩⟩

/-! ## the older entry points: `Eups.findProduct`, `findPreferredProduct`, a tag file (`Model/VroApi.lean`) -/

/-- `findProduct(name, "<explicit version>")`: the named version from the first stack declaring it for the flavor —
the explicit-version lookup of the VRO walk. -/
theorem C03_find_product_explicit (C : Ctx) (q : ApiReq) (v : Str) (p : Prod) (hv : v.isEmpty = false)
    (hi : q.ignoreVersions = false) (hex : isExpr v = .ok false) :
    findProductApi C q (some v) = .ok (some p) ↔
      p.version = v ∧ p.flavor = q.flavor ∧
      (∃ st, C.db[p.stack]? = some st ∧ declared st q.name v q.flavor = true) ∧
      ∀ (j : Nat) (st' : Stack), j < p.stack → C.db[j]? = some st' → declared st' q.name v q.flavor = false := by
  rw [findProductApi_explicit C q v hv hi hex]
  simp only [Except.ok.injEq]
  exact lookupVersion_some_iff ..

/-- `findProduct(name)` / `findPreferredProduct`: the first preferred tag that designates a version answers; what stands
in front of it is passed over (`:`, digits, `type:…`) or is a tag that designates nothing. -/
theorem C03_find_preferred_first_match (C : Ctx) (q : ApiReq) (p : Prod) :
    findProductApi C q none = .ok (some p) ↔
      ∃ pre e post key, q.preferred = pre ++ e :: post ∧ passedOver e = false ∧ C.tagKey e = some key ∧
        findTagged C q key = .ok (some p) ∧
        ∀ x ∈ pre, passedOver x = true ∨ ∃ k, C.tagKey x = some k ∧ findTagged C q k = .ok none :=
  findPreferred_hit_iff C q q.preferred p

/-- A tag file designates, for a product, the version of the first line naming it (`tagFileVersion`), and the lookup
answers with that version from the first stack declaring it; a version no stack declares is a `LOCAL:` directory that
exists, or a loud failure (`notFound`; nothing with `--force`) — never a silent fall-through.  A file that does not list
the product designates nothing; an ill-formed line in front of the product's line is an error. -/
theorem C03_tag_file_entry (C : Ctx) (q : ApiReq) (content : Str) :
    (∀ v, tagFileVersion content q.name = .ok (some v) → v.isEmpty = false → q.ignoreVersions = false →
      isExpr v = .ok false →
      findTaggedFromFile C q content =
        match lookupVersion C.db q.name v q.flavor with
        | some p => .ok (some p)
        | none =>
          match localProd C v with
          | some p => .ok (some p)
          | none => if q.force then .ok none else .error .notFound) ∧
    (tagFileVersion content q.name = .ok none → findTaggedFromFile C q content = .ok none) ∧
    (∀ e, tagFileVersion content q.name = .error e → findTaggedFromFile C q content = .error (.file e)) :=
  ⟨fun v h hv hi hex => findTaggedFromFile_explicit C q content v h hv hi hex,
   findTaggedFromFile_not_listed C q content, fun e h => findTaggedFromFile_bad_line C q content e h⟩

/-- non-vacuity: `p 2.0` on the second line of a file, against the example database (stack 1 declares `p 2.0`) -/
example : findTaggedFromFile exCtx { name := sP, flavor := sLinux, ignoreVersions := false, preferred := [] }
    ([35, 32, 120, 10] ++ sP ++ [32] ++ v20 ++ [10]) = .ok (some ⟨v20, sLinux, 1⟩) := by decide

/-- **A VRO entry that names a tag file** (`os.path.isfile(vroTag)`; the walk `findF` of `Model/VroApi.lean`): an entry
that is not a directive (`path`, `keep` below the top level, `commandLine`, a version entry, `warn`) and names an existing
file answers as the file says — the version it lists for the product, from the first stack declaring it
(`C03_tag_file_entry`), reason: the entry as written; "not listed" is "continue"; an ill-formed line or a version declared
nowhere leaves the walk with an error.  With no such files the extended walk is `findProductFromVRO` itself. -/
theorem C03_tag_file_on_vro (C : Ctx) (files : List (Str × Str)) (q : ApiReq) (r : Req) :
    (∀ e post content, isDirective r e = false → lookupKey e files = some content →
      lookupEntryF C files q r e post =
        match findTaggedFromFile C q content with
        | .error err => .error err
        | .ok (some p) => .ok (.hit p e)
        | .ok none => .ok .skip) ∧
    (∀ vro, findF C [] q r vro = (match find C r vro with | .error e => .error (.walk e) | .ok o => .ok o)) :=
  ⟨fun e post content hd hf => lookupEntryF_file C files q r e post content hd hf, fun vro => findF_nil C q r vro⟩

/-- non-vacuity: the VRO `[<file>, current]` with the file listing `p 2.0`: answered by the file (2.0 from stack 1), not by
`current`; the reason is the file's name -/
example : findF exCtx [([47, 116], sP ++ [32] ++ v20 ++ [10])]
    { name := sP, flavor := sLinux, ignoreVersions := false, preferred := [] } (exReq none 0) [[47, 116], sCurrent]
    = .ok (some ⟨⟨v20, sLinux, 1⟩, [47, 116], [47, 116]⟩) := by decide

/-- The tag-file reader reads back what a writer wrote: a file of plain `product version` lines, `setupRequired(…)`
lines — with option words in front of the product, with or without a `[relative expression]` behind the version — comment
lines and blank lines (`Entry`, each with the side conditions `Entry.Ok`: names without blanks that do not start like a
comment, a bar or an option; no `)` / `[` inside words) designates, for a product, the version of the first line naming it.
The version may contain a hyphen (`2.0-rc1`): that is the statement defect D92 violated. -/
theorem C03_tag_file_reads_back (es : List Entry) (n : Str) (h : ∀ e ∈ es, e.Ok) :
    tagFileVersion (es.flatMap (fun e => e.text ++ [10])) n
      = .ok (((es.filterMap Entry.pair).find? (·.1 == n)).map (·.2)) :=
  tagFileVersion_entries es n h

/-- non-vacuity: `setupRequired(-j p 2.0-rc1 [>= 1.0])` is an admissible entry -/
example : (Entry.setupExpr [[45, 106]] sP (Str.ofString "2.0-rc1") (Str.ofString ">= 1.0")).Ok := by
  refine ⟨?_, ⟨⟨by decide, by decide⟩, by decide, by decide, by decide⟩, ⟨⟨by decide, by decide⟩, by decide, by decide, by decide⟩,
    by decide, by decide, by decide, by decide⟩
  intro o ho
  have : o = [45, 106] := by simpa using ho
  subst this
  exact ⟨by decide, by decide, by decide, by decide⟩

/-- negation for the pinned reader (before fix D92): `setupRequired(p  2.0-rc1 [>= 1.0])` designated `2.0`; the
repaired reader reads `2.0-rc1`. -/
theorem C03_tag_file_hyphen_witness :
    tagFileLinePinned (Str.ofString "setupRequired(p  2.0-rc1 [>= 1.0])") = .ok (some (Str.ofString "p", Str.ofString "2.0")) ∧
    tagFileLine (Str.ofString "setupRequired(p  2.0-rc1 [>= 1.0])") = .ok (some (Str.ofString "p", Str.ofString "2.0-rc1")) :=
  ⟨d92_pinned, d92_fixed⟩

/-! ## which stacks are searched, in which order: `Eups.setEupsPath` (-Z path, -z dbz) -/

/-- The stacks a command searches are the pieces of the path that are directories (and, with `-z dbz`, contain the
directory `dbz`), normalised, each listed once; and the order is that of first occurrence on the path: a piece is
listed behind everything listed for the pieces in front of it. -/
theorem C03_search_path (isdir : Str → Bool) (path : Str) (dbz : Option Str) (l : List Str)
    (h : setEupsPath isdir path dbz = .ok l) :
    l.Nodup ∧
    (∀ x, x ∈ l ↔ ∃ p ∈ splitOn colon [] path, isdir p = true ∧ x = normpath p ∧
      (∀ z, dbz = some z → z.isEmpty = false → dbzMatches z p = true)) ∧
    (∀ seen a b, uniqDirs seen (a ++ b) = uniqDirs seen a ++ uniqDirs (a.reverse ++ seen) b) :=
  ⟨(setEupsPath_spec isdir path dbz l h).1, (setEupsPath_spec isdir path dbz l h).2, uniqDirs_append⟩

/-- non-vacuity: `/a//s0:/b/../a/s0/:/nowhere:/a/s1` with `/a//s0`, `/b/../a/s0/`, `/a/s1` existing: two stacks -/
example : setEupsPath (fun p => [[47, 97, 47, 47, 115, 48], [47, 98, 47, 46, 46, 47, 97, 47, 115, 48, 47], [47, 97, 47, 115, 49]].contains p)
    ([47, 97, 47, 47, 115, 48, 58, 47, 98, 47, 46, 46, 47, 97, 47, 115, 48, 47, 58, 47, 110, 111, 58, 47, 97, 47, 115, 49]) none
    = .ok [[47, 97, 47, 115, 48], [47, 97, 47, 115, 49]] := by decide

/-! ## `vers.sort(version_cmp); vers[-1]` is `lastMax`

The model reads "the latest of a list" as the fold `lastMax`.  Python's `list.sort` is a stable sort that
only asks `cmp a b < 0` (`Model/VroSort.lean`: `stableSort`, `sortLast`); for a comparison that is a total
preorder on the names involved the two agree — for C10's comparator on conventional names in particular. -/

theorem C03_latest_is_last_of_stable_sort (P : Str → Prop) (cmp : Str → Str → Int) (t : TotalOrdOn P cmp)
    (l : List Str) (hl : ∀ x ∈ l, P x) :
    lastMax cmp l = sortLast cmp l ∧ (stableSort cmp l).Perm l ∧
      List.Pairwise (fun a b => cmp a b ≤ 0) (stableSort cmp l) :=
  ⟨lastMax_eq_sortLast t hl, stableSort_perm cmp l, stableSort_sorted t hl⟩

theorem C03_latest_is_last_of_stable_sort_conv (l : List Str) (hl : ∀ x ∈ l, VersionCmp.convName x = true) :
    lastMax c10Cmp l = sortLast c10Cmp l :=
  lastMax_c10_eq_sortLast hl

/-- negation: the order hypotheses of `C03_expr_entry_is_max` (`GoodOrd`) alone do not make the fold the sort's
last element (sign antisymmetry in the other direction is needed), and neither does antisymmetry without
transitivity. -/
theorem C03_sort_needs_total_order_witness :
    (GoodOrd badCmp ∧ lastMax badCmp [[49], [50], [51]] ≠ sortLast badCmp [[49], [50], [51]]) ∧
    ((∀ a b, rpsCmp b a = - rpsCmp a b) ∧ lastMax rpsCmp [[48], [49], [50]] ≠ sortLast rpsCmp [[48], [49], [50]]) :=
  ⟨⟨badCmp_good, badCmp_lastMax_ne_sortLast⟩, ⟨rpsCmp_neg, rpsCmp_lastMax_ne_sortLast⟩⟩

/-- the tie `1.0` / `1.00`: the last listed of the two is the answer, by the fold and by the sort -/
example : lastMax simpleCmp [v10, [49, 46, 48, 48], [48, 46, 57]] = some [49, 46, 48, 48] ∧
    sortLast simpleCmp [v10, [49, 46, 48, 48], [48, 46, 57]] = some [49, 46, 48, 48] := by decide

/-! ## one `Eups` object serving several top-level requests: what a request may inherit from the one before it

`histStep` (Model/Vro.lean): `alreadySetupProducts` survives from one top-level `setup` to the next on the same object, but
the request resets it — after the product named has been looked up — to "what the environment shows, reason unknown". -/

/-- A top-level `setup X` depends on the dictionary the previous requests left behind ONLY through its entry for `X`
itself (the top-level lookup runs before the reset): the product chosen, every dependency of the table, the environment
afterwards and — when the request succeeds — the dictionary it leaves are the same whatever else earlier requests on the
object recorded, for which products and for which reasons.  In particular the dependencies are resolved with
"(what is set up, reason unknown)", so no earlier, finished request's choice outranks what the VRO designates now. -/
theorem C03_request_forgets_earlier_reasons (C : Ctx) (keep : Bool) (flavors vro : List Str) (env : EnvS)
    (d d' : Dict) (c : HistCmd) (hx : assocGet c.name d = assocGet c.name d') :
    (histStep C keep flavors vro ⟨env, d⟩ c).2 = (histStep C keep flavors vro ⟨env, d'⟩ c).2 ∧
    (histStep C keep flavors vro ⟨env, d⟩ c).1.env = (histStep C keep flavors vro ⟨env, d'⟩ c).1.env ∧
    ((histStep C keep flavors vro ⟨env, d⟩ c).2 ≠ .failed → c.unsetup = false →
      (histStep C keep flavors vro ⟨env, d⟩ c).1 = (histStep C keep flavors vro ⟨env, d'⟩ c).1) := by
  unfold histStep
  cases hu : c.unsetup
  · simp only [Bool.false_eq_true, if_false, hx]
    cases resolve C { name := c.name, version := c.version, vexpr := none, depth := 0, flavor := [], ignoreVersions := false,
                      already := assocGet c.name d' } keep vro flavors with
    | error e => exact ⟨rfl, rfl, fun h => absurd rfl h⟩
    | ok o =>
      cases o with
      | none => exact ⟨rfl, rfl, fun h => absurd rfl h⟩
      | some h => exact ⟨rfl, rfl, fun _ _ => rfl⟩
  · simp only [if_true]
    cases assocGet c.name env with
    | none => exact ⟨rfl, rfl, fun h => absurd rfl h⟩
    | some p => exact ⟨rfl, rfl, fun _ h => by cases h⟩

/-- non-vacuity, the history of the seeded change: `top1` requires `p 1.0`, `top2` requires `p` (no version); on the example
database `current` is `p 2.0`.  After `setup top1` the object remembers (p 1.0, reason `version`); `setup top2` on the same
object sets up `p 2.0` all the same. -/
def exTops : Db :=
  [{ decls := [⟨sP, v10, sLinux⟩, ⟨sP, v20, sLinux⟩, ⟨[116, 49], v10, sLinux⟩, ⟨[116, 50], v10, sLinux⟩],
     tags := [⟨sCurrent, sP, sLinux, v20⟩, ⟨sCurrent, [116, 49], sLinux, v10⟩, ⟨sCurrent, [116, 50], sLinux, v10⟩] }]
def exLineP (v : Option Str) : LineSpec :=
  { name := sP, version := v, vexpr := none, lineVro := none, lineTags := [], lineKeep := false, optional := false }
example :
    let C := mkCtx simpleOrd [sCurrent, sStable, sBeta] exTops .files [sLinux, sGeneric] []
    let r := runHistory C false [sLinux, sGeneric] defaultVro ⟨[], []⟩
      [⟨[116, 49], none, [exLineP (some v10)], false⟩, ⟨[116, 50], none, [exLineP none], false⟩]
    r.1 = [.ok ⟨v10, sLinux, 0⟩ false, .ok ⟨v10, sLinux, 0⟩ false] ∧ assocGet sP r.2.env = some ⟨v20, sLinux, 0⟩ := by
  decide

/-! ## the VRO in force for a table line is the command's VRO as modified by that line only -/

/-- Whatever the lines of a table ask for (`-k`, `-t tag`, `--vro`), (1) the command's VRO is the
same after the table as before it, and (2) every line that is reached is resolved with the
command's VRO as modified by *that* line — the earlier lines leave no trace. -/
theorem C03_table_line_isolated (C : Ctx) (keep : Bool) (flavors vro : List Str) (lines : List TableLine) :
    (runTable C keep flavors vro lines).vro = vro ∧
    ∀ (i : Nat) (out : LineOut), (runTable C keep flavors vro lines).outs[i]? = some out →
      ∃ l, lines[i]? = some l ∧ out = lineOutcome C keep flavors vro l := by
  induction lines with
  | nil => simp [runTable]
  | cons l rest ih =>
    obtain ⟨ih1, ih2⟩ := ih
    unfold runTable
    simp only
    split
    · refine ⟨rfl, ?_⟩
      intro i out h
      cases i with
      | zero => simp at h; exact ⟨l, rfl, h.symm⟩
      | succ i => simp at h
    · refine ⟨ih1, ?_⟩
      intro i out h
      cases i with
      | zero => simp at h; exact ⟨l, rfl, h.symm⟩
      | succ i =>
        simp only [List.getElem?_cons_succ] at h ⊢
        exact ih2 i out h

/-- non-vacuity: `setupRequired(-k p)` then `setupRequired(p)` again in the example database, with
`p 1.0` already set up: the first line keeps 1.0, the second is answered by `current` (2.0), and
the command's VRO has no `keep` afterwards -/
def exLineKeep : TableLine :=
  { name := sP, version := none, vexpr := none, lineVro := none, lineTags := [], lineKeep := true,
    optional := false, already := some (⟨v10, sLinux, 0⟩, none) }
def exLinePlain : TableLine := { exLineKeep with lineKeep := false }
example :
    (runTable exCtx false [sLinux, sGeneric] defaultVro [exLineKeep, exLinePlain]).outs
      = [.setUp ⟨⟨v10, sLinux, 0⟩, kKeep, kKeep⟩, .setUp ⟨⟨v20, sLinux, 1⟩, sCurrent, sCurrent⟩] ∧
    (runTable exCtx false [sLinux, sGeneric] defaultVro [exLineKeep, exLinePlain]).vro = defaultVro := by
  decide

end EupsModel.C03
