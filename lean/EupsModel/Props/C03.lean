import EupsModel.Lemmas.Vro
import EupsModel.Lemmas.VroSelect
import EupsModel.Lemmas.VroC10
/-! C03 — the version chosen is the one the Version Resolution Order designates.
Property theorems only; the model is `Model/Vro.lean`, helper lemmas are in `Lemmas/Vro.lean`. -/
namespace EupsModel.C03
open EupsModel EupsModel.Vro

/-! ## a small database for the non-vacuity examples

stack 0: `p 1.0` (Linux), tagged `stable`; stack 1: `p 1.0`, `p 2.0` (Linux), `p 3.0` (generic),
`current -> 2.0` (Linux), `current -> 3.0` (generic). -/
def sP : Str := [112]
def sLinux : Str := [76, 105, 110, 117, 120]
def sGeneric : Str := [103, 101, 110, 101, 114, 105, 99]
def sCurrent : Str := [99, 117, 114, 114, 101, 110, 116]
def sStable : Str := [115, 116, 97, 98, 108, 101]
def sBeta : Str := [98, 101, 116, 97]
def v10 : Str := [49, 46, 48]
def v20 : Str := [50, 46, 48]
def v30 : Str := [51, 46, 48]
def v99 : Str := [57, 46, 57]
def exDb : Db :=
  [ { decls := [⟨sP, v10, sLinux⟩], tags := [⟨sStable, sP, sLinux, v10⟩] },
    { decls := [⟨sP, v10, sLinux⟩, ⟨sP, v20, sLinux⟩, ⟨sP, v30, sGeneric⟩],
      tags := [⟨sCurrent, sP, sLinux, v20⟩, ⟨sCurrent, sP, sGeneric, v30⟩] } ]
def exCtx : Ctx := mkCtx simpleOrd [sCurrent, sStable, sBeta] exDb .files [sLinux, sGeneric] []
def exReq (version : Option Str) (depth : Nat) : Req :=
  { name := sP, version := version, vexpr := none, depth := depth, flavor := sLinux,
    ignoreVersions := false, already := none }
/-- `type:exact commandLine version versionExpr current` -/
def defaultVro : List Str := [kTypeExact, kCommandLine, kVersion, kVersionExpr, sCurrent]

/-! ## first match -/

/-- `findProductFromVRO` returns a product exactly when some entry of the VRO yields one and every
entry before it said "continue" (none yielded a product, none of the version entries gave the
request up, none raised); the product and reason are that entry's, up to the "an earlier reason
outranks a later one" rule for a product this command has already set up. -/
theorem C03_first_match (C : Ctx) (r : Req) (vro : List Str) (h : Hit) :
    find C r vro = .ok (some h) ↔
      ∃ (h0 : Hit) (pre post : List Str),
        vro = pre ++ h0.entry :: post ∧
        lookupEntry C r h0.entry post = .ok (.hit h0.prod h0.reason) ∧
        (∀ a x b, pre = a ++ x :: b → lookupEntry C r x (b ++ h0.entry :: post) = .ok .skip) ∧
        h = applyAlready r vro h0 := by
  unfold find
  constructor
  · intro hf
    cases hw : walk C r vro with
    | error err => simp [hw] at hf
    | ok o =>
      cases o with
      | none => simp [hw] at hf
      | some h0 =>
        simp [hw] at hf
        obtain ⟨pre, post, h1, h2, h3⟩ := (walk_hit_iff C r vro h0).mp hw
        exact ⟨h0, pre, post, h1, h2, h3, hf.symm⟩
  · rintro ⟨h0, pre, post, h1, h2, h3, rfl⟩
    have hw := (walk_hit_iff C r vro h0).mpr ⟨pre, post, h1, h2, h3⟩
    simp [hw]

/-- With nothing set up beforehand the answer is the first matching entry's, as it stands. -/
theorem C03_first_match_fresh (C : Ctx) (r : Req) (vro : List Str) (h : Hit) (hr : r.already = none) :
    find C r vro = .ok (some h) ↔
      ∃ (pre post : List Str),
        vro = pre ++ h.entry :: post ∧
        lookupEntry C r h.entry post = .ok (.hit h.prod h.reason) ∧
        (∀ a x b, pre = a ++ x :: b → lookupEntry C r x (b ++ h.entry :: post) = .ok .skip) := by
  rw [C03_first_match]
  constructor
  · rintro ⟨h0, pre, post, h1, h2, h3, rfl⟩
    have : applyAlready r vro h0 = h0 := by simp [applyAlready, hr]
    rw [this]
    exact ⟨pre, post, h1, h2, h3⟩
  · rintro ⟨pre, post, h1, h2, h3⟩
    exact ⟨h, pre, post, h1, h2, h3, by simp [applyAlready, hr]⟩

/-- Nothing is returned exactly when every entry said "continue", or the first entry that did not
is a version entry giving the request up. -/
theorem C03_no_match (C : Ctx) (r : Req) (vro : List Str) :
    find C r vro = .ok none ↔
      (∀ a x b, vro = a ++ x :: b → lookupEntry C r x b = .ok .skip) ∨
      ∃ pre e post, vro = pre ++ e :: post ∧ lookupEntry C r e post = .ok .abort ∧
        (∀ a x b, pre = a ++ x :: b → lookupEntry C r x (b ++ e :: post) = .ok .skip) := by
  have hw := walk_none_iff C r vro
  unfold AllSkip at hw
  simp only [List.append_nil] at hw
  rw [← hw]
  unfold find
  cases walk C r vro with
  | error err => simp
  | ok o => cases o <;> simp

/-- non-vacuity: on the default VRO, no version named, `current` (the fifth entry) answers with the
version tagged in stack 1 — stack 0 has no `current` — after four entries that said "continue" -/
example : find exCtx (exReq none 0) defaultVro = .ok (some ⟨⟨v20, sLinux, 1⟩, sCurrent, sCurrent⟩) := by
  decide

/-! ## a request that names a version does not fall through -/

/-- Once a request names a version or an expression, whatever stands behind the last version-type
entry of the VRO is never consulted: looking the product up with the whole VRO gives the answer of
the VRO cut after that entry — whatever tags follow, and whatever they are assigned to. -/
theorem C03_named_request_never_falls_through (C : Ctx) (r : Req) (pre : List Str) (e : Str)
    (post : List Str) (hn : r.named.isSome = true) (he : isVT e = true)
    (hpost : ∀ x ∈ post, isVT x = false) :
    find C r (pre ++ e :: post) = find C r (pre ++ [e]) := by
  have hw := walk_cut C r pre e post hn he hpost
  unfold find
  rw [hw]
  cases hw' : walk C r (pre ++ [e]) with
  | error err => rfl
  | ok o =>
    cases o with
    | none => rfl
    | some h =>
      have hm := walk_entry_mem hw'
      have : pre ++ e :: post = (pre ++ [e]) ++ post := by simp
      simp only [this, applyAlready_append r (pre ++ [e]) post h hm]

/-- In particular: when the version entries find nothing, the request fails, whatever tags follow. -/
theorem C03_named_request_fails (C : Ctx) (r : Req) (pre : List Str) (e : Str) (post : List Str)
    (hn : r.named.isSome = true) (he : isVT e = true) (hpost : ∀ x ∈ post, isVT x = false)
    (hnone : find C r (pre ++ [e]) = .ok none) : find C r (pre ++ e :: post) = .ok none := by
  rw [C03_named_request_never_falls_through C r pre e post hn he hpost, hnone]

/-- non-vacuity: `p 9.9` is not declared; `current` stands behind `versionExpr` on the default VRO
and would answer `2.0` — the request fails instead (and `p` without a version does get `2.0`). -/
example : (exReq (some v99) 1).named.isSome = true ∧ isVT kVersionExpr = true ∧
    (∀ x ∈ [sCurrent], isVT x = false) ∧
    find exCtx (exReq (some v99) 1) ([kTypeExact, kCommandLine, kVersion] ++ kVersionExpr :: [sCurrent]) = .ok none := by
  decide

/-! ## what each kind of entry yields -/

theorem tagHere_none_iff (st : Stack) (t n f : Str) :
    tagHere st t n f = none ↔
      ∀ v, ¬ (tagVersion st t n f = some v ∧ declared st n v f = true) := by
  rw [Option.eq_none_iff_forall_ne_some]
  constructor
  · intro h v hv
    exact h v ((tagHere_some_iff st t n f v).mpr hv)
  · intro h v hv
    exact h v ((tagHere_some_iff st t n f v).mp hv)

/-- A tag entry yields the version carrying that tag in the first stack on the path that has it —
"has it" meaning: the stack's chain file assigns the tag, for the flavor asked, to a version the
stack declares for that flavor.  The reason reported is the tag. -/
theorem C03_tag_entry (C : Ctx) (r : Req) (e : Str) (post : List Str) (p : Prod) (reason : Str)
    (ht : isPlainTag C e = true) :
    lookupEntry C r e post = .ok (.hit p reason) ↔
      reason = e ∧ p.flavor = r.flavor ∧
      (∃ st, C.db[p.stack]? = some st ∧ tagVersion st e r.name r.flavor = some p.version ∧
          declared st r.name p.version r.flavor = true) ∧
      ∀ (j : Nat) (st' : Stack), j < p.stack → C.db[j]? = some st' →
        ∀ v, ¬ (tagVersion st' e r.name r.flavor = some v ∧ declared st' r.name v r.flavor = true) := by
  rw [lookupEntry_plainTag post ht]
  cases hl : lookupTag C.db e r.name r.flavor with
  | none =>
    simp only [Except.ok.injEq, reduceCtorEq, false_iff]
    rintro ⟨_, hf, hst, hmin⟩
    have : lookupTag C.db e r.name r.flavor = some p := by
      apply (lookupTag_some_iff ..).mpr
      obtain ⟨st, h1, h2, h3⟩ := hst
      refine ⟨hf, ⟨st, h1, (tagHere_some_iff ..).mpr ⟨h2, h3⟩⟩, ?_⟩
      intro j st' hj hget
      exact (tagHere_none_iff ..).mpr (hmin j st' hj hget)
    rw [hl] at this
    cases this
  | some q =>
    simp only [Except.ok.injEq, Outcome.hit.injEq]
    constructor
    · rintro ⟨hq, hr⟩
      subst hq
      obtain ⟨hf, ⟨st, h1, h2⟩, hmin⟩ := (lookupTag_some_iff ..).mp hl
      obtain ⟨h2, h3⟩ := (tagHere_some_iff ..).mp h2
      refine ⟨hr.symm, hf, ⟨st, h1, h2, h3⟩, ?_⟩
      intro j st' hj hget
      exact (tagHere_none_iff ..).mp (hmin j st' hj hget)
    · rintro ⟨hr, hf, ⟨st, h1, h2, h3⟩, hmin⟩
      have : lookupTag C.db e r.name r.flavor = some p := by
        apply (lookupTag_some_iff ..).mpr
        refine ⟨hf, ⟨st, h1, (tagHere_some_iff ..).mpr ⟨h2, h3⟩⟩, ?_⟩
        intro j st' hj hget
        exact (tagHere_none_iff ..).mpr (hmin j st' hj hget)
      rw [hl] at this
      cases this
      exact ⟨rfl, hr.symm⟩

/-- ... and says "continue" exactly when no stack has it; it never gives the request up. -/
theorem C03_tag_entry_absent (C : Ctx) (r : Req) (e : Str) (post : List Str) (ht : isPlainTag C e = true) :
    (lookupEntry C r e post = .ok .skip ↔
      ∀ st ∈ C.db, ∀ v, ¬ (tagVersion st e r.name r.flavor = some v ∧ declared st r.name v r.flavor = true)) ∧
    lookupEntry C r e post ≠ .ok .abort := by
  rw [lookupEntry_plainTag post ht]
  cases hl : lookupTag C.db e r.name r.flavor with
  | none =>
    refine ⟨⟨fun _ st hst => ?_, fun _ => rfl⟩, by simp⟩
    have : firstStack (fun st => tagHere st e r.name r.flavor) 0 C.db = none := by
      simpa [lookupTag] using hl
    exact (tagHere_none_iff ..).mp ((firstStack_none_iff _ 0 C.db).mp this st hst)
  | some q =>
    refine ⟨⟨fun h => by simp at h, fun h => ?_⟩, by simp⟩
    obtain ⟨_, ⟨st, h1, h2⟩, _⟩ := (lookupTag_some_iff ..).mp hl
    exact absurd ((tagHere_some_iff ..).mp h2) (h st (List.mem_of_getElem? h1) q.version)

/-- non-vacuity: `current` is an ordinary tag of the example context -/
example : isPlainTag exCtx sCurrent = true := by decide

/-- A version entry yields the explicitly named version from the first stack declaring it for the
flavor; the reason reported is `commandLine` at the top level and `version` below it. -/
theorem C03_version_entry (C : Ctx) (r : Req) (e v : Str) (post : List Str) (p : Prod) (reason : Str)
    (he : isVT e = true) (hv : r.named = some v) (hex : isExpr v = .ok false)
    (hx : e = kVersionExpr → r.vexpr = none) :
    lookupEntry C r e post = .ok (.hit p reason) ↔
      reason = (if r.depth == 0 then kCommandLine else kVersion) ∧
      p.version = v ∧ p.flavor = r.flavor ∧
      (∃ st, C.db[p.stack]? = some st ∧ declared st r.name v r.flavor = true) ∧
      ∀ (j : Nat) (st' : Stack), j < p.stack → C.db[j]? = some st' → declared st' r.name v r.flavor = false := by
  rw [lookupEntry_vt he, hv]
  simp only
  rw [lookupVT_explicit post hex hx]
  cases hl : lookupVersion C.db r.name v r.flavor with
  | none =>
    have hne : ¬ ((if post.any isVT = true then (Except.ok Outcome.skip : Except Err Outcome) else .ok .abort)
        = .ok (.hit p reason)) := by
      split <;> simp
    simp only [hne, false_iff, not_and]
    intro _ h1 h2 h3 h4
    have : lookupVersion C.db r.name v r.flavor = some p := (lookupVersion_some_iff ..).mpr ⟨h1, h2, h3, h4⟩
    rw [hl] at this
    cases this
  | some q =>
    simp only [Except.ok.injEq, Outcome.hit.injEq]
    constructor
    · rintro ⟨rfl, rfl⟩
      exact ⟨rfl, (lookupVersion_some_iff ..).mp hl⟩
    · rintro ⟨rfl, h⟩
      have : lookupVersion C.db r.name v r.flavor = some p := (lookupVersion_some_iff ..).mpr h
      rw [hl] at this
      cases this
      exact ⟨rfl, rfl⟩

/-- When no stack declares the named version, the entry hands over to a later version-type entry
if there is one and gives the request up otherwise — it never lets the walk go on to the tags. -/
theorem C03_version_entry_absent (C : Ctx) (r : Req) (e v : Str) (post : List Str)
    (he : isVT e = true) (hv : r.named = some v) (hex : isExpr v = .ok false)
    (hx : e = kVersionExpr → r.vexpr = none)
    (habs : ∀ st ∈ C.db, declared st r.name v r.flavor = false) :
    lookupEntry C r e post = .ok (if post.any isVT then .skip else .abort) := by
  rw [lookupEntry_vt he, hv]
  simp only
  rw [lookupVT_explicit post hex hx, (lookupVersion_none_iff ..).mpr habs]
  by_cases hp : post.any isVT = true <;> simp [hp]

/-- non-vacuity: `p 1.0` at depth 1 on the example database: stack 0 declares it -/
example : isVT kVersion = true ∧ (exReq (some v10) 1).named = some v10 ∧ isExpr v10 = .ok false ∧
    lookupEntry exCtx (exReq (some v10) 1) kVersion [kVersionExpr, sCurrent] = .ok (.hit ⟨v10, sLinux, 0⟩ kVersion) := by
  decide

/-- An expression entry yields the highest declared version satisfying the expression: when some
stack declares, for the flavor, a version that satisfies it, the `versionExpr` entry answers with a
satisfying version, taken from the first stack in which it satisfies, such that no satisfying
version anywhere on the path is newer.  (`GoodOrdOn P`: the order properties of `version_cmp` on a class
`P` of names containing every declared version name; `C03_expr_entry_is_max_conv` instantiates it
with C10's comparator on conventional names.) -/
theorem C03_expr_entry_is_max (C : Ctx) (P : Str → Prop) (g : GoodOrdOn P C.ord.cmp) (hP : DeclIn P C.db)
    (r : Req) (v : Str) (post : List Str) (hv : r.named = some v) (hex : isExpr v = .ok true)
    (hsat : ∃ st ∈ C.db, ∃ w, declared st r.name w r.flavor = true ∧ C.ord.vmatch w v = true) :
    ∃ p, lookupEntry C r kVersionExpr post = .ok (.hit p kVersionExpr) ∧
      p.flavor = r.flavor ∧
      (∃ st, C.db[p.stack]? = some st ∧ declared st r.name p.version r.flavor = true ∧
          C.ord.vmatch p.version v = true ∧
          ∀ (j : Nat) (st' : Stack), j < p.stack → C.db[j]? = some st' →
            ¬ (declared st' r.name p.version r.flavor = true ∧ C.ord.vmatch p.version v = true)) ∧
      ∀ (j : Nat) (st : Stack) (w : Str), C.db[j]? = some st → declared st r.name w r.flavor = true →
        C.ord.vmatch w v = true → C.ord.cmp w p.version ≤ 0 := by
  rw [lookupEntry_vt isVT_versionExpr, hv]
  simp only
  rw [lookupVT_expr post hex (named_nonempty hv)]
  cases hl : lookupExpr C.ord C.db r.name r.flavor v with
  | none =>
    obtain ⟨st, hst, w, h1, h2⟩ := hsat
    exact absurd ⟨h1, h2⟩ (lookupExpr_none hl st hst w)
  | some p =>
    obtain ⟨h1, ⟨st, h2, h3, h4⟩, h5⟩ := lookupExpr_some g hP hl
    refine ⟨p, rfl, h1, ⟨st, h2, h3.1, h3.2, h4⟩, ?_⟩
    intro j st' w hj hd hm
    exact h5 j st' w hj ⟨hd, hm⟩

/-- When no declared version satisfies the expression (and none is literally named like it), the
entry hands over to a later version-type entry or gives the request up. -/
theorem C03_expr_entry_absent (C : Ctx) (r : Req) (v : Str) (post : List Str)
    (hv : r.named = some v) (hex : isExpr v = .ok true)
    (hnone : ∀ st ∈ C.db, ∀ w, ¬ (declared st r.name w r.flavor = true ∧ C.ord.vmatch w v = true))
    (hlit : ∀ st ∈ C.db, declared st r.name v r.flavor = false) :
    lookupEntry C r kVersionExpr post = .ok (if post.any isVT then .skip else .abort) := by
  rw [lookupEntry_vt isVT_versionExpr, hv]
  simp only
  rw [lookupVT_expr post hex (named_nonempty hv)]
  cases hl : lookupExpr C.ord C.db r.name r.flavor v with
  | none =>
    simp only
    rw [(lookupVersion_none_iff ..).mpr hlit]
    by_cases hp : post.any isVT = true <;> simp [hp]
  | some p =>
    obtain ⟨_, ⟨st, h2, h3, _⟩, _⟩ :=
      selectLatest_some hl |> fun ⟨a, b, c⟩ => (⟨a, (mem_exprCands ..).mp b, c⟩ :
        p.flavor = r.flavor ∧ (∃ st, C.db[p.stack]? = some st ∧ satisfies C.ord.vmatch st r.name r.flavor v p.version ∧ _) ∧ _)
    exact absurd h3 (hnone st (List.mem_of_getElem? h2) p.version)

/-- An expression at a `version` / `version!` entry is left for the `versionExpr` entry if one
follows; otherwise the request is given up there and then. -/
theorem C03_expr_at_version_entry (C : Ctx) (r : Req) (e v : Str) (post : List Str)
    (he : e = kVersion ∨ e = kVersionBang) (hv : r.named = some v) (hex : isExpr v = .ok true) :
    lookupEntry C r e post = .ok (if post.contains kVersionExpr then .skip else .abort) := by
  have hvt : isVT e = true := by rcases he with rfl | rfl <;> decide
  have hne : (e != kVersionExpr) = true := by rcases he with rfl | rfl <;> decide
  rw [lookupEntry_vt hvt, hv]
  simp only [lookupVT, hex, hne, Bool.and_self, if_true]
  split <;> rfl

/-- the order hypotheses are satisfiable: any comparison by a numeric key is a `GoodOrd`
(here: the decimal value of the name) -/
example : GoodOrd (fun a b => (Str.toNat a : Int) - Str.toNat b) :=
  ⟨fun a _ => by simp, fun a b _ _ h => by omega, fun a b c _ _ _ h1 h2 => by omega⟩

/-- ... and so is the dotted-decimal order the correspondence runs and the examples use -/
example : GoodOrd exCtx.ord.cmp := simpleCmp_good

/-- non-vacuity: `p >= 2.0` on the example database (flavor Linux) is answered by `versionExpr`
with 2.0 from stack 1; `3.0` exists for the other flavor only -/
example : lookupEntry exCtx (exReq (some [62, 61, 32, 50, 46, 48]) 1) kVersionExpr [sCurrent]
    = .ok (.hit ⟨v20, sLinux, 1⟩ kVersionExpr) := by decide

/-- `latest` is not "the first stack that has the tag": it yields a declared version such that no
version declared anywhere on the path (for the flavor) is newer; it says "continue" only when
nothing is declared.  (`latest` reads `Ctx.dbLatest`: `_findLatestProduct` ignores `noCache`.) -/
theorem C03_latest_entry_is_max (C : Ctx) (P : Str → Prop) (g : GoodOrdOn P C.ord.cmp) (hP : DeclIn P C.dbLatest)
    (r : Req) (post : List Str) (hl : C.recognized kLatest = true) :
    (∀ p reason, lookupEntry C r kLatest post = .ok (.hit p reason) →
      reason = kLatest ∧ p.flavor = r.flavor ∧
      (∃ st, C.dbLatest[p.stack]? = some st ∧ declared st r.name p.version r.flavor = true) ∧
      ∀ (j : Nat) (st : Stack) (w : Str), C.dbLatest[j]? = some st → declared st r.name w r.flavor = true →
        C.ord.cmp w p.version ≤ 0) ∧
    (lookupEntry C r kLatest post = .ok .skip →
      ∀ st ∈ C.dbLatest, ∀ w, declared st r.name w r.flavor = false) ∧
    lookupEntry C r kLatest post ≠ .ok .abort := by
  have hentry : lookupEntry C r kLatest post =
      .ok (match lookupLatest C.ord.cmp C.dbLatest r.name r.flavor with
           | some p => .hit p kLatest
           | none => .skip) := by
    cases hll : lookupLatest C.ord.cmp C.dbLatest r.name r.flavor <;>
      simp [lookupEntry, show (kLatest == kPath) = false by decide, show (kLatest == kKeep) = false by decide,
        show (kLatest == kCommandLine) = false by decide, show isVT kLatest = false by decide,
        show isWarn kLatest = false by decide, show colon ∉ kLatest by decide, hl,
        show (kLatest == kSetup) = false by decide, lookupTagEntry, hll]
  rw [hentry]
  cases hll : lookupLatest C.ord.cmp C.dbLatest r.name r.flavor with
  | none =>
    refine ⟨by intro p reason h; simp at h, ?_, by simp⟩
    intro _
    exact lookupLatest_none g hP hll
  | some q =>
    refine ⟨?_, by intro h; simp at h, by simp⟩
    intro p reason h
    simp only [Except.ok.injEq, Outcome.hit.injEq] at h
    obtain ⟨rfl, rfl⟩ := h
    obtain ⟨h1, h2, h3⟩ := lookupLatest_some g hP hll
    exact ⟨rfl, h1, h2, h3⟩

/-- non-vacuity: in the example database the newest Linux version, 2.0, is in the second stack -/
example : lookupEntry exCtx (exReq none 0) kLatest [] = .ok (.hit ⟨v20, sLinux, 1⟩ kLatest) := by decide

/-! ## with C10's comparator: unconditional on conventional version names -/

/-- `C03_expr_entry_is_max` with the model of `version_cmp` / `version_match` that C10 verifies
(`c10Ord`), for databases whose version names are conventional (`convName`): no hypothesis on the
order is left — C10's `C10_refl`, `C10_conv_total`, `C10_conv_trans` discharge it. -/
theorem C03_expr_entry_is_max_conv (C : Ctx) (hord : C.ord = c10Ord) (hconv : DeclIn ConvName C.db)
    (r : Req) (v : Str) (post : List Str) (hv : r.named = some v) (hex : isExpr v = .ok true)
    (hsat : ∃ st ∈ C.db, ∃ w, declared st r.name w r.flavor = true ∧ c10Match w v = true) :
    ∃ p, lookupEntry C r kVersionExpr post = .ok (.hit p kVersionExpr) ∧
      p.flavor = r.flavor ∧
      (∃ st, C.db[p.stack]? = some st ∧ declared st r.name p.version r.flavor = true ∧
          c10Match p.version v = true ∧
          ∀ (j : Nat) (st' : Stack), j < p.stack → C.db[j]? = some st' →
            ¬ (declared st' r.name p.version r.flavor = true ∧ c10Match p.version v = true)) ∧
      ∀ (j : Nat) (st : Stack) (w : Str), C.db[j]? = some st → declared st r.name w r.flavor = true →
        c10Match w v = true → c10Cmp w p.version ≤ 0 := by
  have g : GoodOrdOn ConvName C.ord.cmp := by rw [hord]; exact c10Cmp_good
  have := C03_expr_entry_is_max C ConvName g hconv r v post hv hex (by rw [hord]; exact hsat)
  rw [hord] at this
  exact this

/-- ... and `latest` likewise -/
theorem C03_latest_entry_is_max_conv (C : Ctx) (hord : C.ord = c10Ord) (hconv : DeclIn ConvName C.dbLatest)
    (r : Req) (post : List Str) (hl : C.recognized kLatest = true) :
    (∀ p reason, lookupEntry C r kLatest post = .ok (.hit p reason) →
      reason = kLatest ∧ p.flavor = r.flavor ∧
      (∃ st, C.dbLatest[p.stack]? = some st ∧ declared st r.name p.version r.flavor = true) ∧
      ∀ (j : Nat) (st : Stack) (w : Str), C.dbLatest[j]? = some st → declared st r.name w r.flavor = true →
        c10Cmp w p.version ≤ 0) ∧
    (lookupEntry C r kLatest post = .ok .skip →
      ∀ st ∈ C.dbLatest, ∀ w, declared st r.name w r.flavor = false) ∧
    lookupEntry C r kLatest post ≠ .ok .abort := by
  have g : GoodOrdOn ConvName C.ord.cmp := by rw [hord]; exact c10Cmp_good
  have := C03_latest_entry_is_max C ConvName g hconv r post hl
  rw [hord] at this
  exact this

/-- non-vacuity: the example database has conventional version names, and with C10's comparator
`p >= 2.0` is answered by 2.0 from stack 1 -/
def exCtxC10 : Ctx := mkCtx c10Ord [sCurrent, sStable, sBeta] exDb .files [sLinux, sGeneric] []
example : DeclIn ConvName exCtxC10.db := by
  intro st hst d hd
  simp only [exCtxC10, mkCtx, exDb, List.mem_cons, List.not_mem_nil, or_false] at hst
  rcases hst with rfl | rfl
  · simp only [List.mem_cons, List.not_mem_nil, or_false] at hd
    subst hd; show VersionCmp.convName _ = true; decide
  · simp only [List.mem_cons, List.not_mem_nil, or_false] at hd
    rcases hd with rfl | rfl | rfl <;> (show VersionCmp.convName _ = true; decide)
example : lookupEntry exCtxC10 (exReq (some [62, 61, 32, 50, 46, 48]) 1) kVersionExpr [sCurrent]
    = .ok (.hit ⟨v20, sLinux, 1⟩ kVersionExpr) := by decide

/-! ## the flavor loop -/

/-- The flavor loop answers with a native-flavor declaration when one resolves: if the VRO walk for
the native flavor yields a product (one that the top level accepts: no other version than an
explicitly named one), that product is the answer, and it is of the native flavor — the fallback
flavors are not consulted. -/
theorem C03_native_flavor_first (C : Ctx) (r : Req) (keep : Bool) (vro : List Str) (native : Str)
    (rest : List Str) (h : Hit) (hr : r.already = none)
    (hf : find C { r with flavor := native } vro = .ok (some h))
    (hacc : acceptableB r h = .ok true) :
    resolve C r keep vro (native :: rest) = .ok (some h) ∧ h.prod.flavor = native := by
  have hr' : ({ r with flavor := native } : Req).already = none := hr
  have hacc' : acceptableB { r with flavor := native } h = .ok true := hacc
  constructor
  · unfold resolve
    rw [resolveFlavor_of_find_some hf hacc']
  · rw [find_eq_walk vro hr'] at hf
    exact walk_flavor hr' hf

/-- ... and with the fallback declaration otherwise: when nothing resolves for the native flavor the
answer is that of the remaining flavors, in their order. -/
theorem C03_fallback_when_native_absent (C : Ctx) (r : Req) (keep : Bool) (vro : List Str) (native : Str)
    (rest : List Str) (hr : r.already = none)
    (hf : find C { r with flavor := native } vro = .ok none) :
    resolve C r keep vro (native :: rest) = resolve C r keep vro rest := by
  have hr' : ({ r with flavor := native } : Req).already = none := hr
  conv => lhs; unfold resolve
  rw [resolveFlavor_of_find_none hr' hf]

/-- the recursion of the flavor loop never runs out of the fuel `resolve` gives it (so `outOfFuel`
is never the model's answer) -/
theorem C03_resolve_fuel_enough (C : Ctx) (r : Req) (keep : Bool) (vro : List Str) (flavors : List Str) :
    resolve C r keep vro flavors ≠ .error .outOfFuel := by
  induction flavors with
  | nil => simp [resolve]
  | cons fl rest ih =>
    unfold resolve
    split
    · rename_i e he
      intro hc; cases hc
      exact resolveFlavor_fuel C _ keep _ vro (Nat.lt_succ_self _) he
    · simp
    · exact ih

/-- non-vacuity: `p >= 2.0`: 2.0 (Linux, stack 1) wins over 3.0 (generic);
`p >= 3.0`: nothing for Linux, the generic 3.0 is used -/
example : resolve exCtx (exReq (some [62, 61, 32, 50, 46, 48]) 0) false defaultVro [sLinux, sGeneric]
    = .ok (some ⟨⟨v20, sLinux, 1⟩, kVersionExpr, kVersionExpr⟩) := by decide
example : resolve exCtx (exReq (some [62, 61, 32, 51, 46, 48]) 0) false defaultVro [sLinux, sGeneric]
    = .ok (some ⟨⟨v30, sGeneric, 1⟩, kVersionExpr, kVersionExpr⟩) := by decide

/-! ## through the cache (D16, repaired by 9143b09) -/

/-- Through the cache — whatever was accepted or rebuilt, `noCache=True` on a cached instance
(`Mode.mixed`) included — `findProductFromVRO` gives, for every flavor the process loads (the native
flavor and its fallbacks), the answer it gives through the files. -/
theorem C03_cache_view_agrees (o : Ord) (tags : List Str) (db : Db) (loaded : List Str)
    (accepted : List Bool) (r : Req) (vro : List Str) (m : Mode)
    (hyp : (∀ b ∈ accepted, b = false) ∨ r.flavor ∈ loaded) :
    find (mkCtx o tags db m loaded accepted) r vro = find (mkCtx o tags db .files loaded accepted) r vro := by
  rcases hyp with h | h
  · have := cacheView_all_rebuilt loaded accepted db h
    cases m <;> simp [mkCtx, this]
  · have hv : ViewsAgree r.flavor (cacheView loaded accepted db) db := cacheView_agree h accepted db
    cases m
    · rfl
    · exact find_view_congr (C := mkCtx o tags db .cache loaded accepted)
        (C' := mkCtx o tags db .files loaded accepted) rfl rfl hv hv vro
    · exact find_view_congr (C := mkCtx o tags db .mixed loaded accepted)
        (C' := mkCtx o tags db .files loaded accepted) rfl rfl (viewsAgree_refl _ _) hv vro

/-- The flavor loop through the cache is the flavor loop through the files: the process loads the
native flavor and its fallbacks, which are the flavors the loop visits, so whatever stacks had their
cache accepted or rebuilt the answer is the same — no hypothesis on the load outcome is left. -/
theorem C03_fallback_via_cache (o : Ord) (tags : List Str) (db : Db) (native : Str) (fallbacks : List Str)
    (accepted : List Bool) (r : Req) (keep : Bool) (vro : List Str) (m : Mode) :
    resolve (mkCtx o tags db m (native :: fallbacks) accepted) r keep vro (native :: fallbacks) =
      resolve (mkCtx o tags db .files (native :: fallbacks) accepted) r keep vro (native :: fallbacks) := by
  cases m
  · rfl
  · exact resolve_view_congr (C := mkCtx o tags db .cache (native :: fallbacks) accepted)
      (C' := mkCtx o tags db .files (native :: fallbacks) accepted) r keep vro _ rfl rfl
      (fun f hf => cacheView_agree hf accepted db) (fun f hf => cacheView_agree hf accepted db)
  · exact resolve_view_congr (C := mkCtx o tags db .mixed (native :: fallbacks) accepted)
      (C' := mkCtx o tags db .files (native :: fallbacks) accepted) r keep vro _ rfl rfl
      (fun f _ => viewsAgree_refl f db) (fun f hf => cacheView_agree hf accepted db)

/-- so a native-flavor declaration is preferred, and the fallback used otherwise, through the cache as
through the files: `C03_native_flavor_first` read through any cache view -/
theorem C03_native_flavor_first_via_cache (o : Ord) (tags : List Str) (db : Db) (native : Str)
    (fallbacks : List Str) (accepted : List Bool) (m : Mode) (r : Req) (keep : Bool) (vro : List Str) (h : Hit)
    (hr : r.already = none)
    (hf : find (mkCtx o tags db .files (native :: fallbacks) accepted) { r with flavor := native } vro = .ok (some h))
    (hacc : acceptableB r h = .ok true) :
    resolve (mkCtx o tags db m (native :: fallbacks) accepted) r keep vro (native :: fallbacks) = .ok (some h) ∧
      h.prod.flavor = native := by
  rw [C03_fallback_via_cache]
  exact C03_native_flavor_first _ r keep vro native fallbacks h hr hf hacc

/-- On the pinned tree (before 9143b09) the clause was false (D16): `p 3.0` is declared for the fallback
flavor only; a fresh process that accepts the cache of the stack reads it for the native flavor alone
(`mkCtxPinned`) and does not see the declaration, the files do. -/
theorem C03_fallback_via_cache_witness :
    let db : Db := [{ decls := [⟨sP, v20, sLinux⟩, ⟨sP, v30, sGeneric⟩], tags := [⟨sCurrent, sP, sGeneric, v30⟩] }]
    let r : Req := { exReq none 0 with flavor := sGeneric }
    find (mkCtxPinned simpleOrd [sCurrent] db .cache sLinux [true]) r defaultVro = .ok none ∧
    find (mkCtxPinned simpleOrd [sCurrent] db .files sLinux [true]) r defaultVro
      = .ok (some ⟨⟨v30, sGeneric, 0⟩, sCurrent, sCurrent⟩) ∧
    resolve (mkCtxPinned simpleOrd [sCurrent] db .cache sLinux [true]) { exReq (some v30) 0 with } false defaultVro
      [sLinux, sGeneric] = .ok none ∧
    resolve (mkCtxPinned simpleOrd [sCurrent] db .files sLinux [true]) { exReq (some v30) 0 with } false defaultVro
      [sLinux, sGeneric] = .ok (some ⟨⟨v30, sGeneric, 0⟩, kCommandLine, kVersion⟩) ∧
    -- the repaired rule on the same input sees it
    resolve (mkCtx simpleOrd [sCurrent] db .cache [sLinux, sGeneric] [true]) { exReq (some v30) 0 with } false
      defaultVro [sLinux, sGeneric] = .ok (some ⟨⟨v30, sGeneric, 0⟩, kCommandLine, kVersion⟩) := by
  decide

/-! ## where `selectVRO` puts the -t and -T tags (default configuration) -/

/-- example configuration: hooks.py as shipped, global tags `current stable beta`, a fresh instance -/
def exCfg (keep exact : Bool) : VroCfg :=
  { vroDict := [(kDefault, .flat defaultBase)], userVRO := false, keep := keep, exact := exact,
    globalTags := [kCurrent, sStable, sBeta], cmdTags := [],
    prevPreferred := [kVersion, kVersionExpr, kCurrent, sStable, kLatest] }
def exArgs (tags postTags : List Str) (version : Bool) : VroArgs :=
  { tags := tags, productDir := false, versionName := version, dbz := none, inexact := false, postTags := postTags }

/-- Under the default configuration, with any -t and -T tags (registered global tags), keep / exact /
inexact / version / -r in any combination, `selectVRO` succeeds and every -t tag stands on the
resulting VRO behind nothing but `keep`, `type:exact`, `commandLine` and other -t tags — in
particular in front of every version-type entry. -/
theorem C03_pretag_before_version (c : VroCfg) (a : VroArgs) (d : DefaultCfg c)
    (ht : ∀ t ∈ a.tags, GoodTag c t) (hp : ∀ t ∈ a.postTags, GoodTag c t) :
    ∃ out, selectVRO c a = .ok out ∧
      ∀ t ∈ a.tags, ∃ pre post, out.vro = pre ++ t :: post ∧
        ∀ x ∈ pre, (x ∈ [kKeep, kTypeExact, kCommandLine] ∨ x ∈ a.tags) ∧ isVT x = false := by
  obtain ⟨out, hsel, hvro⟩ := selectVRO_default d a ht hp
  refine ⟨out, hsel, ?_⟩
  intro t htm
  have hnw := noWarn_placed (keep := c.keep) ht hp
  have hm : movedByExact c a.tags t = false := by
    rw [(ht t htm).moved]; simp [htm]
  have hne : t ≠ kTypeExact := by
    intro h; have := (ht t htm).noColon; rw [h] at this; revert this; decide
  obtain ⟨pre, post, h1, h2⟩ := beforeP_cleanVro d a.tags a.inexact hnw hm hne (beforeP_placed c.keep a.tags a.postTags htm)
  refine ⟨pre, post, by rw [hvro, h1], ?_⟩
  intro x hx
  refine ⟨h2 x hx, ?_⟩
  rcases h2 x hx with h | h
  · simp only [List.mem_cons, List.not_mem_nil, or_false] at h
    rcases h with rfl | rfl | rfl <;> decide
  · exact (ht x h).isVT

/-- ... and no version-type entry stands behind a -T tag (one that is not also given with -t); the
tag is on the VRO, and so are `version` and `versionExpr`. -/
theorem C03_posttag_after_version (c : VroCfg) (a : VroArgs) (d : DefaultCfg c)
    (ht : ∀ t ∈ a.tags, GoodTag c t) (hp : ∀ t ∈ a.postTags, GoodTag c t) :
    ∃ out, selectVRO c a = .ok out ∧ kVersion ∈ out.vro ∧ kVersionExpr ∈ out.vro ∧
      ∀ y ∈ a.postTags, y ∉ a.tags →
        y ∈ out.vro ∧ ∀ pre post, out.vro = pre ++ y :: post → ∀ x ∈ post, isVT x = false := by
  obtain ⟨out, hsel, hvro⟩ := selectVRO_default d a ht hp
  have hnw := noWarn_placed (keep := c.keep) ht hp
  have hv := kVersion_mem_placed c.keep a.tags a.postTags
  refine ⟨out, hsel, ?_, ?_, ?_⟩
  · rw [hvro]; exact mem_cleanVro_of_mem d a.tags a.inexact hnw hv.1 (by decide)
  · rw [hvro]; exact mem_cleanVro_of_mem d a.tags a.inexact hnw hv.2 (by decide)
  · intro y hy hyt
    have gy := hp y hy
    have hne : y ≠ kTypeExact := by
      intro h; have := gy.noColon; rw [h] at this; revert this; decide
    have hm : movedByExact c a.tags y = true := by
      rw [gy.moved]; simpa using hyt
    have hvt : ∀ x, isVT x = true → movedByExact c a.tags x = false :=
      fun x hx => fixed_not_moved d a.tags (isVT_fixed hx)
    constructor
    · rw [hvro]
      apply mem_cleanVro_of_mem d a.tags a.inexact hnw _ hne
      simp [placed, hy]
    · rw [hvro]
      exact noVTBehind_cleanVro d a.tags a.inexact hnw hm hvt (noVTBehind_placed c.keep hp gy hyt)

/-- non-vacuity: the example configuration is a default configuration, `beta` and `stable` are good
tags, and `setup --keep -t beta -T stable p 1.0` gives
`keep type:exact commandLine beta version versionExpr stable current` -/
example : DefaultCfg (exCfg true false) :=
  ⟨rfl, rfl, rfl, by decide, by
    intro t h
    have : t = kCurrent ∨ t = sStable ∨ t = sBeta := by simpa [exCfg] using h
    rcases this with rfl | rfl | rfl <;> decide⟩
example : GoodTag (exCfg true false) sBeta ∧ GoodTag (exCfg true false) sStable :=
  ⟨⟨by decide, by decide, by decide, by decide⟩, ⟨by decide, by decide, by decide, by decide⟩⟩
example : (selectVRO (exCfg true false) (exArgs [sBeta] [sStable] true)).map (·.vro)
    = .ok [kKeep, kTypeExact, kCommandLine, sBeta, kVersion, kVersionExpr, sStable, kCurrent] := by decide
/-- with `--exact`, tags not given with -t go to the end, behind `warn:1` -/
example : (selectVRO (exCfg false true) (exArgs [sBeta] [sStable] false)).map (·.vro)
    = .ok [kTypeExact, kCommandLine, sBeta, kVersion, kVersionExpr, sStable, kCurrent] := by decide

/-- Pre-tags override table versions: below the top level, with nothing set up beforehand, if `x` is
the only -t tag that designates a version of the product, that version is the answer on the VRO
`selectVRO` built — whatever version (or expression) the table names. -/
theorem C03_pretag_overrides_table_version (c : VroCfg) (a : VroArgs) (d : DefaultCfg c)
    (ht : ∀ t ∈ a.tags, GoodTag c t) (hp : ∀ t ∈ a.postTags, GoodTag c t)
    (out : VroOut) (hsel : selectVRO c a = .ok out)
    (C : Ctx) (r : Req) (hr : r.already = none) (hdepth : 0 < r.depth)
    (hplain : ∀ t ∈ a.tags, isPlainTag C t = true)
    (x : Str) (hx : x ∈ a.tags) (p : Prod) (hxp : lookupTag C.db x r.name r.flavor = some p)
    (hothers : ∀ t ∈ a.tags, t ≠ x → lookupTag C.db t r.name r.flavor = none) :
    find C r out.vro = .ok (some ⟨p, x, x⟩) := by
  obtain ⟨out', hsel', hpos⟩ := C03_pretag_before_version c a d ht hp
  rw [hsel] at hsel'
  cases hsel'
  obtain ⟨A, B, hAB, hxA, hA⟩ := beforeP_first (P := fun y => (y ∈ [kKeep, kTypeExact, kCommandLine] ∨ y ∈ a.tags) ∧ isVT y = false)
    (hpos x hx)
  rw [find_eq_walk _ hr]
  apply (walk_hit_iff C r out.vro ⟨p, x, x⟩).mpr
  refine ⟨A, B, hAB, ?_, ?_⟩
  · show lookupEntry C r x B = _
    rw [lookupEntry_plainTag B (hplain x hx), hxp]
  · intro a0 e b hsplit
    have heA : e ∈ A := by rw [hsplit]; simp
    obtain ⟨hmem, _⟩ := hA e heA
    rcases hmem with h | h
    · simp only [List.mem_cons, List.not_mem_nil, or_false] at h
      rcases h with rfl | rfl | rfl
      · have : (0 < r.depth) = True := by simp [hdepth]
        simp [lookupEntry, show (kKeep == kPath) = false by decide, hdepth, hr]
      · simp [lookupEntry, show (kTypeExact == kPath) = false by decide,
          show (kTypeExact == kKeep) = false by decide, show (kTypeExact == kCommandLine) = false by decide,
          show isVT kTypeExact = false by decide, show isWarn kTypeExact = false by decide,
          show colon ∈ kTypeExact by decide, show isType kTypeExact = true by decide]
      · simp [lookupEntry, show (kCommandLine == kPath) = false by decide,
          show (kCommandLine == kKeep) = false by decide, hr]
    · have hne : e ≠ x := fun hc => hxA (hc ▸ heA)
      rw [lookupEntry_plainTag _ (hplain e h), hothers e h hne]

/-- Post-tags apply only when no usable version is named: for a request that names a version or an
expression the answer on the VRO `selectVRO` built is the answer of an initial piece of that VRO which
does not contain the -T tag — so it does not depend on what the tag is assigned to. -/
theorem C03_posttag_only_without_version (c : VroCfg) (a : VroArgs) (d : DefaultCfg c)
    (ht : ∀ t ∈ a.tags, GoodTag c t) (hp : ∀ t ∈ a.postTags, GoodTag c t)
    (out : VroOut) (hsel : selectVRO c a = .ok out)
    (C : Ctx) (r : Req) (hn : r.named.isSome = true) (y : Str) (hy : y ∈ a.postTags) (hyt : y ∉ a.tags) :
    ∃ pre e post, out.vro = pre ++ e :: post ∧ y ∉ pre ++ [e] ∧
      find C r out.vro = find C r (pre ++ [e]) := by
  obtain ⟨out', hsel', hv, _, hpos⟩ := C03_posttag_after_version c a d ht hp
  rw [hsel] at hsel'
  cases hsel'
  obtain ⟨pre, e, post, hsplit, he, hpost⟩ := last_VT_split ⟨kVersion, hv, by decide⟩
  refine ⟨pre, e, post, hsplit, ?_, ?_⟩
  · intro hm
    rcases List.mem_append.mp hm with hm | hm
    · obtain ⟨p1, p2, rfl⟩ := List.append_of_mem hm
      have := (hpos y hy hyt).2 p1 (p2 ++ e :: post) (by rw [hsplit]; simp) e (by simp)
      rw [he] at this; cases this
    · simp only [List.mem_singleton] at hm
      have := (hp y hy).isVT
      rw [hm, he] at this; cases this
  · rw [hsplit]
    exact C03_named_request_never_falls_through C r pre e post hn he hpost

/-! ## the VRO in force for a table line is the command's VRO as modified by that line only -/

/-- Whatever the lines of a table ask for (`-k`, `-t tag`, `--vro`), (1) the command's VRO is the
same after the table as before it, and (2) every line that is reached is resolved with the
command's VRO as modified by *that* line — the earlier lines leave no trace. -/
theorem C03_table_line_isolated (C : Ctx) (keep : Bool) (flavors vro : List Str) (lines : List TableLine) :
    (runTable C keep flavors vro lines).vro = vro ∧
    ∀ (i : Nat) (out : LineOut), (runTable C keep flavors vro lines).outs[i]? = some out →
      ∃ l, lines[i]? = some l ∧ out = lineOutcome C keep flavors vro l := by
  induction lines with
  | nil => simp [runTable]
  | cons l rest ih =>
    obtain ⟨ih1, ih2⟩ := ih
    unfold runTable
    simp only
    split
    · refine ⟨rfl, ?_⟩
      intro i out h
      cases i with
      | zero => simp at h; exact ⟨l, rfl, h.symm⟩
      | succ i => simp at h
    · refine ⟨ih1, ?_⟩
      intro i out h
      cases i with
      | zero => simp at h; exact ⟨l, rfl, h.symm⟩
      | succ i =>
        simp only [List.getElem?_cons_succ] at h ⊢
        exact ih2 i out h

/-- non-vacuity: `setupRequired(-k p)` then `setupRequired(p)` again in the example database, with
`p 1.0` already set up: the first line keeps 1.0, the second is answered by `current` (2.0), and
the command's VRO has no `keep` afterwards -/
def exLineKeep : TableLine :=
  { name := sP, version := none, vexpr := none, lineVro := none, lineTags := [], lineKeep := true,
    optional := false, already := some (⟨v10, sLinux, 0⟩, none) }
def exLinePlain : TableLine := { exLineKeep with lineKeep := false }
example :
    (runTable exCtx false [sLinux, sGeneric] defaultVro [exLineKeep, exLinePlain]).outs
      = [.setUp ⟨⟨v10, sLinux, 0⟩, kKeep, kKeep⟩, .setUp ⟨⟨v20, sLinux, 1⟩, sCurrent, sCurrent⟩] ∧
    (runTable exCtx false [sLinux, sGeneric] defaultVro [exLineKeep, exLinePlain]).vro = defaultVro := by
  decide

end EupsModel.C03
