/-! C03 — property theorems (placeholder until the model exists). -/
