import EupsModel.Lemmas.Vro
/-! C03 — the version chosen is the one the Version Resolution Order designates.
Property theorems only; the model is `Model/Vro.lean`, helper lemmas are in `Lemmas/Vro.lean`. -/
namespace EupsModel.C03
open EupsModel EupsModel.Vro

/-! ## a small database for the non-vacuity examples

stack 0: `p 1.0` (Linux), tagged `stable`; stack 1: `p 1.0`, `p 2.0` (Linux), `p 3.0` (generic),
`current -> 2.0` (Linux), `current -> 3.0` (generic). -/
def sP : Str := [112]
def sLinux : Str := [76, 105, 110, 117, 120]
def sGeneric : Str := [103, 101, 110, 101, 114, 105, 99]
def sCurrent : Str := [99, 117, 114, 114, 101, 110, 116]
def sStable : Str := [115, 116, 97, 98, 108, 101]
def sBeta : Str := [98, 101, 116, 97]
def v10 : Str := [49, 46, 48]
def v20 : Str := [50, 46, 48]
def v30 : Str := [51, 46, 48]
def v99 : Str := [57, 46, 57]
def exDb : Db :=
  [ { decls := [⟨sP, v10, sLinux⟩], tags := [⟨sStable, sP, sLinux, v10⟩] },
    { decls := [⟨sP, v10, sLinux⟩, ⟨sP, v20, sLinux⟩, ⟨sP, v30, sGeneric⟩],
      tags := [⟨sCurrent, sP, sLinux, v20⟩, ⟨sCurrent, sP, sGeneric, v30⟩] } ]
def exCtx : Ctx := mkCtx simpleOrd [sCurrent, sStable, sBeta] exDb .files sLinux []
def exReq (version : Option Str) (depth : Nat) : Req :=
  { name := sP, version := version, vexpr := none, depth := depth, flavor := sLinux,
    ignoreVersions := false, already := none }
/-- `type:exact commandLine version versionExpr current` -/
def defaultVro : List Str := [kTypeExact, kCommandLine, kVersion, kVersionExpr, sCurrent]

/-! ## first match -/

/-- `findProductFromVRO` returns a product exactly when some entry of the VRO yields one and every
entry before it said "continue" (none yielded a product, none of the version entries gave the
request up, none raised); the product and reason are that entry's, up to the "an earlier reason
outranks a later one" rule for a product this command has already set up. -/
theorem C03_first_match (C : Ctx) (r : Req) (vro : List Str) (h : Hit) :
    find C r vro = .ok (some h) ↔
      ∃ (h0 : Hit) (pre post : List Str),
        vro = pre ++ h0.entry :: post ∧
        lookupEntry C r h0.entry post = .ok (.hit h0.prod h0.reason) ∧
        (∀ a x b, pre = a ++ x :: b → lookupEntry C r x (b ++ h0.entry :: post) = .ok .skip) ∧
        h = applyAlready r vro h0 := by
  unfold find
  constructor
  · intro hf
    cases hw : walk C r vro with
    | error err => simp [hw] at hf
    | ok o =>
      cases o with
      | none => simp [hw] at hf
      | some h0 =>
        simp [hw] at hf
        obtain ⟨pre, post, h1, h2, h3⟩ := (walk_hit_iff C r vro h0).mp hw
        exact ⟨h0, pre, post, h1, h2, h3, hf.symm⟩
  · rintro ⟨h0, pre, post, h1, h2, h3, rfl⟩
    have hw := (walk_hit_iff C r vro h0).mpr ⟨pre, post, h1, h2, h3⟩
    simp [hw]

/-- With nothing set up beforehand the answer is the first matching entry's, as it stands. -/
theorem C03_first_match_fresh (C : Ctx) (r : Req) (vro : List Str) (h : Hit) (hr : r.already = none) :
    find C r vro = .ok (some h) ↔
      ∃ (pre post : List Str),
        vro = pre ++ h.entry :: post ∧
        lookupEntry C r h.entry post = .ok (.hit h.prod h.reason) ∧
        (∀ a x b, pre = a ++ x :: b → lookupEntry C r x (b ++ h.entry :: post) = .ok .skip) := by
  rw [C03_first_match]
  constructor
  · rintro ⟨h0, pre, post, h1, h2, h3, rfl⟩
    have : applyAlready r vro h0 = h0 := by simp [applyAlready, hr]
    rw [this]
    exact ⟨pre, post, h1, h2, h3⟩
  · rintro ⟨pre, post, h1, h2, h3⟩
    exact ⟨h, pre, post, h1, h2, h3, by simp [applyAlready, hr]⟩

/-- Nothing is returned exactly when every entry said "continue", or the first entry that did not
is a version entry giving the request up. -/
theorem C03_no_match (C : Ctx) (r : Req) (vro : List Str) :
    find C r vro = .ok none ↔
      (∀ a x b, vro = a ++ x :: b → lookupEntry C r x b = .ok .skip) ∨
      ∃ pre e post, vro = pre ++ e :: post ∧ lookupEntry C r e post = .ok .abort ∧
        (∀ a x b, pre = a ++ x :: b → lookupEntry C r x (b ++ e :: post) = .ok .skip) := by
  have hw := walk_none_iff C r vro
  unfold AllSkip at hw
  simp only [List.append_nil] at hw
  rw [← hw]
  unfold find
  cases walk C r vro with
  | error err => simp
  | ok o => cases o <;> simp

/-- non-vacuity: on the default VRO, no version named, `current` (the fifth entry) answers with the
version tagged in stack 1 — stack 0 has no `current` — after four entries that said "continue" -/
example : find exCtx (exReq none 0) defaultVro = .ok (some ⟨⟨v20, sLinux, 1⟩, sCurrent, sCurrent⟩) := by
  decide

/-! ## a request that names a version does not fall through -/

/-- Once a request names a version or an expression, whatever stands behind the last version-type
entry of the VRO is never consulted: looking the product up with the whole VRO gives the answer of
the VRO cut after that entry — whatever tags follow, and whatever they are assigned to. -/
theorem C03_named_request_never_falls_through (C : Ctx) (r : Req) (pre : List Str) (e : Str)
    (post : List Str) (hn : r.named.isSome = true) (he : isVT e = true)
    (hpost : ∀ x ∈ post, isVT x = false) :
    find C r (pre ++ e :: post) = find C r (pre ++ [e]) := by
  have hw := walk_cut C r pre e post hn he hpost
  unfold find
  rw [hw]
  cases hw' : walk C r (pre ++ [e]) with
  | error err => rfl
  | ok o =>
    cases o with
    | none => rfl
    | some h =>
      have hm := walk_entry_mem hw'
      have : pre ++ e :: post = (pre ++ [e]) ++ post := by simp
      simp only [this, applyAlready_append r (pre ++ [e]) post h hm]

/-- In particular: when the version entries find nothing, the request fails, whatever tags follow. -/
theorem C03_named_request_fails (C : Ctx) (r : Req) (pre : List Str) (e : Str) (post : List Str)
    (hn : r.named.isSome = true) (he : isVT e = true) (hpost : ∀ x ∈ post, isVT x = false)
    (hnone : find C r (pre ++ [e]) = .ok none) : find C r (pre ++ e :: post) = .ok none := by
  rw [C03_named_request_never_falls_through C r pre e post hn he hpost, hnone]

/-- non-vacuity: `p 9.9` is not declared; `current` stands behind `versionExpr` on the default VRO
and would answer `2.0` — the request fails instead (and `p` without a version does get `2.0`). -/
example : (exReq (some v99) 1).named.isSome = true ∧ isVT kVersionExpr = true ∧
    (∀ x ∈ [sCurrent], isVT x = false) ∧
    find exCtx (exReq (some v99) 1) ([kTypeExact, kCommandLine, kVersion] ++ kVersionExpr :: [sCurrent]) = .ok none := by
  decide

end EupsModel.C03
