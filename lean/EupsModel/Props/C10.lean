import EupsModel.Lemmas.VersionMatch
import EupsModel.Lemmas.VersionAcross
import EupsModel.Lemmas.VersionExpr
import EupsModel.Lemmas.VersionPrint
import EupsModel.Lemmas.VersionList
import EupsModel.Lemmas.VersionLex
/-! C10 — version names are ordered consistently: property theorems.

`stdCompare strict a b` is the model of `hooks.version_cmp(a, b, mustReturnInt = !strict)`
(`Model/VersionCmp.lean`); a name is *accepted* when `lex` succeeds on it (the only way it does not is
the `AttributeError` of `_splitVersion` on a name that starts with `-` or `+`). -/
namespace EupsModel.C10
open EupsModel EupsModel.VersionCmp

/-! names used in the examples and witnesses, as code points (`#guard` checks the spelling) -/
def n_1d2mrc1p3 : Str := [49, 46, 50, 45, 114, 99, 49, 43, 51]   -- 1.2-rc1+3
#guard Str.toString n_1d2mrc1p3 == "1.2-rc1+3"
def n_1d2 : Str := [49, 46, 50]   -- 1.2
#guard Str.toString n_1d2 == "1.2"
def n_rc1 : Str := [114, 99, 49]   -- rc1
#guard Str.toString n_rc1 == "rc1"
def n_3 : Str := [51]   -- 3
#guard Str.toString n_3 == "3"
def n_1d10 : Str := [49, 46, 49, 48]   -- 1.10
#guard Str.toString n_1d10 == "1.10"
def n_1d9 : Str := [49, 46, 57]   -- 1.9
#guard Str.toString n_1d9 == "1.9"
def n_v1 : Str := [118, 49]   -- v1
#guard Str.toString n_v1 == "v1"
def n_w1 : Str := [119, 49]   -- w1
#guard Str.toString n_w1 == "w1"
def n_m1 : Str := [45, 49]   -- -1
#guard Str.toString n_m1 == "-1"
def n_1 : Str := [49]   -- 1
#guard Str.toString n_1 == "1"
def n_v1d0 : Str := [118, 49, 46, 48]   -- v1.0
#guard Str.toString n_v1d0 == "v1.0"
def n_v1u0mrc1 : Str := [118, 49, 95, 48, 45, 114, 99, 49]   -- v1_0-rc1
#guard Str.toString n_v1u0mrc1 == "v1_0-rc1"
def n_v1d0mrc1 : Str := [118, 49, 46, 48, 45, 114, 99, 49]   -- v1.0-rc1
#guard Str.toString n_v1d0mrc1 == "v1.0-rc1"
def n_01mrc02p1 : Str := [48, 49, 45, 114, 99, 48, 50, 43, 49]   -- 01-rc02+1
#guard Str.toString n_01mrc02p1 == "01-rc02+1"
def n_1mrc02p1 : Str := [49, 45, 114, 99, 48, 50, 43, 49]   -- 1-rc02+1
#guard Str.toString n_1mrc02p1 == "1-rc02+1"
def n_2 : Str := [50]   -- 2
#guard Str.toString n_2 == "2"
def n_10 : Str := [49, 48]   -- 10
#guard Str.toString n_10 == "10"
def n_1a : Str := [49, 97]   -- 1a
#guard Str.toString n_1a == "1a"
def n_1d2d0 : Str := [49, 46, 50, 46, 48]   -- 1.2.0
#guard Str.toString n_1d2d0 == "1.2.0"
def n_1d2mrc1 : Str := [49, 46, 50, 45, 114, 99, 49]   -- 1.2-rc1
#guard Str.toString n_1d2mrc1 == "1.2-rc1"
def n_1d2p1 : Str := [49, 46, 50, 43, 49]   -- 1.2+1
#guard Str.toString n_1d2p1 == "1.2+1"
def n_a1db2 : Str := [97, 49, 46, 98, 50]   -- a1.b2
#guard Str.toString n_a1db2 == "a1.b2"

def n_1d8a : Str := [49, 46, 56, 97]   -- 1.8a
#guard Str.toString n_1d8a == "1.8a"
def n_1d80 : Str := [49, 46, 56, 48]   -- 1.80
#guard Str.toString n_1d80 == "1.80"
def n_0a : Str := [48, 97]   -- 0a
#guard Str.toString n_0a == "0a"
def n_09 : Str := [48, 57]   -- 09
#guard Str.toString n_09 == "09"

def n_10d0 : Str := [49, 48, 46, 48]   -- 10.0
#guard Str.toString n_10d0 == "10.0"
def n_3d0 : Str := [51, 46, 48]   -- 3.0
#guard Str.toString n_3d0 == "3.0"
def n_4d0 : Str := [52, 46, 48]   -- 4.0
#guard Str.toString n_4d0 == "4.0"

/-! ## which names are accepted; the model's recursion bound -/

/-- Every name that does not start with `-` or `+` is accepted, and so is every name with at least two
hyphens (`rel-0-8-2`: the whole name is the primary part) and the empty name. -/
theorem C10_accepted (a : Str) (h : a = [] ∨ hyphens a ≥ 2 ∨ ∃ c cs, a = c :: cs ∧ notPM c = true) :
    ∃ la, lex a = .ok la := lex_accepts a h

/-- A comparison ends with an integer, with the rejection of a malformed name, or — strict mode only —
with "cannot be sorted"; in particular the recursion bound of the model's `lex` is never hit. -/
theorem C10_outcomes (strict : Bool) (a b : Str) (e : Err) (h : stdCompare strict a b = .error e) :
    e = .malformed ∨ (strict = true ∧ e = .unsortable) := stdCompare_error h

example : ∃ la, lex n_1d2mrc1p3 = .ok la := C10_accepted _ (Or.inr (Or.inr ⟨49, _, rfl, by decide⟩))

/-! ## reflexivity and antisymmetry: every accepted name, both modes -/

/-- A name the comparator accepts compares equal to itself, in the sorting and in the strict mode. -/
theorem C10_refl (strict : Bool) (a : Str) (la : Lexed) (h : lex a = .ok la) :
    stdCompare strict a a = .ok 0 := by
  cases strict <;> simp [stdCompare, h, cmpLexed, cmpSort_self, cmpStrict_self]

/-- Sorting mode (`mustReturnInt=True`): it answers for every pair of accepted names … -/
theorem C10_sort_total (a b : Str) (la lb : Lexed) (ha : lex a = .ok la) (hb : lex b = .ok lb) :
    ∃ r, stdCompare false a b = .ok r := by
  exact ⟨cmpSort la lb, by simp [stdCompare, ha, hb, cmpLexed]⟩

/-- … and swapping the arguments negates the answer, for every pair of names whatsoever. -/
theorem C10_antisym (a b : Str) (r : Int) (h : stdCompare false a b = .ok r) :
    stdCompare false b a = .ok (-r) := by
  simp only [stdCompare] at h ⊢
  cases ha : lex a with
  | error e => simp [ha] at h
  | ok la =>
    cases hb : lex b with
    | error e => simp [ha, hb] at h
    | ok lb =>
      simp only [ha, hb, cmpLexed, Bool.false_eq_true, if_false, Except.ok.injEq] at h ⊢
      rw [← h, cmpSort_antisym la lb]; omega

/-- Strict mode (`mustReturnInt=False`, the mode of relational expressions): an answer is negated by
swapping the arguments … -/
theorem C10_antisym_strict (a b : Str) (r : Int) (h : stdCompare true a b = .ok r) :
    stdCompare true b a = .ok (-r) := by
  simp only [stdCompare] at h ⊢
  cases ha : lex a with
  | error e => simp [ha] at h
  | ok la =>
    cases hb : lex b with
    | error e => simp [ha, hb] at h
    | ok lb =>
      simp only [ha, hb, cmpLexed, if_true] at h ⊢
      rw [cmpStrict_symm la lb, h]

/-- … and "cannot be sorted" does not depend on the order of the arguments (accepted names). -/
theorem C10_unsortable_symm (a b : Str) (la lb : Lexed) (ha : lex a = .ok la) (hb : lex b = .ok lb) (e : Err)
    (h : stdCompare true a b = .error e) : stdCompare true b a = .error e := by
  simp only [stdCompare, ha, hb, cmpLexed, if_true] at h ⊢
  rw [cmpStrict_symm la lb, h]

/-- The two modes never contradict each other: when the strict mode answers, the sorting mode gives
the same answer. -/
theorem C10_strict_agrees_with_sort (a b : Str) (r : Int) (h : stdCompare true a b = .ok r) :
    stdCompare false a b = .ok r := by
  simp only [stdCompare] at h ⊢
  cases ha : lex a with
  | error e => simp [ha] at h
  | ok la =>
    cases hb : lex b with
    | error e => simp [ha, hb] at h
    | ok lb =>
      simp only [ha, hb, cmpLexed, if_true, Bool.false_eq_true, if_false, Except.ok.injEq] at h ⊢
      exact cmpStrict_agrees h

/-! non-vacuity: accepted names, a strict answer, a strict refusal -/
example : lex n_1d2mrc1p3 = .ok (.node n_1d2 (.node n_rc1 .absent .absent) (.node n_3 .absent .absent)) := by decide
example : stdCompare true n_1d10 n_1d9 = .ok 1 := by decide
example : stdCompare true n_v1 n_w1 = .error .unsortable := by decide
example : stdCompare false n_m1 n_1 = .error .malformed := by decide

/-! ## conventional names: a transitive total order with the stated shape

`convName a` (model, `Bool`): `a` is accepted and every `.`/`_`-separated component of its primary,
secondary and tertiary part is a run of letters followed by a run of digits (either may be empty).
This contains the grammar of the property (`conventionalName`: `[letters] digits (sep digits)*`,
optional `-pre`, optional `+post`; lemma `conventional_conv`) — the harness checks that every name
its conventional generator produces satisfies `conventional` in the model. -/

theorem convName_lex {a : Str} (h : convName a = true) : ∃ la, lex a = .ok la ∧ convLexed la = true := by
  simp only [convName] at h
  cases hl : lex a with
  | error e => simp [hl] at h
  | ok la => exact ⟨la, rfl, by simpa [hl] using h⟩

theorem conventionalName_convName {a : Str} (h : conventionalName a = true) : convName a = true := by
  simp only [conventionalName, convName] at h ⊢
  cases hl : lex a with
  | error e => simp [hl] at h
  | ok la => simp only [hl] at h ⊢; exact conventional_conv h

/-- Total: any two conventional names are comparable, one way or the other (sorting mode). -/
theorem C10_conv_total (a b : Str) (ha : convName a = true) (hb : convName b = true) :
    ∃ r, stdCompare false a b = .ok r ∧ stdCompare false b a = .ok (-r) ∧ (r ≤ 0 ∨ -r ≤ 0) := by
  obtain ⟨la, hla, _⟩ := convName_lex ha
  obtain ⟨lb, hlb, _⟩ := convName_lex hb
  obtain ⟨r, hr⟩ := C10_sort_total a b la lb hla hlb
  exact ⟨r, hr, C10_antisym a b r hr, by omega⟩

/-- Transitive: `a ≤ b` and `b ≤ c` give `a ≤ c`, strictly if one of the steps is strict. -/
theorem C10_conv_trans (a b c : Str) (ha : convName a = true) (hb : convName b = true) (hc : convName c = true)
    (r1 r2 : Int) (h1 : stdCompare false a b = .ok r1) (h2 : stdCompare false b c = .ok r2)
    (hr1 : r1 ≤ 0) (hr2 : r2 ≤ 0) :
    ∃ r3, stdCompare false a c = .ok r3 ∧ r3 ≤ 0 ∧ ((r1 < 0 ∨ r2 < 0) → r3 < 0) := by
  obtain ⟨la, hla, ca⟩ := convName_lex ha
  obtain ⟨lb, hlb, cb⟩ := convName_lex hb
  obtain ⟨lc, hlc, cc⟩ := convName_lex hc
  simp only [stdCompare, hla, hlb, hlc, cmpLexed, Bool.false_eq_true, if_false, Except.ok.injEq] at h1 h2 ⊢
  subst h1; subst h2
  refine ⟨_, rfl, good_cmpSort.trans la lb lc ca cb cc hr1 hr2, ?_⟩
  rintro (h | h)
  · exact good_cmpSort.lt_of_lt_le ca cb cc h hr2
  · exact good_cmpSort.lt_of_le_lt ca cb cc hr1 h

/-- In the strict mode (the one relational expressions use) conventional names of the property's
grammar that carry the same letters in front are always sortable, with the sorting mode's answer. -/
theorem C10_conv_strict_total (a b : Str) (la lb : Lexed) (hla : lex a = .ok la) (hlb : lex b = .ok lb)
    (ha : conventional la = true) (hb : conventional lb = true) (hp : letterPrefix la = letterPrefix lb) :
    stdCompare true a b = stdCompare false a b := by
  simp only [stdCompare, hla, hlb, cmpLexed, if_true, Bool.false_eq_true, if_false]
  exact cmpStrict_of_intPairs (intPairs_conventional ha hb hp)

/-- Components compare numerically: the first differing components, with the same letters and
different numbers, decide by the numbers (`1.9 < 1.10`, `v2 < v10`, `1.2-rc9 …` is `C10` one level down). -/
theorem C10_numeric (a b : Str) (la lb : Lexed) (hla : lex a = .ok la) (hlb : lex b = .ok lb)
    (cs r1 r2 : List Str) (l d1 d2 : Str)
    (hl : ∀ c ∈ l, Str.isAlpha c = true) (hd1 : ∀ c ∈ d1, isDig c = true) (hd2 : ∀ c ∈ d2, isDig c = true)
    (n1 : d1 ≠ []) (n2 : d2 ≠ [])
    (hca : la.comps = cs ++ (l ++ d1) :: r1) (hcb : lb.comps = cs ++ (l ++ d2) :: r2)
    (hne : Str.toNat d1 ≠ Str.toNat d2) :
    stdCompare false a b = .ok (cmpNat (Str.toNat d1) (Str.toNat d2)) := by
  simp only [stdCompare, hla, hlb, cmpLexed, Bool.false_eq_true, if_false, Except.ok.injEq]
  rw [cmpSort_unfold, hca, hcb, cmpComps_common_prefix, cmpC_numeric ⟨hl, hd1⟩ ⟨hl, hd2⟩ n1 n2]
  have : cmpNat (Str.toNat d1) (Str.toNat d2) ≠ 0 := by
    simp only [cmpNat]; split
    · omega
    · split <;> omega
  simp [this]

/-- A longer name follows its prefix: `1.2 < 1.2.0`, whatever the `-pre`/`+post` parts are. -/
theorem C10_longer_follows_prefix (a b : Str) (la lb : Lexed) (hla : lex a = .ok la) (hlb : lex b = .ok lb)
    (e : List Str) (he : e ≠ []) (h : lb.comps = la.comps ++ e) :
    stdCompare false a b = .ok (-1) := by
  simp only [stdCompare, hla, hlb, cmpLexed, Bool.false_eq_true, if_false, Except.ok.injEq]
  rw [cmpSort_unfold, h, cmpComps_longer _ _ he]; simp

/-- A pre-release precedes the release: equal primary parts (as the component loop sees them — `1.0`,
`1_0` and `01.0` are equal), a `-pre` part on the left and none on the right. -/
theorem C10_prerelease_precedes (a b : Str) (la lb : Lexed) (hla : lex a = .ok la) (hlb : lex b = .ok lb)
    (hp : cmpComps la.comps lb.comps = 0) (hs : la.sec.present = true) (hn : lb.sec.present = false) :
    stdCompare false a b = .ok (-1) := by
  simp only [stdCompare, hla, hlb, cmpLexed, Bool.false_eq_true, if_false, Except.ok.injEq]
  rw [cmpSort_unfold, hp]
  simp [secTer, hs, hn]

/-- A post-release follows the release: equal primary parts, no `-pre` part on either side, a `+post`
part (with a non-empty primary, i.e. not of the form `m<digits>`) on the left and none on the right. -/
theorem C10_postrelease_follows (a b : Str) (la lb : Lexed) (hla : lex a = .ok la) (hlb : lex b = .ok lb)
    (hp : cmpComps la.comps lb.comps = 0) (hs : la.sec.present = false) (hn : lb.sec.present = false)
    (p : Str) (s' t' : Lexed) (ht : la.ter = .node p s' t') (hpn : p ≠ []) (hb : lb.ter = .absent) :
    stdCompare false a b = .ok 1 := by
  simp only [stdCompare, hla, hlb, cmpLexed, Bool.false_eq_true, if_false, Except.ok.injEq]
  rw [cmpSort_unfold, hp]
  simp only [ne_eq, not_true_eq_false, if_false, secTer, hs, hn, Bool.or_self, Bool.false_eq_true, ht, hb]
  rw [cmpSort_unfold]
  simp only [Lexed.comps, Lexed.prim, splitSep]
  rw [cmpComps_splitSep_absent hpn]; simp

/-! non-vacuity of the hypotheses and instances of the clauses -/
example : conventionalName n_1d2mrc1p3 = true ∧ convName n_1d2mrc1p3 = true := by decide
example : conventionalName n_v1u0mrc1 = true ∧ conventionalName n_v1d0 = true := by decide
example : convName n_a1db2 = true ∧ conventionalName n_a1db2 = false := by decide    -- `a1.b2`: inside the class of the theorems, outside the property's grammar
example : convName n_1a = false := by decide                                         -- `1a` (digits before letters) is outside: see the cycle witness
example : stdCompare false n_1d9 n_1d10 = .ok (-1) ∧ stdCompare true n_1d9 n_1d10 = .ok (-1) := by decide
example : stdCompare false n_1d2 n_1d2d0 = .ok (-1) := by decide
example : stdCompare false n_1d2mrc1 n_1d2 = .ok (-1) ∧ stdCompare false n_1d2p1 n_1d2 = .ok 1 := by decide
example : stdCompare false n_1d2mrc1p3 n_1d2p1 = .ok (-1) := by decide

/-! ## at the level of strings: what a name splits into, and the clauses about pre-releases and post-releases

`Piece s`: `s` is non-empty, has no `-`/`+`, and does not end in `m<digits>`/`p<digits>` (the `VVVm#`/`VVVp#`
spelling, which `_splitVersion` reads as `VVV-#`/`VVV+#`). -/

/-- **print/parse**: the names `p`, `p-e`, `p+f`, `p-e+f` built from pieces split into exactly these pieces
(`lex` is the model of `_splitVersion` applied to the name and again to its parts). -/
theorem C10_lex_print (p e f : Str) (hp : Piece p) (he : Piece e) (hf : Piece f) :
    lex p = .ok (.node p .absent .absent) ∧
    lex (p ++ 45 :: e) = .ok (.node p (.node e .absent .absent) .absent) ∧
    lex (p ++ 43 :: f) = .ok (.node p .absent (.node f .absent .absent)) ∧
    lex (p ++ 45 :: (e ++ 43 :: f)) = .ok (.node p (.node e .absent .absent) (.node f .absent .absent)) :=
  ⟨lex_piece hp, lex_pre ⟨hp.1, hp.2.1⟩ he, lex_post ⟨hp.1, hp.2.1⟩ hf, lex_pre_post ⟨hp.1, hp.2.1⟩ he hf⟩

/-- **A pre-release precedes the release, as strings**: `p-e < p` and `p-e+f < p` for all pieces. -/
theorem C10_prerelease_precedes_str (p e f : Str) (hp : Piece p) (he : Piece e) (hf : Piece f) :
    stdCompare false (p ++ 45 :: e) p = .ok (-1) ∧ stdCompare false (p ++ 45 :: (e ++ 43 :: f)) p = .ok (-1) := by
  obtain ⟨h1, h2, _, h4⟩ := C10_lex_print p e f hp he hf
  exact ⟨C10_prerelease_precedes _ _ _ _ h2 h1 (by simp [Lexed.comps, Lexed.prim, cmpComps_self]) rfl rfl,
    C10_prerelease_precedes _ _ _ _ h4 h1 (by simp [Lexed.comps, Lexed.prim, cmpComps_self]) rfl rfl⟩

/-- **A post-release follows the release, as strings**: `p < p+f`, and `p-e < p-e+f`. -/
theorem C10_postrelease_follows_str (p e f : Str) (hp : Piece p) (he : Piece e) (hf : Piece f) :
    stdCompare false (p ++ 43 :: f) p = .ok 1 ∧
    stdCompare false (p ++ 45 :: (e ++ 43 :: f)) (p ++ 45 :: e) = .ok 1 := by
  obtain ⟨h1, h2, h3, h4⟩ := C10_lex_print p e f hp he hf
  refine ⟨C10_postrelease_follows _ _ _ _ h3 h1 (by simp [Lexed.comps, Lexed.prim, cmpComps_self]) rfl rfl
    f .absent .absent rfl hf.1 rfl, ?_⟩
  -- equal primaries and equal pre-release parts: the post-release part decides
  simp only [stdCompare, h4, h2, cmpLexed, Bool.false_eq_true, if_false, Except.ok.injEq]
  rw [cmpSort_unfold]
  simp only [Lexed.comps, Lexed.prim, cmpComps_self, ne_eq, not_true_eq_false, if_false, secTer, Lexed.sec, Lexed.present,
    Bool.or_self, Bool.and_self, if_true, cmpSort_self, Lexed.ter]
  rw [cmpSort_unfold]
  simp only [Lexed.comps, Lexed.prim, splitSep]
  rw [cmpComps_splitSep_absent hf.1]; simp

example : Piece n_1d2 ∧ Piece n_rc1 ∧ Piece n_3 := by
  refine ⟨⟨by decide, ?_, by decide⟩, ⟨by decide, ?_, by decide⟩, ⟨by decide, ?_, by decide⟩⟩ <;>
    (intro c hc; simp [n_1d2, n_rc1, n_3] at hc; simp [notPM]; omega)

/-! ## relational requests

`versionMatch x expr` is the model of `Eups.version_match(x, expr)` being truthy.  `render t ts` is the
text `op v || op v || …` (single blanks), `isRelop`: one of `< <= == >= >`, `wfName`: non-empty, over
`[A-Za-z0-9._+-]`. -/

/-- the relation an operator stands for, on the sign of the comparison -/
def relSem (op : Str) (r : Int) : Prop :=
  (op = opLt ∧ r < 0) ∨ (op = opLe ∧ r ≤ 0) ∨ (op = opEq ∧ r = 0) ∨ (op = opGe ∧ r ≥ 0) ∨ (op = opGt ∧ r > 0)

theorem termHolds_iff (cmp : Str → Str → Except Err Int) (x : Str) (t : Term) (hop : isRelop t.1) :
    termHolds cmp x t = true ↔ ∃ r, cmp x t.2 = .ok r ∧ relSem t.1 r := by
  have d : opLt ≠ opLe ∧ opLt ≠ opEq ∧ opLt ≠ opGe ∧ opLt ≠ opGt ∧ opLe ≠ opEq ∧ opLe ≠ opGe ∧ opLe ≠ opGt ∧
      opEq ≠ opGe ∧ opEq ≠ opGt ∧ opGe ≠ opGt := by decide
  obtain ⟨d1, d2, d3, d4, d5, d6, d7, d8, d9, d10⟩ := d
  simp only [termHolds]
  cases hc : cmp x t.2 with
  | error e => simp
  | ok r =>
    simp only [Except.ok.injEq, exists_eq_left']
    rcases hop with h | h | h | h | h <;> rw [h] <;>
      simp [relHolds, relSem, d1, d2, d3, d4, d5, d6, d7, d8, d9, d10, d1.symm, d2.symm, d3.symm, d4.symm, d5.symm,
        d6.symm, d7.symm, d8.symm, d9.symm, d10.symm]

/-- **Relational requests accept exactly the versions the order puts in the stated relation, and an
`||` chain is the disjunction of its terms** — for every name `x` and every chain whose comparisons
with `x` are defined in the strict mode (no "cannot be sorted", no malformed name). -/
theorem C10_match_iff (x : Str) (t : Term) (ts : List Term)
    (hwf : ∀ y ∈ t :: ts, WfTerm y) (hcmp : ∀ y ∈ t :: ts, ∃ r, stdCompare true x y.2 = .ok r) :
    versionMatch x (render t ts) = .ok true ↔
      ∃ y ∈ t :: ts, ∃ r, stdCompare true x y.2 = .ok r ∧ relSem y.1 r := by
  have htok := tokenize_render t ts (hwf t (by simp)) (fun y hy => hwf y (by simp [hy]))
  have hloop := matchLoop_chain (stdCompare true) x t ts (fun y hy => ⟨(hwf y hy).1, hcmp y hy⟩)
  simp only [versionMatch, htok, hloop, Except.ok.injEq, List.any_eq_true]
  constructor
  · rintro ⟨y, hy, hh⟩
    exact ⟨y, hy, (termHolds_iff _ x y (hwf y hy).1).mp hh⟩
  · rintro ⟨y, hy, hh⟩
    exact ⟨y, hy, (termHolds_iff _ x y (hwf y hy).1).mpr hh⟩

/-- … and never fails on such a chain. -/
theorem C10_match_total (x : Str) (t : Term) (ts : List Term)
    (hwf : ∀ y ∈ t :: ts, WfTerm y) (hcmp : ∀ y ∈ t :: ts, ∃ r, stdCompare true x y.2 = .ok r) :
    ∃ b, versionMatch x (render t ts) = .ok b := by
  have htok := tokenize_render t ts (hwf t (by simp)) (fun y hy => hwf y (by simp [hy]))
  have hloop := matchLoop_chain (stdCompare true) x t ts (fun y hy => ⟨(hwf y hy).1, hcmp y hy⟩)
  exact ⟨(t :: ts).any (termHolds (stdCompare true) x), by simp only [versionMatch, htok, hloop]⟩

/-- On conventional names of the property's grammar with the same letters in front the comparisons
are always defined and are the sorting order: the request matches iff some term holds in that order. -/
theorem C10_match_iff_conv (x : Str) (lx : Lexed) (hlx : lex x = .ok lx) (hx : conventional lx = true)
    (t : Term) (ts : List Term) (hwf : ∀ y ∈ t :: ts, WfTerm y)
    (hconv : ∀ y ∈ t :: ts, ∃ ly, lex y.2 = .ok ly ∧ conventional ly = true ∧ letterPrefix lx = letterPrefix ly) :
    versionMatch x (render t ts) = .ok true ↔
      ∃ y ∈ t :: ts, ∃ r, stdCompare false x y.2 = .ok r ∧ relSem y.1 r := by
  have hst : ∀ y ∈ t :: ts, stdCompare true x y.2 = stdCompare false x y.2 := by
    intro y hy
    obtain ⟨ly, hly, hc, hp⟩ := hconv y hy
    exact C10_conv_strict_total x y.2 lx ly hlx hly hx hc hp
  have hcmp : ∀ y ∈ t :: ts, ∃ r, stdCompare true x y.2 = .ok r := by
    intro y hy
    obtain ⟨ly, hly, _, _⟩ := hconv y hy
    rw [hst y hy]
    exact C10_sort_total x y.2 lx ly hlx hly
  rw [C10_match_iff x t ts hwf hcmp]
  constructor
  · rintro ⟨y, hy, r, h1, h2⟩; exact ⟨y, hy, r, by rw [← hst y hy]; exact h1, h2⟩
  · rintro ⟨y, hy, r, h1, h2⟩; exact ⟨y, hy, r, by rw [hst y hy]; exact h1, h2⟩

/-- A version that cannot be sorted against the request's does not match. -/
theorem C10_match_unsortable (x : Str) (t : Term) (hwf : WfTerm t)
    (h : stdCompare true x t.2 = .error .unsortable) : versionMatch x (render t []) = .ok false := by
  have htok := tokenize_render t [] hwf (by simp)
  simp [versionMatch, htok, tailToks, matchLoop, hasRelop_relop hwf.1, matchPrim, h]

/-- A bare version is the request `== version`. -/
theorem C10_match_implicit_eq (x v : Str) (hv : wfName v) (h1 : v ≠ sAnd) (h2 : v ≠ sOr) :
    versionMatch x v = versionMatch x (render (opEq, v) []) := by
  have htok := tokenize_render (opEq, v) [] ⟨Or.inr (Or.inr (Or.inl rfl)), hv⟩ (by simp)
  have e1 : hasRelop opEq = true := by decide
  simp [versionMatch, htok, tokenize_name hv, tailToks, matchLoop, hasRelop_name hv.2, plainTok_name hv, h1, h2, e1]

/-! ## relational requests: every text the parser reads as a chain

`renderG lead t ls trail` is the text: blanks, a term, then operators-with-terms (`Link`), blanks.  A term is
`op blanks version` or a bare `version` (read as `== version`); an operator is `||` (blanks optional) or
one of the words `or`, `&&`, `and` (a blank needed on either side, the splitting pattern does not know
them).  `C10_match_iff` above is the instance "explicit operators, single blanks, `||`". -/

/-- the term holds in the (strict-mode) order -/
def Holds (x : Str) (t : GTerm) : Prop := ∃ r, stdCompare true x t.name = .ok r ∧ relSem (t.op.getD opEq) r

theorem holds_iff (x : Str) (t : GTerm) (ht : t.Wf) : termHolds (stdCompare true) x t.term = true ↔ Holds x t :=
  termHolds_iff (stdCompare true) x t.term (GTerm.term_relop ht)

/-- **Alternatives, whatever the spacing and the spelling** (`||` or `or`, operators explicit or implied):
the request accepts exactly the versions that the order puts in the stated relation to one of its terms. -/
theorem C10_match_iff_general (x lead : Str) (t : GTerm) (os : List Link) (trail : Str)
    (hlead : isWs lead) (ht : t.Wf) (hls : ∀ l ∈ os, l.Wf) (htr : isWs trail) (hor : ∀ l ∈ os, l.isOr)
    (hcmp : ∀ y ∈ t :: os.map Link.term, ∃ r, stdCompare true x y.name = .ok r) :
    versionMatch x (renderG lead t os trail) = .ok true ↔ ∃ y ∈ t :: os.map Link.term, Holds x y := by
  simp only [versionMatch]
  rw [versionMatch_renderG (stdCompare true) x lead t os trail hlead ht hls htr hcmp, evalLinks_or _ _ os hor]
  simp only [Except.ok.injEq, Bool.or_eq_true, List.any_eq_true, List.mem_cons, List.mem_map, exists_eq_or_imp]
  rw [holds_iff x t ht]
  constructor
  · rintro (h | ⟨l, hl, h⟩)
    · exact Or.inl h
    · exact Or.inr ⟨l.term, ⟨l, hl, rfl⟩, (holds_iff x l.term (hls l hl).2.2.1).mp h⟩
  · rintro (h | ⟨y, ⟨l, hl, rfl⟩, h⟩)
    · exact Or.inl h
    · exact Or.inr ⟨l, hl, (holds_iff x l.term (hls l hl).2.2.1).mpr h⟩

/-- **`&&` / `and` chains** (documented as not supported; the code reads them): a conjunction. -/
theorem C10_match_and_chain (x lead : Str) (t : GTerm) (as : List Link) (trail : Str)
    (hlead : isWs lead) (ht : t.Wf) (hls : ∀ l ∈ as, l.Wf) (htr : isWs trail) (hand : ∀ l ∈ as, l.isAnd)
    (hcmp : ∀ y ∈ t :: as.map Link.term, ∃ r, stdCompare true x y.name = .ok r) :
    versionMatch x (renderG lead t as trail) = .ok true ↔ ∀ y ∈ t :: as.map Link.term, Holds x y := by
  simp only [versionMatch]
  rw [versionMatch_renderG (stdCompare true) x lead t as trail hlead ht hls htr hcmp]
  have e := evalLinks_and (fun t => termHolds (stdCompare true) x t.term) (termHolds (stdCompare true) x t.term) as [] hand
  simp only [List.append_nil] at e
  rw [e]
  have hall : (∀ y ∈ t :: as.map Link.term, Holds x y) ↔
      (termHolds (stdCompare true) x t.term = true ∧ ∀ l ∈ as, termHolds (stdCompare true) x l.term.term = true) := by
    simp only [List.mem_cons, List.mem_map, forall_eq_or_imp, holds_iff x t ht]
    constructor
    · rintro ⟨h1, h2⟩; exact ⟨h1, fun l hl => (holds_iff x l.term (hls l hl).2.2.1).mpr (h2 l.term ⟨l, hl, rfl⟩)⟩
    · rintro ⟨h1, h2⟩; exact ⟨h1, by rintro y ⟨l, hl, rfl⟩; exact (holds_iff x l.term (hls l hl).2.2.1).mp (h2 l hl)⟩
  rw [hall]
  rcases List.eq_nil_or_concat as with rfl | ⟨init, z, rfl⟩
  · simp [evalLinks]
  · simp only [List.concat_eq_append, List.getLast?_append, List.getLast?_singleton, Option.some_or,
      List.dropLast_concat, evalLinks, Except.ok.injEq, Bool.and_eq_true, List.all_eq_true, List.mem_append,
      List.mem_singleton]
    constructor
    · rintro ⟨⟨h1, h2⟩, h3⟩
      exact ⟨h1, by rintro l (hl | rfl); exact h2 l hl; exact h3⟩
    · rintro ⟨h1, h2⟩
      exact ⟨⟨h1, fun l hl => h2 l (Or.inl hl)⟩, h2 z (Or.inr rfl)⟩

/-- **Mixed chains, exactly**: `t && a₁ … && aₖ && z || o₁ … || oₘ [&& …]` is read as
`t ∧ a₁ ∧ … ∧ aₖ ∧ (z ∨ o₁ ∨ … ∨ oₘ)`, and whatever follows an `&&` that comes after an `||` is never looked
at — neither the usual precedence nor left-to-right evaluation (see `C10_mixed_logop_witness`). -/
theorem C10_match_mixed (x lead : Str) (t : GTerm) (init : List Link) (z : Link) (os rest : List Link) (trail : Str)
    (hlead : isWs lead) (ht : t.Wf) (hls : ∀ l ∈ init ++ z :: (os ++ rest), l.Wf) (htr : isWs trail)
    (hand : ∀ l ∈ init, l.isAnd) (hz : z.isAnd) (hor : ∀ l ∈ os, l.isOr)
    (hrest : (rest = [] ∨ os ≠ []) ∧ ∀ l ∈ rest.head?, l.isAnd)
    (hcmp : ∀ y ∈ t :: (init ++ z :: (os ++ rest)).map Link.term, ∃ r, stdCompare true x y.name = .ok r) :
    versionMatch x (renderG lead t (init ++ z :: (os ++ rest)) trail) = .ok true ↔
      Holds x t ∧ (∀ l ∈ init, Holds x l.term) ∧ (Holds x z.term ∨ ∃ l ∈ os, Holds x l.term) := by
  simp only [versionMatch]
  rw [versionMatch_renderG (stdCompare true) x lead t _ trail hlead ht hls htr hcmp]
  have e1 : init ++ z :: (os ++ rest) = (init ++ [z]) ++ (os ++ rest) := by simp
  have hand' : ∀ l ∈ init ++ [z], l.isAnd := by
    intro l hl
    rcases List.mem_append.mp hl with h | h
    · exact hand l h
    · simp only [List.mem_singleton] at h; subst h; exact hz
  rw [e1, evalLinks_and _ _ (init ++ [z]) (os ++ rest) hand']
  simp only [List.getLast?_append, List.getLast?_singleton, Option.some_or, List.dropLast_concat]
  have htail : evalLinks (fun t => termHolds (stdCompare true) x t.term) (termHolds (stdCompare true) x z.term.term) (os ++ rest) =
      (termHolds (stdCompare true) x z.term.term || os.any (fun l => termHolds (stdCompare true) x l.term.term)) := by
    by_cases hos : os = []
    · subst hos
      rcases hrest.1 with h | h
      · subst h; simp [evalLinks]
      · exact absurd rfl h
    · exact evalLinks_or_then_and _ _ os rest hor hos hrest.2
  rw [htail]
  have hwf : ∀ l ∈ init ++ z :: (os ++ rest), (termHolds (stdCompare true) x l.term.term = true ↔ Holds x l.term) :=
    fun l hl => holds_iff x l.term (hls l hl).2.2.1
  simp only [Except.ok.injEq, Bool.and_eq_true, List.all_eq_true, Bool.or_eq_true, List.any_eq_true, holds_iff x t ht]
  constructor
  · rintro ⟨⟨h1, h2⟩, h3⟩
    refine ⟨h1, fun l hl => (hwf l (by simp [hl])).mp (h2 l hl), ?_⟩
    rcases h3 with h | ⟨l, hl, h⟩
    · exact Or.inl ((hwf z (by simp)).mp h)
    · exact Or.inr ⟨l, hl, (hwf l (by simp [hl])).mp h⟩
  · rintro ⟨h1, h2, h3⟩
    refine ⟨⟨h1, fun l hl => (hwf l (by simp [hl])).mpr (h2 l hl)⟩, ?_⟩
    rcases h3 with h | ⟨l, hl, h⟩
    · exact Or.inl ((hwf z (by simp)).mpr h)
    · exact Or.inr ⟨l, hl, (hwf l (by simp [hl])).mpr h⟩

/-- … and `t || o₁ … || oₘ && …`: the alternatives up to the first `&&`; the rest is ignored. -/
theorem C10_match_or_then_and (x lead : Str) (t : GTerm) (os rest : List Link) (trail : Str)
    (hlead : isWs lead) (ht : t.Wf) (hls : ∀ l ∈ os ++ rest, l.Wf) (htr : isWs trail)
    (hor : ∀ l ∈ os, l.isOr) (hos : os ≠ []) (hrest : ∀ l ∈ rest.head?, l.isAnd)
    (hcmp : ∀ y ∈ t :: (os ++ rest).map Link.term, ∃ r, stdCompare true x y.name = .ok r) :
    versionMatch x (renderG lead t (os ++ rest) trail) = .ok true ↔ ∃ y ∈ t :: os.map Link.term, Holds x y := by
  simp only [versionMatch]
  rw [versionMatch_renderG (stdCompare true) x lead t _ trail hlead ht hls htr hcmp,
    evalLinks_or_then_and _ _ os rest hor hos hrest]
  simp only [Except.ok.injEq, Bool.or_eq_true, List.any_eq_true, List.mem_cons, List.mem_map, exists_eq_or_imp]
  rw [holds_iff x t ht]
  constructor
  · rintro (h | ⟨l, hl, h⟩)
    · exact Or.inl h
    · exact Or.inr ⟨l.term, ⟨l, hl, rfl⟩, (holds_iff x l.term (hls l (by simp [hl])).2.2.1).mp h⟩
  · rintro (h | ⟨y, ⟨l, hl, rfl⟩, h⟩)
    · exact Or.inl h
    · exact Or.inr ⟨l, hl, (holds_iff x l.term (hls l (by simp [hl])).2.2.1).mpr h⟩

/-- The request never fails on such a text (every comparison defined). -/
theorem C10_match_total_general (x lead : Str) (t : GTerm) (ls : List Link) (trail : Str)
    (hlead : isWs lead) (ht : t.Wf) (hls : ∀ l ∈ ls, l.Wf) (htr : isWs trail)
    (hcmp : ∀ y ∈ t :: ls.map Link.term, ∃ r, stdCompare true x y.name = .ok r) :
    ∃ b, versionMatch x (renderG lead t ls trail) = .ok b :=
  ⟨_, versionMatch_renderG (stdCompare true) x lead t ls trail hlead ht hls htr hcmp⟩

/-! ## malformed requests: what follows a chain of alternatives -/

theorem any_holds_iff (x : Str) (t : GTerm) (os : List Link) (ht : t.Wf) (hls : ∀ l ∈ os, l.Wf) :
    (termHolds (stdCompare true) x t.term || os.any (fun l => termHolds (stdCompare true) x l.term.term)) = true ↔
      ∃ y ∈ t :: os.map Link.term, Holds x y := by
  simp only [Bool.or_eq_true, List.any_eq_true, List.mem_cons, List.mem_map, exists_eq_or_imp]
  rw [holds_iff x t ht]
  constructor
  · rintro (h | ⟨l, hl, h⟩)
    · exact Or.inl h
    · exact Or.inr ⟨l.term, ⟨l, hl, rfl⟩, (holds_iff x l.term (hls l hl).2.2.1).mp h⟩
  · rintro (h | ⟨y, ⟨l, hl, rfl⟩, h⟩)
    · exact Or.inl h
    · exact Or.inr ⟨l, hl, (holds_iff x l.term (hls l hl).2.2.1).mpr h⟩

/-- **A relational operator with nothing after it** (`>= 1.2 || <`): the request matches if there are at least
two terms and one of them holds (the loop returns before it reaches the operator); otherwise `IndexError`. -/
theorem C10_match_dangling_operator (x lead : Str) (t : GTerm) (os : List Link) (trail op trail2 : Str)
    (hlead : isWs lead) (ht : t.Wf) (hls : ∀ l ∈ os, l.Wf) (htr : isWs trail) (hop : isRelop op) (htr2 : isWs trail2)
    (hor : ∀ l ∈ os, l.isOr) (hcmp : ∀ y ∈ t :: os.map Link.term, ∃ r, stdCompare true x y.name = .ok r) :
    ((os ≠ [] ∧ ∃ y ∈ t :: os.map Link.term, Holds x y) →
        versionMatch x (renderG lead t os (trail ++ (op ++ trail2))) = .ok true) ∧
    (¬ (os ≠ [] ∧ ∃ y ∈ t :: os.map Link.term, Holds x y) →
        versionMatch x (renderG lead t os (trail ++ (op ++ trail2))) = .error .indexError) := by
  have htok := tokenize_renderG_tail lead t os (trail ++ (op ++ trail2)) [op] hlead ht hls
    (fun v hv => tokGo_dangling trail op trail2 htr hop htr2 v hv)
  obtain ⟨r, hr⟩ := hcmp t (by simp)
  have hval : versionMatch x (renderG lead t os (trail ++ (op ++ trail2))) =
      if os = [] then .error .indexError
      else if (termHolds (stdCompare true) x t.term || os.any (fun l => termHolds (stdCompare true) x l.term.term)) then .ok true
      else .error .indexError := by
    simp only [versionMatch, htok]
    rw [matchLoop_term (stdCompare true) x t ht _ r hr none none (by simp)]
    simp only
    rw [matchLoop_linksK (stdCompare true) x os [op]
      (fun l hl => ⟨(hls l hl).2.2.1, hcmp l.term (by simp only [List.mem_cons, List.mem_map]; exact Or.inr ⟨l, hl, rfl⟩)⟩),
      evalLinksK_or _ _ _ _ os hor]
    simp only [matchLoop_dangling (stdCompare true) x op hop]
  rw [hval]
  constructor
  · rintro ⟨hne, hex⟩
    simp [hne, (any_holds_iff x t os ht hls).mpr hex]
  · intro hn
    by_cases hne : os = []
    · simp [hne]
    · have : ¬ ((termHolds (stdCompare true) x t.term || os.any (fun l => termHolds (stdCompare true) x l.term.term)) = true) :=
        fun h => hn ⟨hne, (any_holds_iff x t os ht hls).mp h⟩
      simp [hne, this]

/-- **A token that is neither a term nor an operator** (`(`, `1.0|2`, `a&&b` …; "Unexpected operator"): the loop
stops there; the request is the chain of alternatives before it, whatever text follows. -/
theorem C10_match_unexpected_token (x lead : Str) (t : GTerm) (os : List Link) (w1 junk w2 more : Str)
    (hlead : isWs lead) (ht : t.Wf) (hls : ∀ l ∈ os, l.Wf) (hor : ∀ l ∈ os, l.isOr)
    (hw1 : isWs w1) (hne1 : w1 ≠ []) (hw2 : isWs w2) (hne2 : w2 ≠ [])
    (hj : ∀ c ∈ junk, wordChar c) (hjne : junk ≠ []) (hjp : plainTok junk = false) (hja : junk ≠ sAmpAmp)
    (hcmp : ∀ y ∈ t :: os.map Link.term, ∃ r, stdCompare true x y.name = .ok r) :
    ∃ b, versionMatch x (renderG lead t os (w1 ++ (junk ++ (w2 ++ more)))) = .ok b ∧
      (b = true ↔ ∃ y ∈ t :: os.map Link.term, Holds x y) := by
  have htok := tokenize_renderG_tail lead t os (w1 ++ (junk ++ (w2 ++ more))) (junk :: tokenize more) hlead ht hls
    (fun v hv => tokGo_junk w1 junk w2 more hw1 hne1 hj hjne hw2 hne2 v hv)
  obtain ⟨r, hr⟩ := hcmp t (by simp)
  have hrel : hasRelop junk = false := hasRelop_none junk (fun c hc => by obtain ⟨_, a, b, c', _⟩ := hj c hc; exact ⟨a, b, c'⟩)
  have hbb : junk ≠ sBarBar := by
    intro e; subst e
    have := (hj 124 (by simp [sBarBar])).2.2.2.2
    exact this rfl
  refine ⟨termHolds (stdCompare true) x t.term || os.any (fun l => termHolds (stdCompare true) x l.term.term), ?_,
    any_holds_iff x t os ht hls⟩
  simp only [versionMatch, htok]
  rw [matchLoop_term (stdCompare true) x t ht _ r hr none none (by simp)]
  simp only
  rw [matchLoop_linksK (stdCompare true) x os _
    (fun l hl => ⟨(hls l hl).2.2.1, hcmp l.term (by simp only [List.mem_cons, List.mem_map]; exact Or.inr ⟨l, hl, rfl⟩)⟩),
    evalLinksK_or _ _ _ _ os hor]
  simp only [matchLoop_junk (stdCompare true) x junk _ hrel hjp hbb hja]
  by_cases hne : os = []
  · subst hne; simp
  · by_cases hany : (termHolds (stdCompare true) x t.term || os.any (fun l => termHolds (stdCompare true) x l.term.term)) = true
    · simp [hne, hany]
    · simp only [Bool.not_eq_true] at hany
      simp [hne, hany]

/-- **A second term where a logical operator is expected** (`>= 1.2 < 2`; "Expected logical operator"): it is
passed over without being compared; the request is its first term. -/
theorem C10_match_missing_operator (x lead : Str) (t t2 : GTerm) (w1 trail : Str)
    (hlead : isWs lead) (ht : t.Wf) (ht2 : t2.Wf) (hw1 : isWs w1) (hne1 : w1 ≠ []) (htr : isWs trail)
    (hcmp : ∃ r, stdCompare true x t.name = .ok r) :
    ∃ b, versionMatch x (renderG lead t [] (w1 ++ (t2.render ++ trail))) = .ok b ∧ (b = true ↔ Holds x t) := by
  have htok := tokenize_renderG_tail lead t [] (w1 ++ (t2.render ++ trail)) (t2.opToks ++ [t2.name]) hlead ht (by simp)
    (fun v hv => tokGo_juxt w1 t2 trail hw1 hne1 ht2 htr v hv)
  obtain ⟨r, hr⟩ := hcmp
  refine ⟨termHolds (stdCompare true) x t.term, ?_, holds_iff x t ht⟩
  simp only [versionMatch, htok, linkToks, List.nil_append]
  rw [matchLoop_term (stdCompare true) x t ht _ r hr none none (by simp)]
  simp only
  rw [matchLoop_term_skip (stdCompare true) x t2 ht2 [] _]
  cases termHolds (stdCompare true) x t.term <;> simp [matchLoop]

example : versionMatch n_1d9 [62, 61, 32, 49, 46, 50, 32, 60] = .error .indexError := by decide         -- `>= 1.2 <`
example : versionMatch n_1d9 [62, 61, 32, 49, 46, 50, 32, 40, 32, 60] = .ok true := by decide           -- `>= 1.2 ( <`
example : versionMatch n_1d9 [62, 61, 32, 49, 46, 50, 32, 60, 32, 49] = .ok true := by decide           -- `>= 1.2 < 1`

/-! ## which version arguments are requests (`Eups.isLegalRelativeVersion`) -/

/-- A chain with an explicit operator in any of its terms is taken as a relational request … -/
theorem C10_legal_relational (lead : Str) (t : GTerm) (ls : List Link) (trail : Str)
    (y : GTerm) (hy : y ∈ t :: ls.map Link.term) (o : Str) (ho : y.op = some o) (hr : isRelop o) :
    isLegalRelativeVersion (renderG lead t ls trail) = .relational := legal_renderG lead t ls trail y hy o ho hr

/-- … a well-formed name is a plain version … -/
theorem C10_legal_name_plain (v : Str) (hv : wfName v) : isLegalRelativeVersion v = .plain := legal_name v hv

/-- … and `= version` (a single `=` followed by a blank) is refused with "did you mean '=='?". -/
theorem C10_legal_single_equals (lead gap v : Str) (hl : isWs lead) (hg : isWs gap) (hgne : gap ≠ []) (hv : wfName v) :
    isLegalRelativeVersion (lead ++ 61 :: (gap ++ v)) = .badSyntax := legal_single_equals lead gap v hl hg hgne hv

/-! non-vacuity and instances -/
def t_ge (v : Str) : GTerm := ⟨some opGe, [32], v⟩
def t_lt (v : Str) : GTerm := ⟨some opLt, [], v⟩
def t_bare (v : Str) : GTerm := ⟨none, [], v⟩
#guard Str.toString (renderG [32] (t_ge n_1d9) [⟨[], .barbar, [], t_lt n_1d2⟩, ⟨[32], .orW, [9], t_bare n_1d10⟩] [32]) == " >= 1.9||<1.2 or\t1.10 "
example : versionMatch n_1d10 (renderG [32] (t_lt n_1d9) [⟨[], .barbar, [], t_lt n_1d2⟩, ⟨[32], .orW, [9], t_bare n_1d10⟩] [32]) = .ok true := by decide
example : versionMatch n_1d9 (renderG [32] (t_lt n_1d9) [⟨[], .barbar, [], t_lt n_1d2⟩, ⟨[32], .orW, [9], t_bare n_1d10⟩] [32]) = .ok false := by decide
example : (t_ge n_1d9).Wf :=
  ⟨⟨by decide, by decide⟩, by intro c hc; simp [t_ge] at hc; subst hc; decide,
    by intro o h; cases h; exact Or.inr (Or.inr (Or.inr (Or.inl rfl))), by intro h; cases h⟩
example : (t_bare n_1d10).Wf :=
  ⟨⟨by decide, by decide⟩, (by intro c hc; simp [t_bare] at hc), (by intro o h; simp [t_bare] at h), fun _ => by decide⟩
example : isLegalRelativeVersion [49, 46, 50, 32, 124, 124, 32, 49, 46, 51] = .plain := by decide   -- `1.2 || 1.3`: no operator, a plain version name
example : isLegalRelativeVersion [61, 49, 46, 48] = .plain := by decide                             -- `=1.0`

/-- `&&` and `||` together have neither the usual precedence nor left-to-right evaluation (`&&` is documented as
"not supported"): `1.10` matches `< 1.2 || >= 1.9 && < 1.9` (the `&&` after the `||` is never reached), and `1.2`
does not match `>= 1.9 && < 1.10 || == 1.2` (a false first conjunct ends the evaluation). -/
theorem C10_mixed_logop_witness :
    versionMatch n_1d10 (renderG [] (t_lt n_1d2) [⟨[32], .barbar, [32], t_ge n_1d9⟩, ⟨[32], .ampamp, [32], t_lt n_1d9⟩] []) = .ok true ∧
    stdCompare true n_1d10 n_1d9 = .ok 1 ∧
    versionMatch n_1d2 (renderG [] (t_ge n_1d9) [⟨[32], .ampamp, [32], t_lt n_1d10⟩, ⟨[32], .barbar, [32], t_bare n_1d2⟩] []) = .ok false ∧
    stdCompare true n_1d2 n_1d2 = .ok 0 := by decide

/-! ## latest -/

/-- **`latest` is the maximum**: from a non-empty list of conventional names the selection returns a
member that no member exceeds, at its first position in the list. -/
theorem C10_latest_is_max (names : List Str) (hne : names ≠ []) (hconv : ∀ v ∈ names, convName v = true) :
    ∃ i v, latest names = .ok (some i) ∧ names[i]? = some v ∧ (∀ j, j < i → names[j]? ≠ some v) ∧
      ∀ w ∈ names, ∃ r, stdCompare false w v = .ok r ∧ r ≤ 0 := by
  obtain ⟨ps, hps, hc⟩ := lexPairs_of_conv hconv
  obtain ⟨hmap, hlex⟩ := lexPairs_spec hps
  have hpne : ps ≠ [] := by
    intro e; subst e; simp at hmap; exact hne hmap
  obtain ⟨m, hm, hmem, hmax⟩ := lastMax_none_spec ps hpne hc
  have hv : m.1 ∈ names := by rw [← hmap]; exact List.mem_map_of_mem hmem
  obtain ⟨hget, hfirst⟩ := findIdx_beq_spec names m.1 hv
  refine ⟨names.findIdx (· == m.1), m.1, ?_, hget, hfirst, ?_⟩
  · simp only [latest, hps, hm]
  · intro w hw
    rw [← hmap] at hw
    obtain ⟨p, hp, rfl⟩ := List.mem_map.mp hw
    refine ⟨cmpSort p.2 m.2, ?_, hmax p hp⟩
    simp [stdCompare, hlex p hp, hlex m hmem, cmpLexed]

/-- The same through the stacks (`_findLatestProduct`): from stacks of conventional versions, not all
empty, the version returned is declared in some stack and no declared version exceeds it. -/
theorem C10_latest_across_is_max (stacks : List (List Str))
    (hconv : ∀ st ∈ stacks, ∀ v ∈ st, convName v = true) (hne : stacks.flatten ≠ []) :
    ∃ i v, latestAcross stacks = .ok (some (i, v)) ∧ v ∈ stacks.flatten ∧
      ∀ w ∈ stacks.flatten, ∃ r, stdCompare false w v = .ok r ∧ r ≤ 0 := by
  obtain ⟨out, hgo, hinv⟩ := latestAcrossGo_spec stacks 0 none [] hconv rfl
  simp only [List.nil_append] at hinv
  cases out with
  | none => exact absurd hinv hne
  | some o =>
    obtain ⟨i, v, lv⟩ := o
    obtain ⟨hv, _, hmem, hall⟩ := hinv
    refine ⟨i, v, by simp only [latestAcross, latestAcrossMin, hgo], hmem, ?_⟩
    intro w hw
    obtain ⟨lw, h1, _, h3⟩ := hall w hw
    exact ⟨cmpSort lw lv, by simp [stdCompare, h1, hv, cmpLexed], h3⟩

/-- … and through the database branch (`readCache=False`, what `setup` uses; stacks without a cache),
where every stack's products arrive sorted by their version *strings*: still a maximum of the declared
versions in the version order. -/
theorem C10_latest_db_is_max (stacks : List (List Str))
    (hconv : ∀ st ∈ stacks, ∀ v ∈ st, convName v = true) (hne : stacks.flatten ≠ []) :
    ∃ i v, latestAcross (stacks.map dbOrder) = .ok (some (i, v)) ∧ v ∈ stacks.flatten ∧
      ∀ w ∈ stacks.flatten, ∃ r, stdCompare false w v = .ok r ∧ r ≤ 0 := by
  have hconv' : ∀ st ∈ stacks.map dbOrder, ∀ v ∈ st, convName v = true := by
    intro st hst v hv
    obtain ⟨st0, h0, rfl⟩ := List.mem_map.mp hst
    exact hconv st0 h0 v ((mem_dbOrder v st0).mp hv)
  have hne' : (stacks.map dbOrder).flatten ≠ [] := by
    intro e
    cases h : stacks.flatten with
    | nil => exact hne h
    | cons a as =>
      have : a ∈ (stacks.map dbOrder).flatten := (mem_flatten_dbOrder a stacks).mpr (by rw [h]; simp)
      rw [e] at this; simp at this
  obtain ⟨i, v, h1, h2, h3⟩ := C10_latest_across_is_max (stacks.map dbOrder) hconv' hne'
  exact ⟨i, v, h1, (mem_flatten_dbOrder v stacks).mp h2, fun w hw => h3 w ((mem_flatten_dbOrder w stacks).mpr hw)⟩

/-! ## latest: the sort, the minimum version -/

/-- **`vers.sort(key=cmp_to_key(version_cmp)); vers[-1]`** (Eups.py, `_selectPreferredProduct` and the cache
branch of `_findLatestProduct`): whatever list `s` the sort returns — a permutation of the names, ordered by
the comparator, names that compare equal in their original relative order (stability) — its last element is
the name the model's one-pass selection returns.  Together with `C10_latest_is_max`: the last element of the
sorted list is a maximum, for every list of conventional names. -/
theorem C10_latest_is_last_of_sort (names s : List Str) (hne : names ≠ []) (hconv : ∀ v ∈ names, convName v = true)
    (hperm : s.Perm names)
    (hsorted : s.Pairwise (fun a b => ∃ r, stdCompare false a b = .ok r ∧ r ≤ 0))
    (hstable : ∀ m ∈ names, s.filter (fun y => decide (stdCompare false y m = .ok 0)) =
      names.filter (fun y => decide (stdCompare false y m = .ok 0))) :
    ∃ i v, latest names = .ok (some i) ∧ s.getLast? = some v ∧ names[i]? = some v ∧ ∀ j, j < i → names[j]? ≠ some v := by
  obtain ⟨ps, hps, hc⟩ := lexPairs_of_conv hconv
  obtain ⟨hmap, hlex⟩ := lexPairs_spec hps
  have hpne : ps ≠ [] := by
    intro e; subst e; simp at hmap; exact hne hmap
  obtain ⟨m, hm, hmem, hmax⟩ := lastMax_none_spec ps hpne hc
  have hv : m.1 ∈ names := by rw [← hmap]; exact List.mem_map_of_mem hmem
  obtain ⟨hget, hfirst⟩ := findIdx_beq_spec names m.1 hv
  have hacc : ∀ v ∈ names, ∃ l, lex v = .ok l := fun v h => convName_accepted (hconv v h)
  have hps' := lexPairs_eq_map hps
  have hm2 : m.2 = lexOr m.1 := by
    rw [hps'] at hmem
    obtain ⟨v, _, rfl⟩ := List.mem_map.mp hmem
    rfl
  have hlast : (s.map (fun v => (v, lexOr v))).getLast? = some m := by
    apply getLast_stableSort ps _ m hm hc
    · rw [hps']; exact hperm.map _
    · rw [List.pairwise_map]
      refine hsorted.imp_of_mem ?_
      intro a b ha hb ⟨r, hr, hle⟩
      rw [stdCompare_lexOr (hacc a (hperm.subset ha)) (hacc b (hperm.subset hb))] at hr
      cases hr; exact hle
    · rw [hps', List.filter_map, List.filter_map, hm2]
      have hfil : ∀ l : List Str, (∀ y ∈ l, y ∈ names) →
          l.filter ((fun y : Str × Lexed => cmpSort y.2 (lexOr m.1) == 0) ∘ fun v => (v, lexOr v)) =
          l.filter (fun y => decide (stdCompare false y m.1 = .ok 0)) := by
        intro l hl
        apply List.filter_congr
        intro y hy
        rw [stdCompare_lexOr (hacc y (hl y hy)) (hacc m.1 hv)]
        simp only [Function.comp, Except.ok.injEq]
        by_cases hz : cmpSort (lexOr y) (lexOr m.1) = 0 <;> simp [hz]
      rw [hfil s (fun y hy => hperm.subset hy), hfil names (fun y hy => hy), hstable m.1 hv]
  rw [List.getLast?_map] at hlast
  cases hs : s.getLast? with
  | none => simp [hs] at hlast
  | some v =>
    simp only [hs, Option.map_some, Option.some.injEq] at hlast
    have : v = m.1 := by rw [← hlast]
    subst this
    exact ⟨names.findIdx (· == m.1), m.1, by simp only [latest, hps, hm], rfl, hget, hfirst⟩

/-- **`_findLatestProduct(…, minver)`**: from stacks of conventional versions and a conventional minimum,
nothing is returned exactly when every declared version is below the minimum; otherwise the version
returned is declared, reaches the minimum, and no declared version exceeds it. -/
theorem C10_latest_minver (stacks : List (List Str)) (mv : Str)
    (hconv : ∀ st ∈ stacks, ∀ v ∈ st, convName v = true) (hmv : convName mv = true) :
    (latestAcrossMin (some mv) stacks = .ok none ∧
        ∀ w ∈ stacks.flatten, ∃ r, stdCompare false w mv = .ok r ∧ r < 0) ∨
    (∃ i v, latestAcrossMin (some mv) stacks = .ok (some (i, v)) ∧ v ∈ stacks.flatten ∧
        (∃ r, stdCompare false v mv = .ok r ∧ r ≥ 0) ∧
        ∀ w ∈ stacks.flatten, ∃ r, stdCompare false w v = .ok r ∧ r ≤ 0) := by
  obtain ⟨lm, hlm, hcm⟩ := convName_lex hmv
  obtain ⟨out, hgo, hinv⟩ := latestAcrossGo_spec_min (some mv) (some lm) hlm
    (by intro l hl; cases hl; exact hcm) stacks 0 none [] hconv (by simp [AcrossInvMin])
  simp only [List.nil_append] at hinv
  cases out with
  | none =>
    refine Or.inl ⟨by simp only [latestAcrossMin, hgo], ?_⟩
    intro w hw
    obtain ⟨lw, h1, _, h3⟩ := hinv w hw
    exact ⟨cmpSort lw lm, by simp [stdCompare, h1, hlm, cmpLexed], h3⟩
  | some o =>
    obtain ⟨i, v, lv⟩ := o
    obtain ⟨hv, _, hmem, hnb, hall⟩ := hinv
    refine Or.inr ⟨i, v, by simp only [latestAcrossMin, hgo], hmem, ?_, ?_⟩
    · refine ⟨cmpSort lv lm, by simp [stdCompare, hv, hlm, cmpLexed], ?_⟩
      simp only [BelowMin] at hnb; omega
    · intro w hw
      obtain ⟨lw, h1, _, h3⟩ := hall w hw
      exact ⟨cmpSort lw lv, by simp [stdCompare, h1, hv, cmpLexed], h3⟩

/-- … the same through the database branch (every stack enumerated in string order). -/
theorem C10_latest_minver_db (stacks : List (List Str)) (mv : Str)
    (hconv : ∀ st ∈ stacks, ∀ v ∈ st, convName v = true) (hmv : convName mv = true) :
    (latestAcrossMin (some mv) (stacks.map dbOrder) = .ok none ∧
        ∀ w ∈ stacks.flatten, ∃ r, stdCompare false w mv = .ok r ∧ r < 0) ∨
    (∃ i v, latestAcrossMin (some mv) (stacks.map dbOrder) = .ok (some (i, v)) ∧ v ∈ stacks.flatten ∧
        (∃ r, stdCompare false v mv = .ok r ∧ r ≥ 0) ∧
        ∀ w ∈ stacks.flatten, ∃ r, stdCompare false w v = .ok r ∧ r ≤ 0) := by
  have hconv' : ∀ st ∈ stacks.map dbOrder, ∀ v ∈ st, convName v = true := by
    intro st hst v hv
    obtain ⟨st0, h0, rfl⟩ := List.mem_map.mp hst
    exact hconv st0 h0 v ((mem_dbOrder v st0).mp hv)
  rcases C10_latest_minver (stacks.map dbOrder) mv hconv' hmv with ⟨h1, h2⟩ | ⟨i, v, h1, h2, h3, h4⟩
  · exact Or.inl ⟨h1, fun w hw => h2 w ((mem_flatten_dbOrder w stacks).mpr hw)⟩
  · exact Or.inr ⟨i, v, h1, (mem_flatten_dbOrder v stacks).mp h2, h3,
      fun w hw => h4 w ((mem_flatten_dbOrder w stacks).mpr hw)⟩

/-! ## relational requests through the stacks -/

/-- **`_findProductsByExpr`**: when the request can be evaluated against every declared version, the
products returned are exactly the declared versions that match it; a version string is reported once, from
the first stack (in path order) that declares it. -/
theorem C10_matches_across (expr : Str) (stacks : List (List Str))
    (hok : ∀ st ∈ stacks, ∀ v ∈ st, ∃ b, versionMatch v expr = .ok b) :
    ∃ ms, matchesAcross expr stacks = .ok ms ∧ (ms.map Prod.snd).Nodup ∧
      (∀ v, v ∈ ms.map Prod.snd ↔ v ∈ stacks.flatten ∧ versionMatch v expr = .ok true) ∧
      ∀ p ∈ ms, ∃ st, stacks[p.1]? = some st ∧ p.2 ∈ st ∧ ∀ j st', j < p.1 → stacks[j]? = some st' → p.2 ∉ st' := by
  obtain ⟨ms, hgo, h1, h2, h3⟩ := matchesAcrossGo_spec expr stacks [] [] hok (by simp [MatchInv])
  simp only [List.nil_append, List.length_nil] at hgo h1 h2
  refine ⟨ms, hgo, h3, ?_, ?_⟩
  · intro v
    constructor
    · intro hv
      obtain ⟨p, hp, rfl⟩ := List.mem_map.mp hv
      obtain ⟨hm, st, hst, hmem, _⟩ := h1 p hp
      exact ⟨List.mem_flatten.mpr ⟨st, List.mem_of_getElem? hst, hmem⟩, hm⟩
    · rintro ⟨hv, hm⟩
      obtain ⟨st, hst, hvst⟩ := List.mem_flatten.mp hv
      exact h2 st hst v hvst hm
  · intro p hp
    exact (h1 p hp).2

/-- On an `||` chain whose comparisons are defined for every declared version: the versions returned are
exactly those the order puts in one of the stated relations. -/
theorem C10_matches_across_iff (t : Term) (ts : List Term) (stacks : List (List Str))
    (hwf : ∀ y ∈ t :: ts, WfTerm y)
    (hcmp : ∀ st ∈ stacks, ∀ v ∈ st, ∀ y ∈ t :: ts, ∃ r, stdCompare true v y.2 = .ok r) :
    ∃ ms, matchesAcross (render t ts) stacks = .ok ms ∧
      ∀ v, v ∈ ms.map Prod.snd ↔ v ∈ stacks.flatten ∧ ∃ y ∈ t :: ts, ∃ r, stdCompare true v y.2 = .ok r ∧ relSem y.1 r := by
  obtain ⟨ms, h1, _, h3, _⟩ := C10_matches_across (render t ts) stacks
    (fun st hst v hv => C10_match_total v t ts hwf (hcmp st hst v hv))
  refine ⟨ms, h1, ?_⟩
  intro v
  rw [h3 v]
  constructor
  · rintro ⟨hv, hm⟩
    obtain ⟨st, hst, hvst⟩ := List.mem_flatten.mp hv
    exact ⟨hv, (C10_match_iff v t ts hwf (hcmp st hst v hvst)).mp hm⟩
  · rintro ⟨hv, hm⟩
    obtain ⟨st, hst, hvst⟩ := List.mem_flatten.mp hv
    exact ⟨hv, (C10_match_iff v t ts hwf (hcmp st hst v hvst)).mpr hm⟩

/-- **The latest of the matching versions** (`setup prod "expr"`: `_findPreferredProductByExpr` / the VRO entry
`versionExpr`): nothing when no declared version matches; otherwise a declared version that matches and that no
matching declared version exceeds. -/
theorem C10_preferred_by_expr_is_max (expr : Str) (stacks : List (List Str))
    (hconv : ∀ st ∈ stacks, ∀ v ∈ st, convName v = true)
    (hok : ∀ st ∈ stacks, ∀ v ∈ st, ∃ b, versionMatch v expr = .ok b) :
    (preferredByExpr expr stacks = .ok none ∧ ∀ w ∈ stacks.flatten, versionMatch w expr ≠ .ok true) ∨
    (∃ i v, preferredByExpr expr stacks = .ok (some (i, v)) ∧ v ∈ stacks.flatten ∧ versionMatch v expr = .ok true ∧
      ∀ w ∈ stacks.flatten, versionMatch w expr = .ok true → ∃ r, stdCompare false w v = .ok r ∧ r ≤ 0) := by
  obtain ⟨ms, hms, _, hiff, _⟩ := C10_matches_across expr stacks hok
  by_cases hne : ms.map Prod.snd = []
  · left
    refine ⟨by simp [preferredByExpr, hms, hne, latest, lexPairs, lastMax], ?_⟩
    intro w hw hm
    have : w ∈ ms.map Prod.snd := (hiff w).mpr ⟨hw, hm⟩
    rw [hne] at this; simp at this
  · right
    have hc : ∀ v ∈ ms.map Prod.snd, convName v = true := by
      intro v hv
      obtain ⟨st, hst, hvst⟩ := List.mem_flatten.mp ((hiff v).mp hv).1
      exact hconv st hst v hvst
    obtain ⟨i, v, hl, hget, _, hmax⟩ := C10_latest_is_max (ms.map Prod.snd) hne hc
    rw [List.getElem?_map] at hget
    cases hp : ms[i]? with
    | none => simp [hp] at hget
    | some p =>
      simp only [hp, Option.map_some, Option.some.injEq] at hget
      have hvm : v ∈ ms.map Prod.snd := by
        rw [← hget]; exact List.mem_map_of_mem (List.mem_of_getElem? hp)
      obtain ⟨hvf, hvmatch⟩ := (hiff v).mp hvm
      refine ⟨p.1, v, ?_, hvf, hvmatch, fun w hw hm => hmax w ((hiff w).mpr ⟨hw, hm⟩)⟩
      simp only [preferredByExpr, hms, hl, hp]
      rw [← hget]

/-! non-vacuity -/
example : latestAcrossMin (some n_1d10) [[n_1d9, n_1d2], [n_1d2d0]] = .ok none := by decide
example : latestAcrossMin (some n_1d9) [[n_1d9, n_1d2], [n_1d10, n_1d2d0]] = .ok (some (1, n_1d10)) := by decide
example : matchesAcross (render (opGe, n_1d9) []) [[n_1d9, n_1d2], [n_1d10, n_1d9]] = .ok [(0, n_1d9), (1, n_1d10)] := by decide
example : [n_1d2, n_1d9, n_1d10].Perm [n_1d9, n_1d10, n_1d2] := by decide

/-! ## the listing entry point: `Eups.findProducts(name, version, tags)` — `eups list prod "expr" -t tag` -/

/-- **Every product listed satisfies the request**, whatever tags are asked for and whichever versions carry
them (the products the tag loop appends are filtered like all others), and no version is listed twice. -/
theorem C10_list_satisfies_request (verArg : Str) (tags : List Str) (stacks : List (List Decl)) (l : List (Nat × Str))
    (hne : verArg ≠ []) (h : listProducts verArg tags stacks = .ok (.products l)) :
    (∀ p ∈ l, verOk verArg p.2 = .ok (some true)) ∧ (l.map Prod.snd).Nodup := by
  simp only [listProducts] at h
  cases hs : listStacks verArg tags stacks 0 stacks [] with
  | error e => simp [hs] at h
  | ok oo =>
    cases oo with
    | none => simp [hs] at h
    | some out =>
      have hemp : verArg.isEmpty = false := by cases verArg <;> simp_all
      simp only [hs, hemp, Bool.false_eq_true, if_false] at h
      split at h
      · simp at h
      · cases hf : finalFilter verArg out with
        | error e => simp [hf] at h
        | ok ol =>
          cases ol with
          | none => simp [hf] at h
          | some l' =>
            simp only [hf, Except.ok.injEq, ListOut.products.injEq] at h
            subst h
            exact ⟨fun p hp => ((finalFilter_spec verArg out l' hf p).mp (mem_uniqVers hp)).2, (uniqVers_nodup l' []).1⟩

/-- … and every product listed is a version declared in the stack it is reported from (whatever the tags and the
version argument): together with `C10_list_satisfies_request`, the listing shows declared versions that satisfy the
request and nothing else. -/
theorem C10_list_declared (verArg : Str) (tags : List Str) (stacks : List (List Decl)) (l : List (Nat × Str))
    (h : listProducts verArg tags stacks = .ok (.products l)) : ∀ p ∈ l, Declared stacks p := by
  simp only [listProducts] at h
  cases hs : listStacks verArg tags stacks 0 stacks [] with
  | error e => simp [hs] at h
  | ok oo =>
    cases oo with
    | none => simp [hs] at h
    | some out =>
      have hout := listStacks_declared verArg tags stacks stacks 0 [] out (by simp) (by simp) hs
      simp only [hs] at h
      split at h
      · simp only [Except.ok.injEq, ListOut.products.injEq] at h
        subst h
        exact fun p hp => hout p (mem_uniqVers hp)
      · split at h
        · simp at h
        · cases hf : finalFilter verArg out with
          | error e => simp [hf] at h
          | ok ol =>
            cases ol with
            | none => simp [hf] at h
            | some l' =>
              simp only [hf, Except.ok.injEq, ListOut.products.injEq] at h
              subst h
              exact fun p hp => hout p ((finalFilter_spec verArg out l' hf p).mp (mem_uniqVers hp)).1

/-- For a relational request: every version listed is accepted by `version_match` … -/
theorem C10_list_relational (verArg : Str) (tags : List Str) (stacks : List (List Decl)) (l : List (Nat × Str))
    (hrel : isLegalRelativeVersion verArg = .relational) (h : listProducts verArg tags stacks = .ok (.products l)) :
    ∀ p ∈ l, versionMatch p.2 verArg = .ok true := by
  have hne : verArg ≠ [] := by intro e; subst e; simp [isLegalRelativeVersion, hasRelop, badRelop] at hrel
  intro p hp
  have := (C10_list_satisfies_request verArg tags stacks l hne h).1 p hp
  simp only [verOk, hrel] at this
  cases hm : versionMatch p.2 verArg with
  | error e => simp [hm] at this
  | ok b => simp only [hm, Except.ok.injEq, Option.some.injEq] at this; rw [this]

/-- … hence, for a chain of alternatives (any spacing and spelling, an explicit operator somewhere), in one of the
stated relations of the order. -/
theorem C10_list_accepts_only_the_relation (lead : Str) (t : GTerm) (os : List Link) (trail : Str)
    (tags : List Str) (stacks : List (List Decl)) (l : List (Nat × Str))
    (hlead : isWs lead) (ht : t.Wf) (hls : ∀ k ∈ os, k.Wf) (htr : isWs trail) (hor : ∀ k ∈ os, k.isOr)
    (y0 : GTerm) (hy0 : y0 ∈ t :: os.map Link.term) (o : Str) (ho : y0.op = some o) (hr : isRelop o)
    (h : listProducts (renderG lead t os trail) tags stacks = .ok (.products l))
    (hcmp : ∀ p ∈ l, ∀ y ∈ t :: os.map Link.term, ∃ r, stdCompare true p.2 y.name = .ok r) :
    ∀ p ∈ l, ∃ y ∈ t :: os.map Link.term, Holds p.2 y := by
  intro p hp
  have hm := C10_list_relational _ tags stacks l (C10_legal_relational lead t os trail y0 hy0 o ho hr) h p hp
  exact (C10_match_iff_general p.2 lead t os trail hlead ht hls htr hor (hcmp p hp)).mp hm

theorem mem_map_uniqVers (l : List (Nat × Str)) (v : Str) : v ∈ (uniqVers l []).map Prod.snd ↔ v ∈ l.map Prod.snd := by
  constructor
  · intro h
    obtain ⟨p, hp, rfl⟩ := List.mem_map.mp h
    exact List.mem_map_of_mem (mem_uniqVers hp)
  · intro h; exact uniqVers_complete h (by simp)

/-- **No tag asked for: the listing is exactly the declared versions that pass the version argument**
(a relational request: that `version_match` accepts; a pattern: that it matches; none: all), each version once. -/
theorem C10_list_exact (verArg : Str) (stacks : List (List Decl)) (l : List (Nat × Str))
    (h : listProducts verArg [] stacks = .ok (.products l)) :
    (∀ v, v ∈ l.map Prod.snd ↔ (∃ st ∈ stacks, ∃ d ∈ st, d.ver = v) ∧ Passes verArg v) ∧ (l.map Prod.snd).Nodup := by
  simp only [listProducts] at h
  cases hs : listStacks verArg [] stacks 0 stacks [] with
  | error e => simp [hs] at h
  | ok oo =>
    cases oo with
    | none => simp [hs] at h
    | some out =>
      have hout := listStacks_notags verArg stacks stacks 0 [] out hs
      simp only [List.map_nil, List.not_mem_nil, false_or] at hout
      simp only [hs] at h
      by_cases he : verArg = []
      · subst he
        simp only [List.isEmpty_nil, if_true, Except.ok.injEq, ListOut.products.injEq] at h
        subst h
        exact ⟨fun v => by rw [mem_map_uniqVers, hout v], (uniqVers_nodup out []).1⟩
      · have hemp : verArg.isEmpty = false := by cases verArg <;> simp_all
        simp only [hemp, Bool.false_eq_true, if_false] at h
        split at h
        · simp at h
        · cases hf : finalFilter verArg out with
          | error e => simp [hf] at h
          | ok ol =>
            cases ol with
            | none => simp [hf] at h
            | some l' =>
              simp only [hf, Except.ok.injEq, ListOut.products.injEq] at h
              subst h
              refine ⟨fun v => ?_, (uniqVers_nodup l' []).1⟩
              rw [mem_map_uniqVers]
              have hff := finalFilter_spec verArg out l' hf
              constructor
              · intro hv
                obtain ⟨p, hp, rfl⟩ := List.mem_map.mp hv
                obtain ⟨h1, h2⟩ := (hff p).mp hp
                exact (hout p.2).mp (List.mem_map_of_mem h1)
              · intro hv
                obtain ⟨p, hp, rfl⟩ := List.mem_map.mp ((hout v).mpr hv)
                have hpass : verOk verArg p.2 = .ok (some true) := by
                  rcases hv.2 with h | h
                  · exact absurd h he
                  · exact h
                exact List.mem_map_of_mem ((hff p).mpr ⟨hp, hpass⟩)

/-- **With tags: nothing that qualifies is left out** — a declared version that carries one of the requested tags in
its stack and passes the version argument is listed (versions are declared once per stack). -/
theorem C10_list_tagged_complete (verArg : Str) (tags : List Str) (stacks : List (List Decl)) (l : List (Nat × Str))
    (h : listProducts verArg tags stacks = .ok (.products l)) (htags : tags ≠ [])
    (i : Nat) (st : List Decl) (hget : stacks[i]? = some st) (d : Decl) (hd : d ∈ st)
    (huniq : ∀ d' ∈ st, d'.ver = d.ver → d' = d) (hpass : Passes verArg d.ver) (hcar : d.tags.any tags.contains = true) :
    d.ver ∈ l.map Prod.snd := by
  simp only [listProducts] at h
  cases hs : listStacks verArg tags stacks 0 stacks [] with
  | error e => simp [hs] at h
  | ok oo =>
    cases oo with
    | none => simp [hs] at h
    | some out =>
      have hin : (i, d.ver) ∈ out := by
        have := (listStacks_tagged verArg tags stacks stacks 0 [] out hs).2 i st hget d hd huniq hpass htags hcar
        simpa using this
      simp only [hs] at h
      split at h
      · simp only [Except.ok.injEq, ListOut.products.injEq] at h
        subst h
        exact (mem_map_uniqVers out d.ver).mpr (List.mem_map_of_mem (f := Prod.snd) hin)
      · rename_i hne
        split at h
        · simp at h
        · cases hf : finalFilter verArg out with
          | error e => simp [hf] at h
          | ok ol =>
            cases ol with
            | none => simp [hf] at h
            | some l' =>
              simp only [hf, Except.ok.injEq, ListOut.products.injEq] at h
              subst h
              have hv : verOk verArg d.ver = .ok (some true) := by
                rcases hpass with e | e
                · subst e; simp at hne
                · exact e
              exact (mem_map_uniqVers l' d.ver).mpr
                (List.mem_map_of_mem (f := Prod.snd) ((finalFilter_spec verArg out l' hf (i, d.ver)).mpr ⟨hin, hv⟩))



/-! the integrator's seeded change (round 3): `eups list prod ">= 1.10" -t current` with `current` on `1.9` -/
def s_current : Str := [99, 117, 114, 114, 101, 110, 116]
#guard Str.toString s_current == "current"
#guard Str.toString sLatest == "latest"
example : listProducts (render (opGe, n_1d10) []) [s_current] [[⟨n_1d9, [s_current]⟩, ⟨n_1d10, []⟩, ⟨n_1d2, []⟩]] = .ok (.products []) := by decide
example : listProducts (render (opGe, n_1d9) []) [s_current] [[⟨n_1d9, [s_current]⟩, ⟨n_1d10, []⟩, ⟨n_1d2, []⟩]] = .ok (.products [(0, n_1d9)]) := by decide
example : listProducts (render (opGe, n_1d9) []) [] [[⟨n_1d10, []⟩, ⟨n_1d9, [s_current]⟩, ⟨n_1d2, []⟩]] = .ok (.products [(0, n_1d9), (0, n_1d10)]) := by decide
example : listProducts (render (opGe, n_1d9) []) [sLatest] [[⟨n_1d10, []⟩, ⟨n_1d9, [s_current]⟩, ⟨n_1d2, []⟩]] = .ok (.products [(0, n_1d10)]) := by decide
example : listProducts [49, 46, 42] [] [[⟨n_1d10, []⟩, ⟨n_2, []⟩, ⟨n_1d2, []⟩]] = .ok (.products [(0, n_1d2), (0, n_1d10)]) := by decide   -- `1.*`
example : listProducts (render (opGe, n_1d9) []) [s_current] [[⟨n_1d2, []⟩], [⟨n_1d9, []⟩, ⟨n_1d10, [s_current]⟩]] = .ok (.products [(1, n_1d10)]) := by decide

/-- **The sort of the listing model is a stable sort** of any list of conventional names — a permutation, ordered by
the comparator, names that compare equal in their original relative order — and its last element is the one the
`latest` selection finds (`C10_latest_is_last_of_sort` says the same of every stable sort): the two models of
`vers.sort(...)` agree. -/
theorem C10_sort_model_is_stable_sort (names : List Str) (ps : List (Str × Lexed)) (hps : lexPairs names = .ok ps)
    (hconv : ∀ v ∈ names, convName v = true) :
    (sortVers ps).Perm ps ∧ (sortVers ps).Pairwise (fun a b => cmpSort a.2 b.2 ≤ 0) ∧
    (∀ m ∈ ps, (sortVers ps).filter (fun y => cmpSort y.2 m.2 == 0) = ps.filter (fun y => cmpSort y.2 m.2 == 0)) ∧
    (sortVers ps).getLast? = lastMax none ps := by
  obtain ⟨ps', hps', hc⟩ := lexPairs_of_conv hconv
  rw [hps] at hps'; cases hps'
  refine ⟨sortVers_perm ps, sortVers_sorted ps hc, fun m hm => sortVers_stable m ps (hc m hm) hc, ?_⟩
  cases hl : lastMax none ps with
  | none =>
    cases ps with
    | nil => simp [sortVers]
    | cons a as => simp [lastMax] at hl; exact absurd hl (by
        intro h; have := lastMax_spec [a] as a (by simpa using hc) (by simp) (by intro y hy; simp at hy; subst hy; rw [cmpSort_self]; exact Int.le_refl 0)
        obtain ⟨m, hm, _⟩ := this; rw [h] at hm; cases hm)
  | some m => exact sortVers_getLast ps m hl hc

/-! ## a version argument at the other entry points -/

/-- **`findProduct(name, expr)`** (`_findPreferredProductByExpr`): whatever tags the session prefers and whichever
versions carry them, the product returned satisfies the request and is declared where it is reported. -/
theorem C10_find_by_expr_satisfies_request (preferred : List Str) (expr : Str) (stacks : List (List Decl)) (p : Nat × Str)
    (hok : ∀ st ∈ versOf stacks, ∀ v ∈ st, ∃ b, versionMatch v expr = .ok b)
    (h : findProductExpr preferred expr stacks = .ok (some p)) :
    versionMatch p.2 expr = .ok true ∧ ∃ st, (versOf stacks)[p.1]? = some st ∧ p.2 ∈ st := by
  obtain ⟨ms, hms, _, hiff, hdecl⟩ := C10_matches_across expr (versOf stacks) hok
  simp only [findProductExpr, hms] at h
  have hp := selectPreferred_mem stacks ms preferred p h
  obtain ⟨st, h1, h2, _⟩ := hdecl p hp
  exact ⟨((hiff p.2).mp (List.mem_map_of_mem hp)).2, st, h1, h2⟩

/-- **`setup prod arg`, `arg` a relational request** (`findProductFromVRO`, entries `version` then `versionExpr`):
nothing when no declared version satisfies it, otherwise a declared version that satisfies it and that no declared
version satisfying it exceeds. -/
theorem C10_entry_relational (arg : Str) (stacks : List (List Decl))
    (hrel : isLegalRelativeVersion arg = .relational)
    (hconv : ∀ st ∈ versOf stacks, ∀ v ∈ st, convName v = true)
    (hok : ∀ st ∈ versOf stacks, ∀ v ∈ st, ∃ b, versionMatch v arg = .ok b)
    (hlit : ∀ st ∈ stacks, ∀ d ∈ st, d.ver ≠ arg) :
    (requestEntry arg stacks = .ok .nothing ∧ ∀ w ∈ (versOf stacks).flatten, versionMatch w arg ≠ .ok true) ∨
    (∃ i v, requestEntry arg stacks = .ok (.found true i v) ∧ v ∈ (versOf stacks).flatten ∧ versionMatch v arg = .ok true ∧
      ∀ w ∈ (versOf stacks).flatten, versionMatch w arg = .ok true → ∃ r, stdCompare false w v = .ok r ∧ r ≤ 0) := by
  have hnone : exactLookup arg 0 stacks = none := by
    cases hx : exactLookup arg 0 stacks with
    | none => rfl
    | some q =>
      obtain ⟨_, _, st, hget, ⟨d, hd, hdv⟩, _⟩ := (exactLookup_spec arg stacks 0).1 q.1 q.2 hx
      exact absurd hdv (hlit st (List.mem_of_getElem? hget) d hd)
  rcases C10_preferred_by_expr_is_max arg (versOf stacks) hconv hok with ⟨h1, h2⟩ | ⟨i, v, h1, h2, h3, h4⟩
  · exact Or.inl ⟨by simp [requestEntry, hrel, h1, hnone], h2⟩
  · exact Or.inr ⟨i, v, by simp [requestEntry, hrel, h1], h2, h3, h4⟩

/-- **`setup prod arg`, `arg` a version name**: exactly that string (not a version that merely compares equal to it),
from the first stack of the path that declares it. -/
theorem C10_entry_explicit (arg : Str) (stacks : List (List Decl)) (hv : wfName arg) :
    (requestEntry arg stacks = .ok .nothing ∧ ∀ st ∈ stacks, ∀ d ∈ st, d.ver ≠ arg) ∨
    (∃ i st, requestEntry arg stacks = .ok (.found false i arg) ∧ stacks[i]? = some st ∧ (∃ d ∈ st, d.ver = arg) ∧
      ∀ k st', k < i → stacks[k]? = some st' → ∀ d ∈ st', d.ver ≠ arg) := by
  have hp := C10_legal_name_plain arg hv
  cases hx : exactLookup arg 0 stacks with
  | none => exact Or.inl ⟨by simp [requestEntry, hp, hx], (exactLookup_spec arg stacks 0).2 hx⟩
  | some q =>
    obtain ⟨i, w⟩ := q
    obtain ⟨rfl, _, st, hget, hdecl, hfirst⟩ := (exactLookup_spec arg stacks 0).1 i w hx
    exact Or.inr ⟨i, st, by simp [requestEntry, hp, hx], by simpa using hget, hdecl, by simpa using hfirst⟩

/-- **`setup prod "= v"`** is refused. -/
theorem C10_entry_single_equals (lead gap v : Str) (stacks : List (List Decl))
    (hl : isWs lead) (hg : isWs gap) (hgne : gap ≠ []) (hv : wfName v) :
    requestEntry (lead ++ 61 :: (gap ++ v)) stacks = .ok .badSyntax := by
  simp [requestEntry, C10_legal_single_equals lead gap v hl hg hgne hv]

-- `findProduct("prod", ">= 1.2")`: `current` (on 1.9) is preferred to the latest (1.10); `setup prod ">= 1.2"` takes the latest
example : findProductExpr [s_current, sLatest] (render (opGe, n_1d2) []) [[⟨n_1d10, []⟩, ⟨n_1d9, [s_current]⟩, ⟨n_1d2, []⟩]] = .ok (some (0, n_1d9)) := by decide
example : requestEntry (render (opGe, n_1d2) []) [[⟨n_1d10, []⟩, ⟨n_1d9, [s_current]⟩, ⟨n_1d2, []⟩]] = .ok (.found true 0 n_1d10) := by decide
example : requestEntry n_1d9 [[⟨n_1d10, []⟩], [⟨n_1d9, [s_current]⟩, ⟨n_1d2, []⟩]] = .ok (.found false 1 n_1d9) := by decide

/-! non-vacuity: a chain, its rendering, the loop's answer; a list and its latest member -/
example : render (opGe, n_1d2) [(opLt, n_1d10)] = [62, 61, 32, 49, 46, 50, 32, 124, 124, 32, 60, 32, 49, 46, 49, 48] := by decide
#guard Str.toString (render (opGe, n_1d2) [(opLt, n_1d10)]) == ">= 1.2 || < 1.10"
example : versionMatch n_1d9 (render (opGe, n_1d10) [(opLt, n_1d2)]) = .ok false := by decide
example : versionMatch n_1d9 (render (opGe, n_1d10) [(opLe, n_1d9)]) = .ok true := by decide
example : versionMatch n_v1 (render (opGe, n_w1) []) = .ok false := by decide     -- unsortable: no match
example : latest [n_1d9, n_1d10, n_1d2, n_1d10] = .ok (some 1) := by decide
example : latestAcross [[n_1d9, n_1d2], [], [n_1d10, n_1d2d0]] = .ok (some (2, n_1d10)) := by decide
-- as strings `1.9` is the last of the stack; as versions `1.10` is
example : dbOrder [n_1d9, n_1d10, n_1d2] = [n_1d10, n_1d2, n_1d9] ∧ latestAcross ([[n_1d9, n_1d10, n_1d2]].map dbOrder) = .ok (some (0, n_1d10)) := by decide

/-! ## witnesses -/

/-- D5, the pinned comparator: the primary parts were tested for *string* equality before the component
loop, so `v1.0 == v1_0-rc1` and `v1_0-rc1 == v1.0-rc1` while `v1.0 > v1.0-rc1`: not transitive on
conventional names that mix `.` and `_` (repaired by `fix-g10` 4be966e; the repaired comparator orders them). -/
theorem C10_mixed_separator_witness :
    stdComparePinned false n_v1d0 n_v1u0mrc1 = .ok 0 ∧
    stdComparePinned false n_v1u0mrc1 n_v1d0mrc1 = .ok 0 ∧
    stdComparePinned false n_v1d0 n_v1d0mrc1 = .ok 1 ∧
    stdCompare false n_v1d0 n_v1u0mrc1 = .ok 1 ∧
    stdCompare false n_v1u0mrc1 n_v1d0mrc1 = .ok 0 := by decide

/-- D5 again, through leading zeros: `1 == 01-rc02+1 == 1-rc02+1 < 1` on the pinned comparator. -/
theorem C10_leading_zero_witness :
    stdComparePinned false n_1 n_01mrc02p1 = .ok 0 ∧
    stdComparePinned false n_01mrc02p1 n_1mrc02p1 = .ok 0 ∧
    stdComparePinned false n_1mrc02p1 n_1 = .ok (-1) ∧
    stdCompare false n_1 n_01mrc02p1 = .ok 1 := by decide

/-- Outside the conventional names the sorting mode is not transitive: `2 < 10 < 1a < 2`
(numbers compare numerically, `1a` compares as a string).  Recorded; the statement claims
transitivity for conventional names only.  The strict mode refuses `10` vs `1a`. -/
theorem C10_arbitrary_cycle_witness :
    stdCompare false n_2 n_10 = .ok (-1) ∧
    stdCompare false n_10 n_1a = .ok (-1) ∧
    stdCompare false n_1a n_2 = .ok (-1) ∧
    stdCompare true n_10 n_1a = .error .unsortable := by decide

/-- Where the conventional class stops.  A component that is not `letters* digits*` has the shape
`letters* D letter …` with `D` a run of digits, and is compared as a *string* with every other component.
If `D` has a digit other than `9`, two conventional components close a cycle with it: `1.8a < 1.9 < 1.80 < 1.8a`,
`0a < 1 < 09 < 0a` (the numeric order of `9`/`80`, `1`/`09` is the reverse of their string order around the
component).  If `D` is all nines (`1.9a`, `v99b2`) no digit string sorts above it and the order stays
transitive (exhaustive check in docs/notes/g10.md); so "conventional" can be widened by exactly those
components and by nothing else over letters and digits. -/
theorem C10_boundary_witness :
    stdCompare false n_1d8a n_1d9 = .ok (-1) ∧ stdCompare false n_1d9 n_1d80 = .ok (-1) ∧
    stdCompare false n_1d80 n_1d8a = .ok (-1) ∧
    stdCompare false n_0a n_1 = .ok (-1) ∧ stdCompare false n_1 n_09 = .ok (-1) ∧ stdCompare false n_09 n_0a = .ok (-1) ∧
    convName n_1d8a = false ∧ convName n_0a = false ∧ convName n_1d80 = true ∧ convName n_09 = true := by decide

/-- D5c, the pinned `distrib.Repositories.findPackage(product, Tag("latest"))`: over package repositories whose latest
versions are `10.0`, `3.0`, `4.0` it answered `4.0` (the candidate was replaced when it was *later* than the next
repository's latest, and the next one returned on the spot otherwise) — not the maximum.  Repaired (`fix-g10`): the
loop over the repositories is `latestAcross`, for which `C10_latest_across_is_max` holds. -/
theorem C10_latest_repos_witness :
    latestReposPinned 1 [[n_10d0], [n_3d0], [n_4d0]] = .ok (some (2, n_4d0)) ∧
    latestReposPinned 2 [[n_10d0], [n_3d0], [n_4d0]] = .ok (some (2, n_4d0)) ∧
    latestAcross [[n_10d0], [n_3d0], [n_4d0]] = .ok (some (0, n_10d0)) ∧
    stdCompare false n_4d0 n_10d0 = .ok (-1) := by decide

end EupsModel.C10
