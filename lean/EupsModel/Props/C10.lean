/-! C10 — property theorems (placeholder until the model exists). -/
