import EupsModel.Lemmas.VersionCmp
/-! C10 — version names are ordered consistently: property theorems.

`stdCompare strict a b` is the model of `hooks.version_cmp(a, b, mustReturnInt = !strict)`
(`Model/VersionCmp.lean`); a name is *accepted* when `lex` succeeds on it (the only way it does not is
the `AttributeError` of `_splitVersion` on a name that starts with `-` or `+`). -/
namespace EupsModel.C10
open EupsModel EupsModel.VersionCmp

/-! names used in the examples and witnesses, as code points (`#guard` checks the spelling) -/
def n_1d2mrc1p3 : Str := [49, 46, 50, 45, 114, 99, 49, 43, 51]   -- 1.2-rc1+3
#guard Str.toString n_1d2mrc1p3 == "1.2-rc1+3"
def n_1d2 : Str := [49, 46, 50]   -- 1.2
#guard Str.toString n_1d2 == "1.2"
def n_rc1 : Str := [114, 99, 49]   -- rc1
#guard Str.toString n_rc1 == "rc1"
def n_3 : Str := [51]   -- 3
#guard Str.toString n_3 == "3"
def n_1d10 : Str := [49, 46, 49, 48]   -- 1.10
#guard Str.toString n_1d10 == "1.10"
def n_1d9 : Str := [49, 46, 57]   -- 1.9
#guard Str.toString n_1d9 == "1.9"
def n_v1 : Str := [118, 49]   -- v1
#guard Str.toString n_v1 == "v1"
def n_w1 : Str := [119, 49]   -- w1
#guard Str.toString n_w1 == "w1"
def n_m1 : Str := [45, 49]   -- -1
#guard Str.toString n_m1 == "-1"
def n_1 : Str := [49]   -- 1
#guard Str.toString n_1 == "1"
def n_v1d0 : Str := [118, 49, 46, 48]   -- v1.0
#guard Str.toString n_v1d0 == "v1.0"
def n_v1u0mrc1 : Str := [118, 49, 95, 48, 45, 114, 99, 49]   -- v1_0-rc1
#guard Str.toString n_v1u0mrc1 == "v1_0-rc1"
def n_v1d0mrc1 : Str := [118, 49, 46, 48, 45, 114, 99, 49]   -- v1.0-rc1
#guard Str.toString n_v1d0mrc1 == "v1.0-rc1"
def n_01mrc02p1 : Str := [48, 49, 45, 114, 99, 48, 50, 43, 49]   -- 01-rc02+1
#guard Str.toString n_01mrc02p1 == "01-rc02+1"
def n_1mrc02p1 : Str := [49, 45, 114, 99, 48, 50, 43, 49]   -- 1-rc02+1
#guard Str.toString n_1mrc02p1 == "1-rc02+1"
def n_2 : Str := [50]   -- 2
#guard Str.toString n_2 == "2"
def n_10 : Str := [49, 48]   -- 10
#guard Str.toString n_10 == "10"
def n_1a : Str := [49, 97]   -- 1a
#guard Str.toString n_1a == "1a"

/-! ## reflexivity and antisymmetry: every accepted name, both modes -/

/-- A name the comparator accepts compares equal to itself, in the sorting and in the strict mode. -/
theorem C10_refl (strict : Bool) (a : Str) (la : Lexed) (h : lex a = .ok la) :
    stdCompare strict a a = .ok 0 := by
  cases strict <;> simp [stdCompare, h, cmpLexed, cmpSort_self, cmpStrict_self]

/-- Sorting mode (`mustReturnInt=True`): it answers for every pair of accepted names … -/
theorem C10_sort_total (a b : Str) (la lb : Lexed) (ha : lex a = .ok la) (hb : lex b = .ok lb) :
    ∃ r, stdCompare false a b = .ok r := by
  exact ⟨cmpSort la lb, by simp [stdCompare, ha, hb, cmpLexed]⟩

/-- … and swapping the arguments negates the answer, for every pair of names whatsoever. -/
theorem C10_antisym (a b : Str) (r : Int) (h : stdCompare false a b = .ok r) :
    stdCompare false b a = .ok (-r) := by
  simp only [stdCompare] at h ⊢
  cases ha : lex a with
  | error e => simp [ha] at h
  | ok la =>
    cases hb : lex b with
    | error e => simp [ha, hb] at h
    | ok lb =>
      simp only [ha, hb, cmpLexed, Bool.false_eq_true, if_false, Except.ok.injEq] at h ⊢
      rw [← h, cmpSort_antisym la lb]; omega

/-- Strict mode (`mustReturnInt=False`, the mode of relational expressions): an answer is negated by
swapping the arguments … -/
theorem C10_antisym_strict (a b : Str) (r : Int) (h : stdCompare true a b = .ok r) :
    stdCompare true b a = .ok (-r) := by
  simp only [stdCompare] at h ⊢
  cases ha : lex a with
  | error e => simp [ha] at h
  | ok la =>
    cases hb : lex b with
    | error e => simp [ha, hb] at h
    | ok lb =>
      simp only [ha, hb, cmpLexed, if_true] at h ⊢
      rw [cmpStrict_symm la lb, h]

/-- … and "cannot be sorted" does not depend on the order of the arguments (accepted names). -/
theorem C10_unsortable_symm (a b : Str) (la lb : Lexed) (ha : lex a = .ok la) (hb : lex b = .ok lb) (e : Err)
    (h : stdCompare true a b = .error e) : stdCompare true b a = .error e := by
  simp only [stdCompare, ha, hb, cmpLexed, if_true] at h ⊢
  rw [cmpStrict_symm la lb, h]

/-- The two modes never contradict each other: when the strict mode answers, the sorting mode gives
the same answer. -/
theorem C10_strict_agrees_with_sort (a b : Str) (r : Int) (h : stdCompare true a b = .ok r) :
    stdCompare false a b = .ok r := by
  simp only [stdCompare] at h ⊢
  cases ha : lex a with
  | error e => simp [ha] at h
  | ok la =>
    cases hb : lex b with
    | error e => simp [ha, hb] at h
    | ok lb =>
      simp only [ha, hb, cmpLexed, if_true, Bool.false_eq_true, if_false, Except.ok.injEq] at h ⊢
      exact cmpStrict_agrees h

/-! non-vacuity: accepted names, a strict answer, a strict refusal -/
example : lex n_1d2mrc1p3 = .ok (.node n_1d2 (.node n_rc1 .absent .absent) (.node n_3 .absent .absent)) := by decide
example : stdCompare true n_1d10 n_1d9 = .ok 1 := by decide
example : stdCompare true n_v1 n_w1 = .error .unsortable := by decide
example : stdCompare false n_m1 n_1 = .error .malformed := by decide

/-! ## witnesses -/

/-- D5, the pinned comparator: the primary parts were tested for *string* equality before the component
loop, so `v1.0 == v1_0-rc1` and `v1_0-rc1 == v1.0-rc1` while `v1.0 > v1.0-rc1`: not transitive on
conventional names that mix `.` and `_` (repaired by `fix-g10` 4be966e; the repaired comparator orders them). -/
theorem C10_mixed_separator_witness :
    stdComparePinned false n_v1d0 n_v1u0mrc1 = .ok 0 ∧
    stdComparePinned false n_v1u0mrc1 n_v1d0mrc1 = .ok 0 ∧
    stdComparePinned false n_v1d0 n_v1d0mrc1 = .ok 1 ∧
    stdCompare false n_v1d0 n_v1u0mrc1 = .ok 1 ∧
    stdCompare false n_v1u0mrc1 n_v1d0mrc1 = .ok 0 := by decide

/-- D5 again, through leading zeros: `1 == 01-rc02+1 == 1-rc02+1 < 1` on the pinned comparator. -/
theorem C10_leading_zero_witness :
    stdComparePinned false n_1 n_01mrc02p1 = .ok 0 ∧
    stdComparePinned false n_01mrc02p1 n_1mrc02p1 = .ok 0 ∧
    stdComparePinned false n_1mrc02p1 n_1 = .ok (-1) ∧
    stdCompare false n_1 n_01mrc02p1 = .ok 1 := by decide

/-- Outside the conventional names the sorting mode is not transitive: `2 < 10 < 1a < 2`
(numbers compare numerically, `1a` compares as a string).  Recorded; the statement claims
transitivity for conventional names only.  The strict mode refuses `10` vs `1a`. -/
theorem C10_arbitrary_cycle_witness :
    stdCompare false n_2 n_10 = .ok (-1) ∧
    stdCompare false n_10 n_1a = .ok (-1) ∧
    stdCompare false n_1a n_2 = .ok (-1) ∧
    stdCompare true n_10 n_1a = .error .unsortable := by decide

end EupsModel.C10
