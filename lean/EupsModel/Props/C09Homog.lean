import EupsModel.Lemmas.LockRHomog
/-! C09 — no spurious refusals (property theorems).  The repaired protocol is deliberately conservative when requests
that exclude each other overlap (both may withdraw).  Requests that are compatible with each other are never turned away
by it, under EVERY schedule: readers among themselves are never refused; updaters among themselves are serialised by
the `mkdir` gate alone — the first `mkdir` wins, nobody ever puts a lock file down only to withdraw it. -/
namespace EupsModel.C09
open EupsModel.Lock (Pid Kind Err)
open EupsModel.LockR

/-- **"Any number of readers may share", under every schedule**: if every request is shared, no request is ever
refused and none is withdrawn — whatever the interleaving of acquisitions and releases.  (The one way a reader can fail:
the lock directory is removed under it by a releasing reader when it has no attempt left, `failedAcq .enoent`; with the
CLI's ten attempts that takes ten lost races in a row.) -/
theorem C09_readers_never_refused (kind : Pid → Kind) (lp : Pid → Option Pid) (tries : Pid → Nat)
    (hk : ∀ i, kind i = .sh) (sched : List Pid) (i : Pid) :
    (∀ e, (run (init kind lp tries) sched).pc i = .failedAcq e → e = .enoent) ∧
    (∀ l, (run (init kind lp tries) sched).pc i ≠ .lookMsg l) ∧
    (∀ a, (run (init kind lp tries) sched).pc i = .isdir a → a = .fin) := by
  have h := smooth_run _ sched (inv_init kind lp tries) (by intro i; simp [init, hk]) (by intro i; simp [init, smooth]) i
  refine ⟨?_, ?_, ?_⟩
  · intro e he; rw [he] at h; cases e <;> simp [smooth] at h; rfl
  · intro l he; rw [he] at h; simp [smooth] at h
  · intro a he; rw [he] at h; cases a <;> simp [smooth] at h; rfl

/-- **Updaters among themselves** (every request exclusive, no re-entry), under every schedule: at most one of them is
engaged with the lock directory at any time (the first `mkdir` wins, the others are turned away at the gate and wait),
and nobody ever withdraws a lock file or is refused after having put one down. -/
theorem C09_updaters_serialised_by_the_gate (kind : Pid → Kind) (lp : Pid → Option Pid) (tries : Pid → Nat)
    (hk : ∀ i, kind i = .ex) (hl : ∀ i, lp i = none) (sched : List Pid) :
    (∀ i j, engaged ((run (init kind lp tries) sched).pc i) = true →
            engaged ((run (init kind lp tries) sched).pc j) = true → i = j) ∧
    (∀ i l, (run (init kind lp tries) sched).pc i ≠ .lookMsg l) ∧
    (∀ i a, (run (init kind lp tries) sched).pc i = .isdir a → a = .fin) := by
  have h := xinv_run _ sched (by intro i; simp [init, hk]) (by intro i; simp [init, hl]) (xinv_init kind lp tries)
  refine ⟨h.uniq, ?_, ?_⟩
  · intro i l he; have := h.gated i; rw [he] at this; simp [gated] at this
  · intro i a he; have := h.gated i; rw [he] at this; simpa [gated] using this

/-- non-vacuity: three updaters with three attempts each, interleaved call by call: one holds, the others wait at
the gate (and none has withdrawn anything) -/
example :
    let s := run (init (fun _ => .ex) (fun _ => none) (fun _ => 2)) [0, 1, 2, 0, 1, 2, 0, 1, 2]
    s.pc 0 = .hold ∧ s.pc 1 = .mkdir 1 ∧ s.pc 2 = .mkdir 1 := by decide

/-- the hypotheses are needed: an updater and a reader may both withdraw (deliberately conservative) -/
example :
    let kind : Pid → Kind := fun i => if i = 0 then .ex else .sh
    let s := run (init kind (fun _ => none) (fun _ => 0)) [0, 1, 0, 1, 0, 1]
    s.pc 0 = .lookMsg 0 ∧ s.pc 1 = .lookMsg 0 := by decide

end EupsModel.C09
