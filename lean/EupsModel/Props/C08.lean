/-! C08 — property theorems (placeholder until the model exists). -/
