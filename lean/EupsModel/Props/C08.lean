import EupsModel.Lemmas.FsEff
import EupsModel.Lemmas.FsTab
import EupsModel.Lemmas.FsEffForms
import EupsModel.Lemmas.FsCache
/-! C08 — an interrupted update never corrupts or loses existing declarations.  Property theorems only
(model: `Model/FsEff.lean`, helper lemmas: `Lemmas/FsEff.lean`).

`effects cfg fs c` is the list of file-system effects of command `c` started in database state `fs`;
`crashAt cfg fs c k` is the state a kill immediately before effect number `k` leaves behind; `read s r` is what a
reader makes of record `r` in state `s` (absent / garbled = empty or truncated / its declared flavors / its
flavor ↦ version assignments); `targets fs c` are the records the command may touch.  `cfg.atomic = true` is the
tree with the D10 repair (records are written to a temporary file and renamed into place), `false` the pinned
in-place writers. -/
namespace EupsModel.C08
open EupsModel.FsEff

/-- **Frame** (core theorem).  Whatever the writers (repaired or pinned), whatever the state, the command and the
crash point: every record the command does not target reads exactly as before. -/
theorem C08_frame (cfg : Cfg) (fs : Fs) (c : Cmd) (k : Nat) (r : RPath) (h : r ∉ targets fs c) :
    FsEff.read (crashAt cfg fs c k) r = FsEff.read fs r := by
  unfold FsEff.read crashAt
  congr 1
  apply get_applyAll
  intro e he hg
  have he' : e ∈ effects cfg fs c := List.mem_of_mem_take he
  obtain ⟨s, hs, r', hr', hgr⟩ := touched_expandAll cfg.atomic fs (steps fs c) e he' _ hg
  rcases hgr with h1 | h1
  · cases h1
    exact h (steps_within fs c s hs r hr')
  · cases h1

/-- **Commit points.**  With the repaired writers, from a well-formed state, a kill at any point leaves every
record as it is after some whole number of the command's record-level steps (`steps`: whole-record writes and
removals as `Database`/`Eups` decide them) — the intermediate states of a writer are invisible. -/
theorem C08_commit_points (fs : Fs) (hwf : WF fs) (c : Cmd) (k : Nat) :
    ∃ j, j ≤ (steps fs c).length ∧
      ∀ r, FsEff.read (crashAt { atomic := true } fs c k) r = FsEff.read (applySteps fs ((steps fs c).take j)) r := by
  obtain ⟨j, hj, h⟩ := commit_points (steps fs c) fs hwf.noTmp k
  exact ⟨j, hj, fun r => by unfold FsEff.read crashAt effects; rw [h r]⟩

/-- **Old or new** (the clause "each record touched is seen either in its old or in its new form", partial).
Hypothesis `retag fs c = false`: the command does not assign a tag that is already assigned for that product and
flavor (the excluded class is the open finding D11, witness below).  With the repaired writers, from a well-formed
state, for every command, crash point and record: the record reads as before the command or as after the
completed command. -/
theorem C08_record_atomic_partial (fs : Fs) (hwf : WF fs) (c : Cmd) (hnr : retag fs c = false) (k : Nat) (r : RPath) :
    FsEff.read (crashAt { atomic := true } fs c k) r = FsEff.read fs r ∨
    FsEff.read (crashAt { atomic := true } fs c k) r = FsEff.read (final { atomic := true } fs c) r := by
  obtain ⟨j, _, h⟩ := commit_points (steps fs c) fs hwf.noTmp k
  have hfin : final { atomic := true } fs c = applySteps fs (steps fs c) := expandAll_net _ fs hwf.noTmp
  unfold FsEff.read
  rw [hfin]
  unfold crashAt effects
  rw [h r]
  exact steps_atomic fs hwf c hnr r j

/-- **Never truncated or empty** (full, tag moves included): with the repaired writers, from a well-formed
state, no crash point of any command lets a reader see an empty or half-written record. -/
theorem C08_never_garbled (fs : Fs) (hwf : WF fs) (c : Cmd) (k : Nat) (r : RPath) :
    FsEff.read (crashAt { atomic := true } fs c k) r ≠ .garbled := by
  obtain ⟨j, _, h⟩ := commit_points (steps fs c) fs hwf.noTmp k
  unfold FsEff.read crashAt effects
  rw [h r]
  exact not_garbled_applySteps _ fs (wf_not_garbled fs hwf) r

/-- **The reader succeeds** (full): with the repaired writers, from a well-formed state, after a kill at any
point of any command (tag moves included) every record file in the database directory is complete and of its kind
— a leftover temporary file is not a record — so the listing of a fresh reader is defined for every flavor. -/
theorem C08_reader_total (fs : Fs) (hwf : WF fs) (c : Cmd) (k : Nat) (f : Id) :
    recordsComplete (crashAt { atomic := true } fs c k) = true ∧
    (listing (crashAt { atomic := true } fs c k) f).isSome = true := by
  have h := recordsComplete_of_mainGood _ (mainGood_crash fs hwf c k)
  exact ⟨h, by simp [listing, h]⟩

/-- The pinned writers do not have this property either: in the truncation witness the reader meets a record it
cannot read in full. -/
theorem C08_reader_total_pinned_witness :
    let fs : Fs := { dirs := [0], files := [(.main (.vfile 0 0), .complete (.ver [⟨0, false⟩, ⟨1, false⟩]))] }
    listing (crashAt { atomic := false } fs (.declare 0 0 0 none true) 1) 0 = none := by decide

/-- Non-vacuity of the hypotheses: the two-flavor state of the truncation witness is well-formed and the forced
redeclaration is not a re-tag (it has 19 effects); the state of the tag-move witness is well-formed too, and there
`retag` is true. -/
example :
    let fs : Fs := { dirs := [0], files := [(.main (.vfile 0 0), .complete (.ver [⟨0, false⟩, ⟨1, false⟩]))] }
    WF fs ∧ retag fs (.declare 0 0 0 none true) = false ∧ (effects {} fs (.declare 0 0 0 none true)).length = 19 := by
  refine ⟨⟨?_, ?_, ?_⟩, by decide, by decide⟩
  · intro x hx r; simp at hx; subst hx; simp
  · decide
  · intro x hx; simp at hx; subst hx; simp [RecOK]
example :
    retag { dirs := [0], files := [(.main (.vfile 0 0), .complete (.ver [⟨0, false⟩])),
                                   (.main (.vfile 0 1), .complete (.ver [⟨0, false⟩])),
                                   (.main (.cfile 0 0), .complete (.chain [⟨0, 0, false⟩]))] }
      (.declare 0 1 0 (some 0) false) = true := by decide

/-- The clause "each record touched is seen in its old or in its new form, never truncated or empty" is false of
the pinned writers (D10, repaired): `pa/1.version` holds flavors 0 and 1; flavor 0 is redeclared; killed right
after the truncate, the record is seen empty — flavor 1, which the command did not touch, is lost with it —
although both the old and the new record declare flavors 0 and 1. -/
theorem C08_truncation_witness :
    let fs : Fs := { dirs := [0], files := [(.main (.vfile 0 0), .complete (.ver [⟨0, false⟩, ⟨1, false⟩]))] }
    let c : Cmd := .declare 0 0 0 none true
    (RPath.vfile 0 0) ∈ targets fs c ∧
    FsEff.read (crashAt { atomic := false } fs c 1) (.vfile 0 0) = .garbled ∧
    FsEff.read fs (.vfile 0 0) = .flavors [0, 1] ∧
    FsEff.read (final { atomic := false } fs c) (.vfile 0 0) = .flavors [0, 1] := by decide

/-- With the repaired writers the same command at the same crash point leaves the record as it was. -/
theorem C08_truncation_repaired :
    let fs : Fs := { dirs := [0], files := [(.main (.vfile 0 0), .complete (.ver [⟨0, false⟩, ⟨1, false⟩]))] }
    let c : Cmd := .declare 0 0 0 none true
    ∀ k, k ≤ (effects {} fs c).length → FsEff.read (crashAt {} fs c k) (.vfile 0 0) = .flavors [0, 1] := by decide

/-- The same clause is false of a tag move even with the repaired writers (D11, open): `current` is assigned to
`pa 1` and is moved to `pa 2`; the chain record is removed and then written again; killed in between, the tag is
assigned to nothing — neither the old nor the new record. -/
theorem C08_tagmove_gap_witness :
    let fs : Fs := { dirs := [0], files := [(.main (.vfile 0 0), .complete (.ver [⟨0, false⟩])),
                                             (.main (.vfile 0 1), .complete (.ver [⟨0, false⟩])),
                                             (.main (.cfile 0 0), .complete (.chain [⟨0, 0, false⟩]))] }
    let c : Cmd := .declare 0 1 0 (some 0) false
    (RPath.cfile 0 0) ∈ targets fs c ∧
    FsEff.read (crashAt {} fs c 1) (.cfile 0 0) = .absent ∧
    FsEff.read fs (.cfile 0 0) = .assigns [(0, 0)] ∧
    FsEff.read (final {} fs c) (.cfile 0 0) = .assigns [(0, 1)] := by decide

/-! Non-vacuity of `C08_frame`: in the state of the tag-move witness the command has 9 effects and the version
record `pa/1.version` is not among its targets. -/
example :
    let fs : Fs := { dirs := [0], files := [(.main (.vfile 0 0), .complete (.ver [⟨0, false⟩])),
                                             (.main (.vfile 0 1), .complete (.ver [⟨0, false⟩])),
                                             (.main (.cfile 0 0), .complete (.chain [⟨0, 0, false⟩]))] }
    (effects {} fs (.declare 0 1 0 (some 0) false)).length = 9 ∧
    RPath.vfile 0 0 ∉ targets fs (.declare 0 1 0 (some 0) false) := by decide

/-! ## Old or new without the hypothesis: exactly what a kill can show

`C08_record_atomic_partial` excludes commands that re-assign a tag (`retag`).  The two theorems below need no such
hypothesis and together say exactly what every record can look like after a kill: every record other than the chain
record of the tag being assigned is old or new (`C08_record_atomic_other`); that chain record shows, for every flavor,
the old assignment, or the new one, or — the D11 gap — nothing for the declaring flavor and the old assignment for
every other flavor (`C08_tag_chain_forms`).  The third form is the class predicate of the open finding D11. -/

/-- **Old or new for every record but the re-assigned tag's chain record** (full; repaired writers, well-formed
state, every command — tag moves included —, every crash point). -/
theorem C08_record_atomic_other (fs : Fs) (hwf : WF fs) (c : Cmd) (k : Nat) (r : RPath)
    (hr : ∀ p v f tag force t, c = .declare p v f tag force → declareTag fs p f tag = some t → r ≠ .cfile p t) :
    FsEff.read (crashAt { atomic := true } fs c k) r = FsEff.read fs r ∨
    FsEff.read (crashAt { atomic := true } fs c k) r = FsEff.read (final { atomic := true } fs c) r := by
  obtain ⟨j, _, h⟩ := commit_points (steps fs c) fs hwf.noTmp k
  have hfin : final { atomic := true } fs c = applySteps fs (steps fs c) := expandAll_net _ fs hwf.noTmp
  unfold FsEff.read
  rw [hfin]
  unfold crashAt effects
  rw [h r]
  have hc : cnt r (steps fs c) ≤ 1 := by
    cases c with
    | declare p v f tag force =>
      exact cnt_steps_declare fs p v f tag force r (fun t ht => hr p v f tag force t rfl ht)
    | untag t p f v => exact cnt_steps_untag fs t p f v r
    | undeclare p v f => exact cnt_steps_undeclare fs hwf.nodup p v f r
    | undeclareAny p f =>
      simp only [steps]
      cases soleVersion fs p f with
      | none => simp [cnt]
      | some v =>
        have := cnt_steps_undeclare fs hwf.nodup p v f r
        simpa only [steps] using this
  rcases single_writer r _ hc fs j with e | e
  · left; rw [e]
  · right; rw [e]

/-- **The chain record of the tag a `declare` assigns** (full; repaired writers, well-formed state, no hypothesis on
the command): at every crash point a reader finds in it, for every flavor `g`, either what was there before, or the
new assignment `f ↦ v` beside the old assignments of the other flavors, or no assignment for `f` beside the old
assignments of the other flavors.  `cview s p t g` = the version the chain record of `(p, t)` assigns to flavor `g` in
state `s`. -/
theorem C08_tag_chain_forms (fs : Fs) (hwf : WF fs) (p v f : Id) (tag : Option Id) (force : Bool) (t : Id)
    (htag : declareTag fs p f tag = some t) (k : Nat) :
    (∀ g, cview (crashAt { atomic := true } fs (.declare p v f tag force) k) p t g = cview fs p t g) ∨
    (∀ g, cview (crashAt { atomic := true } fs (.declare p v f tag force) k) p t g
        = if g = f then some v else cview fs p t g) ∨
    (∀ g, cview (crashAt { atomic := true } fs (.declare p v f tag force) k) p t g
        = if g = f then none else cview fs p t g) := by
  obtain ⟨j, _, h⟩ := commit_points (steps fs (.declare p v f tag force)) fs hwf.noTmp k
  have := declare_chain_forms fs p v f tag force t htag j
  exact forms_congr fs p t f v _ _ (by unfold crashAt effects; exact h (.cfile p t)) this

/-- The third form occurs and is neither the old nor the new record: the state and command of
`C08_tagmove_gap_witness`, killed after the first effect. -/
example :
    let fs : Fs := { dirs := [0], files := [(.main (.vfile 0 0), .complete (.ver [⟨0, false⟩])),
                                             (.main (.vfile 0 1), .complete (.ver [⟨0, false⟩])),
                                             (.main (.cfile 0 0), .complete (.chain [⟨0, 0, false⟩]))] }
    let c : Cmd := .declare 0 1 0 (some 0) false
    cview fs 0 0 0 = some 0 ∧ cview (crashAt {} fs c 1) 0 0 0 = none ∧ cview (final {} fs c) 0 0 0 = some 1 := by decide

/-! ## Database-held table files (`Model/FsTab.lean`)

`Db` = the record store beside the store of interned table files; `Cmd2` = the commands above (`plain c`) and
`declareTab p v f tag n` = a forced declaration that hands the table file over as a stream with content `n`, which
`Eups.declare` copies into the database *after* the records (`utils.copyfile`; repaired, D47: copy beside the
destination and rename; pinned: unlink, then copy in place).  `crashAt2` is the state a kill before effect `k` leaves;
its record component is exactly `crashAt` of the command's record part (`C08_tables_records`), so every theorem above
holds verbatim for the extended commands. -/

/-- The record component of every crash state of an extended command is the crash state of its record part; in
particular frame, commit points, old-or-new, never-garbled and reader-total carry over. -/
theorem C08_tables_records (cfg : Cfg) (db : Db) (c : Cmd2) (k : Nat) :
    (crashAt2 cfg db c k).fs = crashAt cfg db.fs c.onRecords k :=
  crashAt2_fs cfg db c k

/-- **Frame for table files** (both writers): at every crash point of every command, every table file other than
the one the command replaces — for a command without a table stream: every table file — reads exactly as before. -/
theorem C08_table_frame (cfg : Cfg) (db : Db) (c : Cmd2) (k : Nat) (key : TKey)
    (h : ∀ n, c.tab ≠ some (key, n)) :
    readTab (crashAt2 cfg db c k) key = readTab db key := by
  unfold readTab
  rw [crashAt2_tabs]
  unfold tabEffects
  cases hc : c.tab with
  | none => simp [applyTAll]
  | some kn =>
    obtain ⟨k', n⟩ := kn
    have hne : key ≠ k' := by
      intro e; subst e; exact h n hc
    simp only []
    rw [copy_frame cfg.atomic k' n db.tabs _ (.main key) (by intro e; cases e; exact hne rfl) (by intro e; cases e)]

/-- **The replaced table file is seen old or new** (repaired `copyfile`): at every crash point of a declaration with a
table stream, the interned table file reads as before the command or holds the new content, never absent, empty or
truncated unless it was so before. -/
theorem C08_table_atomic (db : Db) (c : Cmd2) (key : TKey) (n : Nat) (h : c.tab = some (key, n)) (k : Nat) :
    readTab (crashAt2 { atomic := true } db c k) key = readTab db key ∨
    readTab (crashAt2 { atomic := true } db c k) key = .content n := by
  unfold readTab
  rw [crashAt2_tabs]
  simp only [tabEffects, h]
  rcases copy_atomic key n db.tabs (k - (effects { atomic := true } db.fs c.onRecords).length) with e | e
  · left; rw [e]
  · right; rw [e]

/-- … and after the completed command it holds the new content. -/
theorem C08_table_final (db : Db) (c : Cmd2) (key : TKey) (n : Nat) (h : c.tab = some (key, n)) :
    readTab (crashAt2 { atomic := true } db c (effects2 { atomic := true } db c).length) key = .content n := by
  unfold readTab
  rw [crashAt2_tabs]
  simp only [tabEffects, h, effects2, List.length_append, List.length_map]
  have : (effects { atomic := true } db.fs c.onRecords).length + (copyEffects true key n).length
      - (effects { atomic := true } db.fs c.onRecords).length = (copyEffects true key n).length := by omega
  rw [this, List.take_length, copy_atomic_final]

/-- The pinned `utils.copyfile` (D47, repaired) does not have this property: product `0 0` of flavor `0` is declared
with an interned table file of content `1` and is redeclared with content `2`; killed after the `unlink` the table
file of the existing declaration is gone — neither the old nor the new content — and one effect later it is empty. -/
theorem C08_table_gap_witness :
    let db : Db := { fs := { dirs := [0], files := [(.main (.vfile 0 0), .complete (.ver [⟨0, false⟩]))] },
                     tabs := [(.main ⟨0, 0, 0⟩, .full 1)] }
    let c : Cmd2 := .declareTab 0 0 0 none 2
    let n1 := (effects { atomic := false } db.fs c.onRecords).length
    readTab db ⟨0, 0, 0⟩ = .content 1 ∧
    readTab (crashAt2 { atomic := false } db c (n1 + 1)) ⟨0, 0, 0⟩ = .absent ∧
    readTab (crashAt2 { atomic := false } db c (n1 + 2)) ⟨0, 0, 0⟩ = .garbled ∧
    readTab (crashAt2 { atomic := false } db c (n1 + 4)) ⟨0, 0, 0⟩ = .content 2 := by decide

/-- With the repaired `copyfile` the same command leaves the old content until the rename (concrete instance,
every crash point). -/
theorem C08_table_gap_repaired :
    let db : Db := { fs := { dirs := [0], files := [(.main (.vfile 0 0), .complete (.ver [⟨0, false⟩]))] },
                     tabs := [(.main ⟨0, 0, 0⟩, .full 1)] }
    let c : Cmd2 := .declareTab 0 0 0 none 2
    ∀ k, k ≤ (effects2 {} db c).length →
      readTab (crashAt2 {} db c k) ⟨0, 0, 0⟩ = .content 1 ∨ readTab (crashAt2 {} db c k) ⟨0, 0, 0⟩ = .content 2 := by decide

/-! ## The product cache (`Model/FsCache.lean`)

After every database operation of a command `Eups` saves the product cache: one `utils.AtomicFile` per flavor —
temporary file, `pickle.dump` into the **buffered** file object (the data reaches the file only when it is flushed at
`close`; a killed process loses what is buffered), `os.fsync`, close, `os.rename`.  `effects3` = the record effects of
the command's database operations with the cache saves in between (and the interned table file last); `crashAt3` = the
state (records, table files, cache files) a kill before effect `k` leaves.  `flavors` = the cache files the command's
`Eups` object holds (`ProductStack.getFlavors()`), part of the state it starts in. -/

/-- The records at every crash point of the extended effect list are the records at a crash point of the plain model:
frame, commit points, old-or-new, never-garbled, reader-total and the chain-record forms hold verbatim with the cache
saves in between. -/
theorem C08_cache_records (cfg : Cfg3) (flavors : List Id) (db : Db3) (c : Cmd2) (k : Nat) :
    ∃ k', (crashAt3 cfg flavors db c k).fs = crashAt { atomic := cfg.atomic } db.fs c.onRecords k' := by
  refine ⟨(recPart ((effects3 cfg flavors db c).take k)).length, ?_⟩
  unfold crashAt3 crashAt
  rw [applyAll3_fs]
  have h := recPart_take (effects3 cfg flavors db c) k
  rw [recPart_effects3] at h
  exact congrArg (applyAll db.fs) h

/-- **The cache files are complete at every crash point** (full; the order in the tree: close, then rename): if no
cache file in place is empty when the command starts, none is at any crash point of any command — for every list of
flavors whose cache files are saved, the last one included. -/
theorem C08_cache_complete (atomic : Bool) (flavors : List Id) (db : Db3) (c : Cmd2) (k : Nat)
    (h : ∀ f, cget db.cache (.main f) ≠ some .empty) :
    ∀ f, cget (crashAt3 { atomic := atomic, renameFirst := false } flavors db c k).cache (.main f) ≠ some .empty := by
  unfold crashAt3
  rw [applyAll3_cache]
  have hk := cachePart_take (effects3 { atomic := atomic, renameFirst := false } flavors db c) k
  have := safe_cachePart_effects3 atomic flavors db c db.cache h
    (cachePart ((effects3 { atomic := atomic, renameFirst := false } flavors db c).take k)).length
  rw [← hk] at this
  exact this

/-- Buffered writes matter: with *rename, then close* (not the order in the tree) a kill between the two leaves an
empty cache file in place — here the file of the LAST flavor saved (`2` = generic), with every other file newer and
complete; the model with the order of the tree has the old complete file at the same crash point. -/
theorem C08_cache_rename_before_close_witness :
    let db : Db3 := { fs := { dirs := [0], files := [(.main (.vfile 0 0), .complete (.ver [⟨0, false⟩]))] },
                      tabs := [], cache := [(.main 0, .full 0), (.main 2, .full 0)] }
    let c : Cmd2 := .plain (.undeclare 0 0 0)
    let bad : Cfg3 := { renameFirst := true }
    cget (crashAt3 bad [0, 2] db c 11).cache (.main 2) = some .empty ∧
    cget (crashAt3 {} [0, 2] db c 11).cache (.main 2) = some (.full 0) ∧
    cget (crashAt3 {} [0, 2] db c 12).cache (.main 2) = some (.full 1) := by decide

end EupsModel.C08
