/-! C16 — property theorems (placeholder until the model exists). -/
