import EupsModel.Lemmas.RecordReloc
import EupsModel.Lemmas.RecordText
import EupsModel.Lemmas.RecordEndToEnd
import EupsModel.Lemmas.RecordDir
import EupsModel.Lemmas.RecordQual
import EupsModel.Lemmas.RecordMacro
import EupsModel.Lemmas.RecordMacroText
import EupsModel.Lemmas.RecordHistory
/-! C16 — database records round-trip and stacks are relocatable.  Property theorems only.
Model and the specification-side definitions used in the statements (`DirPl`, `TabPl`, `DirPl.at`, `TabPl.at`,
`declaredProd`, `canonInfo`, `PlaceOK`, `DeclEx`, `ReadEx`, `readBack`): `Model/Record.lean`; helper lemmas:
`Lemmas/Record.lean`, `Lemmas/RecordReloc.lean`, `Lemmas/RecordText.lean` (there also `Clean`, `CleanKey`, `GoodInfo`,
`GoodVRec`, `GoodCInfo`, `GoodCRec`, `TrimStable`). -/
namespace EupsModel.C16
open EupsModel.Record

/-! ## Relocation

A *placement* says where the product directory and the table file are relative to the stack `root`.
`declaredProd root … d t` is the `Product` that `Eups.declare` hands to `Database.declare`; `declarePaths` is what
`Database.declare` + `VersionFile.addFlavor/write` store; `resolveInfo` is what `VersionFile.makeProduct` +
`Product.resolvePaths` give a reader whose stack is at `root'`; `readBack` composes them.  `d.at root'` and
`t.at root' …` are the locations the property demands: paths inside the stack re-rooted, paths outside unchanged. -/

/-- Products are recorded relative to the stack: for every listed placement the stored block is `canonInfo`,
which does not mention `root` at all unless the path is outside the stack. -/
theorem C16_recorded_relative (ex : Path → Bool) (root : List Str) (name version flavor : Str) (d : DirPl) (t : TabPl)
    (hp : PlaceOK root name version flavor d t) (hx : DeclEx ex root name version flavor d t) :
    (declarePaths ex (declaredProd root name version flavor d t) none).map (·.2)
      = .ok (canonInfo name version flavor d t) :=
  canon_spec ex root name version flavor d t hp hx

/-- **Relocation** (core theorem).  Declare with the stack at `root`; move or copy the stack to `root'`; a reader
there reports the directory and the table file at `root'` if they were inside the stack and where they were if
they were outside — for each placement: directory inside / outside / none × table file in `dir/ups` /
absolute inside the stack / absolute outside / interned in `ups_db` / none. -/
theorem C16_relocate (ex ex' : Path → Bool) (root root' : List Str) (name version flavor : Str) (d : DirPl) (t : TabPl)
    (hp : PlaceOK root name version flavor d t) (hroot' : SegsOK root')
    (hd : DeclEx ex root name version flavor d t) (hr : ReadEx ex' root' name version flavor d t) :
    readBack ex ex' root root' name version flavor d t
      = .ok (d.at root', t.at root' name version flavor d) := by
  have h1 := canon_spec ex root name version flavor d t hp hd
  have h2 := resolve_spec ex' root root' name version flavor d t hp hroot' hr
  unfold readBack
  cases hdp : declarePaths ex (declaredProd root name version flavor d t) none with
  | error e => simp [hdp, Except.map] at h1
  | ok cp =>
    obtain ⟨c, pi⟩ := cp
    simp only [hdp, Except.map, Except.ok.injEq] at h1
    subst h1
    cases hri : resolveInfo ex' name version flavor (absP (root' ++ [sUpsDb])) (canonInfo name version flavor d t) with
    | error e => simp [hri, Except.map] at h2
    | ok p =>
      simp only [hri, Except.map, Except.ok.injEq] at h2
      simp only [Prod.mk.injEq] at h2
      simp only [hri, h2.1, h2.2]

/-- Without moving anything (`root' = root`) the reader reports exactly the declared locations. -/
theorem C16_declared_locations (ex : Path → Bool) (root : List Str) (name version flavor : Str) (d : DirPl) (t : TabPl)
    (hp : PlaceOK root name version flavor d t)
    (hd : DeclEx ex root name version flavor d t) (hr : ReadEx ex root name version flavor d t) :
    readBack ex ex root root name version flavor d t = .ok (d.at root, t.at root name version flavor d) :=
  C16_relocate ex ex root root name version flavor d t hp hp.root_ok hd hr

/-! Non-vacuity: a concrete stack `/s`, product `a 1` for flavor `L`, installed in `/s/L/a/1`, with the table
file interned; everything exists.  The hypotheses hold and the reader at `/m/n` finds `/m/n/L/a/1` and
`/m/n/ups_db/L/a/1/ups/a.table`. -/
example : PlaceOK [[115]] [97] [49] [76] (.inside [[76], [97], [49]]) .interned :=
  ⟨by decide, by decide, by decide, by decide, by decide, by simp [SegsOK, SegOK, sUpsDb], trivial⟩
example : PlaceOK [[115]] [97] [49] [76] (.outside [[111], [97]]) (.absInside [[116], [97, 46, 116]]) :=
  ⟨by decide, by decide, by decide, by decide, by decide, by simp [SegsOK, SegOK, List.isPrefixOf], by simp [SegsOK, SegOK, sUpsDb]⟩
example : DeclEx (fun _ => true) [[115]] [97] [49] [76] (.inside [[76], [97], [49]]) .interned := by simp [DeclEx]
example : ReadEx (fun _ => true) [[109], [110]] [97] [49] [76] (.inside [[76], [97], [49]]) .interned := by simp [ReadEx]
example : readBack (fun _ => true) (fun _ => true) [[115]] [[109], [110]] [97] [49] [76] (.inside [[76], [97], [49]]) .interned
    = .ok (.path ⟨true, [[109], [110], [76], [97], [49]]⟩,
           .path ⟨true, [[109], [110], sUpsDb, [76], [97], [49], sUps, [97] ++ sDotTable]⟩) := by rfl

/-! ## Text round trip

`Clean s`: `s` is non-empty, free of `#`, newline, carriage return and quote characters and has no blank at
either end.  `GoodVRec r`: product name and version are clean; at least one flavor; flavor names distinct, clean
and without a qualifier (`:`); in every block each of DECLARER, DECLARED, MODIFIER, MODIFIED, PROD_DIR, UPS_DIR,
TABLE_FILE is absent or clean, PROD_DIR and TABLE_FILE are present, and UPS_DIR is present unless the table file
is a placeholder (`none`).  `GoodCRec r`: likewise for a chain record (name, tag, per flavor a clean VERSION and
the four stamps). -/

/-- **Version files round-trip** (string level): `VersionFile.write` followed by `VersionFile._read` — with the
product name and version taken from the file or preset to the record's own — yields the same name, version,
flavors (in order) and per-flavor fields. -/
theorem C16_text_roundtrip_version (r : VRec) (h : GoodVRec r) (nm vs : Option Str)
    (hnm : nm = none ∨ nm = r.name) (hvs : vs = none ∨ vs = r.version) :
    ∃ text, printVersion r = .ok (some text) ∧ parseVersion nm vs text = .ok r :=
  text_roundtrip_version r h nm vs hnm hvs

/-- **Chain files round-trip** (string level): `ChainFile.write` followed by `ChainFile._read` yields the same
product name, tag, flavors (in order), tagged versions and stamps. -/
theorem C16_text_roundtrip_chain (r : CRec) (h : GoodCRec r) (nm tg : Option Str)
    (hnm : nm = none ∨ nm = r.name) (htg : tg = none ∨ tg = r.tag) :
    ∃ text, printChain r = .ok (some text) ∧ parseChain nm tg text = .ok r :=
  text_roundtrip_chain r h nm tg hnm htg

/-- **Other flavors untouched**: `Database.declare` for one flavor of a version file leaves the block of every
other flavor exactly as it was — hypothesis `TrimStable`: that block holds no existing absolute path below the
stack root (what the trimming loop of `VersionFile.write` rewrites; blocks eups wrote itself for the listed
placements hold relative paths for everything inside the stack). -/
theorem C16_other_flavors_untouched (ex : Path → Bool) (who now : Str) (vr vr' : VRec) (p : Record.Prod)
    (h : declareRec ex who now vr p = .ok vr') (f' : Str) (hf : f' ≠ p.flavor) (i : Info)
    (hi : dget vr.flavors f' = some i) (hs : TrimStable ex (stackRoot p.db) i) :
    dget vr'.flavors f' = some i :=
  other_flavors_untouched ex who now vr vr' p h f' hf i hi hs

/-- **Other flavors untouched, database layer** (version *and* chain records): `Database.undeclare` of one flavor
(its tags first, then its block of the version file), `Database.unassignTag` for one flavor and
`Database.assignTag` for one flavor (a new tag, or a tag re-pointed) leave the block of every other flavor in every
chain record and in every version record of the product exactly as it was; a record disappears only when its last
block goes.  `blockC d tag f` / `blockV d version f` = the block of flavor `f` in that record, `none` when the
record or the block does not exist. -/
theorem C16_other_flavors_untouched_db (d : PDir) (name tag version flavor who now f' : Str) (hf : f' ≠ flavor) :
    ((∀ t, (d.undeclare version flavor).blockC t f' = d.blockC t f') ∧
     (∀ v, (d.undeclare version flavor).blockV v f' = d.blockV v f')) ∧
    ((∀ t, (d.unassignTag tag flavor).blockC t f' = d.blockC t f') ∧
     (d.unassignTag tag flavor).versions = d.versions) ∧
    ((∀ t, (d.assignTag name tag version flavor who now).blockC t f' = d.blockC t f') ∧
     (∀ v, (d.assignTag name tag version flavor who now).blockV v f' = d.blockV v f')) :=
  ⟨undeclare_blocks d version flavor f' hf, unassignTag_blocks d tag flavor f' hf,
   assignTag_blocks d name tag version flavor who now f' hf⟩

/-- Non-vacuity: version `1` declared for flavors `L` and `G`, `current` on both; undeclaring flavor `G` removes
`G`'s blocks and keeps `L`'s block of the chain record (and of the version record). -/
example :
    let ci : CInfo := { version := Fld.val [49], declarer := Fld.val [114] }
    let vi : Info := { declarer := Fld.val [114], productDir := Fld.val [100] }
    let d : PDir := { versions := [([49], { name := some [97], version := some [49], flavors := [([76], vi), ([71], vi)] })],
                      chains := [([99], { name := some [97], tag := some [99], flavors := [([76], ci), ([71], ci)] })] }
    (d.undeclare [49] [71]).blockC [99] [76] = some ci ∧ (d.undeclare [49] [71]).blockC [99] [71] = none ∧
    (d.undeclare [49] [71]).blockV [49] [76] = some vi ∧ (d.undeclare [49] [71]).blockV [49] [71] = none := by decide

/-! Non-vacuity: a concrete good version record with two flavors, and a good chain record. -/
def exampleInfo1 : Info :=
  { declarer := Fld.val [114], declared := Fld.val [84, 49], productDir := Fld.val [76, 47, 97],
    upsDir := Fld.val [117, 112, 115], tableFile := Fld.val [97, 46, 116] }
def exampleInfo2 : Info :=
  { declarer := Fld.val [114], declared := Fld.val [84, 50], modifier := Fld.val [114],
    modified := Fld.val [84, 32, 51], productDir := Fld.val [110, 111, 110, 101],
    tableFile := Fld.val [110, 111, 110, 101] }
def exampleVRec : VRec :=
  { name := some [97], version := some [49, 46, 48], flavors := [([76], exampleInfo1), ([71], exampleInfo2)] }

example : GoodVRec exampleVRec := by
  unfold exampleVRec exampleInfo1 exampleInfo2
  have c : ∀ s : Str, s ≠ [] → 35 ∉ s → 10 ∉ s → 13 ∉ s → 34 ∉ s → (∀ c, s.head? = some c → Str.isSpace c = false) →
      (∀ c, s.getLast? = some c → Str.isSpace c = false) → Clean s := fun s a b c d e f g => ⟨a, b, c, d, e, f, g⟩
  refine ⟨⟨_, rfl, c _ (by decide) (by decide) (by decide) (by decide) (by decide) (by decide) (by decide)⟩,
    ⟨_, rfl, c _ (by decide) (by decide) (by decide) (by decide) (by decide) (by decide) (by decide)⟩,
    by simp, by decide, ?_⟩
  intro x hx
  simp only [List.mem_cons, List.not_mem_nil, or_false] at hx
  rcases hx with rfl | rfl
  · refine ⟨⟨c _ (by decide) (by decide) (by decide) (by decide) (by decide) (by decide) (by decide), by decide⟩,
      ⟨⟨?_, ?_, ?_, ?_, ?_, ?_, ?_⟩, by simp, by simp, Or.inl (by simp)⟩⟩
    all_goals first
      | exact Or.inl rfl
      | exact Or.inr ⟨_, rfl, c _ (by decide) (by decide) (by decide) (by decide) (by decide) (by decide) (by decide)⟩
  · refine ⟨⟨c _ (by decide) (by decide) (by decide) (by decide) (by decide) (by decide) (by decide), by decide⟩,
      ⟨⟨?_, ?_, ?_, ?_, ?_, ?_, ?_⟩, by simp, by simp, Or.inr ⟨_, rfl, by decide⟩⟩⟩
    all_goals first
      | exact Or.inl rfl
      | exact Or.inr ⟨_, rfl, c _ (by decide) (by decide) (by decide) (by decide) (by decide) (by decide) (by decide)⟩

/-! ### Outside the alphabet: qualified flavors -/

def clashInfo (n : Nat) : Info :=
  { declarer := Fld.val [114], declared := Fld.val [84, n], productDir := Fld.val [100, n],
    upsDir := Fld.val [117, 112, 115], tableFile := Fld.val [97, 46, 116] }
def clashRec : VRec :=
  { name := some [97], version := some [49], flavors := [([76], clashInfo 49), ([76, 58, 98], clashInfo 50)] }

/-- Outside the alphabet of the round-trip theorem: a version file that holds the flavor `L` *and then* the
qualified flavor `L:b` does not read back — on meeting `QUALIFIERS = "b"` the reader renames the block it already
has for `L`, so the unqualified declaration is lost and its fields are overwritten. -/
theorem C16_qualifier_clash_witness :
    ∃ text, printVersion clashRec = .ok (some text) ∧
      parseVersion none none text =
        .ok { name := some [97], version := some [49], flavors := [([76, 58, 98], clashInfo 50)] } := by
  refine ⟨_, rfl, ?_⟩
  rfl

/-! ### Inside the alphabet after all: qualified flavors in the right order

`QualKey fq`: `fq` is a clean unqualified name, or `base:qual` with `base` such a name and `qual` clean and not
starting with a second `:`.  `QualOrder keys`: the keys are pairwise distinct and **no unqualified flavor precedes a
qualified flavor of the same base** (`a ≠ baseOf b` for every `a` before a qualified `b`).  `GoodVRecQ` / `GoodCRecQ` are
`GoodVRec` / `GoodCRec` with these two in place of "no qualifier" and "distinct".  `C16_qualifier_clash_witness` above
shows that the order hypothesis cannot be dropped, `C16_double_colon_witness` below that the form of the key cannot. -/

/-- **Version files round-trip, qualified flavors admitted** (string level). -/
theorem C16_text_roundtrip_version_qual (r : VRec) (h : GoodVRecQ r) (nm vs : Option Str)
    (hnm : nm = none ∨ nm = r.name) (hvs : vs = none ∨ vs = r.version) :
    ∃ text, printVersion r = .ok (some text) ∧ parseVersion nm vs text = .ok r :=
  text_roundtrip_version_qual r h nm vs hnm hvs

/-- **Chain files round-trip, qualified flavors admitted** (string level). -/
theorem C16_text_roundtrip_chain_qual (r : CRec) (h : GoodCRecQ r) (nm tg : Option Str)
    (hnm : nm = none ∨ nm = r.name) (htg : tg = none ∨ tg = r.tag) :
    ∃ text, printChain r = .ok (some text) ∧ parseChain nm tg text = .ok r :=
  text_roundtrip_chain_qual r h nm tg hnm htg

/-- The earlier theorems are the special case without qualifiers. -/
example (r : VRec) (h : GoodVRec r) : GoodVRecQ r := goodVRecQ_of_good r h
example (r : CRec) (h : GoodCRec r) : GoodCRecQ r := goodCRecQ_of_good r h

/-- Non-vacuity: the clash record with its two blocks swapped (`L:b` first, then `L`) satisfies the order hypothesis … -/
def swappedRec : VRec :=
  { name := some [97], version := some [49], flavors := [([76, 58, 98], clashInfo 50), ([76], clashInfo 49)] }
example : QualOrder (swappedRec.flavors.map (·.1)) := by decide
example : ¬ QualOrder (clashRec.flavors.map (·.1)) := by decide
/-- … and reads back. -/
example : ∃ text, printVersion swappedRec = .ok (some text) ∧ parseVersion none none text = .ok swappedRec :=
  ⟨_, rfl, rfl⟩

def dcolonRec : VRec :=
  { name := some [97], version := some [49], flavors := [([76, 58, 58, 98], clashInfo 49)] }

/-- The form of a qualified key matters too: the writer's pattern `^([^:]+)(:?:(.*)$)?` swallows a second colon, so
the flavor `L::b` is written as `FLAVOR = L`, `QUALIFIERS = "b"` and reads back as `L:b`. -/
theorem C16_double_colon_witness :
    ∃ text, printVersion dcolonRec = .ok (some text) ∧
      parseVersion none none text =
        .ok { name := some [97], version := some [49], flavors := [([76, 58, 98], clashInfo 49)] } :=
  ⟨_, rfl, rfl⟩

/-- The same clash in a chain file: `L` then `L:b` reads back as the single block `L:b` (the `FLAVOR = L` line of the
second block resets the first). -/
def clashChain : CRec :=
  { name := some [97], tag := some [99], flavors :=
      [([76], { version := Fld.val [49], declarer := Fld.val [114] }),
       ([76, 58, 98], { version := Fld.val [50], declarer := Fld.val [114] })] }
theorem C16_qualifier_clash_chain_witness :
    ∃ text, printChain clashChain = .ok (some text) ∧
      parseChain none none text =
        .ok { name := some [97], tag := some [99],
              flavors := [([76, 58, 98], { version := Fld.val [50], declarer := Fld.val [114] })] } :=
  ⟨_, rfl, rfl⟩

/-! ### Histories of operations on the records of one product

`DbOp` = `Database.undeclare` / `unassignTag` / `assignTag` / `declare` (as far as the record goes: the block of one flavor
is set); `PDir.run d ops` applies a history in order — what one long-lived `Database` object does in one process. -/

/-- **A history leaves the flavors it does not operate on alone**: whatever the operations and their order, every
block of a flavor `g` that none of them is about — in every chain and every version record — is after the history what
it was before. -/
theorem C16_history_other_flavors (d : PDir) (ops : List DbOp) (g : Str) (h : ∀ op ∈ ops, op.flavor ≠ g) :
    (∀ t, (d.run ops).blockC t g = d.blockC t g) ∧ (∀ v, (d.run ops).blockV v g = d.blockV v g) :=
  run_blocks ops g h d

/-- **An undeclared flavor stays gone**: a version is declared for several flavors, one flavor is undeclared, then any
history follows that does not declare that flavor again — further declarations of the same version for other flavors,
tag assignments, other undeclarations: the record of that version has no block for the undeclared flavor. -/
theorem C16_undeclared_stays_gone (d : PDir) (version flavor : Str) (ops : List DbOp)
    (h : ∀ op ∈ ops, op.flavor ≠ flavor) :
    ((d.undeclare version flavor).run ops).blockV version flavor = none :=
  undeclared_stays_gone d version flavor ops h

/-- Non-vacuity: version `1` for flavors `L` and `G`; `G` is undeclared, then `1` is declared for a third flavor `M` and
redeclared for `L`: `G` is gone, `M` is there. -/
example :
    let vi : Info := { declarer := Fld.val [114], productDir := Fld.val [100] }
    let d : PDir := { versions := [([49], { name := some [97], version := some [49], flavors := [([76], vi), ([71], vi)] })],
                      chains := [] }
    let d' := (d.undeclare [49] [71]).run [.declare [97] [49] [77] vi, .declare [97] [49] [76] vi]
    d'.blockV [49] [71] = none ∧ d'.blockV [49] [77] = some vi ∧ d'.blockV [49] [76] = some vi := by decide

/-! ## Hand-written records that use macros

A person (or an older eups / UPS) may write `PROD_DIR`, `UPS_DIR` and `TABLE_FILE` with the macros `$PROD_ROOT` (the
stack), `$UPS_DB` (its database directory), `$PROD_DIR`, `$UPS_DIR` (the product's resolved directories) and `$FLAVOR`.
`MDir`, `MUps`, `MTab` (`Lemmas/RecordMacro.lean`) are the forms an entry can take — relative, one of the macros followed
by segments, absolute, `none`, missing —, `toRec` is the text in the record, and `denote R f …` is **what the entry
means** for a reader whose stack is at `R` and whose flavor is `f`: everything relative or macro-headed lies below `R`
(resp. below the product / ups directory), `$FLAVOR` segments read `f`, absolute entries stay where they are, and a
relative table-file name is looked for in the ups directory (default `<dir>/ups`), then in the stack.  `MacroWF` lists the
meaningful combinations: segments are `$`-free or `$FLAVOR` (absolute paths and relative table names `$`-free); a relative
`UPS_DIR` needs a product directory; `$PROD_DIR` needs a `PROD_DIR` recorded relative to the stack (relative, `$PROD_ROOT/…`
or `$UPS_DB/…`), `$UPS_DIR` a `UPS_DIR` recorded relatively. -/

/-- **Macro records are relocatable**: for every well-formed combination of hand-written entries, a reader whose stack
is at `R` — any `R` — reports the directory and the table file the macros denote relative to `R`. -/
theorem C16_macro_records (ex : Path → Bool) (R : List Str) (name version f : Str) (md : MDir) (mu : MUps) (mt : MTab)
    (hR : SegsOK R) (hf : SegOK f) (hwf : MacroWF md mu mt) :
    (resolveInfo ex name version f (absP (R ++ [sUpsDb]))
        { productDir := some md.toRec, tableFile := some mt.toRec, upsDir := some mu.toRec }).map
        (fun p => (p.dir, p.table))
      = .ok (md.denote R f, mt.denote ex R f (md.denote R f) (mu.denote R f (md.denote R f))) :=
  resolve_macro_spec ex R name version f md mu mt hR hf hwf

/-- Non-vacuity: `PROD_DIR = $PROD_ROOT/pkgs/$FLAVOR/hp`, `UPS_DIR = $PROD_DIR/ups`, `TABLE_FILE = $UPS_DIR/hp.table`
is well-formed, and a reader of flavor `L` at `/m/n` finds `/m/n/pkgs/L/hp` and `/m/n/pkgs/L/hp/ups/hp.table`. -/
example : MacroWF (.prodRoot [[112], mFLAVOR, [104]]) (.prodDir [sUps]) (.upsDir [[104, 46, 116]]) :=
  ⟨by simp only [MDir.ok]; decide, by simp only [MUps.ok]; decide, by simp only [MTab.ok]; decide, by simp,
   by simp [MDir.isRel], by simp [MUps.isRel], by simp⟩
example : (resolveInfo (fun _ => false) [104] [49] [76] (absP ([[109], [110]] ++ [sUpsDb]))
      { productDir := some (MDir.prodRoot [[112], mFLAVOR, [104]]).toRec, tableFile := some (MTab.upsDir [[104, 46, 116]]).toRec,
        upsDir := some (MUps.prodDir [sUps]).toRec }).map (fun p => (p.dir, p.table))
    = .ok (.path ⟨true, [[109], [110], [112], [76], [104]]⟩,
           .path ⟨true, [[109], [110], [112], [76], [104], sUps, [104, 46, 116]]⟩) := by rfl

/-- `MacroWF` is needed: with an *absolute* `PROD_DIR` the reader never defines `$PROD_DIR`, and
`TABLE_FILE = $PROD_DIR/ups/hp.table` is reported unresolved. -/
theorem C16_macro_proddir_abs_witness :
    (resolveInfo (fun _ => true) [104] [49] [76] (absP ([[109]] ++ [sUpsDb]))
      { productDir := some (MDir.abs [[111], [104]]).toRec, tableFile := some (MTab.prodDir [sUps, [104, 46, 116]]).toRec,
        upsDir := some (MUps.none).toRec }).map (fun p => (p.dir, p.table))
    = .ok (.path ⟨true, [[111], [104]]⟩, .path ⟨false, [mPROD_DIR, sUps, [104, 46, 116]]⟩) := by rfl

/-- **Macro records through the text of the version file**: the record a person writes (`macroRec`: one block with
the three entries as written, `MacroTextOK`: everything in it is clean text and a `UPS_DIR` line is present) is what
`VersionFile.write` prints and `VersionFile._read` reads back, and `makeProduct` for a reader whose stack is at `R`
reports what the macros denote. -/
theorem C16_macro_records_via_text (ex : Path → Bool) (R : List Str) (name version f who now : Str) (md : MDir)
    (mu : MUps) (mt : MTab) (hR : SegsOK R) (hf : SegOK f) (hwf : MacroWF md mu mt)
    (ht : MacroTextOK name version f who now md mu mt) :
    ∃ text,
      printVersion (macroRec name version f who now md mu mt) = .ok (some text) ∧
      parseVersion (some name) (some version) text = .ok (macroRec name version f who now md mu mt) ∧
      (makeProduct ex (macroRec name version f who now md mu mt) f (absP (R ++ [sUpsDb]))).map
          (fun p => (p.dir, p.table))
        = .ok (md.denote R f, mt.denote ex R f (md.denote R f) (mu.denote R f (md.denote R f))) :=
  macro_via_text ex R name version f who now md mu mt hR hf hwf ht

/-- Non-vacuity of `MacroTextOK`: the instance above, declared by `r` at `T1`. -/
example : MacroTextOK [104] [49] [76] [114] [84, 49] (.prodRoot [[112], mFLAVOR, [104]]) (.prodDir [sUps])
    (.upsDir [[104, 46, 116]]) := by
  have c : ∀ s : Str, s ≠ [] → 35 ∉ s → 10 ∉ s → 13 ∉ s → 34 ∉ s → (∀ c, s.head? = some c → Str.isSpace c = false) →
      (∀ c, s.getLast? = some c → Str.isSpace c = false) → Clean s := fun s a b c d e f g => ⟨a, b, c, d, e, f, g⟩
  have cc : ∀ s : Str, s ≠ [] → 35 ∉ s → 10 ∉ s → 13 ∉ s → 34 ∉ s → (∀ c, s.head? = some c → Str.isSpace c = false) →
      (∀ c, s.getLast? = some c → Str.isSpace c = false) → 47 ∉ s → SegC s := fun s a b c' d e f g h => ⟨c s a b c' d e f g, h⟩
  refine ⟨c _ (by decide) (by decide) (by decide) (by decide) (by decide) (by decide) (by decide),
    c _ (by decide) (by decide) (by decide) (by decide) (by decide) (by decide) (by decide), by decide,
    ⟨c _ (by decide) (by decide) (by decide) (by decide) (by decide) (by decide) (by decide), by decide⟩,
    c _ (by decide) (by decide) (by decide) (by decide) (by decide) (by decide) (by decide),
    c _ (by decide) (by decide) (by decide) (by decide) (by decide) (by decide) (by decide), ?_, ?_, ?_⟩
  all_goals
    refine ⟨?_, fun _ => ⟨by simp [MDir.toRec, MUps.toRec, MTab.toRec], by decide⟩⟩
    intro s hs
    simp only [MDir.toRec, MUps.toRec, MTab.toRec, List.mem_cons, List.not_mem_nil, or_false] at hs
  · rcases hs with rfl | rfl | rfl | rfl <;>
      exact cc _ (by decide) (by decide) (by decide) (by decide) (by decide) (by decide) (by decide) (by decide)
  · rcases hs with rfl | rfl <;>
      exact cc _ (by decide) (by decide) (by decide) (by decide) (by decide) (by decide) (by decide) (by decide)
  · rcases hs with rfl | rfl <;>
      exact cc _ (by decide) (by decide) (by decide) (by decide) (by decide) (by decide) (by decide) (by decide)

/-! ## Stacks reached through a symbolic link

`VersionFile.write` is the one place on the declaration path that resolves symbolic links (`os.path.realpath` of
`trimDir` and of each absolute value; `isSubpath` compares the resolved paths).  `declareRecR real` / `trimKeyR real` are
the model with `real` = `os.path.realpath` as a parameter (`realOf links` for a tree whose symbolic links are `links`); the
correspondence runs it with the link of the EUPS_PATH entry, for arguments typed through the link and for arguments
typed by their real paths. -/

/-- Without symbolic links the link-aware model is the model of all the theorems above. -/
theorem C16_links_none (ex : Path → Bool) (who now : Str) (vr : VRec) (p : Record.Prod) :
    declareRecR id ex who now vr p = declareRec ex who now vr p :=
  declareRecR_id ex who now vr p

/-- **One spelling suffices**: the stack is reached through the symbolic link `l → t`.  For a value `l/a` and a
directory `l/b` both spelled through the link, the test that `VersionFile.write` makes on the *resolved* paths
(`t/a` below `t/b`, and what remains) is the test on the spellings — so everything proved about a stack at `l` holds
for the stack behind the link, and the record does not depend on where the link points. -/
theorem C16_link_spelling (l t a b : List Str) :
    (realOf [(absP l, absP t)] (absP (l ++ a))).under (realOf [(absP l, absP t)] (absP (l ++ b)))
      = (absP (l ++ a)).under (absP (l ++ b)) :=
  realOf_under l t a b

/-- Non-vacuity / what resolving does: `/sw/stack/Linux/p` with `/sw/stack → /disk3/stack` is `/disk3/stack/Linux/p`. -/
example : realOf [(absP [[115, 119], [115]], absP [[100, 51], [115]])] (absP [[115, 119], [115], [76], [112]])
    = absP [[100, 51], [115], [76], [112]] := by decide

/-! ## End to end -/

/-- **Relocation through the text of the record**: `Database.declare` into an empty version file with the stack at
`root` yields a record `vr`; `VersionFile.write` prints it; `VersionFile._read` of that text (names preset as
`Database.findProduct` does) gives `vr` back; `makeProduct` for a reader whose stack is at `root'` reports the
relocated directory and table file.  Hypotheses: `PlaceOK` (the placement is one of those listed), `TextOK`
(everything written into the record is clean text: name, version, flavor, the stamps, every path segment; the
version is not a `LOCAL:` one; a relative path is not literally `none`/`???`/`(none)`), `DeclEx`, `ReadEx`. -/
theorem C16_relocate_via_text (ex ex' : Path → Bool) (root root' : List Str) (name version flavor who now : Str)
    (d : DirPl) (t : TabPl) (hp : PlaceOK root name version flavor d t) (hroot' : SegsOK root')
    (ht : TextOK name version flavor who now d t)
    (hd : DeclEx ex root name version flavor d t) (hr : ReadEx ex' root' name version flavor d t) :
    ∃ vr text,
      declareRec ex who now { name := some name, version := some version, flavors := [] }
        (declaredProd root name version flavor d t) = .ok vr ∧
      printVersion vr = .ok (some text) ∧
      parseVersion (some name) (some version) text = .ok vr ∧
      (makeProduct ex' vr flavor (absP (root' ++ [sUpsDb]))).map (fun p => (p.dir, p.table))
        = .ok (d.at root', t.at root' name version flavor d) :=
  relocate_via_text ex ex' root root' name version flavor who now d t hp hroot' ht hd hr

/-- Non-vacuity of `TextOK`: product `a`, version `1`, flavor `L`, declared by `r` at `T1`, installed in `L/a/1`
inside the stack, table file interned. -/
example : TextOK [97] [49] [76] [114] [84, 49] (.inside [[76], [97], [49]]) .interned := by
  have c : ∀ s : Str, s ≠ [] → 35 ∉ s → 10 ∉ s → 13 ∉ s → 34 ∉ s → (∀ c, s.head? = some c → Str.isSpace c = false) →
      (∀ c, s.getLast? = some c → Str.isSpace c = false) → Clean s := fun s a b c d e f g => ⟨a, b, c, d, e, f, g⟩
  have cc : ∀ s : Str, s ≠ [] → 35 ∉ s → 10 ∉ s → 13 ∉ s → 34 ∉ s → (∀ c, s.head? = some c → Str.isSpace c = false) →
      (∀ c, s.getLast? = some c → Str.isSpace c = false) → 47 ∉ s → SegC s := fun s a b c' d e f g h => ⟨c s a b c' d e f g, h⟩
  refine ⟨c _ (by decide) (by decide) (by decide) (by decide) (by decide) (by decide) (by decide),
    c _ (by decide) (by decide) (by decide) (by decide) (by decide) (by decide) (by decide), by decide,
    ⟨c _ (by decide) (by decide) (by decide) (by decide) (by decide) (by decide) (by decide), by decide⟩,
    c _ (by decide) (by decide) (by decide) (by decide) (by decide) (by decide) (by decide),
    c _ (by decide) (by decide) (by decide) (by decide) (by decide) (by decide) (by decide), ⟨?_, by decide⟩, trivial⟩
  intro s hs
  simp only [List.mem_cons, List.not_mem_nil, or_false] at hs
  rcases hs with rfl | rfl | rfl <;>
    exact cc _ (by decide) (by decide) (by decide) (by decide) (by decide) (by decide) (by decide) (by decide)

end EupsModel.C16
