import EupsModel.Lemmas.RecordReloc
/-! C16 — database records round-trip and stacks are relocatable.  Property theorems only.
Model and the specification-side definitions used in the statements (`DirPl`, `TabPl`, `DirPl.at`, `TabPl.at`,
`declaredProd`, `canonInfo`, `PlaceOK`, `DeclEx`, `ReadEx`, `readBack`): `Model/Record.lean`; helper lemmas:
`Lemmas/Record.lean`, `Lemmas/RecordReloc.lean`. -/
namespace EupsModel.C16
open EupsModel.Record

/-! ## Relocation

A *placement* says where the product directory and the table file are relative to the stack `root`.
`declaredProd root … d t` is the `Product` that `Eups.declare` hands to `Database.declare`; `declarePaths` is what
`Database.declare` + `VersionFile.addFlavor/write` store; `resolveInfo` is what `VersionFile.makeProduct` +
`Product.resolvePaths` give a reader whose stack is at `root'`; `readBack` composes them.  `d.at root'` and
`t.at root' …` are the locations the property demands: paths inside the stack re-rooted, paths outside unchanged. -/

/-- Products are recorded relative to the stack: for every listed placement the stored block is `canonInfo`,
which does not mention `root` at all unless the path is outside the stack. -/
theorem C16_recorded_relative (ex : Path → Bool) (root : List Str) (name version flavor : Str) (d : DirPl) (t : TabPl)
    (hp : PlaceOK root name version flavor d t) (hx : DeclEx ex root name version flavor d t) :
    (declarePaths ex (declaredProd root name version flavor d t) none).map (·.2)
      = .ok (canonInfo name version flavor d t) :=
  canon_spec ex root name version flavor d t hp hx

/-- **Relocation** (core theorem).  Declare with the stack at `root`; move or copy the stack to `root'`; a reader
there reports the directory and the table file at `root'` if they were inside the stack and where they were if
they were outside — for each placement: directory inside / outside / none × table file in `dir/ups` /
absolute inside the stack / absolute outside / interned in `ups_db` / none. -/
theorem C16_relocate (ex ex' : Path → Bool) (root root' : List Str) (name version flavor : Str) (d : DirPl) (t : TabPl)
    (hp : PlaceOK root name version flavor d t) (hroot' : SegsOK root')
    (hd : DeclEx ex root name version flavor d t) (hr : ReadEx ex' root' name version flavor d t) :
    readBack ex ex' root root' name version flavor d t
      = .ok (d.at root', t.at root' name version flavor d) := by
  have h1 := canon_spec ex root name version flavor d t hp hd
  have h2 := resolve_spec ex' root root' name version flavor d t hp hroot' hr
  unfold readBack
  cases hdp : declarePaths ex (declaredProd root name version flavor d t) none with
  | error e => simp [hdp, Except.map] at h1
  | ok cp =>
    obtain ⟨c, pi⟩ := cp
    simp only [hdp, Except.map, Except.ok.injEq] at h1
    subst h1
    cases hri : resolveInfo ex' name version flavor (absP (root' ++ [sUpsDb])) (canonInfo name version flavor d t) with
    | error e => simp [hri, Except.map] at h2
    | ok p =>
      simp only [hri, Except.map, Except.ok.injEq] at h2
      simp only [Prod.mk.injEq] at h2
      simp only [hri, h2.1, h2.2]

/-- Without moving anything (`root' = root`) the reader reports exactly the declared locations. -/
theorem C16_declared_locations (ex : Path → Bool) (root : List Str) (name version flavor : Str) (d : DirPl) (t : TabPl)
    (hp : PlaceOK root name version flavor d t)
    (hd : DeclEx ex root name version flavor d t) (hr : ReadEx ex root name version flavor d t) :
    readBack ex ex root root name version flavor d t = .ok (d.at root, t.at root name version flavor d) :=
  C16_relocate ex ex root root name version flavor d t hp hp.root_ok hd hr

/-! Non-vacuity: a concrete stack `/s`, product `a 1` for flavor `L`, installed in `/s/L/a/1`, with the table
file interned; everything exists.  The hypotheses hold and the reader at `/m/n` finds `/m/n/L/a/1` and
`/m/n/ups_db/L/a/1/ups/a.table`. -/
example : PlaceOK [[115]] [97] [49] [76] (.inside [[76], [97], [49]]) .interned :=
  ⟨by decide, by decide, by decide, by decide, by decide, by simp [SegsOK, SegOK, sUpsDb], trivial⟩
example : PlaceOK [[115]] [97] [49] [76] (.outside [[111], [97]]) (.absInside [[116], [97, 46, 116]]) :=
  ⟨by decide, by decide, by decide, by decide, by decide, by simp [SegsOK, SegOK, List.isPrefixOf], by simp [SegsOK, SegOK, sUpsDb]⟩
example : DeclEx (fun _ => true) [[115]] [97] [49] [76] (.inside [[76], [97], [49]]) .interned := by simp [DeclEx]
example : ReadEx (fun _ => true) [[109], [110]] [97] [49] [76] (.inside [[76], [97], [49]]) .interned := by simp [ReadEx]
example : readBack (fun _ => true) (fun _ => true) [[115]] [[109], [110]] [97] [49] [76] (.inside [[76], [97], [49]]) .interned
    = .ok (.path ⟨true, [[109], [110], [76], [97], [49]]⟩,
           .path ⟨true, [[109], [110], sUpsDb, [76], [97], [49], sUps, [97] ++ sDotTable]⟩) := by rfl

end EupsModel.C16
