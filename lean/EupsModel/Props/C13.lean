/-! C13 — property theorems (placeholder until the model exists). -/
