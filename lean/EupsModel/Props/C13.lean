import EupsModel.Lemmas.DepsTotal
import EupsModel.Lemmas.DepsPinned
/-! C13 — dependency listings are complete and ordered; `uses` is their inverse.
Property theorems only.  Models: `Model/Topo.lean`, `Model/Deps.lean`; lemmas: `Lemmas/Topo.lean`,
`Lemmas/TopoSpec.lean`, `Lemmas/TopoTotal.lean`, `Lemmas/Deps.lean`, `Lemmas/DepsFuel.lean`, `Lemmas/DepsTopo.lean`,
`Lemmas/Uses.lean`, `Lemmas/DepsTotal.lean`.

Vocabulary (defined in `Lemmas/Deps.lean`, `Lemmas/DepsTopo.lean`):
* `Edge db [] u v`   — the table of `u` has a setup line that denotes `v` (resolved, or the placeholder of an
  unresolved line);
* `XReach db [] top w` — the listing of `top` opens the table of `w`: `w = top`, or `w` is a declared product
  reached from `top` through lines without `-j`;
* `Listed db [] top v` — some opened table has a line denoting `v`: "reachable through its table files (as resolved)";
* `DepPath db top a b` — `b` is reachable from `a` along lines of opened tables;
* `NoUnsetup db`     — no table has an `unsetupRequired` line and every declared table file exists (the property does
  not say what an unsetup line or an unreadable table means for a listing; known finding D32 lives there);
* `SingleVersion db top` — the closure of `top` holds no product in two versions. -/
namespace EupsModel.C13
open EupsModel EupsModel.Topo EupsModel.Deps

/-! ## the listing is the reachable set -/

/-- **Complete and exact, and it terminates** — on every database without unsetup lines, cyclic ones included,
with the fuel the driver uses, the plain listing returns, and the products it lists are exactly those
reachable from the root through resolved tables, minus the root. -/
theorem C13_listing_is_reach (db : Db) (hns : NoUnsetup db) (top : Prod) :
    ∃ out, getDependentProducts db db.fuel top false false = .ok out ∧
      ∀ v, v ∈ out.map (·.prod) ↔ (Listed db [] top v ∧ v ≠ top) := by
  obtain ⟨o, st, h⟩ := depsOf_some db hns [] db.fuel top 1 St.empty (fuel_enough db)
  have hl : listing db db.fuel [] top = some (o.filter (fun e => e.prod != top), st) := by simp [listing, h]
  refine ⟨o.filter (fun e => e.prod != top), by simp [getDependentProducts, finishListing, hl, tableMissing_false hns top], ?_⟩
  intro v
  rw [← depsOf_listed hns h v]
  simp only [List.mem_map, List.mem_filter, bne_iff_ne, ne_eq]
  constructor
  · rintro ⟨e, ⟨he, hne⟩, rfl⟩; exact ⟨⟨e, he, rfl⟩, hne⟩
  · rintro ⟨⟨e, he, rfl⟩, hne⟩; exact ⟨e, ⟨he, hne⟩, rfl⟩

/-- In topological mode (with or without `checkCycles`) a returned listing holds the same products, each
exactly once — whatever the versions in the closure. -/
theorem C13_topological_listing (db : Db) (hns : NoUnsetup db) (fuel : Nat) (top : Prod) (cc : Bool)
    (out : List Entry) (h : getDependentProducts db fuel top true cc = .ok out) :
    (out.map (·.prod)).Nodup ∧ ∀ v, v ∈ out.map (·.prod) ↔ (Listed db [] top v ∧ v ≠ top) :=
  topo_listing_set hns h

/-! ## order -/

/-- **Topological order** (partial: hypothesis `SingleVersion`, because the code assigns depth per product
*name* from a second pass that pins every name to one version — known finding D31).
For every edge `u → v` of the closure (a line of the opened table of `u` denotes `v`) whose ends are in
different components (`u` is not reachable back from `v`), the dependency `v` is listed strictly deeper. -/
theorem C13_topological_partial (db : Db) (hns : NoUnsetup db) (fuel : Nat) (top : Prod)
    (hsv : SingleVersion db top) (cc : Bool) (out : List Entry)
    (h : getDependentProducts db fuel top true cc = .ok out)
    (eu ev : Entry) (hu : eu ∈ out) (hv : ev ∈ out)
    (hopen : XReach db [] top eu.prod) (hedge : Edge db [] eu.prod ev.prod)
    (hcomp : ¬ DepPath db top ev.prod eu.prod) :
    ∃ du dv, eu.depth = some du ∧ ev.depth = some dv ∧ du < dv := by
  obtain ⟨o, st, ls, lvl, C, _, hlt, hord, hout⟩ := topo_levels hns hsv h
  obtain ⟨hul, _, hud⟩ := hout eu hu
  obtain ⟨hvl, _, hvd⟩ := hout ev hv
  have hne : ev.prod ≠ eu.prod := fun he => hcomp (he ▸ DepPath.refl _)
  have huk := (keys_graph_iff C eu.prod).mpr (Or.inr hul)
  have hs : ev.prod ∈ succs (normalise (graphOf st)) eu.prod := (succs_graph_iff C _ _).mpr ⟨hne, hopen, hedge⟩
  have hnp : ¬ Path (normalise (graphOf st)) ev.prod eu.prod := fun hp => hcomp (path_to_depPath C hp)
  have h1 := hord _ huk _ hs hnp
  have h2 := hlt _ huk
  exact ⟨_, _, hud, hvd, by omega⟩

theorem pairwise_insertS {β : Type} (le : β → β → Bool) (htot : ∀ a b, le a b = false → le b a = true)
    (htr : ∀ a b c, le a b = true → le b c = true → le a c = true) (x : β) :
    ∀ l : List β, l.Pairwise (fun a b => le a b = true) → (insertS le x l).Pairwise (fun a b => le a b = true) := by
  intro l
  induction l with
  | nil => intro _; simp [insertS]
  | cons y ys ih =>
    intro hp
    simp only [insertS]
    obtain ⟨hy, hys⟩ := List.pairwise_cons.mp hp
    split
    · rename_i hxy
      refine List.pairwise_cons.mpr ⟨?_, hp⟩
      intro z hz
      simp only [List.mem_cons] at hz
      rcases hz with rfl | hz
      · exact hxy
      · exact htr _ _ _ hxy (hy z hz)
    · rename_i hxy
      have hyx : le y x = true := htot _ _ (by simpa using hxy)
      refine List.pairwise_cons.mpr ⟨?_, ih hys⟩
      intro z hz
      rw [mem_insertS] at hz
      rcases hz with rfl | hz
      · exact hyx
      · exact hy z hz

theorem pairwise_sortStable {β : Type} (le : β → β → Bool) (htot : ∀ a b, le a b = false → le b a = true)
    (htr : ∀ a b c, le a b = true → le b c = true → le a c = true) :
    ∀ l : List β, (sortStable le l).Pairwise (fun a b => le a b = true) := by
  intro l
  induction l with
  | nil => simp [sortStable]
  | cons a as ih => exact pairwise_insertS le htot htr a _ ih

/-- **Build order**: in the order the installer uses (decreasing depth), a product never comes before one of
its dependencies from another component. -/
theorem C13_build_order (db : Db) (hns : NoUnsetup db) (fuel : Nat) (top : Prod)
    (hsv : SingleVersion db top) (cc : Bool) (out : List Entry)
    (h : getDependentProducts db fuel top true cc = .ok out)
    (i j : Nat) (hi : i < (buildOrder out).length) (hj : j < (buildOrder out).length)
    (hopen : XReach db [] top (buildOrder out)[i].prod)
    (hedge : Edge db [] (buildOrder out)[i].prod (buildOrder out)[j].prod)
    (hcomp : ¬ DepPath db top (buildOrder out)[j].prod (buildOrder out)[i].prod) : j < i := by
  have hmi : (buildOrder out)[i] ∈ out := (mem_sortStable _ _ _).mp (List.getElem_mem hi)
  have hmj : (buildOrder out)[j] ∈ out := (mem_sortStable _ _ _).mp (List.getElem_mem hj)
  obtain ⟨du, dv, h1, h2, hlt⟩ :=
    C13_topological_partial db hns fuel top hsv cc out h _ _ hmi hmj hopen hedge hcomp
  have hsorted := pairwise_sortStable (fun a b : Entry => decide (b.depth.getD 0 ≤ a.depth.getD 0))
    (by intro a b hab; simp only [decide_eq_false_iff_not, decide_eq_true_eq] at hab ⊢; omega)
    (by intro a b c hab hbc; simp only [decide_eq_true_eq] at hab hbc ⊢; omega) out
  apply Classical.byContradiction
  intro hnot
  have hle : i ≤ j := by omega
  rcases Nat.lt_or_eq_of_le hle with hlt' | heq
  · have := (List.pairwise_iff_getElem.mp hsorted) i j hi hj hlt'
    simp only [decide_eq_true_eq] at this
    unfold buildOrder at h1 h2
    rw [h1, h2] at this
    simp at this; omega
  · subst heq
    rw [h1] at h2
    have := Option.some.inj h2
    omega

/-! ## cycles -/

/-- **A cycle is not passed over silently**: when `checkCycles` is set and a listing is returned, the closure
has no non-trivial component — two different products of the closure are never mutually reachable.
(Contrapositive: a closure with a cycle makes `checkCycles` raise.) -/
theorem C13_cycle_reported_partial (db : Db) (hns : NoUnsetup db) (fuel : Nat) (top : Prod)
    (hsv : SingleVersion db top) (out : List Entry)
    (h : getDependentProducts db fuel top true true = .ok out)
    (a b : Prod) (ha : a = top ∨ Listed db [] top a) (hb : b = top ∨ Listed db [] top b)
    (hab : DepPath db top a b) (hba : DepPath db top b a) : a = b := by
  obtain ⟨out1, st1, st2, ls, h1, h2, h3, _⟩ := getDependentProducts_topo_unfold (tableMissing_false hns top) h
  have h2' := second_pass_eq hns hsv h1
  rw [h2'] at h2
  have hst : st2.2 = st1 := ((_root_.Prod.mk.inj (Option.some.inj h2)).2).symm
  rw [hst] at h3
  obtain ⟨o, hd, _⟩ := listing_unfold h1
  have C := depsOf_post db hns [] _ _ _ _ _ _ hd
  obtain ⟨_, _, _, _, hcyc⟩ := topologicalSort_ok h3
  exact hcyc rfl a ((keys_graph_iff C a).mpr ha) b ((keys_graph_iff C b).mpr hb)
    (depPath_to_path C hab) (depPath_to_path C hba)

/-- **Cycle reported** (partial: hypothesis `SingleVersion`, D31): a closure in which two different products
are mutually reachable makes `checkCycles` raise the cycle error — with the driver's fuel the outcome is
exactly `cycle` — while without `checkCycles` the listing is still returned. -/
theorem C13_cycle_reported (db : Db) (hns : NoUnsetup db) (top : Prod) (hsv : SingleVersion db top)
    (a b : Prod) (ha : a = top ∨ Listed db [] top a) (hb : b = top ∨ Listed db [] top b) (hne : a ≠ b)
    (hab : DepPath db top a b) (hba : DepPath db top b a) :
    getDependentProducts db db.fuel top true true = .cycle ∧
      ∃ out, getDependentProducts db db.fuel top true false = .ok out := by
  constructor
  · rcases getDependentProducts_total db top true true with ⟨out, h⟩ | ⟨_, h⟩
    · exact absurd (C13_cycle_reported_partial db hns _ top hsv out h a b ha hb hab hba) hne
    · exact h
  · rcases getDependentProducts_total db top true false with h | ⟨h, _⟩
    · exact h
    · exact absurd h (by simp)

/-! ## several versions in one closure (D31): what does hold -/

/-- **`--checkCycles`, characterised exactly** — any number of versions, no `SingleVersion`: with the driver's
fuel the outcome is the cycle report if and only if two different products reach one another in the **pinned**
graph: the tables opened when every name is resolved to the version of its last entry in the plain listing
(`pins db top`; that is the graph the code hands to `topologicalSort`).  Under `SingleVersion` the pinned graph is
the closure itself (`C13_cycle_reported`); in general it is neither a sub- nor a supergraph of it
(`C13_cycle_two_versions_witness`). -/
theorem C13_checkCycles_exact (db : Db) (hns : NoUnsetup db) (top : Prod) (topological : Bool) :
    getDependentProducts db db.fuel top topological true = .cycle ↔
      ∃ a b, a ≠ b ∧ DepPathR db (pins db top) top a b ∧ DepPathR db (pins db top) top b a :=
  checkCycles_exact db hns top topological

/-- **Topological order with several versions** (partial: hypothesis `PinnedSingle` — no two different nodes of the
pinned graph bear one name, the root included; strictly weaker than `SingleVersion`, and it cannot be dropped:
`C13_pinned_single_needed_witness`).  Every listed entry whose *name* has a node in the pinned graph carries the
depth of that node, and these depths respect every edge of the pinned graph between different components: if `pu`
is an opened pinned product, a line of its table denotes `pv` (as pinned), and `pu` is not reachable back from
`pv`, then every entry named like `pv` is listed strictly deeper than every entry named like `pu` — whichever of
their versions the entries are. -/
theorem C13_topological_pinned_order (db : Db) (hns : NoUnsetup db) (top : Prod) (cc : Bool) (out : List Entry)
    (h : getDependentProducts db db.fuel top true cc = .ok out)
    (hps : PinnedSingle db (pins db top) top)
    (eu ev : Entry) (hu : eu ∈ out) (hv : ev ∈ out) (pu pv : Prod)
    (hnu : pu.name = eu.prod.name) (hnv : pv.name = ev.prod.name)
    (hopen : XReach db (pins db top) top pu) (hedge : Edge db (pins db top) pu pv)
    (hcomp : ¬ DepPathR db (pins db top) top pv pu) :
    ∃ du dv, eu.depth = some du ∧ ev.depth = some dv ∧ du < dv := by
  obtain ⟨out1, st1, o2, st2, ls, lvl, h1, C, _, hlt, hord, _, hdepth⟩ := topo_levels_pinned hns h
  have hp : pins db top = pinsOf out1 := by simp [pins, h1]
  rw [hp] at hps hopen hedge hcomp
  have hku : pu ∈ keys (normalise (graphOf st2)) := (mem_keys_graph _ _).mpr (Or.inl ((nodes_iff C pu).mpr hopen))
  have hlu : pu = top ∨ Listed db (pinsOf out1) top pu := (keys_graph_iff C pu).mp hku
  have hlv : Listed db (pinsOf out1) top pv := ⟨pu, hopen, hedge⟩
  have hkv : pv ∈ keys (normalise (graphOf st2)) := (keys_graph_iff C pv).mpr (Or.inr hlv)
  have hne : pv ≠ pu := by
    intro he; subst he; exact hcomp (DepPathR.refl _)
  have hsucc : pv ∈ succs (normalise (graphOf st2)) pu := (succs_graph_iff C pu pv).mpr ⟨hne, hopen, hedge⟩
  have hlvl := hord pu hku pv hsucc (fun hpath => hcomp (path_to_depPathR C hpath))
  have h1u := hlt pu hku
  have h1v := hlt pv hkv
  refine ⟨ls.length - lvl pu, ls.length - lvl pv, hdepth hps eu hu pu hlu hnu, hdepth hps ev hv pv (Or.inr hlv) hnv, ?_⟩
  omega

/-! ## totality -/

/-- **The listing never raises** (repaired tree; D18 was the `TypeError`, D32 the `RecursionError`): on **every**
database — unsetup lines inside dependency cycles and missing table files included — for every root and every mode,
the outcome is a listing — or, only when `checkCycles` is set, the cycle report.  No other error, no
non-termination, also with two versions of a product and unresolved names. -/
theorem C13_topological_total (db : Db) (top : Prod) (topological cc : Bool) :
    (∃ out, getDependentProducts db db.fuel top topological cc = .ok out) ∨
      (cc = true ∧ getDependentProducts db db.fuel top topological cc = .cycle) :=
  getDependentProducts_total db top topological cc

/-- **`Table.dependencies` returns on every database** (tree with the D32 repair): recursive or not, with or
without the required versions of a second pass, whatever the tables say, the walk completes within the driver's
fuel — the measure is (products without an unsetup listing in progress, products not yet opened). -/
theorem C13_dependencies_total (db : Db) (req : Required) (top : Prod) (recursive : Bool) (depth : Nat) :
    ∃ out st, depsOf db db.fuel req top recursive depth St.empty = some (out, st) :=
  depsOf_total db req top recursive depth

/-- **`uses` never raises** (repaired tree; D2 was the `TypeError`, D32 the `RecursionError`): the index is built
for every database, and `users` is a total function of it — "the query answers without error even when a
product depends on two versions of another". -/
theorem C13_uses_total (db : Db) : ∃ sb, usesInfo db db.fuel = .ok sb :=
  usesInfo_total db

/-! ## `uses` is the inverse of the listings -/

/-- **Inverse.**  `Y w` is reported as a user of `X` (needing version `need`; the query names version `q` or
none) exactly when `Y w` is declared and its dependency listing holds `X need`. -/
theorem C13_uses_inverse (db : Db) (fuel : Nat) (sb : SetupBy) (h : usesInfo db fuel = .ok sb)
    (X : Str) (q : Option Str) (Y w : Str) (need : Option Str) :
    (∃ u ∈ users sb X q, u.name = Y ∧ u.ver = w ∧ u.need = need) ↔
      ((q = none ∨ need = q) ∧ ∃ d ∈ db.decls, d.name = Y ∧ d.ver = w ∧ ∃ l,
        getDependentProducts db fuel ⟨Y, some w, true⟩ true false = .ok l ∧
        ∃ e ∈ l, e.prod.name = X ∧ e.prod.ver = need) :=
  uses_inverse db fuel sb h X q Y w need

/-- The same in terms of reachability: the users of `X` are the declared products from which a product named
`X` is reachable through resolved tables. -/
theorem C13_uses_is_reach (db : Db) (hns : NoUnsetup db) (sb : SetupBy) (h : usesInfo db db.fuel = .ok sb)
    (X : Str) (q : Option Str) (Y w : Str) (need : Option Str) :
    (∃ u ∈ users sb X q, u.name = Y ∧ u.ver = w ∧ u.need = need) ↔
      ((q = none ∨ need = q) ∧ (∃ d ∈ db.decls, d.name = Y ∧ d.ver = w) ∧
        ∃ v, Listed db [] ⟨Y, some w, true⟩ v ∧ v ≠ ⟨Y, some w, true⟩ ∧ v.name = X ∧ v.ver = need) := by
  rw [C13_uses_inverse db db.fuel sb h]
  constructor
  · rintro ⟨hq, d, hd, h1, h2, l, hl, e, he, h3, h4⟩
    refine ⟨hq, ⟨d, hd, h1, h2⟩, e.prod, ?_⟩
    have := ((C13_topological_listing db hns _ _ _ l hl).2 e.prod).mp (List.mem_map.mpr ⟨e, he, rfl⟩)
    exact ⟨this.1, this.2, h3, h4⟩
  · rintro ⟨hq, ⟨d, hd, h1, h2⟩, v, hv, hne, h3, h4⟩
    refine ⟨hq, d, hd, h1, h2, ?_⟩
    rcases getDependentProducts_total db ⟨Y, some w, true⟩ true false with ⟨l, hl⟩ | ⟨hcc, _⟩
    · refine ⟨l, hl, ?_⟩
      have := ((C13_topological_listing db hns _ _ _ l hl).2 v).mpr ⟨hv, hne⟩
      obtain ⟨e, he, rfl⟩ := List.mem_map.mp this
      exact ⟨e, he, h3, h4⟩
    · exact absurd hcc (by simp)

/-! ## decidable sufficient conditions for the hypotheses, and concrete instances -/

/-- `SingleVersion` can be read off the plain listing -/
theorem singleVersion_of_listing (db : Db) (hns : NoUnsetup db) (top : Prod) (out : List Entry)
    (h : getDependentProducts db db.fuel top false false = .ok out)
    (hc : ∀ u ∈ top :: out.map (·.prod), ∀ v ∈ top :: out.map (·.prod), u.name = v.name → u = v) :
    SingleVersion db top := by
  obtain ⟨out', h', hiff⟩ := C13_listing_is_reach db hns top
  rw [h] at h'
  have : out = out' := by injection h'
  subst this
  have hmem : ∀ u, (u = top ∨ Listed db [] top u) → u ∈ top :: out.map (·.prod) := by
    intro u hu
    by_cases hut : u = top
    · simp [hut]
    · rcases hu with hu | hu
      · exact absurd hu hut
      · exact List.mem_cons_of_mem _ ((hiff u).mpr ⟨hu, hut⟩)
  intro u v hu hv hn
  exact hc u (hmem u hu) v (hmem v hv) hn

section Examples
private def s (x : String) : Str := Str.ofString x
private def req (n : String) (v : Option String := none) : Dep := ⟨false, false, s n, v.map s, false, false⟩

/-- a diamond `r → {a, b} → c`, `c` needing the undeclared `zz` -/
def diamond : Db :=
  { decls := [⟨s "r", s "1", [req "a", req "b"], false⟩, ⟨s "a", s "1", [req "c"], false⟩, ⟨s "b", s "1", [req "c"], false⟩,
              ⟨s "c", s "1", [req "zz"], false⟩]
    current := [(s "r", s "1"), (s "a", s "1"), (s "b", s "1"), (s "c", s "1")] }

def rTop : Prod := ⟨s "r", some (s "1"), true⟩

example : NoUnsetup diamond := by decide
example : SingleVersion diamond rTop :=
  singleVersion_of_listing diamond (by decide) rTop _ rfl (by decide)
/-- the listing of the diamond: depths 2, 2, 3, 4 (the root has depth 1; placeholder `zz` deepest) -/
example : (match getDependentProducts diamond diamond.fuel rTop true true with
    | .ok l => l.map fun e => (e.prod.name, e.depth)
    | _ => []) = [(s "a", some 2), (s "b", some 2), (s "c", some 3), (s "zz", some 4)] := by decide

/-- D31: `r 1 → b 2, b`; `b 2 → c`; `b 1` current.  Both versions of `b` and `c` end at depth 2 although
`b 2` depends on `c`, which depends on nothing: the order clause is false without `SingleVersion`. -/
def d31 : Db :=
  { decls := [⟨s "c", s "1", [], false⟩, ⟨s "b", s "1", [], false⟩, ⟨s "b", s "2", [req "c"], false⟩,
              ⟨s "r", s "1", [req "b" (some "2"), req "b"], false⟩]
    current := [(s "c", s "1"), (s "b", s "1"), (s "r", s "1")] }

end Examples

/-- **Negation witness for the unrestricted order clause** (known finding D31): a database without unsetup
lines, a root, and two listed entries `b 2 → c 1` joined by a line of an opened table, `c 1` having no
dependency at all, with *equal* depth. -/
theorem C13_topological_two_versions_witness :
    ∃ (db : Db) (top : Prod) (out : List Entry) (eu ev : Entry),
      NoUnsetup db ∧ getDependentProducts db db.fuel top true false = .ok out ∧ eu ∈ out ∧ ev ∈ out ∧
      (∃ d ∈ db.table eu.prod, target db [] d = ev.prod) ∧ db.table ev.prod = [] ∧
      eu.prod ≠ ev.prod ∧ eu.depth = ev.depth :=
  ⟨d31, rTop, _, ⟨⟨s "b", some (s "2"), true⟩, false, some 2⟩, ⟨⟨s "c", some (s "1"), true⟩, false, some 2⟩,
    by decide, rfl, by decide, by decide, by decide, by decide, by decide, rfl⟩

section D31Examples
private def t (x : String) : Str := Str.ofString x
private def ln (n : String) (v : Option String := none) : Dep := ⟨false, false, t n, v.map t, false, false⟩

/-- corpus/C13/d31_cycle_hidden.json: `r → a 2, a`; `a 2 ↔ b` is a cycle of the closure; `a 1` (current, listed
last) has no dependencies.  The second pass resolves every `a` to `a 1`: the pinned graph is `r → a 1`. -/
def d31hidden : Db :=
  { decls := [⟨t "r", t "1", [ln "a" (some "2"), ln "a"], false⟩, ⟨t "a", t "1", [], false⟩,
              ⟨t "a", t "2", [ln "b"], false⟩, ⟨t "b", t "1", [ln "a" (some "2")], false⟩]
    current := [(t "r", t "1"), (t "a", t "1"), (t "b", t "1")] }

/-- corpus/C13/d31_cycle_invented.json: `r → b, a 2`; `b → a 1` (explicit); `a 2 → b`; the closure is acyclic.  The
second pass resolves `b`'s line to `a 2` (listed last): the pinned graph has the cycle `b ↔ a 2`. -/
def d31invented : Db :=
  { decls := [⟨t "r", t "1", [ln "b", ln "a" (some "2")], false⟩, ⟨t "a", t "1", [], false⟩,
              ⟨t "a", t "2", [ln "b"], false⟩, ⟨t "b", t "1", [ln "a" (some "1")], false⟩]
    current := [(t "r", t "1"), (t "a", t "1"), (t "b", t "1")] }

/-- corpus/C13/d31_root_name.json: the root `a 1 → b`, `b → a 2`, `a 2 → c`: the name of the root comes back in
another version, the pinned graph holds `a 1` and `a 2`, and the depth of the name `a` is the root's. -/
def d31root : Db :=
  { decls := [⟨t "a", t "1", [ln "b"], false⟩, ⟨t "b", t "1", [ln "a" (some "2")], false⟩,
              ⟨t "a", t "2", [ln "c"], false⟩, ⟨t "c", t "1", [], false⟩]
    current := [(t "a", t "1"), (t "b", t "1"), (t "c", t "1")] }

/-- two versions of `b` above a chain: `r → b 2, b`; both `b`s need `c`, `c` needs `e`.  `SingleVersion` fails,
`PinnedSingle` holds, and `C13_topological_pinned_order` orders `b 2` before `c` too. -/
def twoB : Db :=
  { decls := [⟨t "r", t "1", [ln "b" (some "2"), ln "b"], false⟩, ⟨t "b", t "1", [ln "c"], false⟩,
              ⟨t "b", t "2", [ln "c"], false⟩, ⟨t "c", t "1", [ln "e"], false⟩, ⟨t "e", t "1", [], false⟩]
    current := [(t "r", t "1"), (t "b", t "1"), (t "c", t "1"), (t "e", t "1")] }

def rT : Prod := ⟨t "r", some (t "1"), true⟩

/-- `PinnedSingle` can be read off the listing of the second pass -/
theorem pinnedSingle_of_listing (db : Db) (hns : NoUnsetup db) (top : Prod) (req : Required) (o : List Entry) (st : St)
    (h : depsOf db db.fuel req top true 1 St.empty = some (o, st))
    (hc : ∀ u ∈ top :: o.map (·.prod), ∀ v ∈ top :: o.map (·.prod), u.name = v.name → u = v) :
    PinnedSingle db req top := by
  have hmem : ∀ u, (u = top ∨ Listed db req top u) → u ∈ top :: o.map (·.prod) := by
    intro u hu
    rcases hu with hu | hu
    · simp [hu]
    · exact List.mem_cons_of_mem _ ((depsOf_listed hns h u).mpr hu)
  intro u v hu hv hn
  exact hc u (hmem u hu) v (hmem v hv) hn

example : NoUnsetup twoB := by decide
example : PinnedSingle twoB (pins twoB rT) rT :=
  pinnedSingle_of_listing twoB (by decide) rT _ _ _ rfl (by decide)
example : ¬ SingleVersion twoB rT := fun h =>
  absurd (h ⟨t "b", some (t "1"), true⟩ ⟨t "b", some (t "2"), true⟩
    (Or.inr ⟨rT, XReach.refl _, ln "b", by decide, by decide⟩)
    (Or.inr ⟨rT, XReach.refl _, ln "b" (some "2"), by decide, by decide⟩) rfl) (by decide)
/-- the listing of `twoB`: both versions of `b` at depth 2, `c` at 3, `e` at 4 -/
example : (match getDependentProducts twoB twoB.fuel rT true true with
    | .ok l => l.map fun e => (e.prod.name, e.prod.ver, e.depth)
    | _ => []) = [(t "b", some (t "2"), some 2), (t "b", some (t "1"), some 2), (t "c", some (t "1"), some 3),
                  (t "e", some (t "1"), some 4)] := by decide
end D31Examples

/-- **Negation witnesses for the cycle clause without `SingleVersion`** (known finding D31), both directions:
on `d31hidden` the graph of the plain closure has a cycle (`a 2 ↔ b`; the same `topologicalSort` reports it) and
`--checkCycles` returns a listing; on `d31invented` the graph of the plain closure is acyclic and `--checkCycles`
reports a cycle.  Both are what `C13_checkCycles_exact` predicts from the pinned graph. -/
theorem C13_cycle_two_versions_witness :
    (NoUnsetup d31hidden ∧
      (∃ out st, listing d31hidden d31hidden.fuel [] rT = some (out, st) ∧
        topologicalSort (graphOf st) true = .cycle) ∧
      ∃ out, getDependentProducts d31hidden d31hidden.fuel rT true true = .ok out) ∧
    (NoUnsetup d31invented ∧
      (∃ out st ls, listing d31invented d31invented.fuel [] rT = some (out, st) ∧
        topologicalSort (graphOf st) true = .ok ls) ∧
      getDependentProducts d31invented d31invented.fuel rT true true = .cycle) :=
  ⟨⟨by decide, ⟨_, _, rfl, by decide⟩, _, rfl⟩, ⟨by decide, ⟨_, _, _, rfl, rfl⟩, by decide⟩⟩

/-- **`PinnedSingle` cannot be dropped** (D31, the root's own name): on `d31root` the entries `b 1` and `a 2` are
listed, `b`'s table (opened in the pinned graph) has a line denoting `a 2`, nothing leads back from `a 2` to `b`
(`a 2`'s only dependency `c` has none) — and `a 2` is listed *less* deep than `b`, because the name `a` received the
depth of the root `a 1`. -/
theorem C13_pinned_single_needed_witness :
    ∃ (out : List Entry) (eu ev : Entry),
      NoUnsetup d31root ∧
      getDependentProducts d31root d31root.fuel ⟨Str.ofString "a", some (Str.ofString "1"), true⟩ true false = .ok out ∧
      eu ∈ out ∧ ev ∈ out ∧
      (∃ d ∈ d31root.table eu.prod,
        target d31root (pins d31root ⟨Str.ofString "a", some (Str.ofString "1"), true⟩) d = ev.prod) ∧
      (d31root.table ev.prod).map (·.name) = [Str.ofString "c"] ∧
      d31root.table ⟨Str.ofString "c", some (Str.ofString "1"), true⟩ = [] ∧
      (∃ du dv, eu.depth = some du ∧ ev.depth = some dv ∧ dv < du) :=
  ⟨_, ⟨⟨Str.ofString "b", some (Str.ofString "1"), true⟩, false, some 2⟩,
      ⟨⟨Str.ofString "a", some (Str.ofString "2"), true⟩, false, some 1⟩,
    by decide, rfl, by decide, by decide, by decide, by decide, by decide, ⟨2, 1, rfl, rfl, by decide⟩⟩

/-! ## the pinned tree: negation witnesses for the two `TypeError`s -/

section PinnedExamples
private def s' (x : String) : Str := Str.ofString x
private def req' (n : String) (v : Option String := none) : Dep := ⟨false, false, s' n, v.map s', false, false⟩
private def opt' (n : String) (v : Option String := none) : Dep := ⟨false, true, s' n, v.map s', false, false⟩

/-- corpus/C13/d18_placeholder_versions.json -/
def d18 : Db :=
  { decls := [⟨s' "e", s' "2", [], false⟩, ⟨s' "c", s' "1", [req' "e"], false⟩,
              ⟨s' "b", s' "1", [req' "c", req' "e" (some "1")], false⟩, ⟨s' "a", s' "1", [req' "b", opt' "zz"], false⟩]
    current := [(s' "e", s' "2"), (s' "c", s' "1"), (s' "b", s' "1"), (s' "a", s' "1")] }

/-- corpus/C13/d2_uses_two_versions.json -/
def d2 : Db :=
  { decls := [⟨s' "e", s' "1", [], false⟩, ⟨s' "e", s' "2", [], false⟩, ⟨s' "c", s' "1", [req' "e"], false⟩,
              ⟨s' "a", s' "1", [req' "e" (some "1"), opt' "c"], false⟩]
    current := [(s' "e", s' "2"), (s' "c", s' "1"), (s' "a", s' "1")] }
end PinnedExamples

/-- corpus/C13/d32_unsetup_in_cycle.json: `a 1 ↔ b 1`, and `b`'s table unsets `a` -/
def d32 : Db :=
  { decls := [⟨s' "a", s' "1", [req' "b"], false⟩,
              ⟨s' "b", s' "1", [req' "a", ⟨true, false, s' "a", none, false, false⟩], false⟩]
    current := [(s' "a", s' "1"), (s' "b", s' "1")] }

set_option maxRecDepth 8192 in
/-- **Pinned tree, D32**: `C13_topological_total` / `C13_dependencies_total` were false before the re-entrance
guard — on this two-product database (an unsetup line inside the cycle `a ↔ b`) the pinned walk exhausts the
driver's fuel (the code: `RecursionError`; every pass over `b`'s table starts a fresh listing of `a` that reaches
`b`'s table again), the repaired walk returns `[b]`. -/
theorem C13_unsetup_cycle_pinned_witness :
    depsOfPinned d32 d32.fuel [] ⟨Str.ofString "a", some (Str.ofString "1"), true⟩ true 1 St.empty = none ∧
    depsOfPinned d32 (4 * d32.fuel) [] ⟨Str.ofString "a", some (Str.ofString "1"), true⟩ true 1 St.empty = none ∧
    ∃ out, getDependentProducts d32 d32.fuel ⟨Str.ofString "a", some (Str.ofString "1"), true⟩ true false = .ok out :=
  ⟨by decide, by decide, _, rfl⟩

/-- **Pinned tree, D18**: `C13_topological_total` was false before the repair of `Product.__lt__` — on this
database (no unsetup lines) the layer that `topologicalSort` sorts for the root `a 1` holds the placeholders
`(e, None)` and `(e, "1")`, and comparing them raised `TypeError`.  The repaired model lists it. -/
theorem C13_topological_typeerror_witness :
    NoUnsetup d18 ∧ topologicalRaisesPinned d18 d18.fuel ⟨Str.ofString "a", some (Str.ofString "1"), true⟩ = true ∧
    ∃ out, getDependentProducts d18 d18.fuel ⟨Str.ofString "a", some (Str.ofString "1"), true⟩ true false = .ok out :=
  ⟨by decide, by decide, _, rfl⟩

/-- **Pinned tree, D2**: `C13_uses_total` was false before the repair of `Uses.users` — `a 1` reaches `e 1`
directly and `e 2` through `c`, the query `uses e` collects two entries for the user `a 1`, and comparing
their `Props` raised `TypeError`.  The repaired model answers with both. -/
theorem C13_uses_typeerror_witness :
    ∃ sb, usesInfo d2 d2.fuel = .ok sb ∧ usersRaisesPinned sb (Str.ofString "e") none = true ∧
      (users sb (Str.ofString "e") none).map (fun u => (u.name, u.ver, u.need)) =
        [(Str.ofString "a", Str.ofString "1", some (Str.ofString "1")),
         (Str.ofString "a", Str.ofString "1", some (Str.ofString "2")),
         (Str.ofString "c", Str.ofString "1", some (Str.ofString "2"))] :=
  ⟨_, rfl, by decide, by decide⟩

/-! ## the layering loop (generic part, kept from the first pass) -/

/-- Order clause on the layering loop of `utils.topologicalSort`: for every graph with one entry per node and
every edge `u → v` whose two ends receive a layer, the layer of `v` is emitted strictly before the layer of `u`. -/
theorem C13_layering_edge_order {α : Type} [DecidableEq α] (f : Nat) (g : Graph α) (ls : List (List α)) (rest : Graph α)
    (hk : (keys g).Nodup) (h : layers f g = some (ls, rest))
    (u : α) (du : List α) (v : α) (hu : (u, du) ∈ g) (hv : v ∈ du)
    (i j : Nat) (hi : level ls u = some i) (hj : level ls v = some j) : j < i :=
  edge_order f g ls rest hk h u du v hu hv i j hi hj

/-- The loop stops only when every remaining node still has a dependency (the "cyclic dependency" exit), and
every node is either emitted in a layer or part of that remainder. -/
theorem C13_layering_complete {α : Type} [DecidableEq α] (f : Nat) (g : Graph α) (ls : List (List α)) (rest : Graph α)
    (h : layers f g = some (ls, rest)) :
    ready rest = [] ∧ ∀ u ∈ keys g, (∃ l ∈ ls, u ∈ l) ∨ u ∈ keys rest :=
  ⟨leftover_stuck f g ls rest h, layered_or_left f g ls rest h⟩

/-- The fuel the model gives the loop (number of nodes + 1) always suffices. -/
theorem C13_layering_fuel {α : Type} [DecidableEq α] (g : Graph α) : (layers (g.length + 1) g).isSome :=
  layers_fuel _ g (Nat.lt_succ_self _)

/-- What `topologicalSort` guarantees when it returns layers: every node of the graph sits in exactly one
layer, every edge between different mutual-reachability classes goes to a strictly earlier layer, and with
`checkCycles` no two different nodes are mutually reachable. -/
theorem C13_topologicalSort_spec {α : Type} [DecidableEq α] (g0 : Graph α) (cc : Bool) (ls : List (List α))
    (h : topologicalSort g0 cc = .ok ls) :
    ∃ lvl : α → Nat,
      (∀ a ∈ keys (normalise g0), lvl a < ls.length ∧ ∀ (i : Nat) (hi : i < ls.length), a ∈ ls[i] ↔ i = lvl a) ∧
      (∀ l ∈ ls, ∀ a ∈ l, a ∈ keys (normalise g0)) ∧
      (∀ a ∈ keys (normalise g0), ∀ b ∈ succs (normalise g0) a, ¬ Path (normalise g0) b a → lvl b < lvl a) ∧
      (cc = true → ∀ a ∈ keys (normalise g0), ∀ b ∈ keys (normalise g0),
          Path (normalise g0) a b → Path (normalise g0) b a → a = b) :=
  topologicalSort_ok h

/-- Non-vacuity: a diamond 0 → {1,2} → 3 is layered bottom-up; a 2-cycle below a node is left over. -/
example : layers 5 [(0, [1, 2]), (1, [3]), (2, [3]), (3, [])] = some ([[3], [1, 2], [0]], []) := by decide
example : layers 5 [(0, [1]), (1, [2]), (2, [1])] = some ([], [(0, [1]), (1, [2]), (2, [1])]) := by decide
example : topologicalSort [(0, [1]), (1, [2]), (2, [1]), (3, [])] false = .ok [[1, 2, 3], [0]] := by decide
example : topologicalSort [(0, [1]), (1, [2]), (2, [1])] true = .cycle := by decide

end EupsModel.C13
