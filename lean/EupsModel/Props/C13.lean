import EupsModel.Lemmas.Topo
import EupsModel.Model.Deps
/-! C13 — dependency listings are complete and ordered; `uses` is their inverse.
Property theorems only (the models are `Model/Topo.lean`, `Model/Deps.lean`; helper lemmas `Lemmas/Topo.lean`). -/
namespace EupsModel.C13
open EupsModel.Topo EupsModel.Deps

/-- Order clause on the layering loop of `utils.topologicalSort`: for every graph with one entry per node and
every edge `u → v` whose two ends receive a layer, the layer of `v` (the dependency) is emitted strictly
before the layer of `u`.  (`getDependentProducts` turns "emitted earlier" into "greater depth".) -/
theorem C13_layering_edge_order {α : Type} [DecidableEq α] (f : Nat) (g : Graph α) (ls : List (List α)) (rest : Graph α)
    (hk : (keys g).Nodup) (h : layers f g = some (ls, rest))
    (u : α) (du : List α) (v : α) (hu : (u, du) ∈ g) (hv : v ∈ du)
    (i j : Nat) (hi : level ls u = some i) (hj : level ls v = some j) : j < i :=
  edge_order f g ls rest hk h u du v hu hv i j hi hj

/-- The loop stops only when every remaining node still has a dependency (the "cyclic dependency" exit), and
every node is either emitted in a layer or part of that remainder. -/
theorem C13_layering_complete {α : Type} [DecidableEq α] (f : Nat) (g : Graph α) (ls : List (List α)) (rest : Graph α)
    (h : layers f g = some (ls, rest)) :
    ready rest = [] ∧ ∀ u ∈ keys g, (∃ l ∈ ls, u ∈ l) ∨ u ∈ keys rest :=
  ⟨leftover_stuck f g ls rest h, layered_or_left f g ls rest h⟩

/-- The fuel the model gives the loop (number of nodes + 1) always suffices. -/
theorem C13_layering_fuel {α : Type} [DecidableEq α] (g : Graph α) : (layers (g.length + 1) g).isSome :=
  layers_fuel _ g (Nat.lt_succ_self _)

/-- Non-vacuity: a diamond 0 → {1,2} → 3 is layered bottom-up; a 2-cycle below a node is left over. -/
example : layers 5 [(0, [1, 2]), (1, [3]), (2, [3]), (3, [])] = some ([[3], [1, 2], [0]], []) := by decide
example : layers 5 [(0, [1]), (1, [2]), (2, [1])] = some ([], [(0, [1]), (1, [2]), (2, [1])]) := by decide
example : topologicalSort [(0, [1]), (1, [2]), (2, [1]), (3, [])] false = .ok [[1, 2, 3], [0]] := by decide
example : topologicalSort [(0, [1]), (1, [2]), (2, [1])] true = .cycle := by decide

end EupsModel.C13
