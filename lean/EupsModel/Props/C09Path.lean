import EupsModel.Lemmas.LockPathROwed
/-! C09 — several stacks, repaired protocol: nothing is abandoned (property theorems; D12e/D12f as theorems).
No hypothesis on the configuration: any kinds, `EUPS_LOCK_PID` maps, retry counts, paths (even with repeated
elements), release by `giveLocks` or at exit only, and EVERY schedule. -/
namespace EupsModel.C09
open EupsModel.Lock (Pid Kind Err)
open EupsModel.LockR EupsModel.LockPathR

theorem clean_of_not_engaged {s : St} (h : Inv s) (hq : ∀ i, engaged (s.pc i) = false) :
    s.dir = false ∧ s.files = [] := by
  have hd : s.dir = false := by
    cases hd : s.dir with
    | false => rfl
    | true =>
      obtain ⟨q, hq'⟩ := h.resp hd
      rw [hq q] at hq'; cases hq'
  refine ⟨hd, ?_⟩
  cases hf : s.files with
  | nil => rfl
  | cons x xs =>
    have := h.inDir (by rw [hf]; simp)
    rw [hd] at this; cases this

/-- **No lock is ever abandoned**: in every reachable state of the path model, a process is engaged with a stack
(its lock file is there, or about to be put there, or its `giveLocks` has not finished with it) only while its
command still owes that stack a release: the stack is among those its `takeLocks` has reached, respectively among
those its `giveLocks` (or the giving-up inside a failed `takeLocks`) has not yet passed. -/
theorem C09_path_engaged_is_owed (kind : Pid → Kind) (lp : Pid → Option Pid) (tries : Pid → Nat)
    (path : Pid → List Dir) (explicit : Pid → Bool) (sched : List Pid) (p : Pid) (d : Dir)
    (he : engaged (((mrun (minit kind lp tries path explicit) sched).comp d).pc p) = true) :
    d ∈ owed ((mrun (minit kind lp tries path explicit) sched).ctl p) (path p) := by
  have h := pinv_mrun _ sched (pinv_minit kind lp tries path explicit)
  have := h.owe p d he
  rwa [mrun_path] at this

/-- **When every command has finished, nothing is left on any stack** — commands refused on a later stack after
locking earlier ones (D12e), withdrawn requests, releases that lost a race for the directory (D12f) included. -/
theorem C09_path_no_residue (kind : Pid → Kind) (lp : Pid → Option Pid) (tries : Pid → Nat)
    (path : Pid → List Dir) (explicit : Pid → Bool) (sched : List Pid)
    (hfin : ∀ p, finished ((mrun (minit kind lp tries path explicit) sched).ctl p) = true) (d : Dir) :
    ((mrun (minit kind lp tries path explicit) sched).comp d).dir = false ∧
    ((mrun (minit kind lp tries path explicit) sched).comp d).files = [] := by
  have h := pinv_mrun _ sched (pinv_minit kind lp tries path explicit)
  generalize mrun (minit kind lp tries path explicit) sched = S at *
  refine clean_of_not_engaged (h.inv d) ?_
  intro i
  cases he : engaged ((S.comp d).pc i) with
  | false => rfl
  | true =>
    have := h.owe i d he
    have hf := hfin i
    cases hc : S.ctl i <;> simp [hc, finished] at hf
    rw [hc] at this; simp [owed] at this

/-- **No release fails**: no command ends — and no `giveLocks` call is left — with an exception, in any reachable
state (the pinned `giveLocks` raised on benign races and abandoned the rest of its list: D12f). -/
theorem C09_path_release_never_fails (kind : Pid → Kind) (lp : Pid → Option Pid) (tries : Pid → Nat)
    (path : Pid → List Dir) (explicit : Pid → Bool) (sched : List Pid) (p : Pid) (e : Err) :
    (mrun (minit kind lp tries path explicit) sched).ctl p ≠ .fin (.failedRel e) ∧
    ∀ d, ((mrun (minit kind lp tries path explicit) sched).comp d).pc p ≠ .failedRel e := by
  have h := pinv_mrun _ sched (pinv_minit kind lp tries path explicit)
  refine ⟨?_, fun d => h.norf d p e⟩
  intro hc
  have := h.ok p
  rw [hc] at this
  exact this

/-- non-vacuity: X holds stack 1; Y (path [0,1], two attempts) locks stack 0, is refused on stack 1 twice, gives
stack 0 up again and ends refused; X releases; all have finished, and nothing is left. -/
example :
    let S := mrun (minit (fun _ => .ex) (fun _ => none) (fun _ => 1)
        (fun i => if i = 0 then [1] else [0, 1]) (fun i => i = 0))
      ([0, 0, 0] ++ [1, 1, 1, 1, 1, 1, 1, 1, 1, 1, 1, 1, 1] ++ [0, 0, 0, 0, 0])
    S.ctl 0 = .fin .done ∧ S.ctl 1 = .fin (.failedAcq .runtime) ∧
    (S.comp 0).dir = false ∧ (S.comp 1).dir = false := by decide

end EupsModel.C09
