/-! C09 — property theorems (placeholder until the model exists). -/
