import EupsModel.Props.C09Pinned
import EupsModel.Lemmas.LockR
import EupsModel.Lemmas.LockPathR
import EupsModel.Props.C09Grant
import EupsModel.Props.C09Path
import EupsModel.Props.C09Cmd
import EupsModel.Props.C09Signal
import EupsModel.Props.C09Homog
import EupsModel.Props.C09Stale
/-! C09 — exclusive database locks exclude every other holder under all interleavings.

Property theorems only, about the code as it is now: the REPAIRED lock protocol (`Model/LockR.lean`, one transition =
one file-system call of one process, in the order `lock.py` issues them; several stacks: `Model/LockPathR.lean`).
Helper lemmas: `Lemmas/LockR.lean`, `Lemmas/LockPathR.lean`.

The property as stated — `Mutex` in every reachable state, for every configuration (any number of processes, kinds,
`EUPS_LOCK_PID` maps, retry counts) and every schedule — is a THEOREM of the repaired protocol (`C09_mutex`).  It was
false of the pinned protocol: `Props/C09Pinned.lean` keeps that model with its three race witnesses (D12a/b/c), and
the very same three schedules are replayed on the repaired model below. -/
namespace EupsModel.C09
open EupsModel.Lock (Pid Kind Err)
open EupsModel.LockR

/-- The property's first sentence, as stated: in every reachable state of every configuration. -/
def MutexAlways : Prop :=
  ∀ (kind : Pid → Kind) (lp : Pid → Option Pid) (tries : Pid → Nat) (sched : List Pid),
    Mutex (run (init kind lp tries) sched)

/-- **Mutual exclusion, in full.**  Any number of processes, any mix of shared and exclusive requests, any
`EUPS_LOCK_PID` map (re-entry), any `ntry`, EVERY interleaving of their file-system calls: while a process is between
the return of `takeLocks` and the call of `giveLocks` with an exclusive lock, no process unrelated to it is in its
command body. -/
theorem C09_mutex : MutexAlways := by
  intro kind lp tries sched
  have h := inv_run _ sched (inv_init kind lp tries)
  intro i j hij hnr hi hk
  cases hb : inBody ((run (init kind lp tries) sched).pc j) with
  | false => rfl
  | true =>
    have hj : (run (init kind lp tries) sched).pc j = .hold := by
      cases hpc : (run (init kind lp tries) sched).pc j <;> simp_all [inBody]
    exact absurd (h.excl i j hij hi hj hnr (Or.inl hk)) id

/-- The same, in the symmetric form the invariant has: two unrelated processes in their command bodies both hold
shared locks. -/
theorem C09_unrelated_holders_are_readers (kind : Pid → Kind) (lp : Pid → Option Pid) (tries : Pid → Nat)
    (sched : List Pid) (i j : Pid) (hij : i ≠ j)
    (hi : (run (init kind lp tries) sched).pc i = .hold) (hj : (run (init kind lp tries) sched).pc j = .hold)
    (hnr : lp i ≠ some j ∧ lp j ≠ some i) : kind i = .sh ∧ kind j = .sh := by
  have h := inv_run _ sched (inv_init kind lp tries)
  have hk : ∀ x, (run (init kind lp tries) sched).kind x = kind x := by intro x; simp [init]
  have hnr' : ¬ related (run (init kind lp tries) sched) i j := by
    simp only [related, run_lp, init]; intro r; rcases r with r | r
    · exact hnr.1 r
    · exact hnr.2 r
  constructor
  · cases hki : kind i with
    | sh => rfl
    | ex => exact absurd (h.excl i j hij hi hj hnr' (Or.inl (by rw [hk, hki]))) id
  · cases hkj : kind j with
    | sh => rfl
    | ex => exact absurd (h.excl i j hij hi hj hnr' (Or.inr (by rw [hk, hkj]))) id

/-- non-vacuity: two readers hold together while an updater that has announced itself sees them, withdraws and will
try again; after both have released, the updater's second attempt succeeds. -/
example :
    let kind : Pid → Kind := fun i => if i = 2 then .ex else .sh
    let s := run (init kind (fun _ => none) (fun _ => 1)) [0, 0, 0, 1, 1, 1, 2, 2]
    s.pc 0 = .hold ∧ s.pc 1 = .hold ∧ s.pc 2 = .scanMsg 1 := by decide

/-- **The command body never runs unlocked**: while a process is in its body its lock file is in the lock directory
(there is no exit from `takeLocks` without the lock on a writable stack any more — D12c). -/
theorem C09_body_runs_locked (kind : Pid → Kind) (lp : Pid → Option Pid) (tries : Pid → Nat) (sched : List Pid)
    (i : Pid) (hi : inBody ((run (init kind lp tries) sched).pc i) = true) :
    (run (init kind lp tries) sched).dir = true ∧ (kind i, i) ∈ (run (init kind lp tries) sched).files := by
  have h := inv_run _ sched (inv_init kind lp tries)
  have hf : hasFile ((run (init kind lp tries) sched).pc i) = true := by
    cases hpc : (run (init kind lp tries) sched).pc i <;> simp_all [inBody, hasFile]
  have hm := h.own i hf
  have hk : (run (init kind lp tries) sched).kind i = kind i := by simp [init]
  rw [hk] at hm
  exact ⟨h.inDir (by intro e; rw [e] at hm; simp at hm), hm⟩

/-! ### released locks leave no residue -/

/-- Every configuration, every schedule: when no process is engaged with the lock directory (nobody between its
`create` and the end of its `giveLocks`), the directory and all lock files are gone — refused and withdrawn requests,
retries and requests that found the directory removed under them included. -/
theorem C09_no_residue (kind : Pid → Kind) (lp : Pid → Option Pid) (tries : Pid → Nat) (sched : List Pid)
    (hq : ∀ i, engaged ((run (init kind lp tries) sched).pc i) = false) :
    (run (init kind lp tries) sched).dir = false ∧ (run (init kind lp tries) sched).files = [] := by
  have h := inv_run _ sched (inv_init kind lp tries)
  have hd : (run (init kind lp tries) sched).dir = false := by
    cases hd : (run (init kind lp tries) sched).dir with
    | false => rfl
    | true =>
      obtain ⟨q, hq'⟩ := h.resp hd
      rw [hq q] at hq'; cases hq'
  refine ⟨hd, ?_⟩
  cases hf : (run (init kind lp tries) sched).files with
  | nil => rfl
  | cons x xs =>
    have := h.inDir (by rw [hf]; simp)
    rw [hd] at this; cases this

/-- **`giveLocks` never raises** (D12f: a release that raised on a benign race abandoned the remaining locks): in no
reachable state has a process left `giveLocks` through an exception. -/
theorem C09_release_never_fails (kind : Pid → Kind) (lp : Pid → Option Pid) (tries : Pid → Nat) (sched : List Pid)
    (i : Pid) (e : Err) : (run (init kind lp tries) sched).pc i ≠ .failedRel e :=
  noRelFail_run _ sched (inv_init kind lp tries) (by intro i e; simp [init]) i e

/-! ### the three races of the pinned protocol, replayed -/

open EupsModel.C09 (kinds noParent once)

/-- the schedule of `C09_scan_before_create_witness_Pinned` (D12a) cannot even be followed to two holders: the shared
requester's look comes after both files are there -/
example :
    let s := run (init (kinds [.ex, .sh]) noParent once) [0, 1, 1, 1, 0, 1, 0]
    ¬ (s.pc 0 = .hold ∧ s.pc 1 = .hold) := by decide

/-- D12a on the repaired protocol, taken to the same point: E and S both past the gate, both files created, then both
look — each sees the other, both withdraw (conservative), nothing is left. -/
example :
    let s := run (init (kinds [.ex, .sh]) noParent once) [0, 1, 0, 1, 0, 1, 0, 0, 0, 0, 0, 1, 1, 1, 1, 1]
    s.pc 0 = .failedAcq .runtime ∧ s.pc 1 = .failedAcq .runtime ∧ s.dir = false ∧ s.files = [] := by decide

/-- D12b on the repaired protocol: S releases and removes the directory E₁ had made and not yet put its file into; E₁'s
`create` finds no directory and (with a second attempt) starts again; E₀ meanwhile holds, E₁ is refused. -/
example :
    let s := run (init (kinds [.ex, .ex, .sh]) noParent (fun _ => 1))
      [1, 2, 2, 2, 2, 2, 2, 2, 2, 1, 0, 0, 0, 1, 1]
    s.pc 0 = .hold ∧ s.pc 2 = .done ∧ s.pc 1 = .scanMsg 0 := by decide

/-! ### several stacks (`EUPS_PATH` with more than one element): `Model/LockPathR.lean` -/

open EupsModel.LockPathR

/-- Projection: in every run of `takeLocks(path)` / `giveLocks(list)` over several stacks, the lock state of each
stack is a run of the single-directory model — so `C09_mutex`, `C09_no_residue`, … hold of every stack. -/
theorem C09_path_projection (kind : Pid → Kind) (lp : Pid → Option Pid) (tries : Pid → Nat)
    (path : Pid → List Dir) (explicit : Pid → Bool) (sched : List Pid) (d : Dir) :
    ∃ sd, (mrun (minit kind lp tries path explicit) sched).comp d = run (init kind lp tries) sd :=
  mrun_comp_is_run _ sched d

/-- **Mutual exclusion with several stacks**: no two unrelated commands are in their bodies together when one of them
holds an exclusive lock on a stack that is on the path of both.  Every configuration, every schedule.
Hypothesis: the elements of each path are distinct (`Eups.setEupsPath` removes duplicates). -/
theorem C09_path_mutex (kind : Pid → Kind) (lp : Pid → Option Pid) (tries : Pid → Nat)
    (path : Pid → List Dir) (explicit : Pid → Bool) (hnd : ∀ p, (path p).Nodup) (sched : List Pid) :
    MutexM (mrun (minit kind lp tries path explicit) sched) := by
  intro d p q hpq hnr hp hq hdp hdq hh hk
  have hinv := inv_mrun (minit kind lp tries path explicit) sched (fun _ => inv_init kind lp tries) d
  have hheld := held_mrun (minit kind lp tries path explicit) sched hnd
    (fun p => held_minit kind lp tries path explicit p) q
  generalize mrun (minit kind lp tries path explicit) sched = S at *
  -- q is in its body, so it holds every stack of its path, d among them
  have hqh : (S.comp d).pc q = .hold := by
    unfold Held at hheld
    cases hc : S.ctl q with
    | body n reg =>
      simp only [hc] at hheld
      obtain ⟨j, hj⟩ := List.getElem?_of_mem hdq
      have hjn : j < (S.path q).length := by
        cases hlt : decide (j < (S.path q).length) with
        | true => exact of_decide_eq_true hlt
        | false =>
          have : (S.path q).length ≤ j := Nat.le_of_not_lt (of_decide_eq_false hlt)
          rw [List.getElem?_eq_none this] at hj; cases hj
      exact hheld.2 j d (by omega) hj
    | acq k => simp [hc, inBodyM] at hq
    | unw a b c => simp [hc, inBodyM] at hq
    | rel a b c e => simp [hc, inBodyM] at hq
    | fin o => simp [hc, inBodyM] at hq
  exact hinv.excl p q hpq hh hqh hnr (Or.inl hk)

/-- non-vacuity: X locks stacks [0,1] exclusively and is in its body; Y (path [1,0]) announced itself on stack 1,
saw X, withdrew and gave up; nothing of Y is left on either stack. -/
example :
    let S := mrun (minit (fun _ => .ex) (fun _ => none) (fun _ => 0)
        (fun i => if i = 0 then [0, 1] else [1, 0]) (fun _ => true))
      [0, 0, 0, 0, 0, 0, 1, 1, 1, 1, 1, 1, 1, 1, 1]
    inBodyM (S.ctl 0) = true ∧ S.ctl 1 = .fin (.failedAcq .runtime) ∧
    (S.comp 0).files = [(.ex, 0)] ∧ (S.comp 1).files = [(.ex, 0)] := by decide

/-- Several stacks, every configuration and schedule: a stack no process is engaged with holds no lock directory and
no lock file. -/
theorem C09_path_no_residue_per_stack (kind : Pid → Kind) (lp : Pid → Option Pid) (tries : Pid → Nat)
    (path : Pid → List Dir) (explicit : Pid → Bool) (sched : List Pid) (d : Dir)
    (hq : ∀ i, engaged (((mrun (minit kind lp tries path explicit) sched).comp d).pc i) = false) :
    ((mrun (minit kind lp tries path explicit) sched).comp d).dir = false ∧
    ((mrun (minit kind lp tries path explicit) sched).comp d).files = [] := by
  obtain ⟨sd, hsd⟩ := C09_path_projection kind lp tries path explicit sched d
  rw [hsd] at hq ⊢
  exact C09_no_residue kind lp tries sd hq

end EupsModel.C09
