import EupsModel.Lemmas.LockEx
/-! C09 — exclusive database locks exclude every other holder under all interleavings.

Property theorems only.  Model: `Model/Lock.lean` (one transition = one file-system call of one process, in the
order `lock.py` issues them).  Helper lemmas: `Lemmas/LockStep.lean`, `Lemmas/LockEx.lean`.

The property as stated — `Mutex` in every reachable state, for every configuration and schedule — is FALSE of the
protocol (`C09_mutex_false`, from three concrete races, the known findings D12a/b/c).  What is proved instead is
stated below with its hypothesis named. -/
namespace EupsModel.C09
open EupsModel.Lock

/-- The property's first sentence, as stated: in every reachable state of every configuration. -/
def MutexAlways : Prop :=
  ∀ (kind : Pid → Kind) (lp : Pid → Option Pid) (tries : Pid → Nat) (sched : List Pid),
    Mutex (run (init kind lp tries) sched)

/-! ### exclusive requesters only (hypothesis: every request is exclusive and nobody re-enters a parent's lock) -/

/-- Any number of updaters, any `ntry`, every interleaving of their file-system calls: never two of them between the
return of `takeLocks` and the call of `giveLocks`, and `Mutex` holds. -/
theorem C09_mutex_exclusive_only (kind : Pid → Kind) (lp : Pid → Option Pid) (tries : Pid → Nat)
    (hk : ∀ i, kind i = .ex) (hl : ∀ i, lp i = none) (sched : List Pid) :
    (∀ i j, (run (init kind lp tries) sched).pc i = .hold → (run (init kind lp tries) sched).pc j = .hold → i = j)
    ∧ Mutex (run (init kind lp tries) sched) := by
  have h := exInv_run _ (exInv_init kind lp tries hk hl) sched
  refine ⟨fun i j hi hj => h.uniq i j (by simp [hi, inside]) (by simp [hj, inside]), ?_⟩
  intro i j hij _ hi _
  cases hb : inBody ((run (init kind lp tries) sched).pc j) with
  | false => rfl
  | true =>
    have hj : (run (init kind lp tries) sched).pc j = .hold ∨ (run (init kind lp tries) sched).pc j = .unlocked := by
      cases hpc : (run (init kind lp tries) sched).pc j <;> simp_all [inBody]
    cases hj with
    | inl hj => exact absurd (h.uniq i j (by simp [hi, inside]) (by simp [hj, inside])) hij
    | inr hj => exact absurd hj (h.noSh j).2.2

/-- ... and they leave nothing behind: when none of them is inside, the directory and the files are gone. -/
theorem C09_no_residue_exclusive_only (kind : Pid → Kind) (lp : Pid → Option Pid) (tries : Pid → Nat)
    (hk : ∀ i, kind i = .ex) (hl : ∀ i, lp i = none) (sched : List Pid)
    (hq : ∀ i, inside ((run (init kind lp tries) sched).pc i) = false) :
    (run (init kind lp tries) sched).dir = false ∧ (run (init kind lp tries) sched).files = [] := by
  have h := exInv_run _ (exInv_init kind lp tries hk hl) sched
  constructor
  · cases hd : (run (init kind lp tries) sched).dir with
    | false => rfl
    | true => obtain ⟨i, hi⟩ := h.dirIff.mp hd; rw [hq i] at hi; exact absurd hi (by simp)
  · exact h.filesN (fun i => not_hasFile_of_not_inside (hq i))

/-- non-vacuity: three updaters with two attempts each; one of them holds, one has been refused for good -/
example :
    let s := run (init (fun _ => .ex) (fun _ => none) (fun _ => 1)) [0, 0, 0, 1, 1, 1, 1, 1, 1, 2]
    s.pc 0 = .hold ∧ s.pc 1 = .failedAcq .runtime ∧ s.pc 2 = .scanAll 1 := by decide

/-! ### the three races: the full statement is false -/

def kinds (l : List Kind) : Pid → Kind := fun i => l.getD i .sh
def noParent : Pid → Option Pid := fun _ => none
def once : Pid → Nat := fun _ => 0

/-- D12a, scan before create (two processes): E `mkdir`; S `mkdir` (EEXIST), `exists`, scan — no exclusive file
yet; E scan; S create; E create: an exclusive and a shared holder together. -/
theorem C09_scan_before_create_witness :
    let s := run (init (kinds [.ex, .sh]) noParent once) [0, 1, 1, 1, 0, 1, 0]
    s.pc 0 = .hold ∧ s.pc 1 = .hold ∧ s.kind 0 = .ex ∧ ¬ related s 0 1 := by decide

/-- D12b, stale `rmdir` (three processes): E₁ `mkdir`; S acquires and releases completely while E₁ has not yet
created its file, counts 0 files and removes E₁'s directory; E₀'s `mkdir` succeeds; both scan, both create:
two exclusive holders. -/
theorem C09_stale_rmdir_witness :
    let s := run (init (kinds [.ex, .ex, .sh]) noParent once) [1, 2, 2, 2, 2, 2, 2, 2, 2, 2, 2, 0, 1, 0, 0, 1]
    s.pc 0 = .hold ∧ s.pc 1 = .hold ∧ s.kind 0 = .ex ∧ s.kind 1 = .ex ∧ ¬ related s 0 1 := by decide

/-- D12c, "proceeding with trepidation": S₀ `mkdir` (EEXIST) while S₁ holds; S₁ releases and removes the directory;
S₀'s `exists` answers False and S₀ runs its command without a lock while E₂ acquires an exclusive one. -/
theorem C09_trepidation_witness :
    let s := run (init (kinds [.sh, .sh, .ex]) noParent once) [1, 1, 1, 1, 0, 1, 1, 1, 1, 1, 0, 2, 2, 2]
    s.pc 2 = .hold ∧ s.kind 2 = .ex ∧ s.pc 0 = .unlocked ∧ ¬ related s 2 0 := by decide

/-- With re-entry even exclusive requesters alone race: C (child of P) passes the parent test while P holds; P
releases and removes the directory; X's `mkdir` succeeds; C and X scan before either creates.  So the hypothesis
"nobody re-enters" of `C09_mutex_exclusive_only` cannot be dropped. -/
theorem C09_exclusive_reentry_race_witness :
    let s := run (init (fun _ => .ex) (fun i => if i = 1 then some 0 else none) once)
      [0, 0, 0, 1, 1, 0, 0, 0, 0, 0, 0, 2, 1, 2, 1, 2]
    s.pc 1 = .hold ∧ s.pc 2 = .hold ∧ s.kind 1 = .ex ∧ ¬ related s 1 2 := by decide

/-- The property as stated is false of the protocol. -/
theorem C09_mutex_false : ¬ MutexAlways := by
  intro h
  have hm := h (kinds [.ex, .sh]) noParent once [0, 1, 1, 1, 0, 1, 0]
  have w := C09_scan_before_create_witness
  exact absurd (hm 0 1 (by decide) w.2.2.2 w.1 w.2.2.1) (by rw [w.2.1]; decide)

end EupsModel.C09
