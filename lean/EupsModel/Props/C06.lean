/-! C06 — property theorems (placeholder until the model exists). -/
