import EupsModel.Lemmas.CacheInv
import EupsModel.Lemmas.DbFile
import EupsModel.Lemmas.OnePlace
import EupsModel.Lemmas.OnePlaceAt
/-! C06 — the database reflects exactly the history of declare / undeclare / tag operations.
Property theorems only; the model is `Model/Db.lean` (commands) under `Model/Cache.lean` (histories of
processes: every command reads through the product cache it loads), helper lemmas in `Lemmas/`.

A *history* is any list of `WCmd`: commands of any user and flavor, each optionally killed right after its
k-th `Database` mutation, and cache-file deletions.  `runHistory (World.init nst dirs tfs) h` is the state after
it; `.db` is what a fresh reader of the files sees. -/
namespace EupsModel.C06
open EupsModel.Db EupsModel.Cache EupsModel.DbFile

/-- the invariant of the database content holds after every history (crashes and cache deletions included;
also for the pinned write-through, `fixed = false`) -/
theorem dbInv_history (fixed : Bool) (nst : Nat) (dirs : List DirEnt) (tfs : List TFile) (h : List WCmd) :
    DbInv (h.foldl (fun w c => (stepG fixed w c).w) (World.init nst dirs tfs)).db := by
  suffices ∀ w : World, DbInv w.db → DbInv (h.foldl (fun w c => (stepG fixed w c).w) w).db from
    this _ dbInv_empty
  induction h with
  | nil => intro w hw; exact hw
  | cons c cs ih => intro w hw; exact ih _ (step_preserves DbInv (fun _ e hc => hc.apply e) fixed w c hw)

/-- After any history no tag points at an undeclared version: every tag record of a stack names a
(name, version, flavor) that the same stack declares. -/
theorem C06_no_dangling_tag (nst : Nat) (dirs : List DirEnt) (tfs : List TFile) (h : List WCmd) :
    ∀ r ∈ (runHistory (World.init nst dirs tfs) h).db.tags,
      ∃ d ∈ (runHistory (World.init nst dirs tfs) h).db.decls,
        d.stack = r.stack ∧ d.name = r.name ∧ d.ver = r.ver ∧ d.flav = r.flav := by
  intro r hr
  have := (dbInv_history true nst dirs tfs h).nd r hr
  rw [Spec.hasDecl_iff] at this
  obtain ⟨d, hd, hk⟩ := this
  exact ⟨d, hd, Decl.hasKey_iff.mp hk⟩

/-- After any history, within a stack a tag names at most one version per product and flavor, and a
(name, version, flavor) is declared at most once (one directory, one table). -/
theorem C06_tag_unique_in_stack (nst : Nat) (dirs : List DirEnt) (tfs : List TFile) (h : List WCmd) :
    (∀ r ∈ (runHistory (World.init nst dirs tfs) h).db.tags, ∀ q ∈ (runHistory (World.init nst dirs tfs) h).db.tags,
        r.stack = q.stack → r.tag = q.tag → r.name = q.name → r.flav = q.flav → r = q) ∧
    (∀ d ∈ (runHistory (World.init nst dirs tfs) h).db.decls, ∀ e ∈ (runHistory (World.init nst dirs tfs) h).db.decls,
        d.stack = e.stack → d.name = e.name → d.ver = e.ver → d.flav = e.flav → d = e) := by
  have ku := (dbInv_history true nst dirs tfs h).ku
  exact ⟨fun r hr q hq h1 h2 h3 h4 => ku.tag r hr q hq (TagRec.sameKey_iff.mpr ⟨h1, h2, h3, h4⟩),
         fun d hd e he h1 h2 h3 h4 => ku.decl d hd e he (Decl.sameKey_iff.mpr ⟨h1, h2, h3, h4⟩)⟩

/-- Frame.  A command on (name, version, flavor, tag) — run from any state, by any user, killed anywhere or
not — leaves every declaration of another product, flavor or version as it was, in every stack, other flavors
in the same version file included (`Cmd.fpVer`: `declare` touches its version only; `undeclare` the version
given, or any version of the product when none is given; the tag commands none), and every tag record of
another product or flavor, and those of the same product and flavor that neither carry the command's tag
(`Cmd.fpTag`: the tag given; `current` for a `declare` without tag) nor sit on a version the command may
change. -/
theorem C06_frame (w : World) (u : User) (c : Cmd) (crash : Option Nat) :
    (∀ x : Decl, ¬ (x.name = c.name ∧ x.flav = c.self ∧ c.fpVer x.ver) →
        (x ∈ (step w (.run u c crash)).db.decls ↔ x ∈ w.db.decls)) ∧
    (∀ r : TagRec, ¬ (r.name = c.name ∧ r.flav = c.self ∧ (c.fpTag r.tag ∨ c.fpVer r.ver)) →
        (r ∈ (step w (.run u c crash)).db.tags ↔ r ∈ w.db.tags)) := by
  obtain ⟨m, dirs, ex, es, hs, he⟩ := step_db true w u c crash
  have hok : ∀ e ∈ es, Within c.name c.self c.fpVer c.fpTag e := by
    intro e hes
    exact run_trOK w.nst c ⟨w.db, m, dirs, [], ex, w.tfiles⟩ (by intro e h; simp at h) e (hs.subset hes)
  unfold step
  rw [he]
  clear he hs
  generalize w.db = d
  constructor
  · intro x hx
    induction es generalizing d with
    | nil => exact Iff.rfl
    | cons e es ih =>
      have hfalse : e.touchesDecl x = false := by
        cases ht : e.touchesDecl x with
        | false => rfl
        | true => exact absurd ((hok e (by simp)).touchesDecl ht) hx
      simp only [List.foldl_cons]
      exact (ih (fun e' h' => hok e' (by simp [h'])) _).trans (applyDb_frame_decl e d x hfalse)
  · intro r hr
    induction es generalizing d with
    | nil => exact Iff.rfl
    | cons e es ih =>
      have hfalse : e.touchesTag r = false := by
        cases ht : e.touchesTag r with
        | false => rfl
        | true => exact absurd ((hok e (by simp)).touchesTag ht) hr
      simp only [List.foldl_cons]
      exact (ih (fun e' h' => hok e' (by simp [h'])) _).trans (applyDb_frame_tag e d r hfalse)

/-- deleting a cache file changes nothing in the database -/
theorem C06_frame_rmCache (w : World) (u : User) (s : Nat) (f : Flav) : (step w (.rmCache u s f)).db = w.db := rfl

/-- **A refused command changes nothing.**  Whenever a command ends with `EupsException` — a conflicting
redeclaration without force, a directory or table file that is not there, several versions to choose from —
the database, the modification time of every record and the installation directories are exactly what they
were, from every state, for every user, killed or not. -/
theorem C06_refused_redeclare_is_noop (w : World) (u : User) (c : Cmd) (crash : Option Nat)
    (h : (stepG true w (.run u c crash)).out = .refused) :
    (step w (.run u c crash)).db = w.db ∧ (step w (.run u c crash)).dirs = w.dirs ∧
      (step w (.run u c crash)).touch = w.touch := by
  apply step_of_empty_run
  intro m hm
  rw [run_refused w.nst c _ (hm ▸ h)]

/-- **A conflicting redeclaration without force is refused.**  After any history, `declare name version dir`
(no tag, no force; `dir` exists with its table file in a stack of the path) of a (name, version, flavor) that
the files of that stack declare with another directory ends with `EupsException` — and by the theorem above
changes nothing. -/
theorem C06_conflicting_redeclare_refused (nst : Nat) (dirs : List DirEnt) (tfs : List TFile) (h : List WCmd) (u : User)
    (a : DeclareArgs) (d : Dir) (o : Decl)
    (hdir : a.dir = some d) (htag : a.tag = none) (htn : a.table = .dflt) (hstack : a.stack = none)
    (hforce : a.force = false) (hroot : d.root < nst)
    (hex : (runHistory (World.init nst dirs tfs) h).dirs.any (fun e => e.dir == d && e.tname == a.name) = true)
    (hold : (runHistory (World.init nst dirs tfs) h).db.findDecl d.root a.name a.ver a.self = some o)
    (hdiff : o.dir ≠ d) :
    (stepG true (runHistory (World.init nst dirs tfs) h) (.run u (.declare a) none)).out = .refused := by
  have hinv := history_inv nst dirs tfs h
  have hn : (runHistory (World.init nst dirs tfs) h).nst = nst := history_nst _ h
  generalize runHistory (World.init nst dirs tfs) h = w at hinv hn hex hold
  obtain ⟨m, held, hv, hfb, _, hout, _⟩ := step_run_sub hinv u (.declare a)
  rw [hout]
  simp only [run]
  have hde : (⟨w.db, m, w.dirs, [], w.extras, w.tfiles⟩ : Proc).dirExists d = true := by
    simp only [Proc.dirExists, List.any_eq_true] at hex ⊢
    obtain ⟨e, he, hk⟩ := hex
    simp only [Bool.and_eq_true] at hk
    exact ⟨e, he, hk.1⟩
  have hres := resolveDeclare_explicit (nst := w.nst) (p := ⟨w.db, m, w.dirs, [], w.extras, w.tfiles⟩) hdir htag htn hstack hde hex
    (hn ▸ hroot)
  have hag : AgreeOnN m w.db d.root a.self a.name :=
    hv d.root (hn ▸ hroot) a.self (hfb d.root (hn ▸ hroot) a.self (by simp [fallbacks, Cmd.self])) a.name
  have hmem : (⟨w.db, m, w.dirs, [], w.extras, w.tfiles⟩ : Proc).mem = m := rfl
  have hfind : m.findDecl d.root a.name a.ver a.self = some o := by
    rw [findDecl_agree hag hinv.dbinv.ku]; exact hold
  have ho := findDecl_some hfind
  have hnotfirst : declareTag w.nst a m = none := by
    unfold declareTag
    rw [htag]
    dsimp only
    have := findProducts_ne_nil (m := m) (nst := w.nst) (self := a.self) (n := a.name) ho.1
      (by rw [ho.2.1, hn]; exact hroot) ho.2.2.1 ho.2.2.2.2
    cases hl : findProducts m w.nst a.self a.name none (allStacks w.nst) with
    | nil => exact absurd hl this
    | cons _ _ => rfl
  rw [declare_conflict_refused hres (by rw [hmem]; exact hfind) hforce (by rw [hmem]; exact hnotfirst)
    (Or.inl hdiff)]

/-- what is on disk besides the database records, as a command finds it: installation directories, extra files,
table files kept elsewhere (what `Proc.fileContent` and `Proc.tableContent` look at; the view plays no part) -/
def onDisk (w : World) : Proc := ⟨w.db, Spec.empty, w.dirs, [], w.extras, w.tfiles⟩

/-- **A redeclaration with another table file is refused.**  After any history, `declare name version dir -m path`
(no tag, no force; `dir` exists in a stack of the path; `path` is a table file kept elsewhere, with content `c`) of a
(name, version, flavor) that the files of that stack declare with a table file of other content — or with none, or
with one that is not there any more — ends with `EupsException`, and by `C06_refused_redeclare_is_noop` changes
nothing.  (A table given as a stream is NOT compared: D39.) -/
theorem C06_conflicting_table_refused (nst : Nat) (dirs : List DirEnt) (tfs : List TFile) (h : List WCmd) (u : User)
    (a : DeclareArgs) (d q : Dir) (c : Nat) (o : Decl)
    (hdir : a.dir = some d) (htag : a.tag = none) (htn : a.table = .path q) (hstack : a.stack = none)
    (hforce : a.force = false) (hroot : d.root < nst)
    (hex : (runHistory (World.init nst dirs tfs) h).dirs.any (fun e => e.dir == d) = true)
    (hq : underUpsDb d.root q = false)
    (hold : (runHistory (World.init nst dirs tfs) h).db.findDecl d.root a.name a.ver a.self = some o)
    (hc : (onDisk (runHistory (World.init nst dirs tfs) h)).fileContent q = some c)
    (hdiff : (onDisk (runHistory (World.init nst dirs tfs) h)).tableContent o ≠ some c) :
    (stepG true (runHistory (World.init nst dirs tfs) h) (.run u (.declare a) none)).out = .refused := by
  have hinv := history_inv nst dirs tfs h
  have hn : (runHistory (World.init nst dirs tfs) h).nst = nst := history_nst _ h
  generalize runHistory (World.init nst dirs tfs) h = w at hinv hn hex hold hc hdiff
  obtain ⟨m, held, hv, hfb, _, hout, _⟩ := step_run_sub hinv u (.declare a)
  rw [hout]
  simp only [run]
  have hres := resolveDeclare_explicit_path (nst := w.nst) (p := ⟨w.db, m, w.dirs, [], w.extras, w.tfiles⟩) hdir htag htn hstack
    hex (hn ▸ hroot) hq hc
  have hag : AgreeOnN m w.db d.root a.self a.name :=
    hv d.root (hn ▸ hroot) a.self (hfb d.root (hn ▸ hroot) a.self (by simp [fallbacks, Cmd.self])) a.name
  have hmem : (⟨w.db, m, w.dirs, [], w.extras, w.tfiles⟩ : Proc).mem = m := rfl
  have hfind : m.findDecl d.root a.name a.ver a.self = some o := by
    rw [findDecl_agree hag hinv.dbinv.ku]; exact hold
  have ho := findDecl_some hfind
  have hnotfirst : declareTag w.nst a m = none := by
    unfold declareTag
    rw [htag]
    dsimp only
    have := findProducts_ne_nil (m := m) (nst := w.nst) (self := a.self) (n := a.name) ho.1
      (by rw [ho.2.1, hn]; exact hroot) ho.2.2.1 ho.2.2.2.2
    cases hl : findProducts m w.nst a.self a.name none (allStacks w.nst) with
    | nil => exact absurd hl this
    | cons _ _ => rfl
  rw [declare_conflict_refused hres (by rw [hmem]; exact hfind) hforce (by rw [hmem]; exact hnotfirst)
    (Or.inr ⟨c, rfl, hdiff⟩)]

/-- **Undeclaring a version removes it and every tag on it.**  After any history, when `undeclare` of a
version (not the tag-only form, not a dry run, not killed) succeeds: the version it acted on — the one given,
when one is given — was declared in the files of a stack, and afterwards neither that declaration nor any tag
pointing at it is in the files of that stack. -/
theorem C06_undeclare_removes_tags (nst : Nat) (dirs : List DirEnt) (tfs : List TFile) (h : List WCmd) (u : User) (a : UndeclareArgs)
    (hna : a.noaction = false) (hform : a.tag = none ∨ a.versionAndTag = true)
    (hok : (stepG true (runHistory (World.init nst dirs tfs) h) (.run u (.undeclare a) none)).out = .ok) :
    ∃ s v, (∀ v', a.ver = some v' → v = v') ∧
      (runHistory (World.init nst dirs tfs) h).db.hasDecl s a.name v a.self = true ∧
      (step (runHistory (World.init nst dirs tfs) h) (.run u (.undeclare a) none)).db.hasDecl s a.name v a.self = false ∧
      ∀ r ∈ (step (runHistory (World.init nst dirs tfs) h) (.run u (.undeclare a) none)).db.tags,
        ¬ (r.stack = s ∧ r.name = a.name ∧ r.flav = a.self ∧ r.ver = v) := by
  have hinv := history_inv nst dirs tfs h
  generalize runHistory (World.init nst dirs tfs) h = w at hinv hok
  obtain ⟨m, _, hout, hdb⟩ := step_run hinv u (.undeclare a)
  rw [hout] at hok
  unfold step
  rw [hdb]
  obtain ⟨s, v, h1, h2, h3, h4⟩ := undeclare_ok (nst := w.nst) (a := a) (p := ⟨w.db, m, w.dirs, [], w.extras, w.tfiles⟩) hok hna hform
  refine ⟨s, v, h1, h2, h3, ?_⟩
  intro r hr hp
  have := h4 r hr
  rw [TagRec.pointsAt_iff.mpr hp] at this
  cases this

/-- **The first version ever declared of a product becomes current.**  After any history, when `declare`
without a tag (not a dry run, not killed) of a product of which the files hold no declaration at all — any
stack, any flavor — succeeds, the version is declared in a stack and `current` names it there. -/
theorem C06_first_version_current (nst : Nat) (dirs : List DirEnt) (tfs : List TFile) (h : List WCmd) (u : User) (a : DeclareArgs)
    (htag : a.tag = none) (hna : a.noaction = false)
    (hfirst : ∀ d ∈ (runHistory (World.init nst dirs tfs) h).db.decls, d.name ≠ a.name)
    (hok : (stepG true (runHistory (World.init nst dirs tfs) h) (.run u (.declare a) none)).out = .ok) :
    ∃ s, (step (runHistory (World.init nst dirs tfs) h) (.run u (.declare a) none)).db.tagVer s current a.name a.self
          = some a.ver ∧
        (step (runHistory (World.init nst dirs tfs) h) (.run u (.declare a) none)).db.hasDecl s a.name a.ver a.self = true := by
  have hinv := history_inv nst dirs tfs h
  generalize runHistory (World.init nst dirs tfs) h = w at hinv hok hfirst
  obtain ⟨m, _, _, _, hsub, hout, hdb⟩ := step_run_sub hinv u (.declare a)
  rw [hout] at hok
  unfold step
  rw [hdb]
  have hcur : declareTag w.nst a (⟨w.db, m, w.dirs, [], w.extras, w.tfiles⟩ : Proc).mem = some current := by
    show declareTag w.nst a m = some current
    unfold declareTag
    rw [htag]
    dsimp only
    cases hl : findProducts m w.nst a.self a.name none (allStacks w.nst) with
    | nil => rfl
    | cons x xs =>
      exfalso
      have := mem_findProducts (show x ∈ findProducts m w.nst a.self a.name none (allStacks w.nst) by rw [hl]; simp)
      exact hfirst x (hsub x this.1) this.2
  obtain ⟨r, _, h1, h2⟩ := declare_ok_tag (nst := w.nst) (a := a) (p := ⟨w.db, m, w.dirs, [], w.extras, w.tfiles⟩) hok hna hcur
  exact ⟨r.target, h1, h2⟩

/-- **Assigning a tag makes it name the version, in the stack of the version** (`declare -t`).  After any
history, when `declare` with tag `t` (not a dry run, not killed) succeeds, the version is declared in a stack
and `t` names it there — whatever `t` named before in that stack (within a stack a tag names one version:
`C06_tag_unique_in_stack`). -/
theorem C06_last_assignment_wins (nst : Nat) (dirs : List DirEnt) (tfs : List TFile) (h : List WCmd) (u : User) (a : DeclareArgs)
    (t : Tag) (htag : a.tag = some t) (hna : a.noaction = false)
    (hok : (stepG true (runHistory (World.init nst dirs tfs) h) (.run u (.declare a) none)).out = .ok) :
    ∃ s, (step (runHistory (World.init nst dirs tfs) h) (.run u (.declare a) none)).db.tagVer s t a.name a.self
          = some a.ver ∧
        (step (runHistory (World.init nst dirs tfs) h) (.run u (.declare a) none)).db.hasDecl s a.name a.ver a.self = true := by
  have hinv := history_inv nst dirs tfs h
  generalize runHistory (World.init nst dirs tfs) h = w at hinv hok
  obtain ⟨m, _, hout, hdb⟩ := step_run hinv u (.declare a)
  rw [hout] at hok
  unfold step
  rw [hdb]
  have ht : declareTag w.nst a (⟨w.db, m, w.dirs, [], w.extras, w.tfiles⟩ : Proc).mem = some t := by
    show declareTag w.nst a m = some t
    unfold declareTag; rw [htag]
  obtain ⟨r, _, h1, h2⟩ := declare_ok_tag (nst := w.nst) (a := a) (p := ⟨w.db, m, w.dirs, [], w.extras, w.tfiles⟩) hok hna ht
  exact ⟨r.target, h1, h2⟩

/-- the same for a direct `Eups.assignTag` -/
theorem C06_last_assignment_wins_assignTag (nst : Nat) (dirs : List DirEnt) (tfs : List TFile) (h : List WCmd) (u : User)
    (f : Flav) (t : Tag) (n : Name) (v : Ver) (st : Option Nat)
    (hok : (stepG true (runHistory (World.init nst dirs tfs) h) (.run u (.assignTag f t n v st) none)).out = .ok) :
    ∃ s, (step (runHistory (World.init nst dirs tfs) h) (.run u (.assignTag f t n v st) none)).db.tagVer s t n f = some v ∧
        (step (runHistory (World.init nst dirs tfs) h) (.run u (.assignTag f t n v st) none)).db.hasDecl s n v f = true := by
  have hinv := history_inv nst dirs tfs h
  generalize runHistory (World.init nst dirs tfs) h = w at hinv hok
  obtain ⟨m, _, hout, hdb⟩ := step_run hinv u (.assignTag f t n v st)
  rw [hout] at hok
  unfold step
  rw [hdb]
  obtain ⟨s, _, h1, h2⟩ := assignTag_ok (f := f) (t := t) (n := n) (v := v) (stacks := stacksOf w.nst st)
    (p := ⟨w.db, m, w.dirs, [], w.extras, w.tfiles⟩) hok
  exact ⟨s, h1, h2⟩

/-- **A tag is one designation on the whole path** (`C06_tag_unique_on_path_partial`; hypotheses: no direct
`Eups.assignTag` in the history — D32 —, no `declare` killed half way, stack arguments on the path; undeclare,
unassignTag, remove may be killed anywhere, caches deleted anywhere).  After such a history every (tag, product,
flavor) is assigned in at most one stack: `declare -t` really *moves* the tag, whichever stacks held it. -/
theorem C06_tag_unique_on_path_partial (nst : Nat) (hn : 0 < nst) (dirs : List DirEnt) (tfs : List TFile) (h : List WCmd)
    (hp : ∀ c ∈ h, Plain nst c) :
    ∀ r ∈ (runHistory (World.init nst dirs tfs) h).db.tags, ∀ q ∈ (runHistory (World.init nst dirs tfs) h).db.tags,
      r.tag = q.tag → r.name = q.name → r.flav = q.flav → r = q := by
  intro r hr q hq h1 h2 h3
  have hs := (history_onePlace nst hn dirs tfs h hp).1 r hr q hq h1 h2 h3
  exact (dbInv_history true nst dirs tfs h).ku.tag r hr q hq (TagRec.sameKey_iff.mpr ⟨hs, h1, h2, h3⟩)

/-- **Resolving the tag yields the version it was last assigned to** (path-wide; same hypotheses).  After a plain
history, when `declare` with tag `t` (not a dry run, not killed, stack argument on the path) succeeds, whatever
stack `findTaggedProduct` answers from over the whole path, it answers the version just declared. -/
theorem C06_resolves_to_last_assignment_partial (nst : Nat) (hn : 0 < nst) (dirs : List DirEnt) (tfs : List TFile) (h : List WCmd)
    (hp : ∀ c ∈ h, Plain nst c) (u : User) (a : DeclareArgs) (t : Tag) (htag : a.tag = some t)
    (hna : a.noaction = false) (hstack : ∀ s, a.stack = some s → s < nst)
    (hok : (stepG true (runHistory (World.init nst dirs tfs) h) (.run u (.declare a) none)).out = .ok)
    (d : Decl)
    (hd : (step (runHistory (World.init nst dirs tfs) h) (.run u (.declare a) none)).db.findTagged (allStacks nst)
            a.name t a.self = some d) :
    d.ver = a.ver := by
  obtain ⟨s, hs, _⟩ := C06_last_assignment_wins nst dirs tfs h u a t htag hna hok
  have hplain : ∀ c ∈ h ++ [.run u (.declare a) none], Plain nst c := by
    intro c hc
    rcases List.mem_append.mp hc with hc | hc
    · exact hp c hc
    · simp only [List.mem_singleton] at hc; subst hc; exact ⟨rfl, hstack⟩
  have huniq := C06_tag_unique_on_path_partial nst hn dirs tfs (h ++ [.run u (.declare a) none]) hplain
  have hrun : runHistory (World.init nst dirs tfs) (h ++ [.run u (.declare a) none])
      = step (runHistory (World.init nst dirs tfs) h) (.run u (.declare a) none) := by
    simp [runHistory, List.foldl_append]
  rw [hrun] at huniq
  obtain ⟨r1, hr1, k1⟩ := Spec.tagVer_some hs
  obtain ⟨r2, hr2, k2⟩ := Spec.tagVer_some (findTagged_tagVer hd)
  have := huniq r1 hr1 r2 hr2 (k1.2.1.trans k2.2.1.symm) (k1.2.2.1.trans k2.2.2.1.symm)
    (k1.2.2.2.1.trans k2.2.2.2.1.symm)
  rw [← k2.2.2.2.2, ← this, k1.2.2.2.2]

/-- **A tag is one designation on the whole path — under the weakest hypotheses the proof needs** (round 3;
`C06_tag_unique_on_path_partial` is the special case `Plain`).  `PlainHist w h`: every command of `h` is admitted in
the world it starts from (`PlainAt`): a direct `Eups.assignTag` only while the (tag, product, flavor) is assigned
nowhere but in the stack the command names (nowhere when it names none) — the complement of D32's class; a `declare`
killed half way only while the tag it would assign (the one given, else `current`) is assigned nowhere — the
complement of the kill window of `C06_tag_unique_on_path_crash_witness`; stack arguments on the path.  Direct
assignments of fresh tags (`eups distrib install --tag` of a first version) and killed declarations of new products
are thereby covered.  Both conditions are needed: the two negation witnesses violate exactly them. -/
theorem C06_tag_unique_on_path_at_partial (nst : Nat) (hn : 0 < nst) (dirs : List DirEnt) (tfs : List TFile)
    (h : List WCmd) (hp : PlainHist (World.init nst dirs tfs) h) :
    ∀ r ∈ (runHistory (World.init nst dirs tfs) h).db.tags, ∀ q ∈ (runHistory (World.init nst dirs tfs) h).db.tags,
      r.tag = q.tag → r.name = q.name → r.flav = q.flav → r = q := by
  intro r hr q hq h1 h2 h3
  have hs := (history_onePlaceAt nst hn dirs tfs h hp).1 r hr q hq h1 h2 h3
  exact (dbInv_history true nst dirs tfs h).ku.tag r hr q hq (TagRec.sameKey_iff.mpr ⟨hs, h1, h2, h3⟩)

/-- `PlainHist` of a history followed by one more command -/
theorem plainHist_append {w : World} {h : List WCmd} {c : WCmd} (hp : PlainHist w h)
    (hc : PlainAt (h.foldl step w) c) : PlainHist w (h ++ [c]) := by
  induction h generalizing w with
  | nil => exact ⟨hc, trivial⟩
  | cons x xs ih => exact ⟨hp.1, ih hp.2 hc⟩

/-- **Resolving the tag yields the version it was last assigned to** (path-wide), under the weakened hypotheses:
after an admitted history, when `declare` with tag `t` (not a dry run, not killed, stack argument on the path)
succeeds, whatever stack `findTaggedProduct` answers from over the whole path, it answers the version just declared. -/
theorem C06_resolves_to_last_assignment_at_partial (nst : Nat) (hn : 0 < nst) (dirs : List DirEnt) (tfs : List TFile)
    (h : List WCmd) (hp : PlainHist (World.init nst dirs tfs) h) (u : User) (a : DeclareArgs) (t : Tag)
    (htag : a.tag = some t) (hna : a.noaction = false) (hstack : ∀ s, a.stack = some s → s < nst)
    (hok : (stepG true (runHistory (World.init nst dirs tfs) h) (.run u (.declare a) none)).out = .ok)
    (d : Decl)
    (hd : (step (runHistory (World.init nst dirs tfs) h) (.run u (.declare a) none)).db.findTagged (allStacks nst)
            a.name t a.self = some d) :
    d.ver = a.ver := by
  obtain ⟨s, hs, _⟩ := C06_last_assignment_wins nst dirs tfs h u a t htag hna hok
  have hfold : ∀ (l : List WCmd) (w : World), (l.foldl step w).nst = w.nst := by
    intro l
    induction l with
    | nil => intro w; rfl
    | cons c cs ih => intro w; simp only [List.foldl_cons]; exact (ih _).trans (step_nst w c)
  have hnst : (runHistory (World.init nst dirs tfs) h).nst = nst := hfold h _
  have hplain : PlainHist (World.init nst dirs tfs) (h ++ [.run u (.declare a) none]) :=
    plainHist_append hp ⟨by rw [show List.foldl step (World.init nst dirs tfs) h = runHistory (World.init nst dirs tfs) h from rfl, hnst]; exact hstack, Or.inl rfl⟩
  have huniq := C06_tag_unique_on_path_at_partial nst hn dirs tfs (h ++ [.run u (.declare a) none]) hplain
  have hrun : runHistory (World.init nst dirs tfs) (h ++ [.run u (.declare a) none])
      = step (runHistory (World.init nst dirs tfs) h) (.run u (.declare a) none) := by
    simp [runHistory, List.foldl_append]
  rw [hrun] at huniq
  obtain ⟨r1, hr1, k1⟩ := Spec.tagVer_some hs
  obtain ⟨r2, hr2, k2⟩ := Spec.tagVer_some (findTagged_tagVer hd)
  have := huniq r1 hr1 r2 hr2 (k1.2.1.trans k2.2.1.symm) (k1.2.2.1.trans k2.2.2.1.symm)
    (k1.2.2.2.1.trans k2.2.2.2.1.symm)
  rw [← k2.2.2.2.2, ← this, k1.2.2.2.2]

/-- non-vacuity: a history with a direct `assignTag` of a tag that is assigned nowhere, and a `declare -t` of another
fresh tag killed right after its first `Database` mutation, is admitted (neither is `Plain`) -/
example :
    let p : Name := [112]; let L : Flav := [76]; let stable : Tag := [115]; let beta : Tag := [98]
    let dirs : List DirEnt := [⟨⟨0, relDir L p [49]⟩, p⟩, ⟨⟨1, relDir L p [50]⟩, p⟩]
    let c1 : WCmd := .run 0 (.declare ⟨L, p, [49], some ⟨0, relDir L p [49]⟩, none, .dflt, none, false, false, []⟩) none
    let c2 : WCmd := .run 0 (.assignTag L stable p [49] none) none
    let c3 : WCmd := .run 0 (.declare ⟨L, p, [50], some ⟨1, relDir L p [50]⟩, none, .dflt, some beta, false, false, []⟩) (some 1)
    PlainHist (World.init 2 dirs) [c1, c2, c3] ∧ ¬ Plain 2 c2 ∧ ¬ Plain 2 c3 := by
  refine ⟨⟨⟨?_, Or.inl rfl⟩, ⟨?_, ?_⟩, ⟨?_, Or.inr ?_⟩, trivial⟩, by simp [Plain], by simp [Plain]⟩
  · intro s hs; cases hs
  · intro s hs; cases hs
  · decide
  · intro s hs; cases hs
  · decide

/-- **D32 (open).**  Path-wide, "resolving the tag yields the version it was last assigned to" is false for a
direct `Eups.assignTag`: `declare p 1 -t stable` in stack 0, `declare p 2` in stack 1, `assignTag stable p 2`:
the tag is now in both stacks and the first stack on the path still answers `1`. -/
theorem C06_assign_tag_other_stack_witness :
    let p : Name := [112]; let L : Flav := [76]; let stable : Tag := [115]
    let dirs : List DirEnt := [⟨⟨0, relDir L p [49]⟩, p⟩, ⟨⟨1, relDir L p [50]⟩, p⟩]
    let w := runHistory (World.init 2 dirs)
      [.run 0 (.declare ⟨L, p, [49], some ⟨0, relDir L p [49]⟩, none, .dflt, some stable, false, false, []⟩) none,
       .run 0 (.declare ⟨L, p, [50], some ⟨1, relDir L p [50]⟩, none, .dflt, none, false, false, []⟩) none,
       .run 0 (.assignTag L stable p [50] none) none]
    (w.db.findTagged (allStacks 2) p stable L).map (·.ver) = some [49] ∧
    w.db.tagVer 0 stable p L = some [49] ∧ w.db.tagVer 1 stable p L = some [50] := by decide

/-- **Refinement: the record files read back as the abstract database**, after every history.
`runHistoryF` performs the history on version files (one block per flavor, the directory stored relative to
the stack) and chain files (flavor ↦ version), creating a file with its first block and removing it with its
last, by what `Database.declare / undeclare / assignTag / unassignTag` do to them (`DbFile.applyF`).  At every
point: the files are well formed (one file per key, one block per flavor, no empty file), the world reached is
the one of `runHistory`, and `abs` of the files holds exactly the declarations and tags of its database. -/
theorem C06_refines (nst : Nat) (dirs : List DirEnt) (tfs : List TFile) (h : List WCmd) :
    (runHistoryF nst dirs h tfs).2 = runHistory (World.init nst dirs tfs) h ∧
    WFF (runHistoryF nst dirs h tfs).1 ∧
    SameContent (DbFile.abs (runHistoryF nst dirs h tfs).1) (runHistory (World.init nst dirs tfs) h).db := by
  unfold runHistoryF runHistory
  suffices ∀ (F : FileDb) (w : World), WFF F → SameContent (DbFile.abs F) w.db → CacheInv w →
      (h.foldl stepF (F, w)).2 = h.foldl step w ∧ WFF (h.foldl stepF (F, w)).1 ∧
      SameContent (DbFile.abs (h.foldl stepF (F, w)).1) (h.foldl step w).db from
    this _ _ wff_empty (SameContent.refl _) (cacheInv_init nst dirs tfs)
  induction h with
  | nil => intro F w hF hc _; exact ⟨rfl, hF, hc⟩
  | cons c cs ih =>
    intro F w hF hc hinv
    simp only [List.foldl_cons]
    have hstep : stepF (F, w) c = ((stepG true w c).trace.foldl (fun F e => applyF e F) F, step w c) := rfl
    rw [hstep]
    obtain ⟨h1, h2⟩ := foldl_applyF_sim (stepG true w c).trace hF hc hinv.dbinv
    refine ih _ _ h1 ?_ (step_inv hinv c)
    unfold step
    rw [stepG_db_trace w hinv.dbinv c]
    exact h2

/-- **Reads on the files equal reads on the abstract database**, after every history: `Database.findProduct`
(is (name, version, flavor) declared in the stack, with which directory and table), the tagged version of a
chain file, and the listings (`findProducts`, `getTagAssignments`: membership in `abs`). -/
theorem C06_refines_reads (nst : Nat) (dirs : List DirEnt) (tfs : List TFile) (h : List WCmd) (s : Nat) (n : Name) (v : Ver) (f : Flav)
    (t : Tag) :
    DbFile.findProduct (runHistoryF nst dirs h tfs).1 s n v f = (runHistory (World.init nst dirs tfs) h).db.findDecl s n v f ∧
    (DbFile.abs (runHistoryF nst dirs h tfs).1).tagVer s t n f = (runHistory (World.init nst dirs tfs) h).db.tagVer s t n f ∧
    (∀ d, d ∈ (DbFile.abs (runHistoryF nst dirs h tfs).1).decls ↔ d ∈ (runHistory (World.init nst dirs tfs) h).db.decls) ∧
    (∀ r, r ∈ (DbFile.abs (runHistoryF nst dirs h tfs).1).tags ↔ r ∈ (runHistory (World.init nst dirs tfs) h).db.tags) := by
  obtain ⟨_, hwf, hsame⟩ := C06_refines nst dirs tfs h
  have hku := (history_inv nst dirs tfs h).dbinv.ku
  exact ⟨(findProduct_eq hwf s n v f).trans (hsame.findDecl hku s n v f), hsame.tagVer hku s t n f, hsame.1, hsame.2⟩

/-! ### the hypotheses are satisfiable / the statements are not vacuous -/

/-- `declare p 1` in stack 0 then `declare p 2 -t beta`: two declarations and two tags come out, so the
quantifiers above range over something -/
example :
    let p : Name := [112]; let L : Flav := [76]; let beta : Tag := [98]
    let dirs : List DirEnt := [⟨⟨0, relDir L p [49]⟩, p⟩, ⟨⟨0, relDir L p [50]⟩, p⟩]
    let w := runHistory (World.init 2 dirs)
      [.run 0 (.declare ⟨L, p, [49], some ⟨0, relDir L p [49]⟩, none, .dflt, none, false, false, []⟩) none,
       .run 0 (.declare ⟨L, p, [50], some ⟨0, relDir L p [50]⟩, none, .dflt, some beta, false, false, []⟩) none]
    (w.db.decls.length, w.db.tags.length) = (2, 2) := by decide

/-- the hypotheses of `C06_conflicting_redeclare_refused`, `C06_refused_redeclare_is_noop`,
`C06_undeclare_removes_tags`, `C06_first_version_current` and `C06_last_assignment_wins` are met by concrete
commands: after `declare p 1 <dir1>` (first version: ok), `declare p 1 <dir2>` is refused, `declare p 2 <dir2>
-t beta` and `undeclare p 1` succeed -/
example :
    let p : Name := [112]; let L : Flav := [76]; let beta : Tag := [98]
    let d1 : Dir := ⟨0, relDir L p [49]⟩; let d2 : Dir := ⟨0, relDir L p [50]⟩
    let dirs : List DirEnt := [⟨d1, p⟩, ⟨d2, p⟩]
    let first : WCmd := .run 0 (.declare ⟨L, p, [49], some d1, none, .dflt, none, false, false, []⟩) none
    let w := runHistory (World.init 2 dirs) [first]
    (stepG true (World.init 2 dirs) first).out = .ok ∧
    (stepG true w (.run 0 (.declare ⟨L, p, [49], some d2, none, .dflt, none, false, false, []⟩) none)).out = .refused ∧
    w.db.findDecl 0 p [49] L = some ⟨0, p, [49], L, d1, .default⟩ ∧
    (stepG true w (.run 0 (.declare ⟨L, p, [50], some d2, none, .dflt, some beta, false, false, []⟩) none)).out = .ok ∧
    (stepG true w (.run 0 (.undeclare ⟨L, p, some [49], none, none, false, false, false, none⟩) none)).out = .ok := by decide

/-- two flavors share one version file and one chain file; undeclaring one flavor leaves the other's blocks -/
example :
    let p : Name := [112]; let L : Flav := [76]
    let dirs : List DirEnt := [⟨⟨0, relDir L p [49]⟩, p⟩, ⟨⟨0, relDir generic p [49]⟩, p⟩]
    let h : List WCmd :=
      [.run 0 (.declare ⟨L, p, [49], some ⟨0, relDir L p [49]⟩, none, .dflt, none, false, false, []⟩) none,
       .run 0 (.declare ⟨generic, p, [49], some ⟨0, relDir generic p [49]⟩, none, .dflt, none, false, false, []⟩) none]
    let F := (runHistoryF 1 dirs h).1
    let F' := (runHistoryF 1 dirs (h ++ [.run 0 (.undeclare ⟨L, p, some [49], none, none, false, false, false, none⟩) none])).1
    (F.vfiles.map (fun x => x.recs.map (·.flav)), F.cfiles.map (fun x => x.recs.map (·.flav)),
     F'.vfiles.map (fun x => x.recs.map (·.flav)), F'.cfiles.map (fun x => x.recs.map (·.flav)))
      = ([[L, generic]], [[L, generic]], [[generic]], [[generic]]) := by decide

/-- the hypotheses of `C06_conflicting_table_refused` are met, and a table given as a stream escapes the comparison
(D39): after `declare p 1 <dir1>` (the table of the directory, content 0), `declare p 1 <dir1> -m t` with a table file
`t` of content 1 kept elsewhere is refused; the same table given as a stream is answered ok, leaves the record as it
was and saves the stream as an extra file; a streamed table IS compared — as an external file — once the extra
directory exists -/
theorem C06_streamed_table_not_compared_witness :
    let p : Name := [112]; let L : Flav := [76]
    let d1 : Dir := ⟨0, relDir L p [49]⟩
    let t : Dir := ⟨0, [116]⟩
    let dirs : List DirEnt := [⟨d1, p⟩]
    let w := runHistory (World.init 1 dirs [⟨t, 1⟩]) [.run 1 (.declare ⟨L, p, [49], some d1, none, .dflt, none, false, false, []⟩) none]
    let byPath := stepG true w (.run 1 (.declare ⟨L, p, [49], some d1, none, .path t, none, false, false, []⟩) none)
    let byStream := stepG true w (.run 1 (.declare ⟨L, p, [49], some d1, none, .stream 1, none, false, false, []⟩) none)
    let again := stepG true byStream.w (.run 1 (.declare ⟨L, p, [49], some d1, none, .stream 2, none, false, false, []⟩) none)
    ((onDisk w).fileContent t = some 1 ∧ (onDisk w).tableContent ⟨0, p, [49], L, d1, .default⟩ = some 0 ∧
      underUpsDb 0 t = false ∧ byPath.out = .refused) ∧
    (byStream.out = .ok ∧ byStream.w.db = w.db ∧ byStream.w.extras = [⟨0, L, p, [49], tablePathOf p, 1⟩]) ∧
    again.out = .refused := by decide

/-- **D38 (open).**  `declare p 1 <dir1> -M` (the table as a stream, content 1: interned), then `declare p 2 <dir2> -m
<the interned table of p 1>`: the path lies below `ups_db` of the stack, so it is taken for the interned table of p 2
itself; the command answers ok, the files declare p 2 with an interned table, and there is no such file — while the
file that was named exists and has content 1. -/
theorem C06_interned_table_dangling_witness :
    let p : Name := [112]; let L : Flav := [76]
    let d1 : Dir := ⟨0, relDir L p [49]⟩; let d2 : Dir := ⟨0, relDir L p [50]⟩
    let dirs : List DirEnt := [⟨d1, p⟩, ⟨d2, p⟩]
    let w := runHistory (World.init 1 dirs) [.run 1 (.declare ⟨L, p, [49], some d1, none, .stream 1, none, false, false, []⟩) none]
    let r := stepG true w (.run 1 (.declare ⟨L, p, [50], some d2, none, .path (internedLoc 0 L p [49]), none, false, false, []⟩) none)
    (onDisk w).fileContent (internedLoc 0 L p [49]) = some 1 ∧ r.out = .ok ∧
    r.w.db.findDecl 0 p [50] L = some ⟨0, p, [50], L, d2, .interned⟩ ∧
    (onDisk r.w).tableContent ⟨0, p, [50], L, d2, .interned⟩ = none := by decide

/-- **D44 (open).**  The outcome of a command can depend on the state of the cache.  `declare p 2` for Linux and for
generic; the environment says `p 2 -f Linux` is set up in stack 0; a generic process undeclares `p 2`.  With its cache
files in place the process reads the generic flavor only, does not find the set-up Linux version and undeclares; with
the generic cache file deleted the stack is rebuilt from the database, holds every flavor, the set-up version is
found and the command is refused — the database files being the same in both cases. -/
theorem C06_setup_foreign_flavor_cache_dependent_witness :
    let p : Name := [112]; let L : Flav := [76]
    let dL : Dir := ⟨0, relDir L p [50]⟩; let dG : Dir := ⟨0, relDir generic p [50]⟩
    let dirs : List DirEnt := [⟨dL, p⟩, ⟨dG, p⟩]
    let w := runHistory (World.init 1 dirs)
      [.run 1 (.declare ⟨L, p, [50], some dL, none, .dflt, none, false, false, []⟩) none,
       .run 1 (.declare ⟨generic, p, [50], some dG, none, .dflt, none, false, false, []⟩) none]
    let w' := step w (.rmCache 1 0 generic)
    let cmd : WCmd := .run 1 (.undeclare ⟨generic, p, some [50], none, none, false, false, false, some ([50], L, 0)⟩) none
    w'.db = w.db ∧ (stepG true w cmd).out = .ok ∧ (stepG true w' cmd).out = .refused := by decide

/-- a plain history in which a tag really moves between stacks: `declare p 1 <dir in stack 0> -t beta`, then
`declare p 2 <dir in stack 1> -t beta`: afterwards `beta` is in stack 1 only.  Killed right after its
`Database.declare` (which writes the tag of the new version), the second command leaves `beta` in both stacks:
the hypothesis "no `declare` killed half way" of `C06_tag_unique_on_path_partial` is needed. -/
theorem C06_tag_unique_on_path_crash_witness :
    let p : Name := [112]; let L : Flav := [76]; let beta : Tag := [98]
    let dirs : List DirEnt := [⟨⟨0, relDir L p [49]⟩, p⟩, ⟨⟨1, relDir L p [50]⟩, p⟩]
    let c1 : Cmd := .declare ⟨L, p, [49], some ⟨0, relDir L p [49]⟩, none, .dflt, some beta, false, false, []⟩
    let c2 : Cmd := .declare ⟨L, p, [50], some ⟨1, relDir L p [50]⟩, none, .dflt, some beta, false, false, []⟩
    let whole := runHistory (World.init 2 dirs) [.run 0 c1 none, .run 0 c2 none]
    let killed := runHistory (World.init 2 dirs) [.run 0 c1 none, .run 0 c2 (some 1)]
    (whole.db.tags.filter (fun r => r.tag == beta)).map (·.stack) = [1] ∧
    ((killed.db.tags.filter (fun r => r.tag == beta)).map (·.stack)).length = 2 ∧
    Plain 2 (.run 0 c1 none) ∧ Plain 2 (.run 0 c2 none) := by
  refine ⟨by decide, by decide, ⟨rfl, ?_⟩, ⟨rfl, ?_⟩⟩ <;> intro s hs <;> cases hs

end EupsModel.C06
