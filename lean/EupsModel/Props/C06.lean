import EupsModel.Lemmas.Cache
/-! C06 — the database reflects exactly the history of declare / undeclare / tag operations.
Property theorems only; the model is `Model/Db.lean` (commands) under `Model/Cache.lean` (histories of
processes: every command reads through the product cache it loads), helper lemmas in `Lemmas/`.

A *history* is any list of `WCmd`: commands of any user and flavor, each optionally killed right after its
k-th `Database` mutation, and cache-file deletions.  `runHistory (World.init nst dirs) h` is the state after
it; `.db` is what a fresh reader of the files sees. -/
namespace EupsModel.C06
open EupsModel.Db EupsModel.Cache

/-- the invariant of the database content holds after every history (crashes and cache deletions included;
also for the pinned write-through, `fixed = false`) -/
theorem dbInv_history (fixed : Bool) (nst : Nat) (dirs : List DirEnt) (h : List WCmd) :
    DbInv (h.foldl (fun w c => (stepG fixed w c).w) (World.init nst dirs)).db := by
  suffices ∀ w : World, DbInv w.db → DbInv (h.foldl (fun w c => (stepG fixed w c).w) w).db from
    this _ dbInv_empty
  induction h with
  | nil => intro w hw; exact hw
  | cons c cs ih => intro w hw; exact ih _ (step_preserves DbInv (fun _ e hc => hc.apply e) fixed w c hw)

/-- After any history no tag points at an undeclared version: every tag record of a stack names a
(name, version, flavor) that the same stack declares. -/
theorem C06_no_dangling_tag (nst : Nat) (dirs : List DirEnt) (h : List WCmd) :
    ∀ r ∈ (runHistory (World.init nst dirs) h).db.tags,
      ∃ d ∈ (runHistory (World.init nst dirs) h).db.decls,
        d.stack = r.stack ∧ d.name = r.name ∧ d.ver = r.ver ∧ d.flav = r.flav := by
  intro r hr
  have := (dbInv_history true nst dirs h).nd r hr
  rw [Spec.hasDecl_iff] at this
  obtain ⟨d, hd, hk⟩ := this
  exact ⟨d, hd, Decl.hasKey_iff.mp hk⟩

/-- After any history, within a stack a tag names at most one version per product and flavor, and a
(name, version, flavor) is declared at most once (one directory, one table). -/
theorem C06_tag_unique_in_stack (nst : Nat) (dirs : List DirEnt) (h : List WCmd) :
    (∀ r ∈ (runHistory (World.init nst dirs) h).db.tags, ∀ q ∈ (runHistory (World.init nst dirs) h).db.tags,
        r.stack = q.stack → r.tag = q.tag → r.name = q.name → r.flav = q.flav → r = q) ∧
    (∀ d ∈ (runHistory (World.init nst dirs) h).db.decls, ∀ e ∈ (runHistory (World.init nst dirs) h).db.decls,
        d.stack = e.stack → d.name = e.name → d.ver = e.ver → d.flav = e.flav → d = e) := by
  have ku := (dbInv_history true nst dirs h).ku
  exact ⟨fun r hr q hq h1 h2 h3 h4 => ku.tag r hr q hq (TagRec.sameKey_iff.mpr ⟨h1, h2, h3, h4⟩),
         fun d hd e he h1 h2 h3 h4 => ku.decl d hd e he (Decl.sameKey_iff.mpr ⟨h1, h2, h3, h4⟩)⟩

/-- Frame.  A command on (name, version, flavor, tag) — run from any state, by any user, killed anywhere or
not — leaves every declaration of another product, flavor or version as it was, in every stack, other flavors
in the same version file included (`Cmd.fpVer`: `declare` touches its version only; `undeclare` the version
given, or any version of the product when none is given; the tag commands none), and every tag record of
another product or flavor, and those of the same product and flavor that neither carry the command's tag
(`Cmd.fpTag`: the tag given; `current` for a `declare` without tag) nor sit on a version the command may
change. -/
theorem C06_frame (w : World) (u : User) (c : Cmd) (crash : Option Nat) :
    (∀ x : Decl, ¬ (x.name = c.name ∧ x.flav = c.self ∧ c.fpVer x.ver) →
        (x ∈ (step w (.run u c crash)).db.decls ↔ x ∈ w.db.decls)) ∧
    (∀ r : TagRec, ¬ (r.name = c.name ∧ r.flav = c.self ∧ (c.fpTag r.tag ∨ c.fpVer r.ver)) →
        (r ∈ (step w (.run u c crash)).db.tags ↔ r ∈ w.db.tags)) := by
  obtain ⟨m, dirs, es, hs, he⟩ := step_db true w u c crash
  have hok : ∀ e ∈ es, Within c.name c.self c.fpVer c.fpTag e := by
    intro e hes
    exact run_trOK w.nst c ⟨w.db, m, dirs, []⟩ (by intro e h; simp at h) e (hs.subset hes)
  unfold step
  rw [he]
  clear he hs
  generalize w.db = d
  constructor
  · intro x hx
    induction es generalizing d with
    | nil => exact Iff.rfl
    | cons e es ih =>
      have hfalse : e.touchesDecl x = false := by
        cases ht : e.touchesDecl x with
        | false => rfl
        | true => exact absurd ((hok e (by simp)).touchesDecl ht) hx
      simp only [List.foldl_cons]
      exact (ih (fun e' h' => hok e' (by simp [h'])) _).trans (applyDb_frame_decl e d x hfalse)
  · intro r hr
    induction es generalizing d with
    | nil => exact Iff.rfl
    | cons e es ih =>
      have hfalse : e.touchesTag r = false := by
        cases ht : e.touchesTag r with
        | false => rfl
        | true => exact absurd ((hok e (by simp)).touchesTag ht) hr
      simp only [List.foldl_cons]
      exact (ih (fun e' h' => hok e' (by simp [h'])) _).trans (applyDb_frame_tag e d r hfalse)

/-- deleting a cache file changes nothing in the database -/
theorem C06_frame_rmCache (w : World) (u : User) (s : Nat) (f : Flav) : (step w (.rmCache u s f)).db = w.db := rfl

/-! ### the hypotheses are satisfiable / the statements are not vacuous -/

/-- `declare p 1` in stack 0 then `declare p 2 -t beta`: two declarations and two tags come out, so the
quantifiers above range over something -/
example :
    let p : Name := [112]; let L : Flav := [76]; let beta : Tag := [98]
    let dirs : List DirEnt := [⟨⟨0, relDir L p [49]⟩, p⟩, ⟨⟨0, relDir L p [50]⟩, p⟩]
    let w := runHistory (World.init 2 dirs)
      [.run 0 (.declare ⟨L, p, [49], some ⟨0, relDir L p [49]⟩, none, false, none, false, false⟩) none,
       .run 0 (.declare ⟨L, p, [50], some ⟨0, relDir L p [50]⟩, none, false, some beta, false, false⟩) none]
    (w.db.decls.length, w.db.tags.length) = (2, 2) := by decide

end EupsModel.C06
