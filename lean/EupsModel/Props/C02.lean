import EupsModel.Model.Setup
/-! C02 — unsetup is the inverse of setup; a failing request leaves the environment as it found it.
Model: `EupsModel/Model/Setup.lean` (shared with C01, C04). -/
namespace EupsModel.C02
open EupsModel EupsModel.Setup

/-! ## clause 2: a failing request hands nothing to the shell -/

/-- `eups.app.setup`: when `Eups.setup` does not succeed, the command list is `["false"]` or an exception
(or, in the model only, out-of-fuel) leaves the function: no `export`, `unset` or function definition is emitted —
for every database, request, direction, prior environment and fuel. -/
theorem C02_failed_request_emits_nothing (db : Db) (fuel : Nat) (fwd : Bool) (r : Request) (e : Setup.Env)
    (hfail : ∀ s, (if fwd then runSetup db fuel r e else runUnsetup db fuel r e) ≠ .ok s) :
    appSetup db fuel fwd r e = .cmds [.false_] ∨ appSetup db fuel fwd r e = .raised ∨
    appSetup db fuel fwd r e = .fuel := by
  unfold appSetup
  cases h : (if fwd then runSetup db fuel r e else runUnsetup db fuel r e) with
  | ok s => exact absurd h (hfail s)
  | notFound s => simp
  | raised s => simp
  | fuel => simp

/-- … and inside a request: when a dependency fails (`setupOptional`, or any dependency while unwinding), the
remaining actions of the table run from exactly the environment and aliases that were current before the attempt
(`popStack("env")`); what the failed attempt did to `os.environ` and to the alias table is discarded. -/
theorem C02_failed_dependency_restores_env (rec : Rec) (cfg : Cfg) (fwd : Bool) (depth : Nat) (vro : List VroEnt)
    (d : Decl) (n : Name) (opt just : Bool) (ver : Option VerReq) (vexpr : Option VExpr) (rest : List Act)
    (s s' : St) (hgo : cfg.maxDepth ≠ some depth) (hopt : fwd = false ∨ opt = true)
    (hfail : rec fwd (depth + 1) just (if VroEnt.keep ∈ vro then VroEnt.keep :: vro else vro) n
        (if fwd then ver else none) (if fwd then vexpr else none) s = .notFound s' ∨
      rec fwd (depth + 1) just (if VroEnt.keep ∈ vro then VroEnt.keep :: vro else vro) n
        (if fwd then ver else none) (if fwd then vexpr else none) s = .raised s') :
    acts rec cfg fwd depth false vro d (.dep n opt just ver vexpr :: rest) s =
      acts rec cfg fwd depth false vro d rest { s' with env := s.env, aliases := s.aliases, unaliased := s.unaliased } := by
  have hcond : (fwd && !opt) = false := by rcases hopt with h | h <;> simp [h]
  rcases hfail with h | h <;> simp [acts, hgo, h, hcond]

/-- a failing *required* dependency aborts the request with the environment it had before the attempt -/
theorem C02_failed_required_dependency_raises (rec : Rec) (cfg : Cfg) (depth : Nat) (vro : List VroEnt)
    (d : Decl) (n : Name) (just : Bool) (ver : Option VerReq) (vexpr : Option VExpr) (rest : List Act)
    (s s' : St) (hgo : cfg.maxDepth ≠ some depth)
    (hfail : rec true (depth + 1) just (if VroEnt.keep ∈ vro then VroEnt.keep :: vro else vro) n ver vexpr s = .notFound s' ∨
      rec true (depth + 1) just (if VroEnt.keep ∈ vro then VroEnt.keep :: vro else vro) n ver vexpr s = .raised s') :
    acts rec cfg true depth false vro d (.dep n false just ver vexpr :: rest) s = .raised { s' with env := s.env, aliases := s.aliases, unaliased := s.unaliased } := by
  rcases hfail with h | h <;> simp [acts, hgo, h]

/-! ## clause 1 is false as stated: two witnesses (design limits of eups, findings D15a / D15b) -/

def nA : Name := [97]
def v1 : Ver := [49]
def PATH : Str := [80]
def V : Str := [86]
def reqA : Request := ⟨nA, none, false, none, false, []⟩

/-- `a 1`: `envSet(V, ${PRODUCT_DIR})`, `envPrepend(PATH, ${PRODUCT_DIR}/bin)` -/
def dbA : Db :=
  { decls := [⟨nA, v1, [47, 97], [(.always, .set V (.own [])), (.always, .prepend PATH (.own [47, 98]) false)]⟩],
    tags := [(tagCurrent, nA, v1)] }

/-- setup then unsetup, both successful -/
def roundTrip (db : Db) (r : Request) (e0 : Setup.Env) : Option Setup.Env :=
  match runSetup db 10 r e0 with
  | .ok s1 => (match runUnsetup db 10 r s1.env with
    | .ok s2 => some s2.env
    | _ => none)
  | _ => none

/-- D15a: `V` was defined before; `envSet(V, …)` and its unsetup leave it unset -/
def priorA : Setup.Env := { Setup.Env.empty with vars := [(V, .foreign [111, 108, 100])] }
/-- D15b: `PATH` already held the element the table contributes -/
def priorB : Setup.Env := { Setup.Env.empty with paths := [(PATH, [.foreign [47, 117], .own (nA, v1) [47, 98]])] }

theorem C02_inverse_not_full_envSet :
    ∃ e2, roundTrip dbA reqA priorA = some e2 ∧ ¬ e2.approx priorA := by
  refine ⟨⟨[], [], [(PATH, [])], []⟩, by decide +kernel, ?_⟩
  intro h
  have := h.2.2.2 V
  revert this
  decide +kernel

theorem C02_inverse_not_full_contained :
    ∃ e2, roundTrip dbA reqA priorB = some e2 ∧ ¬ e2.approx priorB := by
  refine ⟨⟨[], [], [(PATH, [.foreign [47, 117]])], []⟩, by decide +kernel, ?_⟩
  intro h
  have := h.2.2.1 PATH
  revert this
  decide +kernel

end EupsModel.C02
