/-! C02 — property theorems (placeholder until the model exists). -/
