import EupsModel.Lemmas.SetupInverse
import EupsModel.Lemmas.SetupClear
import EupsModel.Lemmas.SetupShell
import EupsModel.Model.SetupEmit
/-! C02 — unsetup is the inverse of setup; a failing request leaves the environment as it found it.
Model: `EupsModel/Model/Setup.lean` (shared with C01, C04). -/
namespace EupsModel.C02
open EupsModel EupsModel.Setup

/-! ## clause 2: a failing request hands nothing to the shell -/

/-- `eups.app.setup`: when `Eups.setup` does not succeed, the command list is `["false"]` or an exception
(or, in the model only, out-of-fuel) leaves the function: no `export`, `unset` or function definition is emitted —
for every database, request, direction, prior environment and fuel. -/
theorem C02_failed_request_emits_nothing (db : Db) (fuel : Nat) (fwd : Bool) (r : Request) (e : Setup.Env)
    (hfail : ∀ s, (if fwd then runSetup db fuel r e else runUnsetup db fuel r e) ≠ .ok s) :
    appSetup db fuel fwd r e = .cmds [.false_] ∨ appSetup db fuel fwd r e = .raised ∨
    appSetup db fuel fwd r e = .fuel := by
  unfold appSetup
  cases h : (if fwd then runSetup db fuel r e else runUnsetup db fuel r e) with
  | ok s => exact absurd h (hfail s)
  | notFound s => simp
  | raised s => simp
  | fuel => simp

/-- … and when `Eups.setup` itself answers "not found" (unknown product or version; unsetup of a product that is not set
up) the in-process environment, aliases included, is exactly the one it was given — every database, flag, fuel.  (When a
*required dependency* fails the exception leaves a half-built `os.environ` behind in the process — observation in
DESIGN §7 — but nothing is emitted: previous theorem.) -/
theorem C02_notfound_leaves_environment (db : Db) (fuel : Nat) (fwd : Bool) (r : Request) (e : Setup.Env) (s' : St)
    (h : (if fwd then runSetup db fuel r e else runUnsetup db fuel r e) = .notFound s') :
    s'.env = e ∧ s'.aliases = [] ∧ s'.unaliased = [] := by
  cases fwd with
  | true =>
    have := setup_notFound_unchanged _ _ _ _ _ _ _ _ _ _ _ h
    subst this; exact ⟨rfl, rfl, rfl⟩
  | false =>
    have := setup_notFound_unchanged _ _ _ _ _ _ _ _ _ _ _ h
    subst this; exact ⟨rfl, rfl, rfl⟩

/-- the VRO a dependency line is resolved with (`Action.processArgs`): its own `-t` tags in front of the current VRO,
"keep" in front of everything when the current VRO has it or the line carries `-k` -/
def lineVro (vro : List VroEnt) (tags : List Str) (keepLine : Bool) : List VroEnt :=
  if VroEnt.keep ∈ vro ∨ keepLine = true then VroEnt.keep :: (tags.map VroEnt.tag ++ vro) else tags.map VroEnt.tag ++ vro

/-- … and inside a request: when a dependency fails (`setupOptional`, or any dependency while unwinding), the
remaining actions of the table run from exactly the environment and aliases that were current before the attempt
(`popStack("env")`); what the failed attempt did to `os.environ` and to the alias table is discarded. -/
theorem C02_failed_dependency_restores_env (rec : Rec) (cfg : Cfg) (fwd : Bool) (depth : Nat) (vro : List VroEnt)
    (d : Decl) (n : Name) (opt just : Bool) (ver : Option VerReq) (vexpr : Option VExpr) (tags : List Str) (kl : Bool)
    (rest : List Act) (s s' : St) (hgo : cfg.maxDepth ≠ some depth) (hopt : fwd = false ∨ opt = true)
    (hfail : rec fwd (depth + 1) just (lineVro vro tags kl) n
        (if fwd then ver else none) (if fwd then vexpr else none) s = .notFound s' ∨
      rec fwd (depth + 1) just (lineVro vro tags kl) n
        (if fwd then ver else none) (if fwd then vexpr else none) s = .raised s') :
    acts rec cfg fwd depth false vro d (.dep n opt just ver vexpr tags kl :: rest) s =
      acts rec cfg fwd depth false vro d rest (⟨s.env, s.aliases, s.unaliased, s'.already, s'.cache⟩ : St) := by
  have hcond : (fwd && !opt) = false := by rcases hopt with h | h <;> simp [h]
  unfold lineVro at hfail
  rcases hfail with h | h <;> simp [acts, hgo, h, hcond]

/-- a failing *required* dependency aborts the request with the environment it had before the attempt -/
theorem C02_failed_required_dependency_raises (rec : Rec) (cfg : Cfg) (depth : Nat) (vro : List VroEnt)
    (d : Decl) (n : Name) (just : Bool) (ver : Option VerReq) (vexpr : Option VExpr) (tags : List Str) (kl : Bool)
    (rest : List Act) (s s' : St) (hgo : cfg.maxDepth ≠ some depth)
    (hfail : rec true (depth + 1) just (lineVro vro tags kl) n ver vexpr s = .notFound s' ∨
      rec true (depth + 1) just (lineVro vro tags kl) n ver vexpr s = .raised s') :
    acts rec cfg true depth false vro d (.dep n false just ver vexpr tags kl :: rest) s = .raised (⟨s.env, s.aliases, s.unaliased, s'.already, s'.cache⟩ : St) := by
  unfold lineVro at hfail
  rcases hfail with h | h <;> simp [acts, hgo, h]

/-- the same two facts for the recursion itself (`rec := setup cfg fuel`, every fuel), at every depth of the traversal: a
dependency that fails — `setupOptional` going forward, any dependency while unwinding; "not found" or an exception from
anywhere below, e.g. a missing *required* dependency further down — leaves no trace in the environment, the aliases or
the marks for `unset -f`: the rest of the table runs from what was there before the attempt -/
theorem C02_failed_optional_no_trace (cfg : Cfg) (fuel : Nat) (fwd : Bool) (depth : Nat) (vro : List VroEnt)
    (d : Decl) (n : Name) (opt just : Bool) (ver : Option VerReq) (vexpr : Option VExpr) (tags : List Str) (kl : Bool)
    (rest : List Act) (s : St) (hgo : cfg.maxDepth ≠ some depth) (hopt : fwd = false ∨ opt = true)
    (hfail : ∀ s1, setup cfg fuel fwd (depth + 1) just (lineVro vro tags kl) n
        (if fwd then ver else none) (if fwd then vexpr else none) s ≠ .ok s1)
    (hfuel : setup cfg fuel fwd (depth + 1) just (lineVro vro tags kl) n
        (if fwd then ver else none) (if fwd then vexpr else none) s ≠ .fuel) :
    ∃ al ca, acts (setup cfg fuel) cfg fwd depth false vro d (.dep n opt just ver vexpr tags kl :: rest) s =
      acts (setup cfg fuel) cfg fwd depth false vro d rest (⟨s.env, s.aliases, s.unaliased, al, ca⟩ : St) := by
  cases hr : setup cfg fuel fwd (depth + 1) just (lineVro vro tags kl) n
      (if fwd then ver else none) (if fwd then vexpr else none) s with
  | ok s1 => exact absurd hr (hfail s1)
  | fuel => exact absurd hr hfuel
  | notFound s1 =>
    exact ⟨s1.already, s1.cache, C02_failed_dependency_restores_env (setup cfg fuel) cfg fwd depth vro d n opt just ver vexpr
      tags kl rest s s1 hgo hopt (Or.inl hr)⟩
  | raised s1 =>
    exact ⟨s1.already, s1.cache, C02_failed_dependency_restores_env (setup cfg fuel) cfg fwd depth vro d n opt just ver vexpr
      tags kl rest s s1 hgo hopt (Or.inr hr)⟩

/-! ## clause 2 at the caller's shell: what `eval $(eups_setup …)` leaves behind

`Shell` (`Lemmas/SetupShell.lean`): the caller's variables and functions as lookups; `Emitted.apply`: the commands are
evaluated (`export`, `unset`, function definition, `unset -f`; `false` changes nothing), an exception emits nothing. -/

/-- **A setup request that fails leaves the environment exactly as it found it**: whatever makes `Eups.setup` not succeed
— unknown product or version, a missing required dependency at any depth, an exception from below, unsetup of a product
that is not set up (in the model also: out of fuel) — the caller's shell, variables and functions, is unchanged.  Every
database, request, direction, prior environment, fuel. -/
theorem C02_failed_request_leaves_shell (db : Db) (fuel : Nat) (fwd : Bool) (r : Request) (e : Setup.Env)
    (hfail : ∀ s, (if fwd then runSetup db fuel r e else runUnsetup db fuel r e) ≠ .ok s) (sh : Shell) :
    (appSetup db fuel fwd r e).apply sh = sh := by
  rcases C02_failed_request_emits_nothing db fuel fwd r e hfail with h | h | h <;> rw [h] <;> rfl

/-- … and at the level of the text `eups_setup` prints (`Model/SetupEmit.lean`: `Setup.delta` rendered by C05's emitter): a
request that fails prints exactly `false`, or nothing at all (an exception) — no `export`, `unset` or function text,
whatever the layout of the stacks. -/
theorem C02_failed_request_text (db : Db) (L : SetupEmit.Layout) (fuel : Nat) (fwd : Bool) (r : Request) (e : Setup.Env)
    (hfail : ∀ s, (if fwd then runSetup db fuel r e else runUnsetup db fuel r e) ≠ .ok s) :
    SetupEmit.emitSh db L (appSetup db fuel fwd r e) = some [ShellEmit.sFalse] ∨
    SetupEmit.emitSh db L (appSetup db fuel fwd r e) = none := by
  rcases C02_failed_request_emits_nothing db fuel fwd r e hfail with h | h | h <;> rw [h]
  · left; rfl
  · right; rfl
  · right; rfl

/-- … and a request that succeeds hands the shell exactly the environment `Eups.setup` computed: from the shell that holds
the environment eups was started in (and any functions `f`), after the emitted commands every `SETUP_` record, `<P>_DIR`,
path variable and `envSet` variable is defined with the computed value or undefined as computed; the functions are those
of `Eups.aliases`, minus the ones marked for `unset -f`.  (The glue between `Eups.setup` and the emission loop of
`eups.app.setup`; C05 owns the text level.)  Every database, request, direction, prior environment, fuel. -/
theorem C02_commands_realise_environment (db : Db) (fuel : Nat) (fwd : Bool) (r : Request) (e : Setup.Env) (s : St)
    (f : Str → Option Str) (h : (if fwd then runSetup db fuel r e else runUnsetup db fuel r e) = .ok s) :
    let sh := (appSetup db fuel fwd r e).apply (Shell.of e f)
    (∀ n, sh.recs n = s.env.rec? n) ∧ (∀ n, sh.dirs n = aget s.env.dirs n) ∧
    (∀ var, sh.paths var = aget s.env.paths var) ∧ (∀ var, sh.vars var = aget s.env.vars var) ∧
    (∀ k, sh.funcs k = match aget s.aliases k with
      | some v => some v
      | none => if k ∈ s.unaliased then none else f k) := by
  have hnd : AliasND s := by
    have h0 : AliasND (St.init e) := by simp [AliasND, St.init]
    cases fwd with
    | true => exact setup_aliasND (r.cfg db) fuel true 0 false r.vro r.name r.version none (St.init e) s h0 (by
        have : runSetup db fuel r e = .ok s := h
        unfold runSetup at this; rw [this]; rfl)
    | false => exact setup_aliasND (r.cfg db) fuel false 0 false r.vro r.name none none (St.init e) s h0 (by
        have : runUnsetup db fuel r e = .ok s := h
        unfold runUnsetup at this; rw [this]; rfl)
  have : appSetup db fuel fwd r e = .cmds (delta e s) := by unfold appSetup; rw [h]
  rw [this]
  exact runCmds_delta e s f hnd

/-! ## clause 1 is false as stated: two witnesses (design limits of eups, findings D15a / D15b) -/

def nA : Name := [97]
def v1 : Ver := ([49], 0)
def PATH : Str := [80]
def V : Str := [86]
def reqA : Request := ⟨nA, none, false, none, false, [], [0]⟩

/-- `a 1`: `envSet(V, ${PRODUCT_DIR})`, `envPrepend(PATH, ${PRODUCT_DIR}/bin)` -/
def dbA : Db :=
  { decls := [⟨nA, v1, [47, 97], [(.always, .set V (.own [])), (.always, .prepend PATH [.own [47, 98]] false)]⟩],
    tags := [(tagCurrent, nA, v1)] }

/-- setup then unsetup, both successful -/
def roundTrip (db : Db) (r : Request) (e0 : Setup.Env) : Option Setup.Env :=
  match runSetup db 10 r e0 with
  | .ok s1 => (match runUnsetup db 10 r s1.env with
    | .ok s2 => some s2.env
    | _ => none)
  | _ => none

/-- D15a: `V` was defined before; `envSet(V, …)` and its unsetup leave it unset -/
def priorA : Setup.Env := { Setup.Env.empty with vars := [(V, .foreign [111, 108, 100])] }
/-- D15b: `PATH` already held the element the table contributes -/
def priorB : Setup.Env := { Setup.Env.empty with paths := [(PATH, [.foreign [47, 117], .own (nA, v1) [47, 98]])] }

theorem C02_inverse_not_full_envSet :
    ∃ e2, roundTrip dbA reqA priorA = some e2 ∧ ¬ e2.approx priorA := by
  refine ⟨⟨[], [], [(PATH, [])], []⟩, by decide +kernel, ?_⟩
  intro h
  have := h.2.2.2 V
  revert this
  decide +kernel

theorem C02_inverse_not_full_contained :
    ∃ e2, roundTrip dbA reqA priorB = some e2 ∧ ¬ e2.approx priorB := by
  refine ⟨⟨[], [], [(PATH, [.foreign [47, 117]])], []⟩, by decide +kernel, ?_⟩
  intro h
  have := h.2.2.1 PATH
  revert this
  decide +kernel

/-! ## clause 1, positive part -/

/-- the closure of the request, over-approximated: the names a path of dependency lines (of any declared version,
under any guard) leads to from the requested name -/
def Reach (db : Db) (top : Name) (n : Name) : Prop := ∃ k, Within db top k n

/-- `Fresh`: nothing of the closure is in the prior environment — no record, no `<P>_DIR`, no own element of a closure
product in any path variable, and no variable that a table of the closure `envSet`s is defined (D15a / D15b are its
two negations) -/
structure Fresh (db : Db) (r : Request) (e0 : Setup.Env) : Prop where
  recs : ∀ n, Reach db r.name n → e0.rec? n = none
  dirs : ∀ n, Reach db r.name n → aget e0.dirs n = none
  paths : ∀ var p rel, Elem.own p rel ∈ e0.pathOf var → ¬ Reach db r.name p.1
  vars : ∀ var, SetVar db (Reach db r.name) var → aget e0.vars var = none

open Classical in
/-- `setup p; unsetup p` restores the environment (the property's `≈`: path variables as duplicate-free lists) — for
own-directory tables over a `NameDag` database, from a residue-free environment that is `Fresh` for the request,
**provided no product of the closure is left set up** (`hrecs`).  That proviso is the whole of what can go wrong: known
finding D33 (a version conflict combined with `-j`) is a run in which it fails.  Every flag combination, any fuel,
bystanders set up before keep everything they had (order included). -/
theorem C02_inverse_partial (db : Db) (rank : Name → Nat) (hdag : NameDag db rank) (hown : OwnTables db)
    (fuel1 fuel2 : Nat) (r : Request) (e0 : Setup.Env) (s1 s2 : St)
    (hwell : WellOwned (r.cfg db) e0) (hres : NoResidue Empty e0) (hfresh : Fresh db r e0)
    (h1 : runSetup db fuel1 r e0 = .ok s1) (h2 : runUnsetup db fuel2 r s1.env = .ok s2)
    (hrecs : ∀ n, Reach db r.name n → s2.env.rec? n = none) : s2.env.approx e0 := by
  let cfg := r.cfg db
  let S : Name → Prop := Reach db r.name
  have hcl : ClosedAt cfg (fun _ n => S n) := within_closedAt_unbounded cfg r.name
  have hS0 : S r.name := ⟨0, Within.root⟩
  have ha : ∀ e : Setup.Env, AlreadyOK cfg.db (St.init e).already := by
    intro e n d x h; simp [St.init, aget] at h
  -- an invariant relative to `e0` goes through both runs
  have both : ∀ P : Setup.Env → Prop, SubjInv cfg (fun _ n => S n) P → P e0 → P s2.env := by
    intro P hP hp0
    have hp1 : P s1.env := setup_subjInv cfg _ P hcl hP fuel1 true 0 false r.vro r.name r.version none (St.init e0) s1
      hS0 (ha e0) hp0 h1
    exact setup_subjInv cfg _ P hcl hP fuel2 false 0 false r.vro r.name none none (St.init s1.env) s2 hS0 (ha s1.env) hp1 h2
  -- no residue after both runs
  obtain ⟨hres1, hwell1⟩ := (setup_recOK cfg rank hdag fuel1).spec true 0 false r.vro r.name r.version none (St.init e0) s1
    (ha e0) hwell hres h1
  obtain ⟨hres2, _⟩ := setup_false_spec cfg fuel2 Empty 0 false r.vro r.name none none (St.init s1.env) s2 hwell1 hres1 h2
  have nores : ∀ p : Prod, S p.1 → ¬ (Empty p ∨ s2.env.rec? p.1 = some p.2) := by
    intro p hp h
    rcases h with h | h
    · exact h
    · rw [hrecs p.1 hp] at h; cases h
  -- names outside the closure
  have outside : ∀ m, ¬ S m → SameFor m e0 s2.env :=
    fun m hm => both (SameFor m e0) (sameFor_subjInv cfg _ m (fun _ h => hm h) e0) (SameFor.refl m e0)
  refine ⟨?_, ?_, ?_, ?_⟩
  · intro n
    by_cases hn : S n
    · rw [hrecs n hn, hfresh.recs n hn]
    · exact (outside n hn).record
  · intro n
    by_cases hn : S n
    · have := both (DirClean S) (dirClean_subjInv cfg S) (fun n hn _ => hfresh.dirs n hn)
      rw [this n hn (hrecs n hn), hfresh.dirs n hn]
    · exact (outside n hn).dir
  · intro var
    let f : Elem → Bool := fun x => match x with
      | .own p _ => decide (¬ S p.1)
      | .foreign _ => true
    have hpart := both (fun e => ∀ var, partBy f e var = partBy f e0 var)
      (partBy_subjInv cfg S hown f (fun p rel hp => by simp [f, hp]) e0) (fun _ => rfl) var
    have hall2 : (s2.env.pathOf var).filter f = s2.env.pathOf var := by
      apply List.filter_eq_self.mpr
      intro x hx
      cases x with
      | foreign s => rfl
      | own p rel =>
        by_cases hp : S p.1
        · exact absurd (hres2.path var p rel hx) (nores p hp)
        · simp [f, hp]
    have hall0 : (e0.pathOf var).filter f = e0.pathOf var := by
      apply List.filter_eq_self.mpr
      intro x hx
      cases x with
      | foreign s => rfl
      | own p rel =>
        have hp := hfresh.paths var p rel hx
        show decide (¬ S p.1) = true
        exact decide_eq_true hp
    unfold partBy at hpart
    rw [hall2, hall0] at hpart
    exact hpart
  · intro var
    have hv := both (VarsInv db S e0) (varsInv_subjInv cfg S hown e0)
      ⟨fun _ _ => rfl, fun var hvar => Or.inl (hfresh.vars var hvar)⟩
    by_cases hvar : SetVar db S var
    · rcases hv.mine var hvar with h | ⟨p, rel, h, hp⟩
      · rw [h, hfresh.vars var hvar]
      · exact absurd (hres2.vars var p rel h) (nores p hp)
    · exact hv.other var hvar

/-- single product: when no declared version of the requested product has a dependency line, the proviso holds and
the round trip restores the environment -/
theorem C02_inverse_single (db : Db) (rank : Name → Nat) (hdag : NameDag db rank) (hown : OwnTables db)
    (fuel1 fuel2 : Nat) (r : Request) (e0 : Setup.Env) (s1 s2 : St)
    (hnodep : ∀ d ∈ db.decls, d.name = r.name → ∀ g n o j v x t kl, (g, Act.dep n o j v x t kl) ∉ d.table)
    (hwell : WellOwned (r.cfg db) e0) (hres : NoResidue Empty e0) (hfresh : Fresh db r e0)
    (h1 : runSetup db fuel1 r e0 = .ok s1) (h2 : runUnsetup db fuel2 r s1.env = .ok s2) : s2.env.approx e0 := by
  refine C02_inverse_partial db rank hdag hown fuel1 fuel2 r e0 s1 s2 hwell hres hfresh h1 h2 ?_
  have honly : ∀ k n, Within db r.name k n → n = r.name := by
    intro k n hw
    induction hw with
    | root => rfl
    | step _ hd hn hg ih => subst ih; exact absurd hg (hnodep _ hd hn _ _ _ _ _ _ _ _)
  intro n ⟨k, hk⟩
  rw [honly k n hk]
  obtain ⟨_, hwell1⟩ := (setup_recOK (r.cfg db) rank hdag fuel1).spec true 0 false r.vro r.name r.version none (St.init e0) s1
    (by intro n d x h; simp [St.init, aget] at h) hwell hres h1
  exact setup_false_unsets (r.cfg db) fuel2 0 false r.vro r.name none none (St.init s1.env) s2 hwell1 h2

private theorem reach_rank_le (db : Db) (rank : Name → Nat) (hdag : NameDag db rank) (top : Name) :
    ∀ k n, Within db top k n → rank n ≤ rank top := by
  intro k n hw
  induction hw with
  | root => exact Nat.le_refl _
  | step _ hd hn hg ih =>
    have := hdag _ hd _ _ _ _ _ _ _ _ hg
    rw [hn] at this
    omega

/-- chains, diamonds **and version conflicts inside the request**: when no dependency line of the closure carries `-j` and
`max_depth` is not set, the proviso of `C02_inverse_partial` holds.  Optional dependencies (failing ones included), shared
dependencies, several declared versions per product and products replaced in the middle of the request are inside the
claim: replacing a version unwinds it together with everything its table names, so whatever stays set up was asked for by
a product that is still set up, and unsetup reaches it.  (`-j` is what known finding D33 needs.) -/
theorem C02_inverse_nojust_partial (db : Db) (rank : Name → Nat) (hdag : NameDag db rank) (hown : OwnTables db)
    (fuel1 fuel2 : Nat) (r : Request) (e0 : Setup.Env) (s1 s2 : St)
    (hmd : r.maxDepth = none) (hnj : NoJust db (Reach db r.name))
    (hdir : DirOK db e0) (hwell : WellOwned (r.cfg db) e0) (hres : NoResidue Empty e0) (hfresh : Fresh db r e0)
    (h1 : runSetup db fuel1 r e0 = .ok s1) (h2 : runUnsetup db fuel2 r s1.env = .ok s2) : s2.env.approx e0 := by
  refine C02_inverse_partial db rank hdag hown fuel1 fuel2 r e0 s1 s2 hwell hres hfresh h1 h2 ?_
  let cfg := r.cfg db
  let S : Name → Prop := Reach db r.name
  have hcl : Closed cfg.db S := fun d hd ⟨k, hk⟩ g n o j v x t kl hg => ⟨k + 1, Within.step hk hd rfl hg⟩
  have hS0 : S r.name := ⟨0, Within.root⟩
  have ha : ∀ e : Setup.Env, AlreadyOK cfg.db (St.init e).already := by
    intro e n d x h; simp [St.init, aget] at h
  -- forward: support and declared records
  have hdecl0 : RecsDeclared cfg.db e0 := fun n v hr => (hdir n v hr).1
  have hsupp0 : Supp cfg S r.name e0 := by
    intro m v hm hr; rw [hfresh.recs m hm] at hr; cases hr
  obtain ⟨hsupp1, hdecl1⟩ := setup_supp2 cfg rank hdag S r.name hmd hcl hnj fuel1 0 r.vro r.name r.version none
    (St.init e0) s1 hS0 (Or.inl rfl) (ha e0) hwell hres hdecl0 hsupp0 h1
  -- unsetup: what loses its record takes its dependencies along
  obtain ⟨_, hwell1⟩ := (setup_recOK cfg rank hdag fuel1).spec true 0 false r.vro r.name r.version none (St.init e0) s1
    (ha e0) hwell hres h1
  have hclear := setup_false_clear cfg S hmd hcl hnj fuel2 0 r.vro r.name none none (St.init s1.env) s2 hS0 hwell1 hdecl1 h2
  obtain ⟨_, hsub⟩ := setup_false_spec cfg fuel2 (fun _ => True) 0 false r.vro r.name none none (St.init s1.env) s2 hwell1
    (noResidue_true _) h2
  have htop : s2.env.rec? r.name = none :=
    setup_false_unsets cfg fuel2 0 false r.vro r.name none none (St.init s1.env) s2 hwell1 h2
  -- by induction on the distance of the rank from the top's
  have key : ∀ k m, S m → rank r.name - rank m ≤ k → s2.env.rec? m = none := by
    intro k
    induction k with
    | zero =>
      intro m hm hk
      cases hc : s2.env.rec? m with
      | none => rfl
      | some v =>
        exfalso
        rcases hsupp1 m v hm (hsub.recs m v hc) with rfl | ⟨p, w, hp, hpw, o, j, x, y, t, kl, hline⟩
        · rw [htop] at hc; cases hc
        · obtain ⟨dp, hdp, hname, g, hg⟩ := tableOf_mem cfg p w _ hline
          have h1 := hdag dp hdp g m o j x y t kl hg
          obtain ⟨kp, hkp⟩ := hp
          have h2 := reach_rank_le db rank hdag r.name kp p hkp
          rw [hname] at h1
          omega
    | succ k ih =>
      intro m hm hk
      cases hc : s2.env.rec? m with
      | none => rfl
      | some v =>
        exfalso
        rcases hsupp1 m v hm (hsub.recs m v hc) with rfl | ⟨p, w, hp, hpw, o, j, x, y, t, kl, hline⟩
        · rw [htop] at hc; cases hc
        · obtain ⟨dp, hdp, hname, g, hg⟩ := tableOf_mem cfg p w _ hline
          have h1 := hdag dp hdp g m o j x y t kl hg
          rw [hname] at h1
          have hpnone := ih p hp (by omega)
          have := hclear p w hp hpw hpnone m o j x y t kl hline
          rw [this] at hc; cases hc
  intro n hn
  exact key (rank r.name) n hn (by omega)

/-- the special case announced in DESIGN ("chains → diamonds"): closures with one declared version per name -/
theorem C02_inverse_diamond_partial (db : Db) (rank : Name → Nat) (hdag : NameDag db rank) (hown : OwnTables db)
    (fuel1 fuel2 : Nat) (r : Request) (e0 : Setup.Env) (s1 s2 : St)
    (hmd : r.maxDepth = none) (hnj : NoJust db (Reach db r.name)) (_hone : OneVersion db (Reach db r.name))
    (hdir : DirOK db e0) (hwell : WellOwned (r.cfg db) e0) (hres : NoResidue Empty e0) (hfresh : Fresh db r e0)
    (h1 : runSetup db fuel1 r e0 = .ok s1) (h2 : runUnsetup db fuel2 r s1.env = .ok s2) : s2.env.approx e0 :=
  C02_inverse_nojust_partial db rank hdag hown fuel1 fuel2 r e0 s1 s2 hmd hnj hdir hwell hres hfresh h1 h2

/-- the hypotheses are satisfiable and the conclusion is not vacuous: `dbA` with a foreign-only `PATH` -/
example : OwnTables dbA ∧ NameDag dbA (fun _ => 0) ∧
    Fresh dbA reqA { Setup.Env.empty with paths := [(PATH, [.foreign [47, 117]])] } := by
  refine ⟨ownTables_of_check _ (by decide +kernel), nameDag_of_check _ _ (by decide +kernel), ?_⟩
  · refine ⟨fun _ _ => rfl, fun _ _ => rfl, ?_, fun _ _ => rfl⟩
    intro var p rel h
    by_cases hv : var = PATH
    · subst hv; simp [Setup.Env.pathOf, aget] at h
    · simp [Setup.Env.pathOf, aget, Ne.symm hv] at h

/-- non-vacuity of `C02_inverse_diamond_partial`: the diamond `t → a → c`, `t → b → c` (one version each, `c` optional
from `b`) satisfies the hypotheses, the two requests succeed from a `PATH` holding a foreign element, and the
environment comes back -/
def nT : Name := [116]
def nB : Name := [98]
def nC : Name := [99]
def dbDia : Db :=
  { decls := [
      ⟨nT, v1, [1], [(.always, .dep nA false false none none [] false), (.always, .prepend PATH [.own [1]] false),
                     (.always, .dep nB false false none none [] false)]⟩,
      ⟨nA, v1, [2], [(.always, .prepend PATH [.own [1]] false), (.always, .dep nC false false none none [] false)]⟩,
      ⟨nB, v1, [3], [(.always, .dep nC true false none none [] false), (.always, .set V (.own [])), (.always, .prepend PATH [.own [1]] true)]⟩,
      ⟨nC, v1, [4], [(.always, .prepend PATH [.own [1]] false)]⟩ ],
    tags := [(tagCurrent, nT, v1), (tagCurrent, nA, v1), (tagCurrent, nB, v1), (tagCurrent, nC, v1)] }
def reqT : Request := ⟨nT, none, false, none, false, [], [0]⟩
def priorDia : Setup.Env := { Setup.Env.empty with paths := [(PATH, [.foreign [47, 117]])] }

/-- records after the setup step (none when it does not succeed) -/
def recsAfterSetup (db : Db) (r : Request) (e : Setup.Env) : Option (List (Name × Ver)) :=
  match runSetup db 10 r e with
  | .ok s => some s.env.recs
  | _ => none

example : OwnTables dbDia ∧ NameDag dbDia (fun n => if n = nT then 3 else if n = nC then 1 else 2) ∧
    NoJust dbDia (Reach dbDia reqT.name) ∧ OneVersion dbDia (Reach dbDia reqT.name) ∧
    recsAfterSetup dbDia reqT priorDia = some [(nB, v1), (nC, v1), (nA, v1), (nT, v1)] ∧
    roundTrip dbDia reqT priorDia = some ⟨[], [], [(PATH, [.foreign [47, 117]])], []⟩ :=
  ⟨ownTables_of_check _ (by decide +kernel), nameDag_of_check _ _ (by decide +kernel),
   noJust_of_check _ _ (by decide +kernel), oneVersion_of_check _ _ (by decide +kernel),
   by decide +kernel, by decide +kernel⟩

/-- non-vacuity of `C02_inverse_nojust_partial` with a version conflict: `t → a → c 1`, `t → b → c 2` (`c 1` is set up,
then replaced by `c 2`, in one request); the round trip restores the prior environment -/
def v2 : Ver := ([50], 0)
def dbConflict : Db :=
  { decls := [
      ⟨nT, v1, [1], [(.always, .dep nA false false none none [] false), (.always, .dep nB false false none none [] false)]⟩,
      ⟨nA, v1, [2], [(.always, .prepend PATH [.own [1]] false), (.always, .dep nC false false (some (.explicit v1.1)) none [] false)]⟩,
      ⟨nB, v1, [3], [(.always, .prepend PATH [.own [1]] false), (.always, .dep nC false false (some (.explicit v2.1)) none [] false)]⟩,
      ⟨nC, v1, [4], [(.always, .prepend PATH [.own [1], .own [2]] false)]⟩,
      ⟨nC, v2, [5], [(.always, .prepend PATH [.own [1]] true)]⟩ ],
    tags := [(tagCurrent, nT, v1), (tagCurrent, nA, v1), (tagCurrent, nB, v1), (tagCurrent, nC, v1)] }

example : OwnTables dbConflict ∧ NameDag dbConflict (fun n => if n = nT then 3 else if n = nC then 1 else 2) ∧
    NoJust dbConflict (Reach dbConflict reqT.name) ∧
    recsAfterSetup dbConflict reqT priorDia = some [(nC, v2), (nB, v1), (nA, v1), (nT, v1)] ∧
    roundTrip dbConflict reqT priorDia = some ⟨[], [], [(PATH, [.foreign [47, 117]])], []⟩ :=
  ⟨ownTables_of_check _ (by decide +kernel), nameDag_of_check _ _ (by decide +kernel),
   noJust_of_check _ _ (by decide +kernel), by decide +kernel, by decide +kernel⟩

/-- non-vacuity: the round trip of `dbA` seen from the shell — after `setup a` the shell holds the record, after the
`unsetup a` that follows it does not -/
example :
    (match runSetup dbA 10 reqA Setup.Env.empty with
     | .ok s1 => (((appSetup dbA 10 true reqA Setup.Env.empty).apply (Shell.of Setup.Env.empty (fun _ => none))).recs nA,
                  ((appSetup dbA 10 false reqA s1.env).apply (Shell.of s1.env (fun _ => none))).recs nA)
     | _ => (none, none)) = (some v1, none) := by decide +kernel

end EupsModel.C02
