import EupsModel.Lemmas.ShellEmit
import EupsModel.Lemmas.ShellFn
/-! C05 — emitted shell commands reproduce the computed environment when sourced.  Property theorems only
(model: `Model/ShellEmit.lean`, helper lemmas: `Lemmas/ShellEmit.lean`).

Reading: `shEval base text` is what an sh-family shell started with the environment `base` exports after it has
evaluated `text` (`none`: the text is outside the modelled fragment).  `emitText old new` is the text
`";\n".join(cmds)` that `eups.app.setup` prints for `oldEnviron = old` and `os.environ = new` (sh dialect, no `-n`,
no aliases).  `SameEnv a b`: equal as maps, i.e. every changed or new variable has its exact new value, every
removed variable is gone and nothing else changed. -/
namespace EupsModel.C05
open EupsModel EupsModel.ShellEmit

/-- **C05, full clause.**  For every caller's environment `old` and every computed environment `new` — names
identifiers, the values eups has to write `Writable` (drawn from the claimed alphabet, or of the class eups
single-quotes: any text without a single quote that holds a blank or one of `< > | & ; ( )`, whatever else it holds —
`$NAME`, `${NAME}`, backquotes, backslashes, double quotes), none of the four `EUPS_*` variables the code refuses to
unset disappearing — the shell that evaluates the emitted text ends with exactly `new`.  Nothing is assumed about the
values of `old` or about unchanged values of `new`. -/
theorem C05_roundtrip (old new : Env)
    (hold : ∀ p ∈ old, isIdent p.1 = true) (hnew : ∀ p ∈ new, isIdent p.1 = true)
    (hdict : (new.map (·.1)).Nodup)
    (halpha : ∀ p ∈ new, old.get p.1 ≠ some p.2 → Writable p.2)
    (hprot : ∀ k, isProtected k = true → old.has k = true → new.has k = true) :
    ∃ e, shEval old (emitText (OldEnv.ofEnv old) new) = some e ∧ SameEnv e new := by
  have := roundtrip_tracks (OldEnv.ofEnv old) old new (tracks_ofEnv old) hold hnew hdict
    (fun p hp hl => halpha p hp (by
      intro hg; apply hl; rw [lookup_ofEnv, hg]; rfl)) hprot false
  simpa using this

/-- the same for the text as `print` writes it (with the final newline) -/
theorem C05_roundtrip_printed (old new : Env)
    (hold : ∀ p ∈ old, isIdent p.1 = true) (hnew : ∀ p ∈ new, isIdent p.1 = true)
    (hdict : (new.map (·.1)).Nodup)
    (halpha : ∀ p ∈ new, old.get p.1 ≠ some p.2 → Writable p.2)
    (hprot : ∀ k, isProtected k = true → old.has k = true → new.has k = true) :
    ∃ e, shEval old (emitText (OldEnv.ofEnv old) new ++ [10]) = some e ∧ SameEnv e new := by
  have := roundtrip_tracks (OldEnv.ofEnv old) old new (tracks_ofEnv old) hold hnew hdict
    (fun p hp hl => halpha p hp (by
      intro hg; apply hl; rw [lookup_ofEnv, hg]; rfl)) hprot true
  simpa using this

/-- Non-vacuity: a caller's environment with a value outside the alphabet that stays, a removed variable, a changed
path with a blank and parentheses, a new empty variable, a new value with `;` and a newline. -/
example :
    let old : Env := [(Str.ofString "KEEP", Str.ofString "it's"), (Str.ofString "GONE", Str.ofString "1"),
                      (Str.ofString "PATH", Str.ofString "/bin")]
    let new : Env := [(Str.ofString "KEEP", Str.ofString "it's"), (Str.ofString "PATH", Str.ofString "/my prod (v1)/bin:/bin"),
                      (Str.ofString "E", []), (Str.ofString "X", Str.ofString "a;b\nc")]
    emitText (OldEnv.ofEnv old) new =
        Str.ofString "export PATH='/my prod (v1)/bin:/bin';\nexport E=;\nexport X='a;b\nc';\nunset GONE" ∧
      shEval old (emitText (OldEnv.ofEnv old) new) =
        some [(Str.ofString "KEEP", Str.ofString "it's"), (Str.ofString "PATH", Str.ofString "/my prod (v1)/bin:/bin"),
              (Str.ofString "E", []), (Str.ofString "X", Str.ofString "a;b\nc")] := by
  decide

set_option maxRecDepth 20000 in
/-- Non-vacuity for the class of values eups single-quotes (`Writable`'s second disjunct): values that hold, next to
a blank or a parenthesis, `${NAME}`, `$NAME`, a backquote, a backslash and a double quote — all literal inside the
single quotes. -/
example :
    let v1 := Str.ofString "-L${PRODUCT_DIR}/lib -Wl,-rpath,$ORIGIN/../lib"
    let v2 := Str.ofString "(tool) $ "
    let v3 := Str.ofString "say \"hi\" > `tty` \\n"
    Writable v1 ∧ Writable v2 ∧ Writable v3 ∧ ¬ InAlphabet v1 ∧
      emitText (OldEnv.ofEnv []) [(Str.ofString "LDFLAGS", v1), (Str.ofString "P", v2), (Str.ofString "Q", v3)] =
        Str.ofString "export LDFLAGS='-L${PRODUCT_DIR}/lib -Wl,-rpath,$ORIGIN/../lib';\nexport P='(tool) $ ';\nexport Q='say \"hi\" > `tty` \\n'" ∧
      shEval [] (emitText (OldEnv.ofEnv []) [(Str.ofString "LDFLAGS", v1), (Str.ofString "P", v2), (Str.ofString "Q", v3)]) =
        some [(Str.ofString "LDFLAGS", v1), (Str.ofString "P", v2), (Str.ofString "Q", v3)] := by
  unfold Writable InAlphabet
  decide

/-- a value with `$` that eups does *not* quote (no blank, no metacharacter) is outside the claim, and so is any value
holding a single quote -/
example : ¬ Writable (Str.ofString "$ORIGIN/../lib") ∧ ¬ Writable (Str.ofString "it's a $x") := by
  unfold Writable InAlphabet
  decide

/-- **`--force`, repaired tree (D9).**  After any sequence of table actions (`envSet`, `envPrepend`/`envAppend`,
`envUnset`, `addAlias`, each in its own direction, with or without `--force`) interleaved with `pushStack("env")` /
`popStack("env")` / `dropStack("env")` in any way (optional and nested setups, failed ones rolled back — what `--force`
made `oldEnviron` forget stays forgotten) started from the caller's environment `base`, the emitted text evaluated
*from `base`* yields the computed environment. -/
theorem C05_force_roundtrip (acts : List Act) (base : Env)
    (hbase : ∀ p ∈ base, isIdent p.1 = true)
    (hnew : ∀ p ∈ (runActs false acts base).cur, isIdent p.1 = true)
    (hdict : ((runActs false acts base).cur.map (·.1)).Nodup)
    (halpha : ∀ p ∈ (runActs false acts base).cur,
      (runActs false acts base).old.lookup p.1 ≠ some (some p.2) → Writable p.2)
    (hprot : ∀ k, isProtected k = true → base.has k = true → (runActs false acts base).cur.has k = true) :
    ∃ e, shEval base (emitText (runActs false acts base).old (runActs false acts base).cur) = some e ∧
      SameEnv e (runActs false acts base).cur := by
  have := roundtrip_tracks _ base _ (tracks_runActs acts base) hbase hnew hdict halpha hprot false
  simpa using this

/-- Non-vacuity with a rolled-back optional setup under `--force`: `B` set; then, inside push … pop, `A` changed and
`PATH` prepended — thrown away; the text exports `B`, re-exports the forgotten `A` and `PATH` with their old values. -/
example :
    let base : Env := [(Str.ofString "A", Str.ofString "1"), (Str.ofString "PATH", Str.ofString "/bin")]
    let s := runActs false [.envSet true true (Str.ofString "B") (Str.ofString "b b"), .push,
                            .envSet true true (Str.ofString "A") (Str.ofString "2"),
                            .path true (Str.ofString "PATH") (Str.ofString "/opt/my prod/bin:/bin"), .pop] base
    s.cur = base ++ [(Str.ofString "B", Str.ofString "b b")] ∧
      emitText s.old s.cur = Str.ofString "export A=1;
export PATH=/bin;
export B='b b'" ∧
      shEval base (emitText s.old s.cur) = some (base ++ [(Str.ofString "B", Str.ofString "b b")]) := by
  decide

/-- Non-vacuity and the repaired behaviour on the D9 input: `unsetup --force` of a product that `envSet`s `A`. -/
example :
    let base : Env := [([65], [49])]
    let s := runActs false [Act.envSet true false [65] [49]] base
    s.cur = [] ∧ emitText s.old s.cur = Str.ofString "unset A" ∧ shEval base (emitText s.old s.cur) = some [] := by
  decide

/-- **D9, pinned tree (negation witness).**  With the pinned `execute_envSet` (`del oldEnviron[key]` in both
directions) `unsetup --force` emits nothing for the variable it removed: the shell keeps `A`. -/
theorem C05_force_unsetup_pinned_witness :
    let base : Env := [([65], [49])]
    let s := runActs true [Act.envSet true false [65] [49]] base
    s.cur = [] ∧ emitText s.old s.cur = [] ∧ shEval base (emitText s.old s.cur) = some base := by
  decide

/-- **The quoting condition is necessary.**  Text without a single quote never gives a variable a value that
contains one of the metacharacters: whatever an emitter writes unquoted, the shell does not read such a value
back. -/
theorem C05_unquoted_never_meta (env : Env) (text k v : Str)
    (hq : ∀ c ∈ text, c ≠ 39) (hm : v.any isShMeta = true) (h0 : env.get k ≠ some v) :
    ∀ e, shEval env text = some e → e.get k ≠ some v :=
  unquoted_never_meta k v hm env text hq h0

/-- In particular `export K=V` with an unquoted `V` over the alphabet that contains a metacharacter does not set
`K` to `V` (it sets something else, or is outside the fragment). -/
theorem C05_quote_needed (env : Env) (k v : Str) (hk : isIdent k = true) (hv : InAlphabet v)
    (hm : v.any isShMeta = true) (h0 : env.get k ≠ some v) :
    ∀ e, shEval env (sExport ++ [32] ++ k ++ [61] ++ v) = some e → e.get k ≠ some v := by
  apply unquoted_never_meta k v hm env _ _ h0
  intro c hc
  simp only [List.mem_append, List.mem_singleton] at hc
  rcases hc with ((((hc | hc) | hc) | hc) | hc)
  · revert c; decide
  · omega
  · exact (safe_facts (ident_safe hk c hc)).1
  · omega
  · exact alpha_no_sq hv c hc

/-- Non-vacuity of `C05_quote_needed`, and what actually happens: `export K=a b` sets `K=a`. -/
example : shEval [] (Str.ofString "export K=a b") = some [(Str.ofString "K", Str.ofString "a")] := by decide
example : shEval [] (Str.ofString "export K=a;b") = none := by decide
example : emitVal (Str.ofString "a b") = Str.ofString "'a b'" := by decide

/-- The emitter writes nothing for a variable whose value is unchanged, whatever that value is. -/
theorem C05_unchanged_not_written (old : OldEnv) (k v : Str) (h : old.lookup k = some (some v)) :
    setCmd? {} old (k, v) = none := by
  simp [setCmd?, h]

/-- **Removed aliases do not disturb the environment (repaired D27).**  The complete command list of an alias-free
new state — exports, unsets, and an `unset -f NAME` for every alias that went away — evaluated from `old` yields
exactly `new`, even when an alias shares its name with a variable. -/
theorem C05_roundtrip_alias_removal (old new : Env) (oldAliases : List (Str × Option Str))
    (hold : ∀ p ∈ old, isIdent p.1 = true) (hnew : ∀ p ∈ new, isIdent p.1 = true)
    (hdict : (new.map (·.1)).Nodup)
    (halpha : ∀ p ∈ new, old.get p.1 ≠ some p.2 → Writable p.2)
    (hprot : ∀ k, isProtected k = true → old.has k = true → new.has k = true)
    (hal : ∀ p ∈ oldAliases, isIdent p.1 = true) :
    ∃ cmds e, emit {} (OldEnv.ofEnv old) new [] oldAliases = some cmds ∧
      shEval old (join cmds) = some e ∧ SameEnv e new := by
  have hgoodv := emitVars_good (OldEnv.ofEnv old) old new (tracks_ofEnv old) hold hnew
    (fun p hp hl => halpha p hp (by intro hg; apply hl; rw [lookup_ofEnv, hg]; rfl))
  have hcm : emitCmds {} (OldEnv.ofEnv old) new [] oldAliases =
      emitVarsOn {} (OldEnv.ofEnv old) new ++ oldAliases.map (fun p => Cmd.aliasDel p.1) := by
    simp [emitCmds, emitVars, finalEnv, emitAliases_nil]
  have hgood : ∀ c ∈ emitCmds {} (OldEnv.ofEnv old) new [] oldAliases, c.Good := by
    intro c hc
    rw [hcm] at hc
    rcases List.mem_append.mp hc with h | h
    · exact hgoodv c h
    · obtain ⟨p, hp, rfl⟩ := List.mem_map.mp h
      exact hal p hp
  refine ⟨(emitCmds {} (OldEnv.ofEnv old) new [] oldAliases).map Cmd.text,
    applyAll (emitCmds {} (OldEnv.ofEnv old) new [] oldAliases) old, ?_, ?_, ?_⟩
  · unfold emit; exact mapM_render_default _
  · have := shEval_join _ hgood false old
    simpa using this
  · rw [hcm, applyAll_append, applyAll_aliasDels]
    exact emitVars_apply (OldEnv.ofEnv old) old new (tracks_ofEnv old) hdict hprot

/-- **D27, pinned tree (negation witness):** the pinned emission `unset ll` for a removed alias `ll` removes the
*variable* `ll`; the repaired `unset -f ll` leaves the environment alone. -/
theorem C05_alias_removal_pinned_witness :
    let env : Env := [(Str.ofString "ll", Str.ofString "x")]
    shEval env (Str.ofString "unset ll") = some [] ∧ shEval env (Str.ofString "unset -f ll") = some env ∧
      emit {} (OldEnv.ofEnv env) env [] [(Str.ofString "ll", none)] = some [Str.ofString "unset -f ll"] := by
  decide

/-- **`unsetup eups` (repaired D23).**  When eups itself is unset up, `app.setup` drops `EUPS_PATH`, `EUPS_PKGROOT`
and `EUPS_SHELL` from the environment `new` that `Eups.setup` left (`finalEnv`), and no variable is protected.  The
commands evaluated from the caller's environment yield exactly that final environment: in particular each of the
three variables the caller had is unset, whether `Eups.setup` kept, changed or had already removed it. -/
theorem C05_roundtrip_unsetup_eups (old new : Env)
    (hold : ∀ p ∈ old, isIdent p.1 = true) (hnew : ∀ p ∈ finalEnv unsetupEups new, isIdent p.1 = true)
    (hdict : ((finalEnv unsetupEups new).map (·.1)).Nodup)
    (halpha : ∀ p ∈ finalEnv unsetupEups new, old.get p.1 ≠ some p.2 → Writable p.2) :
    ∃ cmds e, emit unsetupEups (OldEnv.ofEnv old) new [] [] = some cmds ∧
      shEval old (join cmds) = some e ∧ SameEnv e (finalEnv unsetupEups new) := by
  have hgood := emitVarsOn_good unsetupEups (OldEnv.ofEnv old) old (finalEnv unsetupEups new) (tracks_ofEnv old)
    hold hnew (fun p hp hl => halpha p hp (by intro hg; apply hl; rw [lookup_ofEnv, hg]; rfl))
  have hcm : emitCmds unsetupEups (OldEnv.ofEnv old) new [] [] =
      emitVarsOn unsetupEups (OldEnv.ofEnv old) (finalEnv unsetupEups new) := by
    simp [emitCmds, emitVars, emitAliases]
  refine ⟨(emitCmds unsetupEups (OldEnv.ofEnv old) new [] []).map Cmd.text,
    applyAll (emitCmds unsetupEups (OldEnv.ofEnv old) new [] []) old, ?_, ?_, ?_⟩
  · unfold emit; exact mapM_render_unsetupEups _
  · have hg' : ∀ c ∈ emitCmds unsetupEups (OldEnv.ofEnv old) new [] [], c.Good := by rw [hcm]; exact hgood
    have := shEval_join (emitCmds unsetupEups (OldEnv.ofEnv old) new [] []) hg' false old
    simpa using this
  · rw [hcm]
    exact emitVarsOn_apply unsetupEups rfl (OldEnv.ofEnv old) old _ (tracks_ofEnv old) hdict (Or.inl rfl)

/-- the final environment of `unsetup eups` never holds one of the three variables -/
theorem C05_unsetup_eups_drops (new : Env) :
    (finalEnv unsetupEups new).has sEUPS_PATH = false ∧ (finalEnv unsetupEups new).has sEUPS_PKGROOT = false ∧
      (finalEnv unsetupEups new).has sEUPS_SHELL = false := by
  have h1 : sEUPS_PATH ≠ sEUPS_PKGROOT := by decide
  have h2 : sEUPS_PATH ≠ sEUPS_SHELL := by decide
  have h3 : sEUPS_PKGROOT ≠ sEUPS_SHELL := by decide
  simp [finalEnv, unsetupEups, Env.has, Env.get_unset_same, Env.get_unset_other _ _ _ h1, Env.get_unset_other _ _ _ h2,
    Env.get_unset_other _ _ _ h3]

/-- Non-vacuity and the behaviours on the scenario `setup eups; unsetup eups` with the three variables in the
caller's environment: the repaired order unsets all three; with the block between the two loops (pinned, D23) a
variable created during the unsetup is exported and stays; with the block below both loops nothing is unset. -/
example :
    let old : Env := [(sEUPS_PATH, Str.ofString "/s"), (sEUPS_SHELL, Str.ofString "sh"), (Str.ofString "K", Str.ofString "k k")]
    emit unsetupEups (OldEnv.ofEnv old) old [] [] =
        some [Str.ofString "unset EUPS_PATH", Str.ofString "unset EUPS_SHELL"] ∧
      shEval old (Str.ofString "unset EUPS_PATH;\nunset EUPS_SHELL") = some [(Str.ofString "K", Str.ofString "k k")] ∧
      finalEnv unsetupEups old = [(Str.ofString "K", Str.ofString "k k")] ∧
      -- the block below both loops: both loops see `old` unchanged and print nothing
      (emitVarsOn unsetupEups (OldEnv.ofEnv old) old).map Cmd.text = [] := by
  decide

/-! ## the protected names are an exact-match set -/

/-- `^EUPS_(DIR|PATH|PKGROOT|SHELL)$`: the four names themselves, or one of them followed by a final newline (Python's
`$`), and nothing else -/
theorem C05_protected_iff (k : Str) :
    isProtected k = true ↔
      k ∈ [sEUPS_DIR, sEUPS_PATH, sEUPS_PKGROOT, sEUPS_SHELL] ∨
      k ∈ [sEUPS_DIR ++ [10], sEUPS_PATH ++ [10], sEUPS_PKGROOT ++ [10], sEUPS_SHELL ++ [10]] := by
  simp only [isProtected, List.any_cons, List.any_nil, Bool.or_false, Bool.or_eq_true, beq_iff_eq, List.mem_cons,
    List.not_mem_nil, or_false]
  constructor
  · rintro ((h | h) | (h | h) | (h | h) | (h | h)) <;> simp [h]
  · rintro ((h | h | h | h) | (h | h | h | h)) <;> simp [h]

/-- **For identifiers the protected set is exactly the four names**: a name that merely starts with, ends with or
contains one of them is not protected. -/
theorem C05_protected_exact (k : Str) (hk : isIdent k = true) :
    isProtected k = true ↔ k = sEUPS_DIR ∨ k = sEUPS_PATH ∨ k = sEUPS_PKGROOT ∨ k = sEUPS_SHELL := by
  rw [C05_protected_iff]
  constructor
  · rintro (h | h)
    · simpa using h
    · exfalso
      have hs := ident_safe hk
      simp only [List.mem_cons, List.not_mem_nil, or_false] at h
      have h10 : (10 : Nat) ∈ k := by rcases h with h | h | h | h <;> (rw [h]; simp)
      have := hs 10 h10
      revert this; decide
  · intro h; left; simpa using h

/-- a variable of the caller's environment that is not one of the four names and has disappeared is unset -/
theorem C05_unprotected_is_unset (new : Env) (k : Str) (v : Option Str) (hp : isProtected k = false)
    (hgone : new.has k = false) : unsetCmd? {} new (k, v) = some (Cmd.unsetVar k) := by
  simp [unsetCmd?, hp, hgone, hidden]

/-- near misses of the protected names (the variables of products `eups_shelltools`, `eups_path`, saved copies, ...)
are not protected; the four names are -/
example :
    (["EUPS_PATH_SAVED", "EUPS_PKGROOT_MIRROR", "EUPS_DIR_EXTRA", "EUPS_SHELLTOOLS_DIR", "SETUP_EUPS_SHELLTOOLS",
      "MY_EUPS_PATH", "EUPS_DIRS", "EUPS_PAT", "EUPS_", "eups_path", "EUPS_PATH_DIR", "XEUPS_SHELL"].map
        fun n => isProtected (Str.ofString n)) = List.replicate 12 false ∧
      (["EUPS_DIR", "EUPS_PATH", "EUPS_PKGROOT", "EUPS_SHELL"].map fun n => isProtected (Str.ofString n)) =
        List.replicate 4 true := by
  decide

/-- on the witness of the corpus: every near miss that disappeared is unset, the protected `EUPS_PKGROOT` is not -/
example :
    let old : Env := [(Str.ofString "EUPS_PATH", [47]), (Str.ofString "EUPS_PATH_SAVED", [47]),
                      (Str.ofString "EUPS_SHELLTOOLS_DIR", [47]), (Str.ofString "EUPS_PKGROOT", [47])]
    emit {} (OldEnv.ofEnv old) [(Str.ofString "EUPS_PATH", [47])] [] [] =
      some [Str.ofString "unset EUPS_PATH_SAVED", Str.ofString "unset EUPS_SHELLTOOLS_DIR"] := by
  decide

/-! ## the complete text: variables *and* shell functions (aliases), exit status

`shEvalF env funcs text` is the second layer of the shell model: besides the exported environment it tracks the
shell's functions (name → canonical text of the parsed body), what `echo` wrote, and the exit status of the last
command.  `canon v` is the canonical text of the function that the alias value `v` defines (its words joined by
single blanks). -/

/-- **C05 with aliases, full clause.**  For every caller's environment `old` (a dictionary), every function table
`funcs0` the caller's shell may hold, every computed environment `new` and every pair (`aliases`, `oldAliases`) —
alias names usable as function names, alias values plain command lines — the shell that evaluates the *complete*
text printed by `setup` (exports, unsets, a function definition `NAME() { VALUE ; }` per new alias, `unset -f NAME`
per removed alias, joined by `";\n"`) ends with exactly `new` as its environment, with every alias defined as a
function holding its value, every removed alias gone, every other function untouched, nothing written to the
terminal and exit status 0.  (`htrack`: an alias that eups skips because `oldAliases` already holds its value is
assumed to exist in the shell with that value — this is what "already defined" means.) -/
theorem C05_roundtrip_aliases (old new funcs0 : Env) (aliases : List (Str × Str)) (oldAliases : List (Str × Option Str))
    (nl : Bool)
    (hold : ∀ p ∈ old, isIdent p.1 = true) (holdnd : (old.map (·.1)).Nodup)
    (hnew : ∀ p ∈ new, isIdent p.1 = true) (hdict : (new.map (·.1)).Nodup)
    (halpha : ∀ p ∈ new, old.get p.1 ≠ some p.2 → Writable p.2)
    (hprot : ∀ k, isProtected k = true → old.has k = true → new.has k = true)
    (hal : ∀ p ∈ aliases, fnNameOk p.1 = true ∧ SimpleBody p.2) (haldict : (aliases.map (·.1)).Nodup)
    (hoal : ∀ p ∈ oldAliases, isIdent p.1 = true)
    (htrack : ∀ p ∈ aliases, defCmd? oldAliases p = none → funcs0.get p.1 = some (canon p.2)) :
    ∃ cmds r, emit {} (OldEnv.ofEnv old) new aliases oldAliases = some cmds ∧
      shEvalF old funcs0 (join cmds ++ (if nl then [10] else [])) = some r ∧
      SameEnv r.sh.env new ∧
      (∀ n, r.funcs.get n = match Env.get aliases n with
                            | some v => some (canon v)
                            | none => if oldAliases.any (·.1 == n) then none else funcs0.get n) ∧
      r.out = [] ∧ r.status = 0 := by
  have hcm : emitCmds {} (OldEnv.ofEnv old) new aliases oldAliases =
      emitVarsOn {} (OldEnv.ofEnv old) new ++ emitAliases aliases oldAliases := by
    simp [emitCmds, emitVars, finalEnv]
  have halpha' : ∀ p ∈ new, (OldEnv.ofEnv old).lookup p.1 ≠ some (some p.2) → Writable p.2 :=
    fun p hp hl => halpha p hp (by intro hg; apply hl; rw [lookup_ofEnv, hg]; rfl)
  have hgs : GoodSeq old funcs0 (emitCmds {} (OldEnv.ofEnv old) new aliases oldAliases) := by
    rw [hcm, goodSeq_append]
    exact ⟨goodSeq_vars _ old new funcs0 (tracks_ofEnv old) hold holdnd hnew hdict halpha',
      goodSeq_static _ _ _ (aliasCmds_static aliases oldAliases hal hoal)⟩
  have hev := shEvalF_join (emitCmds {} (OldEnv.ofEnv old) new aliases oldAliases) nl old funcs0 [] 0 hgs
  refine ⟨(emitCmds {} (OldEnv.ofEnv old) new aliases oldAliases).map Cmd.text, _, ?_, hev, ?_, ?_, rfl, ?_⟩
  · unfold emit; exact mapM_render_default _
  · show SameEnv (applyAll _ old) new
    rw [hcm, applyAll_append, applyAll_aliasCmds]
    exact emitVars_apply (OldEnv.ofEnv old) old new (tracks_ofEnv old) hdict hprot
  · intro n
    show (applyAllF _ funcs0).get n = _
    rw [hcm, applyAllF_append, applyAllF_vars]
    exact aliases_spec aliases oldAliases funcs0 haldict htrack n
  · show (if _ then 0 else 0) = 0
    split <;> rfl

/-- Non-vacuity: a changed path with a blank, a removed variable, a new alias `ll`, a removed alias `gone` that is
also the name of a variable that stays, a function `other` of the caller's shell that eups knows nothing about. -/
example :
    let old : Env := [(Str.ofString "PATH", Str.ofString "/bin"), (Str.ofString "GONE", Str.ofString "1"),
                      (Str.ofString "gone", Str.ofString "v")]
    let new : Env := [(Str.ofString "PATH", Str.ofString "/my prod/bin:/bin"), (Str.ofString "gone", Str.ofString "v")]
    let f0 : Env := [(Str.ofString "gone", Str.ofString "true"), (Str.ofString "other", Str.ofString "ls")]
    let text := Str.ofString "export PATH='/my prod/bin:/bin';\nunset GONE;\nll() { ls  -l ; };\nunset -f gone\n"
    emit {} (OldEnv.ofEnv old) new [(Str.ofString "ll", Str.ofString "ls  -l")] [(Str.ofString "gone", none)] =
        some [Str.ofString "export PATH='/my prod/bin:/bin'", Str.ofString "unset GONE", Str.ofString "ll() { ls  -l ; }",
              Str.ofString "unset -f gone"] ∧
      (shEvalF old f0 text).map (fun r => (r.sh.env, r.funcs, r.out, r.status)) =
        some (new, [(Str.ofString "other", Str.ofString "ls"), (Str.ofString "ll", Str.ofString "ls -l")], [], 0) := by
  decide

/-- the fragment of function bodies is wider than the theorem's plain command lines: `"$@"`, `$@`, single-quoted
words and several commands are read too (and compared with dash and bash on every run); a body that closes the
brace early, an empty body, a reserved word in command position and a function called `export` are outside it -/
example :
    ((shEvalF [] [] (Str.ofString "gg() { git grep \"$@\" ; }; w() { echo $@ done; printf 'a  b' ; }")).map (·.funcs)) =
        some [(Str.ofString "gg", Str.ofString "git grep \"$@\""), (Str.ofString "w", Str.ofString "echo $@ done; printf 'a  b'")] ∧
      shEvalF [] [] (Str.ofString "ll() { ls } ; }") = none ∧ shEvalF [] [] (Str.ofString "ll() {  ; }") = none ∧
      shEvalF [] [] (Str.ofString "ll() { if ; }") = none ∧ shEvalF [] [] (Str.ofString "export() { ls ; }") = none := by
  decide

/-- **A failed request.**  When `Eups.setup` fails, `app.setup` returns the single command `false`: the shell that
evaluates it keeps its environment and its functions and reports failure to the caller (status 1). -/
theorem C05_failure_reports_false (env funcs : Env) (nl : Bool) :
    ∃ r, shEvalF env funcs (sFalse ++ (if nl then [10] else [])) = some r ∧
      r.sh.env = env ∧ r.funcs = funcs ∧ r.out = [] ∧ r.status = 1 := by
  have hfeed : feedF (startF env funcs) sFalse = some { startF env funcs with sh := mid env [] sFalse } := by
    rw [feedF_plain sFalse (startF env funcs) rfl rfl rfl (by decide)]
    have hf := feed_safe sFalse (clean env) rfl (by decide) (by decide)
    simp only [startF]
    rw [hf]
    simp [mid, clean]
  have hstep : stepF { startF env funcs with sh := mid env [] sFalse } 10 =
      some { startF env funcs with status := 1 } := by
    have h1 : (sFalse == sEcho) = false := by decide
    have h2 : (sFalse == sUnset) = false := by decide
    have h3 : (sFalse == sExport) = false := by decide
    simp [stepF, startF, mid, endWord, h1, h2, stepChar, exec, h3, clean, fnEffect]
  cases nl
  · refine ⟨{ startF env funcs with status := 1 }, ?_, rfl, rfl, rfl, rfl⟩
    simp only [shEvalF, Bool.false_eq_true, if_false, List.append_nil, hfeed, Option.bind_some]
    simpa [finishF, mid, startF] using hstep
  · refine ⟨{ startF env funcs with status := 1 }, ?_, rfl, rfl, rfl, rfl⟩
    simp only [shEvalF, if_true, feedF_append, hfeed, Option.bind_some, feedF_cons, feedF_nil, hstep]
    simp [finishF, stepF, startF, clean, endWord]

/-- the status is the last command's: a failure in the middle is not what the caller sees, a failure at the end is -/
example : (shEvalF [] [] (Str.ofString "false;\nexport A=1")).map (·.status) = some 0 ∧
    (shEvalF [] [] (Str.ofString "export A=1;\nfalse\n")).map (fun r => (r.sh.env, r.status)) =
      some ([(Str.ofString "A", Str.ofString "1")], 1) := by decide

/-! ## `setup -n` -/

/-- **`-n`: the printed text only prints.**  With `--noaction` every command is wrapped in `echo "…"`.  For every
caller's environment, function table and computed environment (names identifiers, written values over the
alphabet) the shell that evaluates the `-n` text keeps its environment and its functions, succeeds, and writes — one
per line, in order — exactly the commands of the model's command list for these options (the `SETUP_…` variables
hidden unless `-vv`). -/
theorem C05_noaction_prints (o : Opts) (ho : o.noaction = true) (hsh : o.shell = .sh) (old new funcs0 : Env) (nl : Bool)
    (hold : ∀ p ∈ old, isIdent p.1 = true) (hnew : ∀ p ∈ finalEnv o new, isIdent p.1 = true)
    (halpha : ∀ p ∈ finalEnv o new, old.get p.1 ≠ some p.2 → InAlphabet p.2) :
    ∃ cmds r, emit o (OldEnv.ofEnv old) new [] [] = some cmds ∧
      shEvalF old funcs0 (join cmds ++ (if nl then [10] else [])) = some r ∧
      r.sh.env = old ∧ r.funcs = funcs0 ∧ r.status = 0 ∧
      r.out = (emitVars o (OldEnv.ofEnv old) new).map Cmd.text := by
  have hgood := emitVarsOn_goodA o (OldEnv.ofEnv old) old (finalEnv o new) (tracks_ofEnv old) hold hnew
    (fun p hp hl => halpha p hp (by intro hg; apply hl; rw [lookup_ofEnv, hg]; rfl))
  have hcm : emitCmds o (OldEnv.ofEnv old) new [] [] = emitVars o (OldEnv.ofEnv old) new := by
    simp [emitCmds, emitAliases]
  have hrender : ∀ l : List Cmd, (∀ c ∈ l, c.GoodA) → l.mapM (render o) = some (l.map fun c => echoText c.text) := by
    intro l
    induction l with
    | nil => intro _; rfl
    | cons c r ih =>
      intro hg
      have hc : render o c = some (echoText c.text) := by
        have := hg c (by simp)
        cases c <;> simp_all [render, echoWrap, echoText, Cmd.text, Cmd.GoodA]
      simp [List.mapM_cons, hc, ih (fun d hd => hg d (by simp [hd]))]
  have hev := shEvalF_join_echo ((emitVars o (OldEnv.ofEnv old) new).map Cmd.text) nl old funcs0 [] 0
    (by
      intro t ht
      obtain ⟨c, hc, rfl⟩ := List.mem_map.mp ht
      exact good_text_echoable c (hgood c hc))
  refine ⟨(emitVars o (OldEnv.ofEnv old) new).map fun c => echoText c.text,
    cleanF old funcs0 ([] ++ (emitVars o (OldEnv.ofEnv old) new).map Cmd.text)
      (if ((emitVars o (OldEnv.ofEnv old) new).map Cmd.text).isEmpty then 0 else 0), ?_, ?_, rfl, rfl, ?_, ?_⟩
  · unfold emit; rw [hcm]; exact hrender _ hgood
  · simp only [List.map_map] at hev
    exact hev
  · show (if _ then 0 else 0) = 0
    split <;> rfl
  · show [] ++ _ = _
    simp

/-- with `-n -vv` nothing is hidden: the lines printed are exactly the commands the same request emits without `-n` -/
theorem C05_noaction_vv_same_commands (o : Opts) (hv : o.verbose2 = true) (old : OldEnv) (new : Env) :
    emitVars { o with noaction := true } old new = emitVars { o with noaction := false } old new := by
  have hh : ∀ k, hidden { o with noaction := true } k = hidden { o with noaction := false } k := by
    intro k; simp [hidden, hv]
  have hs : setCmd? { o with noaction := true } old = setCmd? { o with noaction := false } old := by
    funext p; simp only [setCmd?, hh]
  have hu : ∀ e, unsetCmd? { o with noaction := true } e = unsetCmd? { o with noaction := false } e := by
    intro e; funext p; simp only [unsetCmd?, hh]
  simp only [emitVars, emitVarsOn, hs, hu, finalEnv]

/-- Non-vacuity: `setup -n` with a value that needs quoting, a removed variable and a hidden `SETUP_` variable. -/
example :
    let old : Env := [(Str.ofString "PATH", Str.ofString "/bin"), (Str.ofString "GONE", Str.ofString "1")]
    let new : Env := [(Str.ofString "PATH", Str.ofString "/my prod/bin:/bin"), (Str.ofString "SETUP_P", Str.ofString "p 1")]
    let o : Opts := { noaction := true }
    emit o (OldEnv.ofEnv old) new [] [] =
        some [Str.ofString "echo \"export PATH='/my prod/bin:/bin'\"", Str.ofString "echo \"unset GONE\""] ∧
      (shEvalF old [] (Str.ofString "echo \"export PATH='/my prod/bin:/bin'\";\necho \"unset GONE\"\n")).map
          (fun r => (r.sh.env, r.out, r.status)) =
        some (old, [Str.ofString "export PATH='/my prod/bin:/bin'", Str.ofString "unset GONE"], 0) := by
  decide

/-! ## the csh dialect (text level; spec from the manual, no csh binary) -/

/-- **csh reads back what the emitter wrote, word by word.**  For every value over the alphabet that holds no newline:
the word the emitter writes after `setenv NAME ` (single-quoted iff it holds a blank or one of `< > | & ; ( )`) is read
by csh as exactly that value. -/
theorem C05_csh_word_roundtrip (v : Str) (hv : InAlphabet v) (hnl : ∀ c ∈ v, c ≠ 10) : cshWord (emitVal v) = some v := by
  rcases emitVal_alpha hv with h | ⟨h, hsafe⟩
  · rw [h]
    have hrev : (v ++ [39]).reverse = 39 :: v.reverse := by simp
    have hall : (v.all fun c => c != 39 && c != 10 && c != 33) = true := by
      apply List.all_eq_true.mpr
      intro c hc
      have h39 := alpha_no_sq hv c hc
      have h10 := hnl c hc
      have h33 : c ≠ 33 := by
        rcases hv c hc with h1 | h1
        · simp only [isSafe, Str.isAlnum, Str.isAlpha, Str.isUpper, Str.isLower, Str.isDigit, Bool.or_eq_true,
            Bool.and_eq_true, decide_eq_true_eq, beq_iff_eq] at h1
          omega
        · simp only [isShMeta, Bool.or_eq_true, beq_iff_eq] at h1
          omega
      simp [h39, h10, h33]
    simp [cshWord, hrev, hall]
  · rw [h]
    cases v with
    | nil => rfl
    | cons c r =>
      have hc : c ≠ 39 := (safe_facts (hsafe c (by simp))).1
      have hall : ((c :: r).all isSafe) = true := List.all_eq_true.mpr hsafe
      simp only [cshWord]
      split
      · rename_i heq; cases heq
      · rename_i heq; cases heq; exact absurd rfl hc
      · simp [hall]

/-- **The whole csh command list** (`setenv` for every changed or new variable, `unsetenv` for every removed one) takes
the caller's environment to the computed one, as csh reads it — for written values over the alphabet without a
newline.  (Same command list as for sh: only the rendering differs.) -/
theorem C05_csh_roundtrip (old new : Env)
    (hold : ∀ p ∈ old, isIdent p.1 = true) (hnew : ∀ p ∈ new, isIdent p.1 = true)
    (hdict : (new.map (·.1)).Nodup)
    (halpha : ∀ p ∈ new, old.get p.1 ≠ some p.2 → InAlphabet p.2 ∧ ∀ c ∈ p.2, c ≠ 10)
    (hprot : ∀ k, isProtected k = true → old.has k = true → new.has k = true) :
    ∃ e, cshApplyAll (emitVarsOn { shell := .csh } (OldEnv.ofEnv old) new) old = some e ∧ SameEnv e new := by
  have hsame : emitVarsOn { shell := .csh } (OldEnv.ofEnv old) new = emitVarsOn {} (OldEnv.ofEnv old) new := by
    have h1 : setCmd? { shell := .csh } (OldEnv.ofEnv old) = setCmd? {} (OldEnv.ofEnv old) := by
      funext p; simp [setCmd?, hidden]
    have h2 : unsetCmd? { shell := .csh } new = unsetCmd? {} new := by
      funext p; simp [unsetCmd?, hidden]
    simp only [emitVarsOn, h1, h2]
  rw [hsame]
  have hgood : ∀ c ∈ emitVarsOn {} (OldEnv.ofEnv old) new, ∀ e, cshApply e c = some (c.apply e) := by
    intro c hc e
    simp only [emitVarsOn, List.mem_append, List.mem_filterMap] at hc
    rcases hc with ⟨p, hp, hpc⟩ | ⟨p, hp, hpc⟩
    · simp only [setCmd?] at hpc
      split at hpc; · cases hpc
      rename_i hl
      split at hpc; · cases hpc
      cases hpc
      have ha := halpha p hp (by
        intro hg; apply hl; rw [lookup_ofEnv, hg]; simp)
      simp [cshApply, hnew p hp, C05_csh_word_roundtrip p.2 ha.1 ha.2, Cmd.apply]
    · simp only [unsetCmd?] at hpc
      split at hpc; · cases hpc
      split at hpc; · cases hpc
      split at hpc; · cases hpc
      cases hpc
      have : p.1 ∈ old.map (·.1) := by
        have := (tracks_ofEnv old).1
        rw [← this]; exact List.mem_map.mpr ⟨p, hp, rfl⟩
      obtain ⟨q, hq, hqk⟩ := List.mem_map.mp this
      have hid : isIdent p.1 = true := by rw [← hqk]; exact hold q hq
      simp [cshApply, hid, Cmd.apply]
  have hfold : ∀ (l : List Cmd) (e : Env), (∀ c ∈ l, ∀ e, cshApply e c = some (c.apply e)) →
      cshApplyAll l e = some (applyAll l e) := by
    intro l
    induction l with
    | nil => intro e _; rfl
    | cons c r ih =>
      intro e h
      simp only [cshApplyAll, List.foldlM_cons, h c (by simp) e, Option.bind_eq_bind, Option.bind_some, applyAll_cons]
      exact ih _ (fun d hd => h d (by simp [hd]))
  exact ⟨_, hfold _ old hgood, emitVars_apply (OldEnv.ofEnv old) old new (tracks_ofEnv old) hdict hprot⟩

/-- **csh cannot take a newline inside a quoted word (witness against the emission, per the manual):** for the value
`a b<newline>c` the emitter writes the same quoted word as for sh; sh reads it back, csh does not. -/
theorem C05_csh_newline_witness :
    let v := Str.ofString "a b\nc"
    emitVal v = Str.ofString "'a b\nc'" ∧ cshWord (emitVal v) = none ∧
      shEval [] (Str.ofString "export K=" ++ emitVal v) = some [(Str.ofString "K", v)] := by
  decide

/-- Non-vacuity: a path with a blank and parentheses, an empty value, a removed variable, through csh's eyes. -/
example :
    let old : Env := [(Str.ofString "PATH", Str.ofString "/bin"), (Str.ofString "GONE", Str.ofString "1")]
    let new : Env := [(Str.ofString "PATH", Str.ofString "/my prod (v1)/bin:/bin"), (Str.ofString "E", [])]
    emit { shell := .csh } (OldEnv.ofEnv old) new [] [] =
        some [Str.ofString "setenv PATH '/my prod (v1)/bin:/bin'", Str.ofString "setenv E ", Str.ofString "unsetenv GONE"] ∧
      cshApplyAll (emitVarsOn { shell := .csh } (OldEnv.ofEnv old) new) old = some new := by
  decide

/-! ## the command line (`setupcmd.EupsSetup.run` behind `bin/eups_setup`) -/

/-- **What the wrapper can print.**  Whatever the options, the file system facts and the outcome of the inner
`try`: a run that ends with a non-zero status has printed nothing at all or the single line `false`; a run that ends
with status 0 has printed nothing (`-h`, `-V`) or exactly the command list `eups.setup` returned, joined by `";\n"`,
with the newline `print` adds — so the round-trip theorems above are about the text the shell really receives. -/
theorem C05_cli_outcomes (c : Cli) (w : CliWorld) (inner : Inner) :
    ((runCli c w inner).status ≠ 0 →
        (runCli c w inner).stdout = none ∨ (runCli c w inner).stdout = some (sFalse ++ [10])) ∧
      ((runCli c w inner).status = 0 →
        (runCli c w inner).stdout = none ∨
          ∃ cmds, inner = .returned cmds ∧ (runCli c w inner).stdout = some (join cmds ++ [10])) := by
  have hearly : ∀ r, cliEarly c w = some r →
      (r.status = 0 ∧ r.stdout = none) ∨ (r.status ≠ 0 ∧ (r.stdout = none ∨ r.stdout = some (sFalse ++ [10]))) := by
    intro r hr
    unfold cliEarly at hr
    repeat' split at hr
    all_goals first
      | (cases hr; simp [cliFailed])
      | cases hr
  unfold runCli
  cases he : cliEarly c w with
  | some r =>
    rcases hearly r he with ⟨h0, hn⟩ | ⟨h1, hs⟩
    · exact ⟨fun h => absurd h0 h, fun _ => Or.inl hn⟩
    · exact ⟨fun _ => hs, fun h => absurd h h1⟩
  | none =>
    simp only
    cases inner with
    | eupsException => simp [cliInner, cliFailed]
    | otherException => simp [cliInner, cliFailed]
    | returned cmds =>
      simp only [cliInner]
      split <;> simp

/-- **A failed command line leaves the caller's shell untouched.**  For every option combination and every way the
request can fail (usage errors, a missing table file, an undeclared version, `--just` with `--max-depth`, an
exception of any kind): evaluating what was printed changes neither the environment nor the functions, and when
something was printed at all the caller sees a failure. -/
theorem C05_cli_failure_untouched (c : Cli) (w : CliWorld) (inner : Inner) (env funcs : Env)
    (hfail : (runCli c w inner).status ≠ 0) :
    ∃ r, shEvalF env funcs ((runCli c w inner).stdout.getD []) = some r ∧ r.sh.env = env ∧ r.funcs = funcs ∧
      ((runCli c w inner).stdout ≠ none → r.status = 1) := by
  rcases (C05_cli_outcomes c w inner).1 hfail with h | h
  · refine ⟨startF env funcs, ?_, rfl, rfl, fun hn => absurd h hn⟩
    simp [h, shEvalF, feedF_nil, finishF, startF, stepF, clean, endWord]
  · obtain ⟨r, hr, h1, h2, _, h4⟩ := C05_failure_reports_false env funcs true
    refine ⟨r, ?_, h1, h2, fun _ => h4⟩
    simpa [h] using hr

/-- Non-vacuity: the exits of `execute`, one each — `-l`; a missing table file; no product; `-r` on a directory
whose table files do not include the product asked for (the wrapper prints `false`, status 4); `-j -S 2`;
`-r DIR PRODUCT VERSION` with an undeclared version; an `EupsException`; a successful run. -/
example :
    let p : Str := Str.ofString "p0"
    (runCli { list := true, args := [p] } {} (.returned [])) = ⟨none, 2⟩ ∧
    (runCli { tablefile := some (Str.ofString "/x/p0.table"), args := [p] } {} (.returned [])) = ⟨none, 3⟩ ∧
    (runCli {} {} (.returned [])) = ⟨none, 3⟩ ∧
    (runCli { productDir := some (Str.ofString "/d"), args := [Str.ofString "other"] }
        { upsIsDir := true, tables := [p] } (.returned [])) = ⟨some (Str.ofString "false\n"), 4⟩ ∧
    (runCli { nodepend := true, maxDepth := 2, args := [p] } {} (.returned [])) = ⟨none, 3⟩ ∧
    (runCli { productDir := some (Str.ofString "/d"), args := [p, Str.ofString "9.9"] }
        { upsIsDir := true, tables := [p] } (.returned [])) = ⟨none, 3⟩ ∧
    (runCli { args := [p] } {} .eupsException) = ⟨some (Str.ofString "false\n"), 1⟩ ∧
    (runCli { tablefile := some (Str.ofString "/d/ups/p0.table") } { tablefileExists := true }
        (.returned [Str.ofString "export A=1", Str.ofString "unset B"])) = ⟨some (Str.ofString "export A=1;\nunset B\n"), 0⟩ ∧
    stem (basename (Str.ofString "/d/ups/p0.v1.table")) = Str.ofString "p0.v1" := by
  decide

end EupsModel.C05
