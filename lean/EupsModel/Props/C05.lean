import EupsModel.Lemmas.ShellEmit
/-! C05 — emitted shell commands reproduce the computed environment when sourced.  Property theorems only
(model: `Model/ShellEmit.lean`, helper lemmas: `Lemmas/ShellEmit.lean`).

Reading: `shEval base text` is what an sh-family shell started with the environment `base` exports after it has
evaluated `text` (`none`: the text is outside the modelled fragment).  `emitText old new` is the text
`";\n".join(cmds)` that `eups.app.setup` prints for `oldEnviron = old` and `os.environ = new` (sh dialect, no `-n`,
no aliases).  `SameEnv a b`: equal as maps, i.e. every changed or new variable has its exact new value, every
removed variable is gone and nothing else changed. -/
namespace EupsModel.C05
open EupsModel EupsModel.ShellEmit

/-- **C05, full clause.**  For every caller's environment `old` and every computed environment `new` — names
identifiers, the values eups has to write drawn from the claimed alphabet, none of the four `EUPS_*` variables the
code refuses to unset disappearing — the shell that evaluates the emitted text ends with exactly `new`.  Nothing is
assumed about the values of `old` or about unchanged values of `new`. -/
theorem C05_roundtrip (old new : Env)
    (hold : ∀ p ∈ old, isIdent p.1 = true) (hnew : ∀ p ∈ new, isIdent p.1 = true)
    (hdict : (new.map (·.1)).Nodup)
    (halpha : ∀ p ∈ new, old.get p.1 ≠ some p.2 → InAlphabet p.2)
    (hprot : ∀ k, isProtected k = true → old.has k = true → new.has k = true) :
    ∃ e, shEval old (emitText (OldEnv.ofEnv old) new) = some e ∧ SameEnv e new := by
  have := roundtrip_tracks (OldEnv.ofEnv old) old new (tracks_ofEnv old) hold hnew hdict
    (fun p hp hl => halpha p hp (by
      intro hg; apply hl; rw [lookup_ofEnv, hg]; rfl)) hprot false
  simpa using this

/-- the same for the text as `print` writes it (with the final newline) -/
theorem C05_roundtrip_printed (old new : Env)
    (hold : ∀ p ∈ old, isIdent p.1 = true) (hnew : ∀ p ∈ new, isIdent p.1 = true)
    (hdict : (new.map (·.1)).Nodup)
    (halpha : ∀ p ∈ new, old.get p.1 ≠ some p.2 → InAlphabet p.2)
    (hprot : ∀ k, isProtected k = true → old.has k = true → new.has k = true) :
    ∃ e, shEval old (emitText (OldEnv.ofEnv old) new ++ [10]) = some e ∧ SameEnv e new := by
  have := roundtrip_tracks (OldEnv.ofEnv old) old new (tracks_ofEnv old) hold hnew hdict
    (fun p hp hl => halpha p hp (by
      intro hg; apply hl; rw [lookup_ofEnv, hg]; rfl)) hprot true
  simpa using this

/-- Non-vacuity: a caller's environment with a value outside the alphabet that stays, a removed variable, a changed
path with a blank and parentheses, a new empty variable, a new value with `;` and a newline. -/
example :
    let old : Env := [(Str.ofString "KEEP", Str.ofString "it's"), (Str.ofString "GONE", Str.ofString "1"),
                      (Str.ofString "PATH", Str.ofString "/bin")]
    let new : Env := [(Str.ofString "KEEP", Str.ofString "it's"), (Str.ofString "PATH", Str.ofString "/my prod (v1)/bin:/bin"),
                      (Str.ofString "E", []), (Str.ofString "X", Str.ofString "a;b\nc")]
    emitText (OldEnv.ofEnv old) new =
        Str.ofString "export PATH='/my prod (v1)/bin:/bin';\nexport E=;\nexport X='a;b\nc';\nunset GONE" ∧
      shEval old (emitText (OldEnv.ofEnv old) new) =
        some [(Str.ofString "KEEP", Str.ofString "it's"), (Str.ofString "PATH", Str.ofString "/my prod (v1)/bin:/bin"),
              (Str.ofString "E", []), (Str.ofString "X", Str.ofString "a;b\nc")] := by
  decide

/-- **`--force`, repaired tree (D9).**  After any sequence of table actions (`envSet`, `envPrepend`/`envAppend`,
`envUnset`, each in its own direction, with or without `--force`) started from the caller's environment `base`,
the emitted text evaluated *from `base`* yields the computed environment. -/
theorem C05_force_roundtrip (acts : List Act) (base : Env)
    (hbase : ∀ p ∈ base, isIdent p.1 = true)
    (hnew : ∀ p ∈ (runActs false acts base).cur, isIdent p.1 = true)
    (hdict : ((runActs false acts base).cur.map (·.1)).Nodup)
    (halpha : ∀ p ∈ (runActs false acts base).cur,
      (runActs false acts base).old.lookup p.1 ≠ some (some p.2) → InAlphabet p.2)
    (hprot : ∀ k, isProtected k = true → base.has k = true → (runActs false acts base).cur.has k = true) :
    ∃ e, shEval base (emitText (runActs false acts base).old (runActs false acts base).cur) = some e ∧
      SameEnv e (runActs false acts base).cur := by
  have := roundtrip_tracks _ base _ (tracks_runActs acts base) hbase hnew hdict halpha hprot false
  simpa using this

/-- Non-vacuity and the repaired behaviour on the D9 input: `unsetup --force` of a product that `envSet`s `A`. -/
example :
    let base : Env := [([65], [49])]
    let s := runActs false [Act.envSet true false [65] [49]] base
    s.cur = [] ∧ emitText s.old s.cur = Str.ofString "unset A" ∧ shEval base (emitText s.old s.cur) = some [] := by
  decide

/-- **D9, pinned tree (negation witness).**  With the pinned `execute_envSet` (`del oldEnviron[key]` in both
directions) `unsetup --force` emits nothing for the variable it removed: the shell keeps `A`. -/
theorem C05_force_unsetup_pinned_witness :
    let base : Env := [([65], [49])]
    let s := runActs true [Act.envSet true false [65] [49]] base
    s.cur = [] ∧ emitText s.old s.cur = [] ∧ shEval base (emitText s.old s.cur) = some base := by
  decide

/-- **The quoting condition is necessary.**  Text without a single quote never gives a variable a value that
contains one of the metacharacters: whatever an emitter writes unquoted, the shell does not read such a value
back. -/
theorem C05_unquoted_never_meta (env : Env) (text k v : Str)
    (hq : ∀ c ∈ text, c ≠ 39) (hm : v.any isShMeta = true) (h0 : env.get k ≠ some v) :
    ∀ e, shEval env text = some e → e.get k ≠ some v :=
  unquoted_never_meta k v hm env text hq h0

/-- In particular `export K=V` with an unquoted `V` over the alphabet that contains a metacharacter does not set
`K` to `V` (it sets something else, or is outside the fragment). -/
theorem C05_quote_needed (env : Env) (k v : Str) (hk : isIdent k = true) (hv : InAlphabet v)
    (hm : v.any isShMeta = true) (h0 : env.get k ≠ some v) :
    ∀ e, shEval env (sExport ++ [32] ++ k ++ [61] ++ v) = some e → e.get k ≠ some v := by
  apply unquoted_never_meta k v hm env _ _ h0
  intro c hc
  simp only [List.mem_append, List.mem_singleton] at hc
  rcases hc with ((((hc | hc) | hc) | hc) | hc)
  · revert c; decide
  · omega
  · exact (safe_facts (ident_safe hk c hc)).1
  · omega
  · exact alpha_no_sq hv c hc

/-- Non-vacuity of `C05_quote_needed`, and what actually happens: `export K=a b` sets `K=a`. -/
example : shEval [] (Str.ofString "export K=a b") = some [(Str.ofString "K", Str.ofString "a")] := by decide
example : shEval [] (Str.ofString "export K=a;b") = none := by decide
example : emitVal (Str.ofString "a b") = Str.ofString "'a b'" := by decide

/-- The emitter writes nothing for a variable whose value is unchanged, whatever that value is. -/
theorem C05_unchanged_not_written (old : OldEnv) (k v : Str) (h : old.lookup k = some (some v)) :
    setCmd? {} old (k, v) = none := by
  simp [setCmd?, h]

/-- **Removed aliases do not disturb the environment (repaired D27).**  The complete command list of an alias-free
new state — exports, unsets, and an `unset -f NAME` for every alias that went away — evaluated from `old` yields
exactly `new`, even when an alias shares its name with a variable. -/
theorem C05_roundtrip_alias_removal (old new : Env) (oldAliases : List (Str × Option Str))
    (hold : ∀ p ∈ old, isIdent p.1 = true) (hnew : ∀ p ∈ new, isIdent p.1 = true)
    (hdict : (new.map (·.1)).Nodup)
    (halpha : ∀ p ∈ new, old.get p.1 ≠ some p.2 → InAlphabet p.2)
    (hprot : ∀ k, isProtected k = true → old.has k = true → new.has k = true)
    (hal : ∀ p ∈ oldAliases, isIdent p.1 = true) :
    ∃ cmds e, emit {} (OldEnv.ofEnv old) new [] oldAliases = some cmds ∧
      shEval old (join cmds) = some e ∧ SameEnv e new := by
  have hgoodv := emitVars_good (OldEnv.ofEnv old) old new (tracks_ofEnv old) hold hnew
    (fun p hp hl => halpha p hp (by intro hg; apply hl; rw [lookup_ofEnv, hg]; rfl))
  have hcm : emitCmds {} (OldEnv.ofEnv old) new [] oldAliases =
      emitVarsOn {} (OldEnv.ofEnv old) new ++ oldAliases.map (fun p => Cmd.aliasDel p.1) := by
    simp [emitCmds, emitVars, finalEnv, emitAliases_nil]
  have hgood : ∀ c ∈ emitCmds {} (OldEnv.ofEnv old) new [] oldAliases, c.Good := by
    intro c hc
    rw [hcm] at hc
    rcases List.mem_append.mp hc with h | h
    · exact hgoodv c h
    · obtain ⟨p, hp, rfl⟩ := List.mem_map.mp h
      exact hal p hp
  refine ⟨(emitCmds {} (OldEnv.ofEnv old) new [] oldAliases).map Cmd.text,
    applyAll (emitCmds {} (OldEnv.ofEnv old) new [] oldAliases) old, ?_, ?_, ?_⟩
  · unfold emit; exact mapM_render_default _
  · have := shEval_join _ hgood false old
    simpa using this
  · rw [hcm, applyAll_append, applyAll_aliasDels]
    exact emitVars_apply (OldEnv.ofEnv old) old new (tracks_ofEnv old) hdict hprot

/-- **D27, pinned tree (negation witness):** the pinned emission `unset ll` for a removed alias `ll` removes the
*variable* `ll`; the repaired `unset -f ll` leaves the environment alone. -/
theorem C05_alias_removal_pinned_witness :
    let env : Env := [(Str.ofString "ll", Str.ofString "x")]
    shEval env (Str.ofString "unset ll") = some [] ∧ shEval env (Str.ofString "unset -f ll") = some env ∧
      emit {} (OldEnv.ofEnv env) env [] [(Str.ofString "ll", none)] = some [Str.ofString "unset -f ll"] := by
  decide

/-- **`unsetup eups` (repaired D23).**  When eups itself is unset up, `app.setup` drops `EUPS_PATH`, `EUPS_PKGROOT`
and `EUPS_SHELL` from the environment `new` that `Eups.setup` left (`finalEnv`), and no variable is protected.  The
commands evaluated from the caller's environment yield exactly that final environment: in particular each of the
three variables the caller had is unset, whether `Eups.setup` kept, changed or had already removed it. -/
theorem C05_roundtrip_unsetup_eups (old new : Env)
    (hold : ∀ p ∈ old, isIdent p.1 = true) (hnew : ∀ p ∈ finalEnv unsetupEups new, isIdent p.1 = true)
    (hdict : ((finalEnv unsetupEups new).map (·.1)).Nodup)
    (halpha : ∀ p ∈ finalEnv unsetupEups new, old.get p.1 ≠ some p.2 → InAlphabet p.2) :
    ∃ cmds e, emit unsetupEups (OldEnv.ofEnv old) new [] [] = some cmds ∧
      shEval old (join cmds) = some e ∧ SameEnv e (finalEnv unsetupEups new) := by
  have hgood := emitVarsOn_good unsetupEups (OldEnv.ofEnv old) old (finalEnv unsetupEups new) (tracks_ofEnv old)
    hold hnew (fun p hp hl => halpha p hp (by intro hg; apply hl; rw [lookup_ofEnv, hg]; rfl))
  have hcm : emitCmds unsetupEups (OldEnv.ofEnv old) new [] [] =
      emitVarsOn unsetupEups (OldEnv.ofEnv old) (finalEnv unsetupEups new) := by
    simp [emitCmds, emitVars, emitAliases]
  refine ⟨(emitCmds unsetupEups (OldEnv.ofEnv old) new [] []).map Cmd.text,
    applyAll (emitCmds unsetupEups (OldEnv.ofEnv old) new [] []) old, ?_, ?_, ?_⟩
  · unfold emit; exact mapM_render_unsetupEups _
  · have hg' : ∀ c ∈ emitCmds unsetupEups (OldEnv.ofEnv old) new [] [], c.Good := by rw [hcm]; exact hgood
    have := shEval_join (emitCmds unsetupEups (OldEnv.ofEnv old) new [] []) hg' false old
    simpa using this
  · rw [hcm]
    exact emitVarsOn_apply unsetupEups rfl (OldEnv.ofEnv old) old _ (tracks_ofEnv old) hdict (Or.inl rfl)

/-- the final environment of `unsetup eups` never holds one of the three variables -/
theorem C05_unsetup_eups_drops (new : Env) :
    (finalEnv unsetupEups new).has sEUPS_PATH = false ∧ (finalEnv unsetupEups new).has sEUPS_PKGROOT = false ∧
      (finalEnv unsetupEups new).has sEUPS_SHELL = false := by
  have h1 : sEUPS_PATH ≠ sEUPS_PKGROOT := by decide
  have h2 : sEUPS_PATH ≠ sEUPS_SHELL := by decide
  have h3 : sEUPS_PKGROOT ≠ sEUPS_SHELL := by decide
  simp [finalEnv, unsetupEups, Env.has, Env.get_unset_same, Env.get_unset_other _ _ _ h1, Env.get_unset_other _ _ _ h2,
    Env.get_unset_other _ _ _ h3]

/-- Non-vacuity and the behaviours on the scenario `setup eups; unsetup eups` with the three variables in the
caller's environment: the repaired order unsets all three; with the block between the two loops (pinned, D23) a
variable created during the unsetup is exported and stays; with the block below both loops nothing is unset. -/
example :
    let old : Env := [(sEUPS_PATH, Str.ofString "/s"), (sEUPS_SHELL, Str.ofString "sh"), (Str.ofString "K", Str.ofString "k k")]
    emit unsetupEups (OldEnv.ofEnv old) old [] [] =
        some [Str.ofString "unset EUPS_PATH", Str.ofString "unset EUPS_SHELL"] ∧
      shEval old (Str.ofString "unset EUPS_PATH;\nunset EUPS_SHELL") = some [(Str.ofString "K", Str.ofString "k k")] ∧
      finalEnv unsetupEups old = [(Str.ofString "K", Str.ofString "k k")] ∧
      -- the block below both loops: both loops see `old` unchanged and print nothing
      (emitVarsOn unsetupEups (OldEnv.ofEnv old) old).map Cmd.text = [] := by
  decide

/-! ## the protected names are an exact-match set -/

/-- `^EUPS_(DIR|PATH|PKGROOT|SHELL)$`: the four names themselves, or one of them followed by a final newline (Python's
`$`), and nothing else -/
theorem C05_protected_iff (k : Str) :
    isProtected k = true ↔
      k ∈ [sEUPS_DIR, sEUPS_PATH, sEUPS_PKGROOT, sEUPS_SHELL] ∨
      k ∈ [sEUPS_DIR ++ [10], sEUPS_PATH ++ [10], sEUPS_PKGROOT ++ [10], sEUPS_SHELL ++ [10]] := by
  simp only [isProtected, List.any_cons, List.any_nil, Bool.or_false, Bool.or_eq_true, beq_iff_eq, List.mem_cons,
    List.not_mem_nil, or_false]
  constructor
  · rintro ((h | h) | (h | h) | (h | h) | (h | h)) <;> simp [h]
  · rintro ((h | h | h | h) | (h | h | h | h)) <;> simp [h]

/-- **For identifiers the protected set is exactly the four names**: a name that merely starts with, ends with or
contains one of them is not protected. -/
theorem C05_protected_exact (k : Str) (hk : isIdent k = true) :
    isProtected k = true ↔ k = sEUPS_DIR ∨ k = sEUPS_PATH ∨ k = sEUPS_PKGROOT ∨ k = sEUPS_SHELL := by
  rw [C05_protected_iff]
  constructor
  · rintro (h | h)
    · simpa using h
    · exfalso
      have hs := ident_safe hk
      simp only [List.mem_cons, List.not_mem_nil, or_false] at h
      have h10 : (10 : Nat) ∈ k := by rcases h with h | h | h | h <;> (rw [h]; simp)
      have := hs 10 h10
      revert this; decide
  · intro h; left; simpa using h

/-- a variable of the caller's environment that is not one of the four names and has disappeared is unset -/
theorem C05_unprotected_is_unset (new : Env) (k : Str) (v : Option Str) (hp : isProtected k = false)
    (hgone : new.has k = false) : unsetCmd? {} new (k, v) = some (Cmd.unsetVar k) := by
  simp [unsetCmd?, hp, hgone, hidden]

/-- near misses of the protected names (the variables of products `eups_shelltools`, `eups_path`, saved copies, ...)
are not protected; the four names are -/
example :
    (["EUPS_PATH_SAVED", "EUPS_PKGROOT_MIRROR", "EUPS_DIR_EXTRA", "EUPS_SHELLTOOLS_DIR", "SETUP_EUPS_SHELLTOOLS",
      "MY_EUPS_PATH", "EUPS_DIRS", "EUPS_PAT", "EUPS_", "eups_path", "EUPS_PATH_DIR", "XEUPS_SHELL"].map
        fun n => isProtected (Str.ofString n)) = List.replicate 12 false ∧
      (["EUPS_DIR", "EUPS_PATH", "EUPS_PKGROOT", "EUPS_SHELL"].map fun n => isProtected (Str.ofString n)) =
        List.replicate 4 true := by
  decide

/-- on the witness of the corpus: every near miss that disappeared is unset, the protected `EUPS_PKGROOT` is not -/
example :
    let old : Env := [(Str.ofString "EUPS_PATH", [47]), (Str.ofString "EUPS_PATH_SAVED", [47]),
                      (Str.ofString "EUPS_SHELLTOOLS_DIR", [47]), (Str.ofString "EUPS_PKGROOT", [47])]
    emit {} (OldEnv.ofEnv old) [(Str.ofString "EUPS_PATH", [47])] [] [] =
      some [Str.ofString "unset EUPS_PATH_SAVED", Str.ofString "unset EUPS_SHELLTOOLS_DIR"] := by
  decide

end EupsModel.C05
