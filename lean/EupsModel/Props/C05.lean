/-! C05 — property theorems (placeholder until the model exists). -/
